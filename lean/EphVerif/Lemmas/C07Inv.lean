import EphVerif.Lemmas.C07Bits

/-!
Invariant of the routing table (C07) over all histories: per-bucket facts preserved by
`upsert_bucket` / `sweep_buckets`, their lift to the table, and the bridge to the
specification's `Shape` / `Newest` / `JustRegistered` / `SweepKeeps` predicates.
-/
namespace EphVerif.C07L
open EphVerif.Routing EphVerif.C07Spec

/-! ### bucket index: generic facts (no assumption on the ids) -/

theorem scan_self (a : List Nat) (lz : Nat) : (scan a a lz).2 = true := by
  induction a generalizing lz with
  | nil => simp [scan]
  | cons x xs ih => simp [scan, Nat.xor_self, ih]

theorem bucketIndexFor_self (a : List Nat) : bucketIndexFor a a = none := by
  simp [bucketIndexFor, scan_self]

theorem bucketIndexFor_lt {self peer : List Nat} {i : Nat} (h : bucketIndexFor self peer = some i) : i < kIdBits := by
  unfold bucketIndexFor at h
  dsimp only at h
  split at h
  · cases h
  · rename_i hc
    simp only [Bool.or_eq_true, decide_eq_true_eq, not_or] at hc
    cases h; omega

/-! ### one bucket -/

/-- what `upsert_bucket` maintains for bucket `i` -/
structure BInv (own : Id) (i : Nat) (b : List Contact) : Prop where
  place : ∀ c ∈ b, bucketIndexFor own c.id = some i
  cap : b.length ≤ kBucketSize
  nodup : b.Pairwise (fun a b => a.id ≠ b.id)

theorem BInv.nil (self : Id) (i : Nat) : BInv self i [] :=
  ⟨by simp, by simp, List.Pairwise.nil⟩

theorem BInv.filter {self : Id} {i : Nat} {b : List Contact} (h : BInv self i b) (p : Contact → Bool) :
    BInv self i (b.filter p) :=
  ⟨fun c hc => h.place c (List.mem_filter.1 hc).1,
   Nat.le_trans (List.length_filter_le _ _) h.cap,
   h.nodup.filter p⟩

/-- once the first entry with id `k` is erased from a bucket with distinct ids, none is left -/
theorem not_mem_eraseP_id {l : List Contact} (hp : l.Pairwise (fun a b => a.id ≠ b.id)) (k : Id) :
    ∀ x ∈ l.eraseP (fun e => e.id == k), x.id ≠ k := by
  induction l with
  | nil => simp
  | cons y ys ih =>
    rw [List.pairwise_cons] at hp
    intro x hx
    rw [List.eraseP_cons] at hx
    by_cases hy : y.id = k
    · simp only [hy, beq_self_eq_true, cond_true] at hx
      have := hp.1 x hx
      rw [hy] at this
      exact fun h => this h.symm
    · have : (y.id == k) = false := by simpa using hy
      simp only [this, cond_false, List.mem_cons] at hx
      rcases hx with rfl | hx
      · exact hy
      · exact ih hp.2 x hx

theorem length_eraseP_of_mem' {l : List Contact} {p : Contact → Bool} {e : Contact} (he : e ∈ l) (hp : p e = true) :
    (l.eraseP p).length + 1 = l.length := by
  have hany : l.any p = true := List.any_eq_true.2 ⟨e, he, hp⟩
  have hpos : 0 < l.length := List.length_pos_of_mem he
  rw [List.length_eraseP, hany]; simp; omega

/-- every entry of the bucket after `upsert_bucket` is the registered contact (with the new
    address and expiry) or an old, unexpired entry with a different id -/
theorem mem_upsertList {now : Int} {c : Contact} {b : List Contact} (hp : b.Pairwise (fun a b => a.id ≠ b.id))
    {x : Contact} (hx : x ∈ upsertList now c b) :
    (x.id = c.id ∧ x.addr = c.addr ∧ x.exp = c.exp) ∨ (x ∈ b ∧ x.id ≠ c.id ∧ live now x = true) := by
  unfold upsertList at hx
  simp only at hx
  split at hx
  · rename_i e he
    have hpe := List.find?_some he
    simp only [beq_iff_eq] at hpe
    rw [List.mem_append, List.mem_singleton] at hx
    rcases hx with hx | rfl
    · right
      have hmem := List.mem_of_mem_eraseP hx
      have hf := List.mem_filter.1 hmem
      exact ⟨hf.1, not_mem_eraseP_id (hp.filter _) c.id x hx, hf.2⟩
    · left; exact ⟨hpe, rfl, rfl⟩
  · rename_i hn
    rw [List.find?_eq_none] at hn
    rw [List.mem_append, List.mem_singleton] at hx
    rcases hx with hx | rfl
    · right
      have hmem : x ∈ b.filter (live now) := by
        split at hx
        · exact List.mem_of_mem_drop hx
        · exact hx
      have hf := List.mem_filter.1 hmem
      exact ⟨hf.1, by simpa using hn x hmem, hf.2⟩
    · left; exact ⟨rfl, rfl, rfl⟩

/-- the registered contact is in the bucket afterwards, with the new address and expiry -/
theorem upsertList_has (now : Int) (c : Contact) (b : List Contact) :
    (⟨c.id, c.addr, c.exp⟩ : Contact) ∈ upsertList now c b := by
  unfold upsertList
  simp only
  split
  · rename_i e he
    have hpe := List.find?_some he
    simp only [beq_iff_eq] at hpe
    rw [List.mem_append, List.mem_singleton]
    right; rw [← hpe]
  · rw [List.mem_append, List.mem_singleton]; right; rfl

theorem kBucketSize_pos : 0 < kBucketSize := by decide

theorem BInv.upsert {self : Id} {i : Nat} {b : List Contact} (h : BInv self i b) (now : Int) (c : Contact)
    (hc : bucketIndexFor self c.id = some i) : BInv self i (upsertList now c b) := by
  refine ⟨?_, ?_, ?_⟩
  · intro x hx
    rcases mem_upsertList h.nodup hx with ⟨hid, _, _⟩ | ⟨hb, _, _⟩
    · rw [hid]; exact hc
    · exact h.place x hb
  · have hf := h.filter (live now)
    unfold upsertList
    simp only
    split
    · rename_i e he
      have hpe := List.find?_some he
      have hmem := List.mem_of_find?_eq_some he
      rw [List.length_append, List.length_singleton, length_eraseP_of_mem' hmem hpe]
      exact hf.cap
    · rw [List.length_append, List.length_singleton]
      have := hf.cap
      have hpos := kBucketSize_pos
      split
      · rw [List.length_drop]; omega
      · omega
  · have hf := h.filter (live now)
    unfold upsertList
    simp only
    split
    · rename_i e he
      have hpe := List.find?_some he
      simp only [beq_iff_eq] at hpe
      rw [List.pairwise_append]
      refine ⟨hf.nodup.sublist List.eraseP_sublist, List.pairwise_singleton _ _, ?_⟩
      intro a ha d hd
      rw [List.mem_singleton] at hd
      subst hd
      simp only [hpe]
      exact not_mem_eraseP_id hf.nodup c.id a ha
    · rename_i hn
      rw [List.find?_eq_none] at hn
      rw [List.pairwise_append]
      refine ⟨?_, List.pairwise_singleton _ _, ?_⟩
      · split
        · exact hf.nodup.sublist (List.drop_sublist _ _)
        · exact hf.nodup
      · intro a ha d hd
        rw [List.mem_singleton] at hd
        subst hd
        have hmem : a ∈ b.filter (live now) := by
          split at ha
          · exact List.mem_of_mem_drop ha
          · exact ha
        simpa using hn a hmem

/-! ### the table -/

/-- invariant of the routing table -/
def Inv (t : Table) : Prop := ∀ i, BInv t.self i (t.buckets i)

theorem Inv.empty (self : Id) : Inv (Table.empty self) := fun i => BInv.nil self i

theorem upsertBucket_self (t : Table) (now : Int) (c : Contact) : (upsertBucket t now c).self = t.self := by
  unfold upsertBucket; split <;> rfl

theorem Inv.upsertBucket {t : Table} (h : Inv t) (now : Int) (c : Contact) : Inv (upsertBucket t now c) := by
  unfold Routing.upsertBucket
  split
  · exact h
  · rename_i i hi
    intro j
    simp only
    by_cases hj : j = i
    · subst hj; simp only [if_true]; exact (h j).upsert now c hi
    · simp only [hj, if_false]; exact h j

theorem Inv.sweep {t : Table} (h : Inv t) (now : Int) : Inv (sweepBuckets t now) :=
  fun i => (h i).filter _

theorem Inv.step {s : State} (h : Inv s.table) (op : Op) : Inv (step s op).table := by
  cases op with
  | adv d => exact h
  | reg id addr exp => exact h.upsertBucket _ _
  | add id addr ttl => exact h.upsertBucket _ _
  | sweep => exact h.sweep _
  | closest tg k => exact h

theorem Inv.run {s : State} (h : Inv s.table) (ops : List Op) : Inv (run s ops).table := by
  induction ops generalizing s with
  | nil => exact h
  | cons op ops ih => exact ih (h.step op)

theorem step_self (s : State) (op : Op) : (step s op).table.self = s.table.self := by
  cases op <;> simp [step, registerPeer, addContactBucket, upsertBucket_self, sweepBuckets]

theorem run_self (s : State) (ops : List Op) : (run s ops).table.self = s.table.self := by
  induction ops generalizing s with
  | nil => rfl
  | cons op ops ih => simp only [run, List.foldl_cons] at ih ⊢; rw [ih, step_self]

/-- a contact is held -/
def Held (t : Table) (c : Contact) : Prop := ∃ i, c ∈ t.buckets i

theorem Inv.self_not_held {t : Table} (h : Inv t) {c : Contact} (hc : Held t c) : c.id ≠ t.self := by
  obtain ⟨i, hi⟩ := hc
  intro he
  have := (h i).place c hi
  rw [he, bucketIndexFor_self] at this
  cases this

theorem Inv.bucket_unique {t : Table} (h : Inv t) {i j : Nat} {c d : Contact} (hc : c ∈ t.buckets i) (hd : d ∈ t.buckets j)
    (hid : c.id = d.id) : i = j := by
  have h1 := (h i).place c hc
  have h2 := (h j).place d hd
  rw [hid, h2] at h1
  cases h1; rfl

theorem mem_allContacts {t : Table} (h : Inv t) {c : Contact} : c ∈ allContacts t ↔ Held t c := by
  unfold allContacts Held
  rw [List.mem_flatMap]
  constructor
  · rintro ⟨i, _, hc⟩; exact ⟨i, hc⟩
  · rintro ⟨i, hc⟩
    exact ⟨i, List.mem_range.2 (bucketIndexFor_lt ((h i).place c hc)), hc⟩

/-- ids are pairwise distinct over the whole table -/
theorem Inv.allContacts_nodup {t : Table} (h : Inv t) : (allContacts t).Pairwise (fun a b => a.id ≠ b.id) := by
  unfold allContacts
  rw [List.pairwise_flatMap]
  refine ⟨fun i _ => (h i).nodup, ?_⟩
  refine List.Pairwise.imp ?_ (List.pairwise_lt_range (n := kIdBits))
  intro i j hij x hx y hy hid
  have := h.bucket_unique hx hy hid
  omega

end EphVerif.C07L
