/-
Helper lemmas for C13/C15/C16: big-endian scalars and checked reads of `Model/Message.lean`.
Core Lean only.
-/
import EphVerif.Model.Message

namespace EphVerif.Message

/-! ### big-endian scalars -/

theorem beNat_nil : beNat [] = 0 := rfl

theorem beNat_append_singleton (b : Bytes) (x : UInt8) : beNat (b ++ [x]) = beNat b * 256 + x.toNat := by
  simp [beNat, List.foldl_append]

@[simp] theorem beBytes_length (k v : Nat) : (beBytes k v).length = k := by
  induction k generalizing v with
  | zero => rfl
  | succ k ih => simp [beBytes, ih]

@[simp] theorem writeU32_length (v : Nat) : (writeU32 v).length = 4 := beBytes_length 4 v
@[simp] theorem writeU64_length (v : Nat) : (writeU64 v).length = 8 := beBytes_length 8 v

theorem u8_toNat_lt (x : UInt8) : x.toNat < 256 := UInt8.toNat_lt x

theorem u8_toNat_ofNat (n : Nat) : (UInt8.ofNat n).toNat = n % 256 := UInt8.toNat_ofNat'

/-- reading back what was written gives the value modulo the field width -/
theorem beNat_beBytes (k v : Nat) : beNat (beBytes k v) = v % 256 ^ k := by
  induction k generalizing v with
  | zero => simp [beBytes, beNat, Nat.mod_one]
  | succ k ih =>
    rw [beBytes, beNat_append_singleton, ih, u8_toNat_ofNat, Nat.pow_succ, Nat.mul_comm (256 ^ k) 256, Nat.mod_mul]
    have : v % 256 % 256 = v % 256 := Nat.mod_mod _ _
    omega

private theorem beNat_lt_rev (r : Bytes) : beNat r.reverse < 256 ^ r.length := by
  induction r with
  | nil => simp [beNat]
  | cons x r ih =>
    rw [List.reverse_cons, beNat_append_singleton, List.length_cons, Nat.pow_succ]
    have := u8_toNat_lt x
    omega

/-- a `k`-byte field holds a value below `256^k` -/
theorem beNat_lt (b : Bytes) : beNat b < 256 ^ b.length := by
  have := beNat_lt_rev b.reverse
  simpa using this

private theorem beBytes_beNat_rev (r : Bytes) : beBytes r.length (beNat r.reverse) = r.reverse := by
  induction r with
  | nil => rfl
  | cons x r ih =>
    rw [List.reverse_cons, beNat_append_singleton, List.length_cons, beBytes]
    have hx := u8_toNat_lt x
    have h1 : (beNat r.reverse * 256 + x.toNat) / 256 = beNat r.reverse := by omega
    have h2 : (beNat r.reverse * 256 + x.toNat) % 256 = x.toNat := by omega
    rw [h1, h2, ih, UInt8.ofNat_toNat]

/-- writing back what was read reproduces the bytes -/
theorem beBytes_beNat (b : Bytes) : beBytes b.length (beNat b) = b := by
  have := beBytes_beNat_rev b.reverse
  simpa using this

theorem beNat_singleton (x : UInt8) : beNat [x] = x.toNat := by simp [beNat]

theorem beBytes_one (v : Nat) : beBytes 1 v = [UInt8.ofNat v] := by
  have h : UInt8.ofNat (v % 256) = UInt8.ofNat v := by
    apply UInt8.toNat_inj.mp
    rw [u8_toNat_ofNat, u8_toNat_ofNat, Nat.mod_mod]
  simp [beBytes, h]

theorem readU32_writeU32 (v : Nat) : beNat (writeU32 v) = v % 4294967296 := beNat_beBytes 4 v
theorem readU64_writeU64 (v : Nat) : beNat (writeU64 v) = v % 18446744073709551616 := beNat_beBytes 8 v

theorem castU32_of_lt {n : Nat} (h : n < 4294967296) : castU32 n = n := Nat.mod_eq_of_lt h

theorem castU32i_ofNat {n : Nat} (h : n < 4294967296) : castU32i (Int.ofNat n) = n := by
  unfold castU32i
  have : (Int.ofNat n) % 4294967296 = Int.ofNat n := Int.emod_eq_of_lt (by simp) (by simp; omega)
  rw [this]; rfl

theorem castU32i_natCast {n : Nat} (h : n < 4294967296) : castU32i (n : Int) = n := castU32i_ofNat h

theorem castU32i_of_range {t : Int} (h0 : 0 ≤ t) (h1 : t < 4294967296) : Int.ofNat (castU32i t) = t := by
  unfold castU32i
  rw [Int.emod_eq_of_lt h0 h1]
  simp [Int.toNat_of_nonneg h0]

/-! ### checked reads -/

theorem rd_some {d : Bytes} {off n : Nat} (h : off + n ≤ d.length) : rd d off n = some ((d.drop off).take n) := by
  simp [rd, h]

theorem rd_eq_some_iff {d b : Bytes} {off n : Nat} :
    rd d off n = some b ↔ off + n ≤ d.length ∧ b = (d.drop off).take n := by
  unfold rd
  split
  · simp_all [eq_comm]
  · simp; omega

theorem rd_eq_none_iff {d : Bytes} {off n : Nat} : rd d off n = none ↔ d.length < off + n := by
  unfold rd
  split <;> simp_all <;> omega

theorem rd_length {d b : Bytes} {off n : Nat} (h : rd d off n = some b) : b.length = n := by
  obtain ⟨hle, rfl⟩ := rd_eq_some_iff.mp h
  simp [List.length_take, List.length_drop]; omega

theorem rd_bound {d b : Bytes} {off n : Nat} (h : rd d off n = some b) : off + n ≤ d.length :=
  (rd_eq_some_iff.mp h).1

/-- a read lands on the bytes that follow a known prefix -/
theorem rd_of_prefix {d p b : Bytes} {off n : Nat} (h : p ++ b <+: d) (ho : p.length = off) (hn : b.length = n) :
    rd d off n = some b := by
  obtain ⟨s, rfl⟩ := h
  subst ho hn
  rw [rd_eq_some_iff]
  constructor
  · simp
  · simp

/-- the bytes read at the end of a known prefix extend that prefix -/
theorem prefix_extend {d p b : Bytes} {off n : Nat} (h : rd d off n = some b) (hp : p <+: d) (hl : p.length = off) :
    p ++ b <+: d := by
  obtain ⟨t, rfl⟩ := hp
  obtain ⟨hle, rfl⟩ := rd_eq_some_iff.mp h
  subst hl
  rw [List.prefix_append_right_inj]
  simp [List.take_prefix]

theorem rdU8_eq_some {d : Bytes} {off v : Nat} (h : rdU8 d off = some v) :
    ∃ b, rd d off 1 = some b ∧ v = beNat b ∧ [UInt8.ofNat v] = b ∧ v < 256 := by
  unfold rdU8 at h
  cases hb : rd d off 1 with
  | none => simp [hb] at h
  | some b =>
    simp [hb] at h
    refine ⟨b, rfl, h.symm, ?_, ?_⟩
    · have hl := rd_length hb
      rw [← h, ← beBytes_one, ← hl, beBytes_beNat]
    · have hl := rd_length hb
      have := beNat_lt b
      rw [hl] at this; omega

theorem rdU32_eq_some {d : Bytes} {off v : Nat} (h : rdU32 d off = some v) :
    ∃ b, rd d off 4 = some b ∧ v = beNat b ∧ writeU32 v = b ∧ v < 4294967296 := by
  unfold rdU32 at h
  cases hb : rd d off 4 with
  | none => simp [hb] at h
  | some b =>
    simp [hb] at h
    refine ⟨b, rfl, h.symm, ?_, ?_⟩
    · have hl := rd_length hb
      rw [← h, writeU32, ← hl, beBytes_beNat]
    · have hl := rd_length hb
      have := beNat_lt b
      rw [hl] at this; omega

theorem rdU64_eq_some {d : Bytes} {off v : Nat} (h : rdU64 d off = some v) :
    ∃ b, rd d off 8 = some b ∧ v = beNat b ∧ writeU64 v = b ∧ v < 18446744073709551616 := by
  unfold rdU64 at h
  cases hb : rd d off 8 with
  | none => simp [hb] at h
  | some b =>
    simp [hb] at h
    refine ⟨b, rfl, h.symm, ?_, ?_⟩
    · have hl := rd_length hb
      rw [← h, writeU64, ← hl, beBytes_beNat]
    · have hl := rd_length hb
      have := beNat_lt b
      rw [hl] at this; omega

theorem prefix_extend_u8 {d p : Bytes} {off v : Nat} (h : rdU8 d off = some v) (hp : p <+: d) (hl : p.length = off) :
    p ++ [UInt8.ofNat v] <+: d := by
  obtain ⟨b, hb, _, hw, _⟩ := rdU8_eq_some h
  rw [hw]; exact prefix_extend hb hp hl

theorem prefix_extend_u32 {d p : Bytes} {off v : Nat} (h : rdU32 d off = some v) (hp : p <+: d) (hl : p.length = off) :
    p ++ writeU32 v <+: d := by
  obtain ⟨b, hb, _, hw, _⟩ := rdU32_eq_some h
  rw [hw]; exact prefix_extend hb hp hl

theorem prefix_extend_u64 {d p : Bytes} {off v : Nat} (h : rdU64 d off = some v) (hp : p <+: d) (hl : p.length = off) :
    p ++ writeU64 v <+: d := by
  obtain ⟨b, hb, _, hw, _⟩ := rdU64_eq_some h
  rw [hw]; exact prefix_extend hb hp hl

theorem rdU8_of_prefix {d p : Bytes} {off v : Nat} (h : p ++ [UInt8.ofNat v] <+: d) (ho : p.length = off) (hv : v < 256) :
    rdU8 d off = some v := by
  unfold rdU8
  have := rd_of_prefix (n := 1) h ho rfl
  rw [this]
  simp [beNat_singleton, Nat.mod_eq_of_lt hv]

theorem rdU32_of_prefix {d p : Bytes} {off v : Nat} (h : p ++ writeU32 v <+: d) (ho : p.length = off) (hv : v < 4294967296) :
    rdU32 d off = some v := by
  unfold rdU32
  rw [rd_of_prefix h ho (writeU32_length v)]
  simp [readU32_writeU32, Nat.mod_eq_of_lt hv]

theorem rdU64_of_prefix {d p : Bytes} {off v : Nat} (h : p ++ writeU64 v <+: d) (ho : p.length = off)
    (hv : v < 18446744073709551616) : rdU64 d off = some v := by
  unfold rdU64
  rw [rd_of_prefix h ho (writeU64_length v)]
  simp [readU64_writeU64, Nat.mod_eq_of_lt hv]

/-! ### `chk` -/

theorem chk_some {α β : Type} (a : α) (k : α → Outcome β) : chk (some a) k = k a := rfl
theorem chk_none {α β : Type} (k : α → Outcome β) : chk (none : Option α) k = .oob := rfl

theorem chk_eq_ok {α β : Type} {o : Option α} {k : α → Outcome β} {r : β} :
    chk o k = .ok r ↔ ∃ a, o = some a ∧ k a = .ok r := by
  cases o <;> simp [chk]

theorem map_eq_ok {α β : Type} {f : α → β} {o : Outcome α} {r : β} :
    o.map f = .ok r ↔ ∃ a, o = .ok a ∧ f a = r := by
  cases o <;> simp [Outcome.map]

theorem map_ne_oob {α β : Type} {f : α → β} {o : Outcome α} (h : o ≠ .oob) : o.map f ≠ .oob := by
  cases o <;> simp_all [Outcome.map]

/-- a guarded read cannot be the one that goes out of bounds -/
theorem chk_rd_ne_oob {β : Type} {d : Bytes} {off n : Nat} {k : Bytes → Outcome β} (h : off + n ≤ d.length)
    (hk : ∀ b, b.length = n → k b ≠ .oob) : chk (rd d off n) k ≠ .oob := by
  rw [rd_some h, chk_some]
  apply hk
  simp [List.length_take, List.length_drop]; omega

theorem chk_rdU8_ne_oob {β : Type} {d : Bytes} {off : Nat} {k : Nat → Outcome β} (h : off + 1 ≤ d.length)
    (hk : ∀ v, v < 256 → k v ≠ .oob) : chk (rdU8 d off) k ≠ .oob := by
  cases hv : rdU8 d off with
  | none => simp [rdU8, rd_some h] at hv
  | some v => obtain ⟨_, _, _, _, hlt⟩ := rdU8_eq_some hv; exact hk v hlt

theorem chk_rdU32_ne_oob {β : Type} {d : Bytes} {off : Nat} {k : Nat → Outcome β} (h : off + 4 ≤ d.length)
    (hk : ∀ v, v < 4294967296 → k v ≠ .oob) : chk (rdU32 d off) k ≠ .oob := by
  cases hv : rdU32 d off with
  | none => simp [rdU32, rd_some h] at hv
  | some v => obtain ⟨_, _, _, _, hlt⟩ := rdU32_eq_some hv; exact hk v hlt

theorem chk_rdU64_ne_oob {β : Type} {d : Bytes} {off : Nat} {k : Nat → Outcome β} (h : off + 8 ≤ d.length)
    (hk : ∀ v, v < 18446744073709551616 → k v ≠ .oob) : chk (rdU64 d off) k ≠ .oob := by
  cases hv : rdU64 d off with
  | none => simp [rdU64, rd_some h] at hv
  | some v => obtain ⟨_, _, _, _, hlt⟩ := rdU64_eq_some hv; exact hk v hlt

end EphVerif.Message
