/-
Helper lemmas for C16: whatever the decoders of `Model/Message.lean` accept re-encodes to a prefix
of the input.  (Never-`oob` lemmas: `Lemmas/C16Total.lean`.)  Core Lean only.
-/
import EphVerif.Lemmas.C16Total

namespace EphVerif.Message
open EphVerif.Gen.C15

/-! ### accepted fields are verbatim: re-encoding gives a prefix -/

private theorem announce_chain {d c p e m s : Bytes} {ttl el ml al : Nat}
    (h1 : rdU32 d 0 = some ttl) (h2 : rdU32 d 4 = some el) (h3 : rdU32 d 8 = some ml) (h4 : rdU32 d 12 = some al)
    (h5 : rd d 16 kChunkIdSize = some c) (h6 : rd d (16 + kChunkIdSize) kPeerIdSize = some p)
    (h7 : rd d (16 + kChunkIdSize + kPeerIdSize) el = some e)
    (h8 : rd d (16 + kChunkIdSize + kPeerIdSize + el) ml = some m)
    (h9 : rd d (16 + kChunkIdSize + kPeerIdSize + el + ml) al = some s) :
    writeU32 (castU32i (Int.ofNat ttl)) ++ writeU32 (castU32 e.length) ++ writeU32 (castU32 m.length)
        ++ writeU32 (castU32 s.length) ++ c ++ p ++ e ++ m ++ s <+: d ∧
      (writeU32 (castU32i (Int.ofNat ttl)) ++ writeU32 (castU32 e.length) ++ writeU32 (castU32 m.length)
        ++ writeU32 (castU32 s.length) ++ c ++ p ++ e ++ m ++ s).length
        = 16 + kChunkIdSize + kPeerIdSize + el + ml + al := by
  have p0 : ([] : Bytes) <+: d := List.nil_prefix
  have p1 := prefix_extend_u32 h1 p0 rfl
  have p2 := prefix_extend_u32 h2 p1 (by simp)
  have p3 := prefix_extend_u32 h3 p2 (by simp)
  have p4 := prefix_extend_u32 h4 p3 (by simp)
  have p5 := prefix_extend h5 p4 (by simp)
  have p6 := prefix_extend h6 p5 (by simp [rd_length h5]; omega)
  have p7 := prefix_extend h7 p6 (by simp [rd_length h5, rd_length h6]; omega)
  have p8 := prefix_extend h8 p7 (by simp [rd_length h5, rd_length h6, rd_length h7]; omega)
  have p9 := prefix_extend h9 p8 (by simp [rd_length h5, rd_length h6, rd_length h7, rd_length h8]; omega)
  obtain ⟨_, _, _, _, httl⟩ := rdU32_eq_some h1
  obtain ⟨_, _, _, _, hel⟩ := rdU32_eq_some h2
  obtain ⟨_, _, _, _, hml⟩ := rdU32_eq_some h3
  obtain ⟨_, _, _, _, hal⟩ := rdU32_eq_some h4
  simp only [castU32i_ofNat httl, rd_length h7, rd_length h8, rd_length h9,
          castU32_of_lt hel, castU32_of_lt hml, castU32_of_lt hal]
  constructor
  · simpa using p9
  · simp [rd_length h5, rd_length h6, rd_length h7, rd_length h8, rd_length h9]; omega

/-- The encoder may write the nonce only where the decoder has read one
    (`decide (version ≥ encPowMinVersion) → pow`): then the re-encoding is a prefix of the span. -/
theorem parseAnnounce_prefix {d : Bytes} {pow : Bool} {a : Announce} {version : Nat}
    (h : parseAnnounce d pow = .ok a) (hv : decide (version ≥ encPowMinVersion) = true → pow = true) :
    encodePayload version (.announce a) <+: d := by
  unfold parseAnnounce at h
  cases pow <;> simp only [Bool.false_eq_true, if_false, if_true] at h
  · have hv' : decide (version ≥ encPowMinVersion) = false := by
      cases hd : decide (version ≥ encPowMinVersion)
      · rfl
      · exact absurd (hv hd) (by simp)
    split at h
    · cases h
    · simp only [chk_eq_ok] at h
      obtain ⟨ttl, h1, el, h2, ml, h3, al, h4, h⟩ := h
      split at h
      · cases h
      · simp only [chk_eq_ok, Outcome.ok.injEq] at h
        obtain ⟨c, h5, p, h6, e, h7, m, h8, s, h9, rfl⟩ := h
        have := (announce_chain h1 h2 h3 h4 h5 h6 h7 h8 h9).1
        simpa [encodePayload, hv'] using this
  · split at h
    · cases h
    · simp only [chk_eq_ok] at h
      obtain ⟨ttl, h1, el, h2, ml, h3, al, h4, h⟩ := h
      split at h
      · cases h
      · simp only [chk_eq_ok, Outcome.ok.injEq] at h
        obtain ⟨c, h5, p, h6, e, h7, m, h8, s, h9, n, h10, rfl⟩ := h
        obtain ⟨hpre, hlen⟩ := announce_chain h1 h2 h3 h4 h5 h6 h7 h8 h9
        cases hd : decide (version ≥ encPowMinVersion)
        · simpa [encodePayload, hd] using hpre
        · have := prefix_extend_u64 h10 hpre hlen
          simpa [encodePayload, hd] using this

theorem flag_roundtrip {flag : Nat} (h : ¬ flag > 1) : flagByte (flag != 0) = UInt8.ofNat flag := by
  have : flag = 0 ∨ flag = 1 := by omega
  rcases this with rfl | rfl <;> rfl

theorem decodePayloadV1_prefix {t : Nat} {d : Bytes} {p : Payload} {version : Nat}
    (h : decodePayloadV1 t d = .ok p) (hv : t = tagAnnounce → version < encPowMinVersion) :
    encodePayload version p <+: d := by
  unfold decodePayloadV1 at h
  have hc : kChunkIdSize = 32 := rfl
  have hp : kPeerIdSize = 32 := rfl
  have p0 : ([] : Bytes) <+: d := List.nil_prefix
  dsimp only at h
  split at h
  · rw [map_eq_ok] at h
    obtain ⟨a, ha, rfl⟩ := h
    apply parseAnnounce_prefix ha
    have := hv (by assumption)
    intro hd
    simp at hd
    omega
  split at h
  · split at h
    · cases h
    · simp only [chk_eq_ok, Outcome.ok.injEq] at h
      obtain ⟨c, h1, r, h2, rfl⟩ := h
      have p1 := prefix_extend h1 p0 rfl
      have p2 := prefix_extend h2 p1 (by simp [rd_length h1])
      simpa [encodePayload] using p2
  split at h
  · split at h
    · cases h
    · simp only [chk_eq_ok] at h
      obtain ⟨ttl, h1, dl, h2, h⟩ := h
      split at h
      · cases h
      · simp only [chk_eq_ok, Outcome.ok.injEq] at h
        obtain ⟨c, h3, data, h4, rfl⟩ := h
        have p1 := prefix_extend_u32 h1 p0 rfl
        have p2 := prefix_extend_u32 h2 p1 (by simp)
        have p3 := prefix_extend h3 p2 (by simp)
        have p4 := prefix_extend h4 p3 (by simp [rd_length h3]; omega)
        obtain ⟨_, _, _, _, httl⟩ := rdU32_eq_some h1
        obtain ⟨_, _, _, _, hdl⟩ := rdU32_eq_some h2
        simpa [encodePayload, castU32i_natCast httl, rd_length h4, castU32_of_lt hdl] using p4
  split at h
  · split at h
    · cases h
    · simp only [chk_eq_ok] at h
      obtain ⟨flag, h1, h⟩ := h
      split at h
      · cases h
      · simp only [chk_eq_ok, Outcome.ok.injEq] at h
        obtain ⟨c, h2, p, h3, rfl⟩ := h
        have p1 := prefix_extend_u8 h1 p0 rfl
        have p2 := prefix_extend h2 p1 (by simp)
        have p3 := prefix_extend h3 p2 (by simp [rd_length h2]; omega)
        simpa [encodePayload, flag_roundtrip (by assumption)] using p3
  split at h
  · split at h
    · cases h
    · simp only [chk_eq_ok, Outcome.ok.injEq] at h
      obtain ⟨pub, h1, nonce, h2, rv, h3, rfl⟩ := h
      have p1 := prefix_extend_u32 h1 p0 rfl
      have p2 := prefix_extend_u64 h2 p1 (by simp)
      have p3 := prefix_extend_u8 h3 p2 (by simp)
      simpa [encodePayload] using p3
  split at h
  · split at h
    · cases h
    · simp only [chk_eq_ok] at h
      obtain ⟨flag, h1, h⟩ := h
      split at h
      · cases h
      · simp only [chk_eq_ok, Outcome.ok.injEq] at h
        obtain ⟨nv, h2, pub, h3, rfl⟩ := h
        have p1 := prefix_extend_u8 h1 p0 rfl
        have p2 := prefix_extend_u8 h2 p1 (by simp)
        have p3 := prefix_extend_u32 h3 p2 (by simp)
        simpa [encodePayload, flag_roundtrip (by assumption)] using p3
  · cases h


theorem prefix_drop {p q buf : Bytes} (hp : p <+: buf) (hq : q <+: buf.drop p.length) : p ++ q <+: buf := by
  obtain ⟨t, rfl⟩ := hp
  simp at hq
  exact (List.prefix_append_right_inj p).mpr hq

/-- the encoder never writes a nonce the decoder would not read: its threshold is not below the
    decoder's (equal after fixes/C15-announce-nonce-v3.patch; 4 vs 3 before it — the prefix law
    needs only this inequality, the round trip C15 needs equality) -/
theorem decPow_le_encPow : decPowMinVersion ≤ encPowMinVersion := by decide

theorem clampVersion_of_supported {v : Nat} (h : isSupportedVersion v = true) : clampVersion v = v := by
  simp [isSupportedVersion, kMinimumMessageVersion, kCurrentMessageVersion] at h
  unfold clampVersion EphVerif.Gen.C15.clampVersion
  (repeat' split) <;> omega

theorem decode_prefix {buf : Bytes} {m : Msg} (h : decode buf = .ok m) : encode m <+: buf := by
  unfold decode at h
  split at h
  · cases h
  · simp only [chk_eq_ok] at h
    obtain ⟨version, h1, type, h2, h⟩ := h
    split at h
    · cases h
    · rename_i hsup
      simp only [Bool.not_eq_true', Bool.not_eq_false] at hsup
      have hcl := clampVersion_of_supported (by simpa using hsup)
      have p0 : ([] : Bytes) <+: buf := List.nil_prefix
      have p1 := prefix_extend_u8 h1 p0 rfl
      have p2 := prefix_extend_u8 h2 p1 (by simp)
      rw [map_eq_ok] at h
      obtain ⟨p, hp, rfl⟩ := h
      have hpay : encodePayload version p <+: buf.drop 2 := by
        split at hp
        · rename_i hc
          rw [map_eq_ok] at hp
          obtain ⟨a, ha, rfl⟩ := hp
          exact parseAnnounce_prefix ha (fun _ => rfl)
        · rename_i hc
          apply decodePayloadV1_prefix hp
          intro ht
          have := decPow_le_encPow
          omega
      have := prefix_drop p2 (by simpa using hpay)
      simpa [encode, hcl] using this

end EphVerif.Message
