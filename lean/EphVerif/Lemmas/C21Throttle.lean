import EphVerif.Lemmas.C21Basic

/-! C21 — the throttle invariant: relation between `peer_announce_history_` and the full list of times
at which the peer got through `register_incoming_announce`. -/
set_option linter.unusedSimpArgs false

namespace EphVerif.C21
open EphVerif.Announce

/-- number of times of `l` inside the closed window `[a, a + w]` -/
def inWindow (l : List Int) (a w : Int) : Nat := (l.filter (fun t => decide (a ≤ t) && decide (t ≤ a + w))).length

/-- `acc`: every time the peer passed the throttle so far (ghost); `hist`: the deque of the code -/
structure TInv (cfg : Cfg) (now : Int) (acc hist : List Int) : Prop where
  split : ∃ dropped, acc = dropped ++ hist ∧ ∀ t ∈ dropped, t + cfg.burstWindow * NS < now
  le_now : ∀ t ∈ acc, t ≤ now
  spaced : acc.Pairwise (fun a b => a + cfg.minInterval * NS ≤ b)
  burst : 0 < cfg.burstLimit → ∀ a, inWindow acc a (cfg.burstWindow * NS) ≤ cfg.burstLimit

theorem tinv_nil (cfg : Cfg) (now : Int) : TInv cfg now [] [] :=
  ⟨⟨[], rfl, by simp⟩, by simp, List.Pairwise.nil, by intro _ a; simp [inWindow]⟩

theorem tinv_adv {cfg : Cfg} {now : Int} {acc hist : List Int} (h : TInv cfg now acc hist) (d : Nat) :
    TInv cfg (now + d) acc hist := by
  obtain ⟨⟨dropped, he, hd⟩, hl, hs, hb⟩ := h
  refine ⟨⟨dropped, he, ?_⟩, ?_, hs, hb⟩
  · intro t ht; have := hd t ht; omega
  · intro t ht; have := hl t ht; omega

/-- in a list related pairwise, every element is the last one or related to it -/
theorem pairwise_getLast {R : Int → Int → Prop} {l : List Int} {last x : Int} (hp : l.Pairwise R)
    (hl : l.getLast? = some last) (hx : x ∈ l) : x = last ∨ R x last := by
  obtain ⟨ys, rfl⟩ := List.getLast?_eq_some_iff.mp hl
  rw [List.pairwise_append] at hp
  rcases List.mem_append.mp hx with hx | hx
  · exact Or.inr (hp.2.2 x hx last (by simp))
  · simp at hx; exact Or.inl hx

theorem mem_takeWhile_sat {p : Int → Bool} {x : Int} : ∀ {l : List Int}, x ∈ l.takeWhile p → p x = true
  | [], h => by simp at h
  | y :: ys, h => by
    rw [List.takeWhile_cons] at h
    by_cases hy : p y = true
    · simp only [hy, ↓reduceIte, List.mem_cons] at h
      rcases h with rfl | h
      · exact hy
      · exact mem_takeWhile_sat h
    · simp [hy] at h

/-- pruning: the deque splits into a pruned prefix older than the window and what is kept -/
theorem prune_split (cfg : Cfg) (now : Int) (hist : List Int) :
    ∃ pre, hist = pre ++ (if cfg.burstWindow > 0 then hist.dropWhile (fun t => decide (t < now - cfg.burstWindow * NS)) else hist) ∧
      ∀ t ∈ pre, t + cfg.burstWindow * NS < now := by
  by_cases hw : cfg.burstWindow > 0
  · refine ⟨hist.takeWhile (fun t => decide (t < now - cfg.burstWindow * NS)), ?_, ?_⟩
    · simp [hw, List.takeWhile_append_dropWhile]
    · intro t ht
      have := mem_takeWhile_sat ht
      simp at this
      omega
  · exact ⟨[], by simp [hw], by simp⟩

/-- what `register_incoming_announce` decides, given the kept part `h` of the history -/
theorem register_spec (cfg : Cfg) (now : Int) (hist : List Int) :
    let h := if cfg.burstWindow > 0 then hist.dropWhile (fun t => decide (t < now - cfg.burstWindow * NS)) else hist
    ((register cfg now hist).2 = false ∧ (register cfg now hist).1 = h) ∨
    ((register cfg now hist).2 = true ∧ (register cfg now hist).1 = h ++ [now] ∧
      (∀ last, h.getLast? = some last → cfg.minInterval > 0 → last + cfg.minInterval * NS ≤ now) ∧
      (0 < cfg.burstLimit → h.length < cfg.burstLimit)) := by
  intro h
  unfold register
  simp only []
  show (_ ∧ _) ∨ _
  generalize hh : (if cfg.burstWindow > 0 then hist.dropWhile (fun t => decide (t < now - cfg.burstWindow * NS)) else hist) = h'
  have : h = h' := hh
  subst this
  cases hlast : h.getLast? with
  | none =>
    simp only [Bool.false_eq_true, ↓reduceIte]
    by_cases hb : (decide (cfg.burstLimit > 0) && decide (h.length ≥ cfg.burstLimit)) = true
    · left; simp [hb]
    · right
      simp only [hb, Bool.false_eq_true, ↓reduceIte, true_and]
      refine ⟨by simp, ?_⟩
      intro hpos
      simp only [Bool.and_eq_true, decide_eq_true_eq, not_and] at hb
      have := hb hpos
      omega
  | some last =>
    by_cases hsoon : (decide (cfg.minInterval > 0) && decide (now - last < cfg.minInterval * NS)) = true
    · left; simp [hsoon]
    · simp only [hsoon, Bool.false_eq_true, ↓reduceIte]
      by_cases hb : (decide (cfg.burstLimit > 0) && decide (h.length ≥ cfg.burstLimit)) = true
      · left; simp [hb]
      · right
        simp only [hb, Bool.false_eq_true, ↓reduceIte, true_and]
        refine ⟨?_, ?_⟩
        · intro l hl hmi
          simp only [Option.some.injEq] at hl
          subst hl
          simp only [Bool.and_eq_true, decide_eq_true_eq, not_and] at hsoon
          have := hsoon hmi
          omega
        · intro hpos
          simp only [Bool.and_eq_true, decide_eq_true_eq, not_and] at hb
          have := hb hpos
          omega

theorem inWindow_append (l m : List Int) (a w : Int) : inWindow (l ++ m) a w = inWindow l a w + inWindow m a w := by
  simp [inWindow, List.filter_append]

theorem inWindow_le_length (l : List Int) (a w : Int) : inWindow l a w ≤ l.length := by
  unfold inWindow; exact List.length_filter_le _ _

theorem inWindow_eq_zero {l : List Int} {a w : Int} (h : ∀ t ∈ l, t < a) : inWindow l a w = 0 := by
  unfold inWindow
  rw [List.length_eq_zero_iff, List.filter_eq_nil_iff]
  intro t ht
  have := h t ht
  simp
  omega

/-- `register_incoming_announce` keeps the invariant; `acc` grows exactly when it returns true -/
theorem register_tinv {cfg : Cfg} {now : Int} {acc hist : List Int} (hW : cfg.minInterval ≤ cfg.burstWindow)
    (h : TInv cfg now acc hist) :
    TInv cfg now (if (register cfg now hist).2 then acc ++ [now] else acc) (register cfg now hist).1 := by
  obtain ⟨⟨dropped, he, hd⟩, hl, hs, hb⟩ := h
  obtain ⟨pre, hpre, hpred⟩ := prune_split cfg now hist
  have hmul : cfg.minInterval * NS ≤ cfg.burstWindow * NS := Int.mul_le_mul_of_nonneg_right hW (Int.le_of_lt NS_pos)
  generalize hk : (if cfg.burstWindow > 0 then hist.dropWhile (fun t => decide (t < now - cfg.burstWindow * NS)) else hist) = kept at hpre
  have hacc : acc = (dropped ++ pre) ++ kept := by rw [he, hpre, List.append_assoc]
  have hdrop : ∀ t ∈ dropped ++ pre, t + cfg.burstWindow * NS < now := by
    intro t ht
    rcases List.mem_append.mp ht with ht | ht
    · exact hd t ht
    · exact hpred t ht
  have hspec := register_spec cfg now hist
  simp only [hk] at hspec
  rcases hspec with ⟨h2, h1⟩ | ⟨h2, h1, hlast, hlen⟩
  · rw [h2, h1]
    exact ⟨⟨dropped ++ pre, hacc, hdrop⟩, hl, hs, hb⟩
  · rw [h2, h1]
    simp only [↓reduceIte]
    -- every earlier pass is at least the minimum interval before `now`
    have hsp : ∀ a ∈ acc, a + cfg.minInterval * NS ≤ now := by
      intro a ha
      rw [hacc] at ha
      rcases List.mem_append.mp ha with ha | ha
      · have := hdrop a ha; omega
      · by_cases hmi : cfg.minInterval > 0
        · obtain ⟨last, hlast'⟩ : ∃ last, kept.getLast? = some last := by
            cases hg : kept.getLast? with
            | none => rw [List.getLast?_eq_none_iff] at hg; subst hg; simp at ha
            | some l => exact ⟨l, rfl⟩
          have hle := hlast last hlast' hmi
          have hpk : kept.Pairwise (fun a b => a + cfg.minInterval * NS ≤ b) := by
            rw [hacc, List.pairwise_append] at hs; exact hs.2.1
          rcases pairwise_getLast hpk hlast' ha with rfl | hr
          · exact hle
          · have : 0 < cfg.minInterval * NS := Int.mul_pos hmi NS_pos
            omega
        · have h1' := hl a (by rw [hacc]; exact List.mem_append_right _ ha)
          have : cfg.minInterval * NS ≤ 0 := Int.mul_nonpos_of_nonpos_of_nonneg (by omega) (Int.le_of_lt NS_pos)
          omega
    refine ⟨⟨dropped ++ pre, by rw [hacc, List.append_assoc], hdrop⟩, ?_, ?_, ?_⟩
    · intro t ht
      rcases List.mem_append.mp ht with ht | ht
      · exact hl t ht
      · simp at ht; omega
    · rw [List.pairwise_append]
      refine ⟨hs, by simp, ?_⟩
      intro a ha b hb'
      simp at hb'; subst hb'
      exact hsp a ha
    · intro hpos a
      rw [inWindow_append]
      by_cases hin : a ≤ now ∧ now ≤ a + cfg.burstWindow * NS
      · -- the window holds `now`: everything else in it is still in the deque
        have h0 : inWindow (dropped ++ pre) a (cfg.burstWindow * NS) = 0 :=
          inWindow_eq_zero (by intro t ht; have := hdrop t ht; omega)
        have h1'' : inWindow acc a (cfg.burstWindow * NS) ≤ kept.length := by
          rw [hacc, inWindow_append, h0, Nat.zero_add]; exact inWindow_le_length _ _ _
        have h2' : inWindow [now] a (cfg.burstWindow * NS) ≤ 1 := inWindow_le_length _ _ _
        have := hlen hpos
        omega
      · have h0 : inWindow [now] a (cfg.burstWindow * NS) = 0 := by
          unfold inWindow
          rw [List.length_eq_zero_iff, List.filter_eq_nil_iff]
          intro t ht
          simp at ht; subst ht
          simp
          omega
        rw [h0]
        exact hb hpos a

end EphVerif.C21
