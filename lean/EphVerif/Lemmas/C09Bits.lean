/-
C09 helper lemmas, part 1: the word-level primitives of ChaCha20.cpp (shift/OR/mask forms taken
from the generated tables) equal the arithmetic definitions of the specification.
-/
import EphVerif.Model.ChaCha20
import EphVerif.Spec.ChaCha20

namespace EphVerif.C09
open EphVerif EphVerif.ChaCha20 EphVerif.Spec.ChaCha

/-- `(x << n) | (x >> (32 - n))` is the n-bit left roll for 0 < n < 32 -/
theorem rotl32_eq (x : UInt32) (n : Nat) (h0 : 0 < n) (h : n < 32) : rotl32 x n = rotl x n := by
  apply UInt32.eq_of_toBitVec_eq
  simp only [rotl32, rotl, Gen.C09.rotlWidth, UInt32.toBitVec_or, UInt32.toBitVec_shiftLeft, UInt32.toBitVec_shiftRight,
    BitVec.rotateLeft_def, Nat.toUInt32_eq]
  have h1 : (UInt32.ofNat n).toBitVec % 32 = BitVec.ofNat 32 n := by
    apply BitVec.eq_of_toNat_eq
    simp [BitVec.toNat_umod]
    omega
  have h2 : (UInt32.ofNat (32 - n)).toBitVec % 32 = BitVec.ofNat 32 (32 - n) := by
    apply BitVec.eq_of_toNat_eq
    simp [BitVec.toNat_umod]
    omega
  rw [h1, h2]
  simp
  rw [Nat.mod_eq_of_lt (by omega : n < 4294967296), Nat.mod_eq_of_lt (by omega : 32 - n < 4294967296), Nat.mod_eq_of_lt h]

theorem nat_le_or (b0 b1 b2 b3 : Nat) (h0 : b0 < 256) (h1 : b1 < 256) (h2 : b2 < 256) :
    b0 ||| b1 <<< 8 ||| b2 <<< 16 ||| b3 <<< 24 = b0 + 256 * b1 + 65536 * b2 + 16777216 * b3 := by
  have s1 : b1 <<< 8 = b1 * 256 := by simp [Nat.shiftLeft_eq]
  have s2 : b2 <<< 16 = b2 * 65536 := by simp [Nat.shiftLeft_eq]
  have s3 : b3 <<< 24 = b3 * 16777216 := by simp [Nat.shiftLeft_eq]
  have e1 : b1 <<< 8 + b0 = b1 <<< 8 ||| b0 := Nat.shiftLeft_add_eq_or_of_lt (by omega : b0 < 2 ^ 8) b1
  have e2 : b2 <<< 16 + (b1 <<< 8 + b0) = b2 <<< 16 ||| (b1 <<< 8 + b0) :=
    Nat.shiftLeft_add_eq_or_of_lt (by omega : b1 <<< 8 + b0 < 2 ^ 16) b2
  have e3 : b3 <<< 24 + (b2 <<< 16 + (b1 <<< 8 + b0)) = b3 <<< 24 ||| (b2 <<< 16 + (b1 <<< 8 + b0)) :=
    Nat.shiftLeft_add_eq_or_of_lt (by omega : b2 <<< 16 + (b1 <<< 8 + b0) < 2 ^ 24) b3
  rw [Nat.or_comm b0, ← e1, Nat.or_comm _ (b2 <<< 16), ← e2, Nat.or_comm _ (b3 <<< 24), ← e3]
  omega

theorem or4_eq (b0 b1 b2 b3 : UInt8) :
    (0 ||| b0.toUInt32 <<< UInt32.ofNat 0 ||| b1.toUInt32 <<< UInt32.ofNat 8 ||| b2.toUInt32 <<< UInt32.ofNat 16
      ||| b3.toUInt32 <<< UInt32.ofNat 24) = le32 b0 b1 b2 b3 := by
  apply UInt32.toNat_inj.mp
  have h0 := b0.toNat_lt
  have h1 := b1.toNat_lt
  have h2 := b2.toNat_lt
  have h3 := b3.toNat_lt
  simp only [le32, UInt32.toNat_or, UInt32.toNat_shiftLeft, UInt8.toNat_toUInt32, UInt32.toNat_ofNat']
  simp
  have m1 : b1.toNat <<< 8 % 4294967296 = b1.toNat <<< 8 := by
    apply Nat.mod_eq_of_lt; simp only [Nat.shiftLeft_eq]; omega
  have m2 : b2.toNat <<< 16 % 4294967296 = b2.toNat <<< 16 := by
    apply Nat.mod_eq_of_lt; simp only [Nat.shiftLeft_eq]; omega
  have m3 : b3.toNat <<< 24 % 4294967296 = b3.toNat <<< 24 := by
    apply Nat.mod_eq_of_lt; simp only [Nat.shiftLeft_eq]; omega
  rw [m1, m2, m3, nat_le_or _ _ _ _ (by omega) (by omega) (by omega)]
  omega

theorem load32_le_eq (data : List UInt8) (off : Nat) :
    load32_le data off = le32 (data.getD off 0) (data.getD (off + 1) 0) (data.getD (off + 2) 0) (data.getD (off + 3) 0) := by
  simp only [load32_le, Gen.C09.load32Terms, List.foldl_cons, List.foldl_nil, Nat.toUInt32_eq]
  exact or4_eq _ _ _ _

theorem derive_counter_eq (id : List UInt8) :
    derive_counter id = le32 (id.getD 0 0) (id.getD 1 0) (id.getD 2 0) (id.getD 3 0) := by
  simp only [derive_counter, Gen.C09.deriveCounterTerms, List.foldl_cons, List.foldl_nil, Nat.toUInt32_eq]
  exact or4_eq _ _ _ _

theorem byte_of_shift (v : UInt32) (k : Nat) (hk : k < 32) :
    (v >>> UInt32.ofNat k &&& 255).toUInt8 = UInt8.ofNat (v.toNat / 2 ^ k % 256) := by
  apply UInt8.toNat_inj.mp
  have h255 : (255 : Nat) = 2 ^ 8 - 1 := by decide
  simp only [UInt32.toNat_toUInt8, UInt32.toNat_and, UInt32.toNat_shiftRight, UInt32.toNat_ofNat', UInt8.toNat_ofNat',
    UInt32.toNat_ofNat, Nat.shiftRight_eq_div_pow]
  rw [Nat.mod_eq_of_lt (by omega : k < 2 ^ 32), Nat.mod_eq_of_lt hk]
  have : (255 % 2 ^ 32) = 2 ^ 8 - 1 := by decide
  rw [this, Nat.and_two_pow_sub_one_eq_mod]

theorem store32_le_eq (v : UInt32) : store32_le v = leBytes v := by
  simp only [store32_le, Gen.C09.store32Shifts, Gen.C09.store32Mask, List.map_cons, List.map_nil, leBytes, Nat.toUInt32_eq]
  rw [byte_of_shift v 0 (by omega), byte_of_shift v 8 (by omega), byte_of_shift v 16 (by omega), byte_of_shift v 24 (by omega)]
  simp

end EphVerif.C09
