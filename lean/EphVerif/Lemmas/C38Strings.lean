/-
Lemmas for C38_strings / C38_depth: the parser model is sound with respect to the RFC 8259 string
decoder (`decodeStr`), `append_utf8`'s shifts and masks compute RFC 3629, and every successful
`parse_value` returns a tree whose strings are the decodings of the literals at their offsets and
whose nesting is within the budget.
-/
import EphVerif.Model.UpdateJson
import EphVerif.Lemmas.C37C38JsonString
import EphVerif.Lemmas.C38Total
import EphVerif.Spec.UpdateJson
namespace EphVerif.C38L
open EphVerif.UpdateJson EphVerif.JsonSpec EphVerif.C38Spec

theorem hexDigit_eq (ch : Nat) : hexDigit ch = hexVal ch := by
  unfold hexDigit hexVal
  repeat' split
  all_goals first | rfl | omega | (congr 1; omega)

theorem hexDigit_lt {ch w : Nat} (h : hexDigit ch = some w) : w < 16 := by
  unfold hexDigit at h
  repeat' split at h
  all_goals first | (simp at h; omega) | (simp at h)

theorem shl4_or (a v : Nat) (h : v < 16) : (a <<< 4) ||| v = a * 16 + v := by
  rw [← Nat.shiftLeft_add_eq_or_of_lt (by simpa using h)]
  simp [Nat.shiftLeft_eq]

theorem hexStep_ok {acc ch v : Nat} (h : hexStep acc ch = .ok v) :
    ∃ w, hexVal ch = some w ∧ w < 16 ∧ v = acc * 16 + w := by
  unfold hexStep at h
  split at h
  · next w hw =>
    have hl := hexDigit_lt hw
    refine ⟨w, by rw [← hexDigit_eq]; exact hw, hl, ?_⟩
    have : (Res.ok ((acc <<< 4) ||| w) : Res Nat) = .ok v := h
    injection this with this
    rw [← this, shl4_or _ _ hl]
  · cases h


theorem or80 : ∀ y, y < 64 → 0x80 ||| y = 0x80 + y := by decide
theorem orC0 : ∀ y, y < 32 → 0xC0 ||| y = 0xC0 + y := by decide
theorem orE0 : ∀ y, y < 16 → 0xE0 ||| y = 0xE0 + y := by decide
theorem orF0 : ∀ y, y < 8 → 0xF0 ||| y = 0xF0 + y := by decide
theorem and3F (x : Nat) : x &&& 0x3F = x % 64 := Nat.and_two_pow_sub_one_eq_mod x 6
theorem and1F (x : Nat) : x &&& 0x1F = x % 32 := Nat.and_two_pow_sub_one_eq_mod x 5
theorem and0F (x : Nat) : x &&& 0x0F = x % 16 := Nat.and_two_pow_sub_one_eq_mod x 4
theorem and07 (x : Nat) : x &&& 0x07 = x % 8 := Nat.and_two_pow_sub_one_eq_mod x 3
theorem shr6 (x : Nat) : x >>> 6 = x / 64 := by rw [Nat.shiftRight_eq_div_pow]
theorem shr12 (x : Nat) : x >>> 12 = x / 4096 := by rw [Nat.shiftRight_eq_div_pow]
theorem shr18 (x : Nat) : x >>> 18 = x / 262144 := by rw [Nat.shiftRight_eq_div_pow]

/-- the shifts and masks of `append_utf8` compute the RFC 3629 encoding of every scalar value -/
theorem utf8Encode_appendUtf8 (cp : Nat) (h1 : cp < 0x110000) (h2 : ¬(0xD800 ≤ cp ∧ cp ≤ 0xDFFF)) :
    utf8Encode cp = some (appendUtf8 cp) := by
  unfold utf8Encode appendUtf8
  simp only [and3F, and1F, and0F, and07, shr6, shr12, shr18]
  by_cases c1 : cp < 0x80
  · simp [c1, show cp ≤ 0x7F by omega]
  by_cases c2 : cp < 0x800
  · simp only [c1, c2, if_false, if_true, show ¬ cp ≤ 0x7F by omega, show cp ≤ 0x7FF by omega]
    rw [orC0 _ (by omega), or80 _ (by omega)]
    congr 3; omega
  by_cases c3 : cp < 0x10000
  · simp only [c1, c2, c3, h2, if_false, if_true, show ¬ cp ≤ 0x7F by omega, show ¬ cp ≤ 0x7FF by omega, show cp ≤ 0xFFFF by omega]
    rw [orE0 _ (by omega), or80 _ (by omega), or80 _ (by omega)]
    congr 3; omega
  · simp only [c1, c2, c3, h1, h2, if_false, if_true, show ¬ cp ≤ 0x7F by omega, show ¬ cp ≤ 0x7FF by omega, show ¬ cp ≤ 0xFFFF by omega]
    rw [orF0 _ (by omega), or80 _ (by omega), or80 _ (by omega), or80 _ (by omega)]
    congr 3; omega

theorem combine_eq (cp lo : Nat) : 0x10000 + ((cp - 0xD800) <<< 10) + (lo - 0xDC00) = combineSurrogates cp lo := by
  unfold combineSurrogates
  simp [Nat.shiftLeft_eq]


/-- what is left of the document at a cursor position -/
def rem (inp : Input) (pos : Nat) : List Nat := inp.toList.drop pos

theorem rawAt_ok {inp : Input} {pos b : Nat} (h : rawAt inp pos = .ok b) : inp[pos]? = some b := by
  unfold rawAt at h
  split at h
  · next hb => injection h with h; rw [hb, h]
  · cases h

theorem rem_of_rawAt {inp : Input} {pos b : Nat} (h : rawAt inp pos = .ok b) :
    rem inp pos = b :: rem inp (pos + 1) := by
  have h' := rawAt_ok h
  obtain ⟨hlt, hb⟩ := Array.getElem?_eq_some_iff.mp h'
  unfold rem
  rw [List.drop_eq_getElem_cons (by simpa using hlt)]
  simp [← hb]

theorem parseHex4_ok {inp : Input} {pos v p' : Nat} (h : parseHex4 inp pos = .ok (v, p')) :
    ∃ a b c d, rem inp pos = a :: b :: c :: d :: rem inp p' ∧ hex4 a b c d = some v ∧ p' = pos + 4 := by
  unfold parseHex4 at h
  split at h
  · cases h
  cases ha : rawAt inp pos with
  | ok a =>
    cases hb : rawAt inp (pos + 1) with
    | ok b =>
      cases hc : rawAt inp (pos + 2) with
      | ok c =>
        cases hd : rawAt inp (pos + 3) with
        | ok d =>
          rw [ha, hb, hc, hd] at h
          simp only [ok_bind] at h
          cases h1 : hexStep 0 a with
          | ok v1 =>
            cases h2 : hexStep v1 b with
            | ok v2 =>
              cases h3 : hexStep v2 c with
              | ok v3 =>
                cases h4 : hexStep v3 d with
                | ok v4 =>
                  rw [h1] at h; simp only [ok_bind] at h
                  rw [h2] at h; simp only [ok_bind] at h
                  rw [h3] at h; simp only [ok_bind] at h
                  rw [h4] at h; simp only [ok_bind] at h
                  have h : (Res.ok (v4, pos + 4) : Res (Nat × Nat)) = .ok (v, p') := h
                  injection h with h
                  injection h with hv hp
                  obtain ⟨w1, e1, l1, r1⟩ := hexStep_ok h1
                  obtain ⟨w2, e2, l2, r2⟩ := hexStep_ok h2
                  obtain ⟨w3, e3, l3, r3⟩ := hexStep_ok h3
                  obtain ⟨w4, e4, l4, r4⟩ := hexStep_ok h4
                  refine ⟨a, b, c, d, ?_, ?_, hp.symm⟩
                  · rw [rem_of_rawAt ha, rem_of_rawAt hb, rem_of_rawAt hc, rem_of_rawAt hd, ← hp]
                  · unfold hex4; rw [e1, e2, e3, e4]; simp only; congr 1; omega
                | _ => rw [h1] at h; simp only [ok_bind] at h; rw [h2] at h; simp only [ok_bind] at h; rw [h3] at h; simp only [ok_bind] at h; rw [h4] at h; cases h
              | _ => rw [h1] at h; simp only [ok_bind] at h; rw [h2] at h; simp only [ok_bind] at h; rw [h3] at h; cases h
            | _ => rw [h1] at h; simp only [ok_bind] at h; rw [h2] at h; cases h
          | _ => rw [h1] at h; cases h
        | _ => rw [ha, hb, hc, hd] at h; cases h
      | _ => rw [ha, hb, hc] at h; cases h
    | _ => rw [ha, hb] at h; cases h
  | _ => rw [ha] at h; cases h


theorem bind_ok {α β : Type} {r : Res α} {f : α → Res β} {b : β} (h : (r >>= f) = .ok b) :
    ∃ a, r = .ok a ∧ f a = .ok b := by
  cases r with
  | ok a => exact ⟨a, rfl, h⟩
  | err m => cases h
  | oob => cases h
  | outOfFuel => cases h

theorem hexVal_lt {ch w : Nat} (h : hexVal ch = some w) : w < 16 := by
  rw [← hexDigit_eq] at h; exact hexDigit_lt h

theorem hex4_lt {a b c d v : Nat} (h : hex4 a b c d = some v) : v < 0x10000 := by
  unfold hex4 at h
  split at h
  · next w x y z hw hx hy hz =>
    have := hexVal_lt hw; have := hexVal_lt hx; have := hexVal_lt hy; have := hexVal_lt hz
    injection h with h; omega
  · cases h

/-- `parse_unicode_escape` agrees with RFC 8259: what it consumed after `\u` and what it produced -/
theorem parseUnicodeEscape_ok {inp : Input} {pos p' : Nat} {bytes : List Nat}
    (h : parseUnicodeEscape inp pos = .ok (bytes, p')) (strict : Bool) :
    decodeStr strict (0x5C :: 0x75 :: rem inp pos) = prepend (some bytes) (decodeStr strict (rem inp p')) := by
  unfold parseUnicodeEscape at h
  obtain ⟨⟨cp, p1⟩, h4, h⟩ := bind_ok h
  obtain ⟨a, b, c, d, hrem, hx, hp1⟩ := parseHex4_ok h4
  have hcp := hex4_lt hx
  simp only at h
  split at h
  · cases h
  next hnl =>
  split at h
  · next hhi =>
    split at h
    · cases h
    obtain ⟨bs, hbs, h⟩ := bind_ok h
    split at h
    · cases h
    next hbs5c =>
    obtain ⟨bu, hbu, h⟩ := bind_ok h
    split at h
    · cases h
    next hbu75 =>
    obtain ⟨⟨lo, p2⟩, hl4, h⟩ := bind_ok h
    obtain ⟨l1, l2, l3, l4, hrem2, hlx, hp2⟩ := parseHex4_ok hl4
    simp only at h
    split at h
    · cases h
    next hlo =>
    have h := Res.ok.inj h
    obtain ⟨hb, hp⟩ := Prod.mk.inj h
    have e1 : bs = 0x5C := by simpa using hbs5c
    have e2 : bu = 0x75 := by simpa using hbu75
    subst e1 e2
    rw [hrem, rem_of_rawAt hbs, rem_of_rawAt hbu, hrem2, ← hp]
    rw [decodeStr_pair strict a b c d l1 l2 l3 l4 cp lo _ hx (by simp [isHighSurrogate]; omega) hlx
      (by simp [isLowSurrogate]; omega)]
    rw [← hb, combine_eq]
    have hr : combineSurrogates cp lo < 0x110000 ∧ 0x10000 ≤ combineSurrogates cp lo := by
      unfold combineSurrogates; omega
    rw [utf8Encode_appendUtf8 _ hr.1 (by omega)]
  · next hnh =>
    have h : (Res.ok (appendUtf8 cp, p1) : Res (List Nat × Nat)) = .ok (bytes, p') := h
    injection h with h
    injection h with hb hp
    rw [hrem, ← hp, ← hb]
    rw [decodeStr_bmp strict a b c d cp _ hx (by simp [isHighSurrogate]; omega) (by simp [isLowSurrogate]; omega)]
    rw [utf8Encode_appendUtf8 cp (by omega) (by omega)]


theorem get_ok {inp : Input} {pos ch p1 : Nat} (h : UpdateJson.get inp pos = .ok (ch, p1)) :
    rawAt inp pos = .ok ch ∧ p1 = pos + 1 := by
  unfold UpdateJson.get at h
  obtain ⟨b, hb, h⟩ := bind_ok h
  have h := Res.ok.inj h
  obtain ⟨h1, h2⟩ := Prod.mk.inj h
  exact ⟨by rw [hb, h1], h2.symm⟩

theorem prepend_some_some (p s rest : List Nat) : prepend (some p) (some (s, rest)) = some (p ++ s, rest) := rfl

/-- the string loop computes the RFC 8259 decoding of what it consumes -/
theorem strLoop_ok {inp : Input} (fuel : Nat) {pos p' : Nat} {out s : List Nat}
    (h : strLoop inp fuel pos out = .ok (s, p')) :
    ∃ s', s = out ++ s' ∧ decodeStr false (rem inp pos) = some (s', rem inp p') := by
  induction fuel generalizing pos out with
  | zero => unfold strLoop at h; cases h
  | succ fuel ih =>
    unfold strLoop at h
    split at h
    · cases h
    split at h
    · next ch p1 hget =>
      obtain ⟨hch, hp1⟩ := get_ok hget
      subst hp1
      have hrem := rem_of_rawAt hch
      split at h
      · next hq =>
        have h := Res.ok.inj h
        obtain ⟨h1, h2⟩ := Prod.mk.inj h
        subst hq
        exact ⟨[], by simp [h1], by rw [hrem, ← h2]; exact decodeStr_quote false _⟩
      next hnq =>
      split at h
      · next hbs =>
        subst hbs
        split at h
        · cases h
        split at h
        · next esc p2 hget2 =>
          obtain ⟨hesc, hp2⟩ := get_ok hget2
          subst hp2
          have hrem2 := rem_of_rawAt hesc
          have simple : ∀ v, simpleEscape esc = some v → strLoop inp fuel (pos + 1 + 1) (out ++ [v]) = .ok (s, p') →
              ∃ s', s = out ++ s' ∧ decodeStr false (rem inp pos) = some (s', rem inp p') := by
            intro v hv hl
            obtain ⟨s2, hs2, hd2⟩ := ih hl
            refine ⟨[v] ++ s2, by rw [hs2, List.append_assoc], ?_⟩
            rw [hrem, hrem2, decodeStr_simple false esc v _ hv, hd2]
            rfl
          split at h
          · next h3 =>
            rcases h3 with h3 | h3 | h3 <;> subst h3 <;> exact simple _ (by decide) h
          split at h
          · next h3 => subst h3; exact simple _ (by decide) h
          split at h
          · next h3 => subst h3; exact simple _ (by decide) h
          split at h
          · next h3 => subst h3; exact simple _ (by decide) h
          split at h
          · next h3 => subst h3; exact simple _ (by decide) h
          split at h
          · next h3 => subst h3; exact simple _ (by decide) h
          split at h
          · next h3 =>
            subst h3
            split at h
            · next bytes p3 hu =>
              obtain ⟨s2, hs2, hd2⟩ := ih h
              refine ⟨bytes ++ s2, by rw [hs2, List.append_assoc], ?_⟩
              rw [hrem, hrem2, parseUnicodeEscape_ok hu false, hd2]
              rfl
            all_goals cases h
          · cases h
        all_goals cases h
      · next hnb =>
        obtain ⟨s2, hs2, hd2⟩ := ih h
        refine ⟨[ch] ++ s2, by rw [hs2, List.append_assoc], ?_⟩
        rw [hrem, decodeStr_plain false ch _ hnq hnb (by intro hh; cases hh), hd2]
        rfl
    all_goals cases h

theorem expect_ok {inp : Input} {pos c p1 : Nat} (h : expect inp pos c = .ok p1) :
    rawAt inp pos = .ok c ∧ p1 = pos + 1 := by
  unfold expect at h
  split at h
  · cases h
  obtain ⟨b, hb, h⟩ := bind_ok h
  split at h
  · next hbc =>
    have h : (Res.ok (pos + 1) : Res Nat) = Res.ok p1 := h
    exact ⟨by rw [hb, hbc], (Res.ok.inj h).symm⟩
  · cases h

theorem parseString_ok {inp : Input} {pos p' : Nat} {s : List Nat} (h : parseString inp pos = .ok (s, p')) :
    StrAt inp pos s := by
  unfold parseString at h
  obtain ⟨p1, h1, h⟩ := bind_ok h
  obtain ⟨hq, hp1⟩ := expect_ok h1
  subst hp1
  obtain ⟨s2, hs2, hd⟩ := strLoop_ok _ h
  refine ⟨rawAt_ok hq, p', ?_⟩
  simp only [List.nil_append] at hs2
  rw [hs2]; exact hd


theorem arrLoop_ok {inp : Input} {pv : Nat → Res (JV × Nat)} {Q : JV → Prop}
    (hpv : ∀ p v p', pv p = .ok (v, p') → Q v) (fuel : Nat) {pos p' : Nat} {acc : List JV} {v : JV}
    (hacc : ∀ x ∈ acc, Q x) (h : arrLoop inp pv fuel pos acc = .ok (v, p')) :
    ∃ xs, v = .arr xs ∧ ∀ x ∈ xs, Q x := by
  induction fuel generalizing pos acc with
  | zero => unfold arrLoop at h; cases h
  | succ fuel ih =>
    unfold arrLoop at h
    obtain ⟨p1, _, h⟩ := bind_ok h
    obtain ⟨⟨child, p2⟩, hc, h⟩ := bind_ok h
    simp only at h
    obtain ⟨p3, _, h⟩ := bind_ok h
    obtain ⟨⟨close, p4⟩, _, h⟩ := bind_ok h
    simp only at h
    have hacc' : ∀ x ∈ acc ++ [child], Q x := by
      intro x hx
      rcases List.mem_append.mp hx with hx | hx
      · exact hacc x hx
      · simp at hx; subst hx; exact hpv _ _ _ hc
    split at h
    · have h := Res.ok.inj h
      obtain ⟨h1, _⟩ := Prod.mk.inj h
      exact ⟨_, h1.symm, hacc'⟩
    · obtain ⟨p5, _, h⟩ := bind_ok h
      obtain ⟨p6, _, h⟩ := bind_ok h
      exact ih hacc' h

theorem parseArray_ok {inp : Input} {pv : Nat → Res (JV × Nat)} {Q : JV → Prop}
    (hpv : ∀ p v p', pv p = .ok (v, p') → Q v) {pos p' : Nat} {v : JV}
    (h : parseArray inp pv pos = .ok (v, p')) : ∃ xs, v = .arr xs ∧ ∀ x ∈ xs, Q x := by
  unfold parseArray at h
  obtain ⟨p1, _, h⟩ := bind_ok h
  obtain ⟨p2, _, h⟩ := bind_ok h
  obtain ⟨⟨close, p3⟩, _, h⟩ := bind_ok h
  simp only at h
  split at h
  · have h := Res.ok.inj h
    obtain ⟨h1, _⟩ := Prod.mk.inj h
    exact ⟨[], h1.symm, by simp⟩
  · exact arrLoop_ok hpv _ (by simp) h

theorem peek_ok {inp : Input} {pos ch : Nat} (h : peek inp pos = .ok ch) : rawAt inp pos = .ok ch := by
  unfold peek at h
  split at h
  · cases h
  · exact h

theorem objLoop_ok {inp : Input} {pv : Nat → Res (JV × Nat)} {Q : JV → Prop}
    (hpv : ∀ p v p', pv p = .ok (v, p') → Q v) (fuel : Nat) {pos p' : Nat}
    {acc : List (Nat × List Nat × JV)} {v : JV}
    (hacc : ∀ m ∈ acc, StrAt inp m.1 m.2.1 ∧ Q m.2.2) (h : objLoop inp pv fuel pos acc = .ok (v, p')) :
    ∃ ms, v = .obj ms ∧ ∀ m ∈ ms, StrAt inp m.1 m.2.1 ∧ Q m.2.2 := by
  induction fuel generalizing pos acc with
  | zero => unfold objLoop at h; cases h
  | succ fuel ih =>
    unfold objLoop at h
    obtain ⟨p1, _, h⟩ := bind_ok h
    obtain ⟨ch, _, h⟩ := bind_ok h
    split at h
    · cases h
    obtain ⟨⟨key, pk⟩, hk, h⟩ := bind_ok h
    simp only at h
    obtain ⟨p2, _, h⟩ := bind_ok h
    obtain ⟨p3, _, h⟩ := bind_ok h
    obtain ⟨p4, _, h⟩ := bind_ok h
    obtain ⟨⟨child, p5⟩, hc, h⟩ := bind_ok h
    simp only at h
    obtain ⟨p6, _, h⟩ := bind_ok h
    obtain ⟨⟨close, p7⟩, _, h⟩ := bind_ok h
    simp only at h
    have hacc' : ∀ m ∈ acc ++ [(p1, key, child)], StrAt inp m.1 m.2.1 ∧ Q m.2.2 := by
      intro m hm
      rcases List.mem_append.mp hm with hm | hm
      · exact hacc m hm
      · simp at hm; subst hm; exact ⟨parseString_ok hk, hpv _ _ _ hc⟩
    split at h
    · have h := Res.ok.inj h
      obtain ⟨h1, _⟩ := Prod.mk.inj h
      exact ⟨_, h1.symm, hacc'⟩
    · obtain ⟨p8, _, h⟩ := bind_ok h
      obtain ⟨p9, _, h⟩ := bind_ok h
      exact ih hacc' h

theorem parseObject_ok {inp : Input} {pv : Nat → Res (JV × Nat)} {Q : JV → Prop}
    (hpv : ∀ p v p', pv p = .ok (v, p') → Q v) {pos p' : Nat} {v : JV}
    (h : parseObject inp pv pos = .ok (v, p')) :
    ∃ ms, v = .obj ms ∧ ∀ m ∈ ms, StrAt inp m.1 m.2.1 ∧ Q m.2.2 := by
  unfold parseObject at h
  obtain ⟨p1, _, h⟩ := bind_ok h
  obtain ⟨p2, _, h⟩ := bind_ok h
  obtain ⟨⟨close, p3⟩, _, h⟩ := bind_ok h
  simp only at h
  split at h
  · have h := Res.ok.inj h
    obtain ⟨h1, _⟩ := Prod.mk.inj h
    exact ⟨[], h1.symm, by simp⟩
  · exact objLoop_ok hpv _ (by simp) h

/-- what a successful `parse_value` with budget `d` returns -/
def GoodTree (inp : Input) (d : Nat) (v : JV) : Prop := AllStr (StrAt inp) v ∧ DepthLe d v

theorem parseBoolean_ok {inp : Input} {pos p' : Nat} {v : JV} (h : parseBoolean inp pos = .ok (v, p')) :
    ∃ b, v = .bool b := by
  unfold parseBoolean at h
  obtain ⟨⟨t, p⟩, _, h⟩ := bind_ok h
  simp only at h
  split at h
  · exact ⟨true, (Prod.mk.inj (Res.ok.inj h)).1.symm⟩
  · obtain ⟨⟨f, p2⟩, _, h⟩ := bind_ok h
    simp only at h
    split at h
    · exact ⟨false, (Prod.mk.inj (Res.ok.inj h)).1.symm⟩
    · cases h

theorem parseNull_ok {inp : Input} {pos p' : Nat} {v : JV} (h : parseNull inp pos = .ok (v, p')) : v = .null := by
  unfold parseNull at h
  obtain ⟨⟨t, p⟩, _, h⟩ := bind_ok h
  simp only at h
  split at h
  · exact (Prod.mk.inj (Res.ok.inj h)).1.symm
  · cases h

theorem parseNumber_ok {inp : Input} {pos p' : Nat} {v : JV} (h : parseNumber inp pos = .ok (v, p')) :
    ∃ t, v = .num t := by
  unfold parseNumber at h
  obtain ⟨⟨m, p1⟩, _, h⟩ := bind_ok h
  simp only at h
  obtain ⟨p2, _, h⟩ := bind_ok h
  obtain ⟨p3, _, h⟩ := bind_ok h
  obtain ⟨p4, _, h⟩ := bind_ok h
  exact ⟨_, (Prod.mk.inj (Res.ok.inj h)).1.symm⟩

theorem parseValue_ok_step (inp : Input) (d : Nat)
    (ih : ∀ d', d = d' + 1 → ∀ p v p', parseValue inp d' p = .ok (v, p') → GoodTree inp d' v)
    {pos p' : Nat} {v : JV} (h : parseValue inp d pos = .ok (v, p')) : GoodTree inp d v := by
  unfold parseValue at h
  split at h
  · cases h
  split at h
  · next ch hch =>
    split at h
    · split at h
      · next s p hs =>
        have h1 := (Prod.mk.inj (Res.ok.inj h)).1
        subst h1
        exact ⟨AllStr.str _ _ (parseString_ok hs), DepthLe.str _ _ _⟩
      all_goals cases h
    split at h
    · split at h
      · cases h
      · rename_i d'
        split at h
        · obtain ⟨ms, hv, hms⟩ := parseObject_ok (Q := GoodTree inp d') (fun p v p' hp => ih d' rfl p v p' hp) h
          subst hv
          exact ⟨AllStr.obj _ (fun m hm => (hms m hm).1) (fun m hm => (hms m hm).2.1),
            DepthLe.obj _ _ (fun m hm => (hms m hm).2.2)⟩
        · obtain ⟨xs, hv, hxs⟩ := parseArray_ok (Q := GoodTree inp d') (fun p v p' hp => ih d' rfl p v p' hp) h
          subst hv
          exact ⟨AllStr.arr _ (fun x hx => (hxs x hx).1), DepthLe.arr _ _ (fun x hx => (hxs x hx).2)⟩
    split at h
    · obtain ⟨b, hb⟩ := parseBoolean_ok h; subst hb; exact ⟨AllStr.bool b, DepthLe.bool _ b⟩
    split at h
    · have := parseNull_ok h; subst this; exact ⟨AllStr.null, DepthLe.null _⟩
    split at h
    · obtain ⟨t, ht⟩ := parseNumber_ok h; subst ht; exact ⟨AllStr.num t, DepthLe.num _ t⟩
    · cases h
  all_goals cases h

theorem parseValue_ok (inp : Input) (d : Nat) {pos p' : Nat} {v : JV}
    (h : parseValue inp d pos = .ok (v, p')) : GoodTree inp d v := by
  induction d generalizing pos p' v with
  | zero => exact parseValue_ok_step inp 0 (fun d' hd => by omega) h
  | succ d ih =>
    exact parseValue_ok_step inp (d + 1) (fun d' hd p v p' hp => by
      have : d = d' := by omega
      subst this; exact ih hp) h

theorem parseDocument_ok {inp : Input} {v : JV} (h : parseDocument inp = .ok v) :
    GoodTree inp EphVerif.Gen.C38.kMaxJsonDepth v := by
  unfold parseDocument at h
  obtain ⟨p1, _, h⟩ := bind_ok h
  obtain ⟨⟨v', p2⟩, hv, h⟩ := bind_ok h
  simp only at h
  obtain ⟨p3, _, h⟩ := bind_ok h
  split at h
  · have := Res.ok.inj h; subst this; exact parseValue_ok inp _ hv
  · cases h

end EphVerif.C38L
