/-
Lemmas for C37: UTF-8 validity of escaped text, decoding of the record framing, one-line-ness.
-/
import EphVerif.Lemmas.C37Escape

namespace EphVerif.C37L
open EphVerif.LogEscape EphVerif.JsonSpec

theorem validUtf8_ascii_cons (b : Nat) (t : List Nat) (h : b < 0x80) : validUtf8 (b :: t) = validUtf8 t := by
  rw [validUtf8.eq_def]; simp [h]

theorem validUtf8_append_ascii (a t : List Nat) (h : ∀ b ∈ a, b < 0x80) : validUtf8 (a ++ t) = validUtf8 t := by
  induction a with
  | nil => rfl
  | cons x xs ih =>
    simp only [List.cons_append]
    rw [validUtf8_ascii_cons _ _ (h x (by simp))]
    exact ih (fun b hb => h b (by simp [hb]))

theorem escapeByte_ascii (ch : Nat) (h : ch < 0x80) : ∀ b ∈ escapeByte ch, b < 0x80 := by
  unfold escapeByte
  repeat' split
  all_goals try (intro b hb; simp at hb; omega)
  · intro b hb
    have h1 := hexUpper_ge (ch / 16) (by omega)
    have h2 := hexUpper_ge (ch % 16) (by omega)
    simp at hb
    omega

theorem escapeByte_high (ch : Nat) (h : 0x80 ≤ ch) : escapeByte ch = [ch] := by
  unfold escapeByte
  repeat' split
  all_goals first | rfl | omega

theorem validUtf8_escape_append (s t : List Nat) (hs : validUtf8 s = true) (ht : validUtf8 t = true) :
    validUtf8 (escape s ++ t) = true := by
  fun_induction validUtf8 s
  case case1 => simpa [escape] using ht
  case case2 b0 rest h ih =>
    simp only [escape, List.append_assoc]
    rw [validUtf8_append_ascii _ _ (escapeByte_ascii b0 h)]
    exact ih hs
  case case3 b0 h0 h b1 r ih =>
    simp only [Bool.and_eq_true] at hs
    have hc : 0x80 ≤ b1 := by have := hs.1; simp [isCont] at this; omega
    simp only [escape, escapeByte_high b0 (by omega), escapeByte_high b1 hc, List.cons_append, List.nil_append]
    rw [validUtf8.eq_def]
    simp [h0, h, hs.1, ih hs.2]
  case case5 b0 h0 h1 h b1 b2 r ih =>
    simp only [Bool.and_eq_true] at hs
    obtain ⟨⟨⟨⟨c1, c2⟩, c3⟩, c4⟩, c5⟩ := hs
    have hc1 : 0x80 ≤ b1 := by simp [isCont] at c1; omega
    have hc2 : 0x80 ≤ b2 := by simp [isCont] at c2; omega
    simp only [escape, escapeByte_high b0 (by omega), escapeByte_high b1 hc1, escapeByte_high b2 hc2,
      List.cons_append, List.nil_append]
    rw [validUtf8.eq_def]
    simp only [h0, h1, h, c1, c2, c3, c4, ih c5]
    simp
  case case7 b0 h0 h1 h2 h b1 b2 b3 r ih =>
    simp only [Bool.and_eq_true] at hs
    obtain ⟨⟨⟨⟨⟨c1, c2⟩, c3⟩, c4⟩, c5⟩, c6⟩ := hs
    have hc1 : 0x80 ≤ b1 := by simp [isCont] at c1; omega
    have hc2 : 0x80 ≤ b2 := by simp [isCont] at c2; omega
    have hc3 : 0x80 ≤ b3 := by simp [isCont] at c3; omega
    simp only [escape, escapeByte_high b0 (by omega), escapeByte_high b1 hc1, escapeByte_high b2 hc2,
      escapeByte_high b3 hc3, List.cons_append, List.nil_append]
    rw [validUtf8.eq_def]
    simp only [h0, h1, h2, h, c1, c2, c3, c4, c5, ih c6]
    simp
  all_goals simp at hs

theorem renderField_append (k v t : List Nat) :
    renderField (k, v) ++ t = 0x22 :: (escape k ++ 0x22 :: 0x3A :: 0x22 :: (escape v ++ 0x22 :: t)) := by
  simp [renderField, quoted, List.append_assoc]

theorem decodeFlatMembers_field (fuel : Nat) (k v : List Nat) (sep : Nat) (t3 : List Nat) :
    decodeFlatMembers (fuel + 1) (renderField (k, v) ++ sep :: t3) =
      if sep = 0x7D then some ([(k, v)], t3)
      else if sep = 0x2C then
        match decodeFlatMembers fuel t3 with
        | some (ms, t4) => some ((k, v) :: ms, t4)
        | none => none
      else none := by
  rw [renderField_append, decodeFlatMembers.eq_def]
  simp only [if_true, decodeStr_escape, and_self]
  rfl

theorem decodeFlatMembers_render (fs : List (List Nat × List Nat)) (hne : fs ≠ []) (t : List Nat) (fuel : Nat)
    (hf : fs.length ≤ fuel) : decodeFlatMembers fuel (renderFields fs ++ 0x7D :: t) = some (fs, t) := by
  induction fs generalizing fuel with
  | nil => exact absurd rfl hne
  | cons f rest ih =>
    obtain ⟨k, v⟩ := f
    cases fuel with
    | zero => simp at hf
    | succ fuel =>
      cases rest with
      | nil =>
        simp only [renderFields]
        rw [decodeFlatMembers_field]; simp
      | cons g rest' =>
        simp only [renderFields, List.append_assoc, List.cons_append]
        rw [decodeFlatMembers_field]
        have := ih (by simp) fuel (by simp at hf ⊢; omega)
        simp [this]

theorem strMember_append (k v t : List Nat) :
    (quoted k ++ 0x3A :: quoted v) ++ t = 0x22 :: (escape k ++ 0x22 :: 0x3A :: 0x22 :: (escape v ++ 0x22 :: t)) := by
  simp [quoted, List.append_assoc]

theorem decodeTop_strMember (fuel : Nat) (k v : List Nat) (sep : Nat) (t3 : List Nat) :
    decodeTopMembers (fuel + 1) ((quoted k ++ 0x3A :: quoted v) ++ sep :: t3) =
      if sep = 0x7D then some ([(k, Val.s v)], t3)
      else if sep = 0x2C then
        match decodeTopMembers fuel t3 with
        | some (ms, t4) => some ((k, Val.s v) :: ms, t4)
        | none => none
      else none := by
  rw [strMember_append, decodeTopMembers.eq_def]
  simp only [if_true, decodeStr_escape, Option.map]
  rfl

theorem renderFields_head (fs : List (List Nat × List Nat)) (hne : fs ≠ []) : ∃ tl, renderFields fs = 0x22 :: tl := by
  match fs with
  | [] => exact absurd rfl hne
  | [f] => exact ⟨escape f.1 ++ 0x22 :: 0x3A :: quoted f.2, by simp [renderFields, renderField, quoted]⟩
  | f :: g :: rest => exact ⟨escape f.1 ++ 0x22 :: 0x3A :: quoted f.2 ++ 0x2C :: renderFields (g :: rest), by simp [renderFields, renderField, quoted]⟩

theorem length_renderFields (fs : List (List Nat × List Nat)) : fs.length ≤ (renderFields fs).length := by
  match fs with
  | [] => simp
  | [f] => simp [renderFields, renderField, quoted]
  | f :: g :: rest =>
    have := length_renderFields (g :: rest)
    simp [renderFields, renderField, quoted] at this ⊢; omega

theorem decodeFlatObj_render (fs : List (List Nat × List Nat)) (hne : fs ≠ []) (t : List Nat) :
    decodeFlatObj (0x7B :: (renderFields fs ++ 0x7D :: t)) = some (fs, t) := by
  obtain ⟨tl, htl⟩ := renderFields_head fs hne
  have hlen := length_renderFields fs
  have key := decodeFlatMembers_render fs hne t ((tl ++ 0x7D :: t).length + 1) (by
    rw [htl] at hlen; simp at hlen ⊢; omega)
  rw [htl] at key ⊢
  simp only [List.cons_append] at key ⊢
  rw [decodeFlatObj.eq_def]
  simpa using key

theorem decodeTop_objMember (fuel : Nat) (k : List Nat) (fs : List (List Nat × List Nat)) (hne : fs ≠ []) (t3 : List Nat) :
    decodeTopMembers (fuel + 1) (quoted k ++ 0x3A :: 0x7B :: (renderFields fs ++ 0x7D :: 0x7D :: t3)) =
      some ([(k, Val.o fs)], t3) := by
  have h1 : quoted k ++ 0x3A :: 0x7B :: (renderFields fs ++ 0x7D :: 0x7D :: t3)
      = 0x22 :: (escape k ++ 0x22 :: 0x3A :: 0x7B :: (renderFields fs ++ 0x7D :: 0x7D :: t3)) := by
    simp [quoted, List.append_assoc]
  rw [h1, decodeTopMembers.eq_def]
  simp only [if_true, decodeStr_escape, decodeFlatObj_render fs hne, Option.map]
  simp

def recordOf (ts level event : List Nat) (fields : List (List Nat × List Nat)) : List (List Nat × Val) :=
  [(keyTs, Val.s ts), (keyLevel, Val.s level), (keyEvent, Val.s event)] ++
    (if fields.isEmpty then [] else [(keyFields, Val.o fields)])


def recordTail (fields : List (List Nat × List Nat)) : List Nat :=
  if fields.isEmpty then [0x7D, 0x0A]
  else 0x2C :: (quoted keyFields ++ 0x3A :: 0x7B :: (renderFields fields ++ 0x7D :: 0x7D :: [0x0A]))

theorem logRecord_eq (ts level event : List Nat) (fields : List (List Nat × List Nat)) :
    logRecord ts level event fields =
      0x7B :: ((quoted keyTs ++ 0x3A :: quoted ts) ++ 0x2C :: ((quoted keyLevel ++ 0x3A :: quoted level) ++
        0x2C :: ((quoted keyEvent ++ 0x3A :: quoted event) ++ recordTail fields))) := by
  unfold logRecord recordTail
  split <;> simp [List.append_assoc]

theorem decodeLine_logRecord (ts level event : List Nat) (fields : List (List Nat × List Nat)) :
    decodeLine (logRecord ts level event fields) = some (recordOf ts level event fields) := by
  rw [logRecord_eq, decodeLine.eq_def]
  simp only [if_true]
  generalize hfuel : (List.length _ + 1) = fuel
  obtain ⟨n, rfl⟩ : ∃ n, fuel = n + 4 := ⟨fuel - 4, by
    subst hfuel; simp [quoted, List.length_append]; omega⟩
  rw [decodeTop_strMember, decodeTop_strMember]
  simp only [show (0x2C : Nat) ≠ 0x7D by decide, if_false, if_true]
  unfold recordTail recordOf
  cases hf : fields with
  | nil =>
    simp only [List.isEmpty_nil, if_true]
    rw [decodeTop_strMember]
    simp
  | cons f fs =>
    simp only [List.isEmpty_cons, Bool.false_eq_true, if_false]
    rw [decodeTop_strMember]
    simp only [show (0x2C : Nat) ≠ 0x7D by decide, if_false, if_true]
    rw [decodeTop_objMember _ _ _ (by simp)]
    simp

/-! one line -/
def NoCtl (l : List Nat) : Prop := ∀ b ∈ l, 0x20 ≤ b

theorem NoCtl.append {a b : List Nat} (ha : NoCtl a) (hb : NoCtl b) : NoCtl (a ++ b) := by
  intro x hx; rcases List.mem_append.mp hx with h | h
  · exact ha x h
  · exact hb x h

theorem NoCtl.cons {x : Nat} {l : List Nat} (hx : 0x20 ≤ x) (hl : NoCtl l) : NoCtl (x :: l) := by
  intro y hy; rcases List.mem_cons.mp hy with h | h
  · omega
  · exact hl y h

theorem NoCtl.nil : NoCtl [] := by intro b hb; simp at hb

theorem noCtl_quoted (s : List Nat) : NoCtl (quoted s) :=
  NoCtl.cons (by decide) (NoCtl.append (escape_noControl s) (NoCtl.cons (by decide) NoCtl.nil))

theorem noCtl_renderField (f : List Nat × List Nat) : NoCtl (renderField f) :=
  NoCtl.append (noCtl_quoted _) (NoCtl.cons (by decide) (noCtl_quoted _))

theorem noCtl_renderFields (fs : List (List Nat × List Nat)) : NoCtl (renderFields fs) := by
  match fs with
  | [] => exact NoCtl.nil
  | [f] => exact noCtl_renderField f
  | f :: g :: rest =>
    exact NoCtl.append (noCtl_renderField f) (NoCtl.cons (by decide) (noCtl_renderFields (g :: rest)))

theorem oneLine_logRecord (ts level event : List Nat) (fields : List (List Nat × List Nat)) :
    oneLine (logRecord ts level event fields) := by
  refine ⟨0x7B :: (quoted keyTs ++ 0x3A :: quoted ts) ++ 0x2C :: (quoted keyLevel ++ 0x3A :: quoted level) ++ 0x2C ::
    (quoted keyEvent ++ 0x3A :: quoted event) ++
    (if fields.isEmpty then [] else 0x2C :: (quoted keyFields ++ 0x3A :: 0x7B :: (renderFields fields ++ [0x7D]))) ++ [0x7D], ?_, ?_⟩
  · simp [logRecord, List.append_assoc]
  · have hm (k v : List Nat) : NoCtl (quoted k ++ 0x3A :: quoted v) :=
      NoCtl.append (noCtl_quoted _) (NoCtl.cons (by decide) (noCtl_quoted _))
    refine NoCtl.append (NoCtl.append (NoCtl.append (NoCtl.append (NoCtl.cons (by decide) (hm _ _))
      (NoCtl.cons (by decide) (hm _ _))) (NoCtl.cons (by decide) (hm _ _))) ?_) (NoCtl.cons (by decide) NoCtl.nil)
    split
    · exact NoCtl.nil
    · exact NoCtl.cons (by decide) (NoCtl.append (noCtl_quoted _) (NoCtl.cons (by decide) (NoCtl.cons (by decide)
        (NoCtl.append (noCtl_renderFields _) (NoCtl.cons (by decide) NoCtl.nil)))))

/-! valid UTF-8 -/
theorem validUtf8_quoted_append (s t : List Nat) (hs : validUtf8 s = true) (ht : validUtf8 t = true) :
    validUtf8 (quoted s ++ t) = true := by
  have : quoted s ++ t = 0x22 :: (escape s ++ 0x22 :: t) := by simp [quoted, List.append_assoc]
  rw [this, validUtf8_ascii_cons _ _ (by decide)]
  exact validUtf8_escape_append s _ hs (by rw [validUtf8_ascii_cons _ _ (by decide)]; exact ht)

theorem validUtf8_member_append (k v t : List Nat) (hk : validUtf8 k = true) (hv : validUtf8 v = true)
    (ht : validUtf8 t = true) : validUtf8 ((quoted k ++ 0x3A :: quoted v) ++ t) = true := by
  have : (quoted k ++ 0x3A :: quoted v) ++ t = quoted k ++ (0x3A :: (quoted v ++ t)) := by simp [List.append_assoc]
  rw [this]
  exact validUtf8_quoted_append k _ hk (by
    rw [validUtf8_ascii_cons _ _ (by decide)]; exact validUtf8_quoted_append v t hv ht)

theorem validUtf8_renderFields_append (fs : List (List Nat × List Nat)) (t : List Nat)
    (hfs : ∀ f ∈ fs, validUtf8 f.1 = true ∧ validUtf8 f.2 = true) (ht : validUtf8 t = true) :
    validUtf8 (renderFields fs ++ t) = true := by
  match fs with
  | [] => simpa [renderFields] using ht
  | [f] =>
    have := hfs f (by simp)
    simp only [renderFields, renderField]
    exact validUtf8_member_append _ _ _ this.1 this.2 ht
  | f :: g :: rest =>
    have hf := hfs f (by simp)
    have : renderFields (f :: g :: rest) ++ t =
        (quoted f.1 ++ 0x3A :: quoted f.2) ++ (0x2C :: (renderFields (g :: rest) ++ t)) := by
      simp [renderFields, renderField, List.append_assoc]
    rw [this]
    refine validUtf8_member_append _ _ _ hf.1 hf.2 ?_
    rw [validUtf8_ascii_cons _ _ (by decide)]
    exact validUtf8_renderFields_append (g :: rest) t (fun x hx => hfs x (by simp [hx])) ht

theorem validUtf8_logRecord (ts level event : List Nat) (fields : List (List Nat × List Nat))
    (hts : validUtf8 ts = true) (hlv : validUtf8 level = true) (hev : validUtf8 event = true)
    (hfs : ∀ f ∈ fields, validUtf8 f.1 = true ∧ validUtf8 f.2 = true) :
    validUtf8 (logRecord ts level event fields) = true := by
  rw [logRecord_eq, validUtf8_ascii_cons _ _ (by decide)]
  refine validUtf8_member_append _ _ _ (by decide) hts ?_
  rw [validUtf8_ascii_cons _ _ (by decide)]
  refine validUtf8_member_append _ _ _ (by decide) hlv ?_
  rw [validUtf8_ascii_cons _ _ (by decide)]
  refine validUtf8_member_append _ _ _ (by decide) hev ?_
  unfold recordTail
  split
  · decide
  · rw [validUtf8_ascii_cons _ _ (by decide)]
    refine validUtf8_quoted_append _ _ (by decide) ?_
    rw [validUtf8_ascii_cons _ _ (by decide), validUtf8_ascii_cons _ _ (by decide)]
    exact validUtf8_renderFields_append fields _ hfs (by decide)

end EphVerif.C37L
