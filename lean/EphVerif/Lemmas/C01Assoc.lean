/-
Association-list facts used by the C01/C04 proofs (record table and file system).
-/
import EphVerif.Model.ChunkStore

namespace EphVerif.ChunkStore
section Assoc
variable {κ : Type} {ν : Type} [DecidableEq κ]

theorem aget_adel_self (l : List (κ × ν)) (x : κ) : aget (adel l x) x = none := by
  induction l with
  | nil => rfl
  | cons e l ih =>
    obtain ⟨k, v⟩ := e
    by_cases h : k = x
    · simp [adel, h] at ih ⊢; exact ih
    · simp [adel, h, aget] at ih ⊢; exact ih

theorem aget_adel_ne (l : List (κ × ν)) {x y : κ} (h : x ≠ y) : aget (adel l x) y = aget l y := by
  induction l with
  | nil => rfl
  | cons e l ih =>
    obtain ⟨k, v⟩ := e
    by_cases hk : k = x
    · have : k ≠ y := by rw [hk]; exact h
      simp [adel, hk, aget] at ih ⊢
      rw [if_neg h]; exact ih
    · simp [adel, hk, aget] at ih ⊢
      by_cases hy : k = y <;> simp [hy, ih]

theorem aget_aset_self (l : List (κ × ν)) (x : κ) (v : ν) : aget (aset l x v) x = some v := by
  simp [aset, aget]

theorem aget_aset_ne (l : List (κ × ν)) {x y : κ} (v : ν) (h : x ≠ y) : aget (aset l x v) y = aget l y := by
  simp [aset, aget, h, aget_adel_ne l h]

theorem mem_of_aget {l : List (κ × ν)} {x : κ} {v : ν} (h : aget l x = some v) : (x, v) ∈ l := by
  induction l with
  | nil => simp [aget] at h
  | cons e l ih =>
    obtain ⟨k, w⟩ := e
    by_cases hk : k = x
    · simp [aget, hk] at h; simp [hk, h]
    · simp [aget, hk] at h; exact List.mem_cons_of_mem _ (ih h)

theorem aget_of_mem {l : List (κ × ν)} (hu : Uniq l) {x : κ} {v : ν} (h : (x, v) ∈ l) : aget l x = some v := by
  induction l with
  | nil => simp at h
  | cons e l ih =>
    obtain ⟨k, w⟩ := e
    have hu' := List.pairwise_cons.mp hu
    rcases List.mem_cons.mp h with h | h
    · cases h; simp [aget]
    · have : k ≠ x := fun hk => hu'.1 _ h (by simpa using hk)
      simp [aget, this]; exact ih hu'.2 h

theorem aget_none_of_not_mem {l : List (κ × ν)} {x : κ} (h : ∀ v, (x, v) ∉ l) : aget l x = none := by
  cases hg : aget l x with
  | none => rfl
  | some v => exact absurd (mem_of_aget hg) (h v)

theorem uniq_adel {l : List (κ × ν)} (hu : Uniq l) (x : κ) : Uniq (adel l x) :=
  List.Pairwise.filter _ hu

omit [DecidableEq κ] in
theorem uniq_filter {l : List (κ × ν)} (hu : Uniq l) (p : κ × ν → Bool) : Uniq (l.filter p) :=
  List.Pairwise.filter _ hu

theorem uniq_aset {l : List (κ × ν)} (hu : Uniq l) (x : κ) (v : ν) : Uniq (aset l x v) := by
  refine List.pairwise_cons.mpr ⟨?_, uniq_adel hu x⟩
  intro e he
  have := (List.mem_filter.mp he).2
  simp at this
  exact fun h => this h.symm

/-- filtering on the value commutes with lookup when keys are unique -/
theorem aget_filter {l : List (κ × ν)} (hu : Uniq l) (p : κ × ν → Bool) (x : κ) :
    aget (l.filter p) x = match aget l x with
      | some v => if p (x, v) then some v else none
      | none => none := by
  cases hg : aget l x with
  | none =>
    apply aget_none_of_not_mem
    intro v hv
    have := aget_of_mem hu (List.mem_filter.mp hv).1
    rw [hg] at this; cases this
  | some v =>
    have hm := mem_of_aget hg
    by_cases hp : p (x, v) = true
    · simp [hp]
      exact aget_of_mem (uniq_filter hu p) (List.mem_filter.mpr ⟨hm, hp⟩)
    · simp [hp]
      apply aget_none_of_not_mem
      intro v' hv'
      have h1 := List.mem_filter.mp hv'
      have := aget_of_mem hu h1.1
      rw [hg] at this; cases this
      exact hp h1.2

end Assoc
end EphVerif.ChunkStore
