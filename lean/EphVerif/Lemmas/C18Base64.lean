import EphVerif.Model.Manifest

/-! Helper lemmas for C18: `base64_decode` never reads outside its input, whatever the table holds
    (nothing here depends on the generated alphabet). -/
namespace EphVerif.Manifest

/-! ### the decoder never leaves its input -/

theorem b64Quads_acceptable : ∀ (n : Nat) (s : Bytes), s.length = 4 * n → (b64Quads s).Acceptable
  | 0, s, h => by
    have : s = [] := List.eq_nil_of_length_eq_zero (by omega)
    subst this; simp [b64Quads, Res.Acceptable]
  | n + 1, s, h => by
    match s, h with
    | ca :: cb :: cc :: cd :: rest, h =>
      have ih := b64Quads_acceptable n rest (by simp at h; omega)
      simp only [b64Quads]
      split
      · simp [Res.Acceptable]
      · cases hr : b64Quads rest <;> simp_all [Res.bind, Res.Acceptable]

theorem b64Decode_acceptable (s : Bytes) : (b64Decode s).Acceptable := by
  unfold b64Decode
  split
  · simp [Res.Acceptable]
  · rename_i h
    have : s.length % 4 = 0 := by simpa using h
    exact b64Quads_acceptable (s.length / 4) s (by omega)

end EphVerif.Manifest
