/-
SystemControl, wire side: the bytes `ControlClient::send` writes for the CLI's STORE parse into the
request of `Lemmas/SystemControl.lean`, and the daemon's OK_STORE response reaches the CLI intact
(C29.roundtrip).
-/
import EphVerif.Lemmas.SystemControl

namespace EphVerif.System.Control
open EphVerif EphVerif.Control

/-! ## what `ControlClient::send` writes -/

/-- one `KEY:value` header as the client writes it (the key already upper-cased) -/
def headerLine (p : Bytes × Bytes) : Bytes := p.1 ++ 58 :: p.2

/-- `ControlClient::send(command, fields, payload)`: COMMAND, TOKEN (if configured), the fields in the
    iteration order of the map, PAYLOAD-LENGTH (if there is a payload), blank line, payload.
    `headers` is that whole list of pairs, in order. -/
def clientBytes (headers : Fields) (payload : Bytes) : Bytes :=
  wireLines (headers.map headerLine) ++ 10 :: payload

/-- a header the line framing carries unchanged -/
structure HeaderOk (k v : Bytes) : Prop where
  keyNoColon : ∀ c ∈ k, c ≠ 58
  clean : ∀ c ∈ k ++ v, c ≠ 10 ∧ c ≠ 13
  upper : toUpper k = k
  len : k.length + 1 + v.length ≤ serverMaxLine

theorem headerLine_good {k v : Bytes} (h : HeaderOk k v) : GoodLine serverMaxLine (headerLine (k, v)) ∧
    stripCR (headerLine (k, v)) = headerLine (k, v) := by
  have hclean : ∀ c ∈ headerLine (k, v), c ≠ 10 ∧ c ≠ 13 := by
    intro c hc
    simp only [headerLine, List.mem_append, List.mem_cons] at hc
    rcases hc with hc | rfl | hc
    · exact h.clean c (by simp [hc])
    · decide
    · exact h.clean c (by simp [hc])
  have hs : stripCR (headerLine (k, v)) = headerLine (k, v) := stripCR_id (fun c hc => (hclean c hc).2)
  refine ⟨⟨fun c hc => (hclean c hc).1, ?_, ?_⟩, hs⟩
  · rw [hs]; simp [headerLine]
  · rw [hs]; simp only [headerLine, List.length_append, List.length_cons]; have := h.len; omega

/-- `parse_request`'s loop body on an ordinary header -/
theorem reqLine_plain (cap : Nat) (st : ReqState) {k v : Bytes} (h : HeaderOk k v) (hpl : k ≠ ascii "PAYLOAD-LENGTH") :
    reqLine cap st (headerLine (k, v)) = .next { st with sawAnyLines := true, fields := setField st.fields k v } := by
  unfold reqLine headerLine
  simp only [splitColon_append k v h.keyNoColon, h.upper, hpl, ↓reduceIte]

/-- … and on the PAYLOAD-LENGTH header -/
theorem reqLine_payloadLength (cap n : Nat) (st : ReqState) (hn : n ≤ cap) (h64 : n < 18446744073709551616) :
    reqLine cap st (headerLine (ascii "PAYLOAD-LENGTH", toDec n)) =
      .next { st with sawAnyLines := true, payloadLength := some n, headerPresent := true,
                      fields := setField st.fields (ascii "PAYLOAD-LENGTH") (toDec n) } := by
  unfold reqLine headerLine
  have hk : ∀ c ∈ ascii "PAYLOAD-LENGTH", c ≠ 58 := by decide
  have hu : toUpper (ascii "PAYLOAD-LENGTH") = ascii "PAYLOAD-LENGTH" := by decide
  have hg : cmpGt Gen.C28.payloadCapStrict (n : Int) (cap : Int) = false := by
    unfold cmpGt
    have : Gen.C28.payloadCapStrict = 1 := by decide
    simp only [this, ↓reduceIte, decide_eq_false_iff_not]
    omega
  simp only [splitColon_append _ _ hk, hu, ↓reduceIte, parseU64_toDec n h64, hg, Bool.false_eq_true]

/-- the loop over a block of ordinary headers -/
theorem foldLines_plain (cap : Nat) : ∀ (hs : Fields) (st : ReqState),
    (∀ p ∈ hs, HeaderOk p.1 p.2 ∧ p.1 ≠ ascii "PAYLOAD-LENGTH") →
    foldLines (reqLine cap) st (hs.map headerLine) =
      ({ st with sawAnyLines := st.sawAnyLines || !hs.isEmpty,
                 fields := hs.foldl (fun fs p => setField fs p.1 p.2) st.fields }, none)
  | [], st, _ => by simp [foldLines]
  | p :: hs, st, h => by
    obtain ⟨k, v⟩ := p
    have hp := h (k, v) (by simp)
    have hstrip := (headerLine_good hp.1).2
    simp only [List.map_cons, foldLines, hstrip, reqLine_plain cap st hp.1 hp.2]
    rw [foldLines_plain cap hs _ (fun q hq => h q (by simp [hq]))]
    simp

theorem foldLines_append {σ : Type} (body : σ → Bytes → Step σ) : ∀ (a b : List Bytes) (st st' : σ),
    foldLines body st a = (st', none) → foldLines body st (a ++ b) = foldLines body st' b
  | [], b, st, st', h => by simp [foldLines] at h; subst h; rfl
  | l :: a, b, st, st', h => by
    rw [foldLines] at h
    rw [List.cons_append, foldLines]
    cases hb : body st (stripCR l) with
    | next s1 => rw [hb] at h; exact foldLines_append body a b s1 st' h
    | stop s1 => rw [hb] at h; simp at h

/-- **a request the client writes is parsed back into exactly its headers and payload**:
    `headers` are ordinary headers with distinct keys (COMMAND, TOKEN, the command's fields), followed
    by PAYLOAD-LENGTH for a non-empty payload within the cap -/
theorem client_request_parses (cap : Nat) (headers : Fields) (payload : Bytes)
    (hh : ∀ p ∈ headers, HeaderOk p.1 p.2 ∧ p.1 ≠ ascii "PAYLOAD-LENGTH")
    (hnodup : (headers.map (·.1)).Nodup)
    (hpay : payload ≠ []) (hcap : payload.length ≤ cap) (h64 : payload.length < 18446744073709551616) :
    parseRequest cap (clientBytes (headers ++ [(ascii "PAYLOAD-LENGTH", toDec payload.length)]) payload) =
      .ok { fields := headers ++ [(ascii "PAYLOAD-LENGTH", toDec payload.length)], payload := payload,
            payloadHeaderPresent := true } [] := by
  have hd := toDec_clean payload.length
  have hplOk : HeaderOk (ascii "PAYLOAD-LENGTH") (toDec payload.length) := by
    refine ⟨by decide, ?_, by decide, ?_⟩
    · intro c hc
      have hk10 : ∀ c ∈ ascii "PAYLOAD-LENGTH", c ≠ 10 ∧ c ≠ 13 := by decide
      rcases List.mem_append.mp hc with h | h
      · exact hk10 c h
      · exact ⟨(hd c h).1, (hd c h).2.1⟩
    · have := toDec_len20 h64
      have h14 : (ascii "PAYLOAD-LENGTH").length = 14 := by decide
      have hM : serverMaxLine = 16384 := by decide
      omega
  have hgood : ∀ l ∈ (headers ++ [(ascii "PAYLOAD-LENGTH", toDec payload.length)]).map headerLine, GoodLine serverMaxLine l := by
    intro l hl
    obtain ⟨p, hp, rfl⟩ := List.mem_map.mp hl
    rcases List.mem_append.mp hp with hp | hp
    · exact (headerLine_good (hh p hp).1).1
    · have : p = (ascii "PAYLOAD-LENGTH", toDec payload.length) := by simpa using hp
      rw [this]; exact (headerLine_good hplOk).1
  have hfold := foldLines_plain cap headers {} hh
  have hfields : headers.foldl (fun fs p => setField fs p.1 p.2) [] = headers := by
    have := C29.foldl_setField_fresh headers [] hnodup (by intro e _ p hp; simp at hp)
    simpa using this
  have hfresh : ∀ p ∈ headers, p.1 ≠ ascii "PAYLOAD-LENGTH" := fun p hp => (hh p hp).2
  unfold parseRequest clientBytes
  rw [lineLoop_block serverMaxLine (reqLine cap) _ payload {} hgood, List.map_append,
    foldLines_append _ _ _ _ _ hfold]
  simp only [List.map_cons, List.map_nil, foldLines, (headerLine_good hplOk).2,
    reqLine_payloadLength cap payload.length _ hcap h64, hfields, setField_fresh hfresh]
  have hpos : payload.length > 0 := by
    cases payload with
    | nil => exact absurd rfl hpay
    | cons _ _ => simp
  simp [hpos]

/-- the header list `eph store` + `ControlClient::send` produce -/
def cliStoreHeaders (c : CliStore) (nonce : Nat) : Fields :=
  [(ascii "COMMAND", ascii "STORE")] ++ optField (ascii "TOKEN") c.token ++
    [(ascii "PATH", Pow.cliWirePath c.path)] ++ optField (ascii "TTL") (c.ttl.map toDec) ++
    [(ascii "STORE-POW", toDec nonce)]

/-- what the framing needs of the CLI's inputs: a token without CR/LF, token and path lines within 16 KiB,
    numbers that are `uint64` -/
structure CliStoreWireOk (c : CliStore) (nonce : Nat) : Prop where
  token : ∀ t, c.token = some t → (∀ b ∈ t, b ≠ 10 ∧ b ≠ 13) ∧ t.length ≤ 16000
  path : (Pow.cliWirePath c.path).length ≤ 16000
  ttl : ∀ n, c.ttl = some n → n < 18446744073709551616
  nonce : nonce < 18446744073709551616

theorem cliWirePath_clean (path : Bytes) : ∀ b ∈ Pow.cliWirePath path, b ≠ 10 ∧ b ≠ 13 := by
  intro b hb
  simp only [Pow.cliWirePath, List.mem_filter, Bool.and_eq_true, bne_iff_ne, ne_eq] at hb
  exact ⟨hb.2.1, hb.2.2⟩

theorem cliStoreHeaders_eq (c : CliStore) (nonce : Nat) :
    cliStoreHeaders c nonce ++ [(ascii "PAYLOAD-LENGTH", toDec c.payload.length)] = (cliStoreRequest c nonce).fields := by
  unfold cliStoreHeaders cliStoreRequest
  rw [C19.wire_identity _ (cliWirePath_clean c.path)]
  simp

theorem decHeaderOk (k : Bytes) (n : Nat) (hk : ∀ c ∈ k, c ≠ 58 ∧ c ≠ 10 ∧ c ≠ 13) (hu : toUpper k = k) (hl : k.length ≤ 100)
    (hn : n < 18446744073709551616) : HeaderOk k (toDec n) := by
  refine ⟨fun c hc => (hk c hc).1, ?_, hu, ?_⟩
  · intro c hc
    rcases List.mem_append.mp hc with h | h
    · exact ⟨(hk c h).2.1, (hk c h).2.2⟩
    · have := toDec_clean n c h; exact ⟨this.1, this.2.1⟩
  · have := toDec_len20 hn
    have hM : serverMaxLine = 16384 := by decide
    omega

theorem textHeaderOk (k v : Bytes) (hk : ∀ c ∈ k, c ≠ 58 ∧ c ≠ 10 ∧ c ≠ 13) (hu : toUpper k = k) (hl : k.length ≤ 100)
    (hv : ∀ b ∈ v, b ≠ 10 ∧ b ≠ 13) (hlen : v.length ≤ 16000) : HeaderOk k v := by
  refine ⟨fun c hc => (hk c hc).1, ?_, hu, ?_⟩
  · intro c hc
    rcases List.mem_append.mp hc with h | h
    · exact ⟨(hk c h).2.1, (hk c h).2.2⟩
    · exact hv c h
  · have hM : serverMaxLine = 16384 := by decide
    omega

/-- **the bytes the CLI sends for a STORE parse into the request of `cli_store_admitted`** -/
theorem cli_store_bytes_parse (cap : Nat) (c : CliStore) (nonce : Nat) (hw : CliStoreWireOk c nonce)
    (hpay : c.payload ≠ []) (hcap : c.payload.length ≤ cap) (h64 : c.payload.length < 18446744073709551616) :
    parseRequest cap (clientBytes (cliStoreHeaders c nonce ++ [(ascii "PAYLOAD-LENGTH", toDec c.payload.length)]) c.payload) =
      .ok (cliStoreRequest c nonce) [] := by
  have hkeys : ∀ k ∈ [ascii "COMMAND", ascii "TOKEN", ascii "PATH", ascii "TTL", ascii "STORE-POW"],
      (∀ c ∈ k, c ≠ 58 ∧ c ≠ 10 ∧ c ≠ 13) ∧ toUpper k = k ∧ k.length ≤ 100 ∧ k ≠ ascii "PAYLOAD-LENGTH" := by decide
  have kC := hkeys (ascii "COMMAND") (by simp)
  have kT := hkeys (ascii "TOKEN") (by simp)
  have kP := hkeys (ascii "PATH") (by simp)
  have kL := hkeys (ascii "TTL") (by simp)
  have kS := hkeys (ascii "STORE-POW") (by simp)
  have hstore : (∀ b ∈ ascii "STORE", b ≠ 10 ∧ b ≠ 13) ∧ (ascii "STORE").length ≤ 16000 := by decide
  have hh : ∀ p ∈ cliStoreHeaders c nonce, HeaderOk p.1 p.2 ∧ p.1 ≠ ascii "PAYLOAD-LENGTH" := by
    intro p hp
    unfold cliStoreHeaders at hp
    simp only [List.mem_append, List.mem_cons, List.mem_nil_iff, or_false] at hp
    rcases hp with (((hp | hp) | hp) | hp) | hp
    · subst hp; exact ⟨textHeaderOk _ _ kC.1 kC.2.1 kC.2.2.1 hstore.1 hstore.2, kC.2.2.2⟩
    · cases ht : c.token with
      | none => rw [ht] at hp; simp [optField] at hp
      | some t =>
        rw [ht] at hp
        have : p = (ascii "TOKEN", t) := by simpa [optField] using hp
        subst this
        exact ⟨textHeaderOk _ _ kT.1 kT.2.1 kT.2.2.1 (hw.token t ht).1 (hw.token t ht).2, kT.2.2.2⟩
    · subst hp; exact ⟨textHeaderOk _ _ kP.1 kP.2.1 kP.2.2.1 (cliWirePath_clean c.path) hw.path, kP.2.2.2⟩
    · cases hl : c.ttl with
      | none => rw [hl] at hp; simp [optField] at hp
      | some n =>
        rw [hl] at hp
        have : p = (ascii "TTL", toDec n) := by simpa [optField] using hp
        subst this
        exact ⟨decHeaderOk _ n kL.1 kL.2.1 kL.2.2.1 (hw.ttl n hl), kL.2.2.2⟩
    · subst hp; exact ⟨decHeaderOk _ nonce kS.1 kS.2.1 kS.2.2.1 hw.nonce, kS.2.2.2⟩
  have hnodup : ((cliStoreHeaders c nonce).map (·.1)).Nodup := by
    unfold cliStoreHeaders
    cases c.token <;> cases c.ttl
    · show ([ascii "COMMAND", ascii "PATH", ascii "STORE-POW"] : List Bytes).Nodup; decide
    · show ([ascii "COMMAND", ascii "PATH", ascii "TTL", ascii "STORE-POW"] : List Bytes).Nodup; decide
    · show ([ascii "COMMAND", ascii "TOKEN", ascii "PATH", ascii "STORE-POW"] : List Bytes).Nodup; decide
    · show ([ascii "COMMAND", ascii "TOKEN", ascii "PATH", ascii "TTL", ascii "STORE-POW"] : List Bytes).Nodup; decide
  have := client_request_parses cap (cliStoreHeaders c nonce) c.payload hh hnodup hpay hcap h64
  rw [this]
  congr 1
  have hf := cliStoreHeaders_eq c nonce
  unfold cliStoreRequest at hf ⊢
  simp only at hf
  rw [hf]

/-! ## the OK_STORE response on its way back (C29.roundtrip) -/

/-- a single-line value without backslash stays one physical line of its own length -/
theorem linesOk_clean (k v : Bytes) (hk : ∀ c ∈ k, c ≠ 10) (hv : ∀ c ∈ v, c ≠ 10 ∧ c ≠ 13 ∧ c ≠ 92)
    (hlen : k.length + 1 + v.length ≤ clientMaxLine) : LinesOk clientMaxLine k v := by
  intro l hl
  rw [encodeValue_noLF (fun c hc => (hv c hc).1), escSeg_id (fun c hc => ⟨(hv c hc).2.2, (hv c hc).2.1⟩),
    splitBy_noSep 10 _ [] (by
      intro c hc
      rcases List.mem_append.mp hc with h | h
      · exact hk c h
      · rcases List.mem_cons.mp h with rfl | h
        · decide
        · exact (hv c h).1)] at hl
  have : l = k ++ 58 :: v := by simpa using hl
  rw [this]; simp only [List.length_append, List.length_cons]; omega

/-- what `handle_store` hands to `send_response` on success: CODE, MANIFEST, SIZE, TTL and the echoed PATH -/
def storeResponse (manifestUri source : Bytes) (size ttl : Nat) : Response :=
  { success := true,
    fields := [(ascii "CODE", ascii "OK_STORE"), (ascii "MANIFEST", manifestUri), (ascii "SIZE", toDec size),
               (ascii "TTL", toDec ttl), (ascii "SOURCE", source)] }

/-- **the manifest the daemon issued is the manifest the CLI prints**: whatever bytes the URI and the echoed
    path consist of (within the line limit), whatever the emission order -/
theorem store_response_intact (limit : Nat) (manifestUri source : Bytes) (size ttl : Nat) (emitted : Fields)
    (hlines : LinesOk clientMaxLine (ascii "MANIFEST") manifestUri ∧ LinesOk clientMaxLine (ascii "SOURCE") source)
    (hsize : size < 18446744073709551616) (httl : ttl < 18446744073709551616)
    (hperm : emitted.Perm (storeResponse manifestUri source size ttl).wireFields) :
    let r := parseResponse limit (serialise true emitted [])
    r.success = true ∧ getField r.fields (ascii "MANIFEST") = some manifestUri ∧
      getField r.fields (ascii "CODE") = some (ascii "OK_STORE") ∧ getField r.fields (ascii "SIZE") = some (toDec size) ∧
      r.hasPayload = false := by
  have hk : ∀ k ∈ [ascii "CODE", ascii "MANIFEST", ascii "SIZE", ascii "TTL", ascii "SOURCE"], KeyOk k := by
    intro k hk
    simp only [List.mem_cons, List.mem_nil_iff, or_false] at hk
    rcases hk with rfl | rfl | rfl | rfl | rfl <;> exact C29.keyOk_of_class (by decide) (by decide) (by decide)
  have hdec : ∀ (k : Bytes) (n : Nat), k.length ≤ 20 → (∀ c ∈ k, c ≠ 10) → n < 18446744073709551616 →
      LinesOk clientMaxLine k (toDec n) := by
    intro k n hkl hkc hn
    apply linesOk_clean k _ hkc (fun c hc => by have := toDec_clean n c hc; exact ⟨this.1, this.2.1, this.2.2.1⟩)
    have := toDec_len20 hn
    have hM : clientMaxLine = 16384 := by decide
    omega
  have he : C29.Emittable limit (storeResponse manifestUri source size ttl) := by
    have hnd : ((storeResponse manifestUri source size ttl).fields.map (·.1)).Nodup := by
      show ([ascii "CODE", ascii "MANIFEST", ascii "SIZE", ascii "TTL", ascii "SOURCE"] : List Bytes).Nodup
      decide
    refine ⟨?_, ?_, hnd, by simp [storeResponse], by simp [storeResponse], by simp [storeResponse]⟩
    · intro e he
      simp only [storeResponse, List.mem_cons, List.mem_nil_iff, or_false] at he
      rcases he with rfl | rfl | rfl | rfl | rfl <;> exact hk _ (by simp)
    · intro e he
      simp only [storeResponse, List.mem_cons, List.mem_nil_iff, or_false] at he
      rcases he with rfl | rfl | rfl | rfl | rfl
      · exact linesOk_clean _ _ (by decide) (by decide) (by decide)
      · exact hlines.1
      · exact hdec (ascii "SIZE") size (by decide) (by decide) hsize
      · exact hdec (ascii "TTL") ttl (by decide) (by decide) httl
      · exact hlines.2
  intro r
  have hr := C29.roundtrip limit (storeResponse manifestUri source size ttl) emitted he hperm
  have hr' : r = { success := true, fields := emitted, hasPayload := false, payload := [] } := hr
  have hnodup : (emitted.map (·.1)).Nodup := by
    have hp' : (emitted.map (·.1)).Perm ((storeResponse manifestUri source size ttl).wireFields.map (·.1)) := hperm.map _
    rw [hp'.nodup_iff]
    show ([ascii "CODE", ascii "MANIFEST", ascii "SIZE", ascii "TTL", ascii "SOURCE"] : List Bytes).Nodup
    decide
  have hmem : ∀ p ∈ (storeResponse manifestUri source size ttl).wireFields, p ∈ emitted := fun p hp => hperm.mem_iff.mpr hp
  rw [hr']
  refine ⟨rfl, ?_, ?_, ?_, rfl⟩
  · exact C29.getField_of_mem hnodup (hmem _ (by simp [Response.wireFields, storeResponse]))
  · exact C29.getField_of_mem hnodup (hmem _ (by simp [Response.wireFields, storeResponse]))
  · exact C29.getField_of_mem hnodup (hmem _ (by simp [Response.wireFields, storeResponse]))

end EphVerif.System.Control
