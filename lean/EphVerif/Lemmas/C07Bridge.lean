import EphVerif.Lemmas.C07Inv

/-!
C07: from the model-level invariant to the specification's predicates (ids read as 256-bit
numbers), the registration log ("newest address and expiry"), and sweeps.
-/
namespace EphVerif.C07L
open EphVerif.Routing EphVerif.C07Spec

/-- a `PeerId`: 32 bytes -/
def WfId (x : Id) : Prop := x.length = 32 ∧ Bytes x

/-- the ids an operation mentions are 32-byte ids -/
def OpWf : Op → Prop
  | .reg id _ _ => WfId id
  | .add id _ _ => WfId id
  | .closest tg _ => WfId tg
  | _ => True

def OpsWf (ops : List Op) : Prop := ∀ op ∈ ops, OpWf op

/-- the specification's view of a contact: the id as a number -/
def abs (c : Contact) : Entry := ⟨toNat c.id, c.addr, c.exp⟩

/-- the specification's view of the table: every bucket index with its entries, front to back -/
def dumpOf (t : Table) : Dump := (List.range kIdBits).map fun i => (i, (t.buckets i).map abs)

theorem entries_dumpOf (t : Table) : entries (dumpOf t) = (allContacts t).map abs := by
  simp [entries, dumpOf, allContacts, List.flatMap_map, List.map_flatMap]

theorem WfId.inj {a b : Id} (ha : WfId a) (hb : WfId b) (h : toNat a = toNat b) : a = b :=
  toNat_inj a b (by rw [ha.1, hb.1]) ha.2 hb.2 h

/-- all ids in sight are 32-byte ids -/
structure WfT (t : Table) : Prop where
  own : WfId t.self
  held : ∀ i, ∀ c ∈ t.buckets i, WfId c.id

theorem WfT.empty {self : Id} (h : WfId self) : WfT (Table.empty self) :=
  ⟨h, fun _ c hc => by simp [Table.empty] at hc⟩

theorem WfT.upsertBucket {t : Table} (h : Inv t) (w : WfT t) (now : Int) (c : Contact) (hc : WfId c.id) :
    WfT (upsertBucket t now c) := by
  refine ⟨by rw [upsertBucket_self]; exact w.own, ?_⟩
  unfold Routing.upsertBucket
  split
  · exact w.held
  · rename_i i hi
    intro j x hx
    simp only at hx
    by_cases hj : j = i
    · subst hj
      simp only [if_true] at hx
      rcases mem_upsertList (h j).nodup hx with ⟨hid, _, _⟩ | ⟨hb, _, _⟩
      · rw [hid]; exact hc
      · exact w.held j x hb
    · simp only [hj, if_false] at hx; exact w.held j x hx

theorem WfT.sweep {t : Table} (w : WfT t) (now : Int) : WfT (sweepBuckets t now) :=
  ⟨w.own, fun i c hc => w.held i c (List.mem_filter.1 hc).1⟩

theorem WfT.step {s : State} (h : Inv s.table) (w : WfT s.table) {op : Op} (ho : OpWf op) : WfT (step s op).table := by
  cases op with
  | adv d => exact w
  | reg id addr exp =>
    refine WfT.upsertBucket h w _ _ ?_
    split <;> exact ho
  | add id addr ttl => exact WfT.upsertBucket h w _ _ ho
  | sweep => exact w.sweep _
  | closest tg k => exact w

theorem WfT.run {s : State} (h : Inv s.table) (w : WfT s.table) {ops : List Op} (ho : OpsWf ops) :
    WfT (run s ops).table := by
  induction ops generalizing s with
  | nil => exact w
  | cons op ops ih =>
    exact ih (h.step op) (w.step h (ho op List.mem_cons_self)) (fun o hm => ho o (List.mem_cons_of_mem _ hm))

/-! ### bucket shape, as the specification states it -/

theorem bucketIndexFor_wf {self peer : Id} (hs : WfId self) (hp : WfId peer) (hk : kIdBits = 256) :
    bucketIndexFor self peer = if self = peer then none else some (Nat.log2 (toNat self ^^^ toNat peer)) :=
  bucketIndexFor_eq self peer (by rw [hs.1, hp.1]) (by rw [hk, hs.1]) hs.2 hp.2

theorem shape_of_inv {t : Table} (h : Inv t) (w : WfT t) (hk : kIdBits = 256) (hb : kBucketSize = 16) :
    Shape (toNat t.self) (dumpOf t) := by
  refine ⟨?_, ?_, ?_, ?_⟩
  · intro e he
    rw [entries_dumpOf, List.mem_map] at he
    obtain ⟨c, hc, rfl⟩ := he
    obtain ⟨i, hi⟩ := (mem_allContacts h).1 hc
    intro heq
    exact h.self_not_held ⟨i, hi⟩ ((w.held i c hi).inj w.own heq)
  · intro b hb'
    simp only [dumpOf, List.mem_map] at hb'
    obtain ⟨i, _, rfl⟩ := hb'
    simp only [List.length_map]
    rw [← hb]; exact (h i).cap
  · intro b hb' e he
    simp only [dumpOf, List.mem_map] at hb'
    obtain ⟨i, _, rfl⟩ := hb'
    simp only [List.mem_map] at he
    obtain ⟨c, hc, rfl⟩ := he
    have hne : c.id ≠ t.self := h.self_not_held ⟨i, hc⟩
    have hpl := (h i).place c hc
    rw [bucketIndexFor_wf w.own (w.held i c hc) hk, if_neg (fun h => hne h.symm)] at hpl
    refine ⟨fun heq => hne ((w.held i c hc).inj w.own heq), ?_⟩
    simp only [abs, bucketOf]
    cases hpl; rfl
  · unfold SingleEntry
    rw [entries_dumpOf, List.pairwise_map]
    refine List.Pairwise.imp_of_mem ?_ h.allContacts_nodup
    intro a b ha hb' hne heq
    obtain ⟨i, hi⟩ := (mem_allContacts h).1 ha
    obtain ⟨j, hj⟩ := (mem_allContacts h).1 hb'
    exact hne ((w.held i a hi).inj (w.held j b hj) heq)

/-! ### newest address and expiry -/

/-- the model's step together with the specification's registration log -/
def logStep (st : State × Log) (op : Op) : State × Log :=
  (step st.1 op,
   match op with
   | .reg id addr exp => (toNat id, addr, effExp st.1.now exp) :: st.2
   | .add id addr ttl => (toNat id, addr, st.1.now + ttl) :: st.2
   | _ => st.2)

def runLog (st : State × Log) (ops : List Op) : State × Log := ops.foldl logStep st

theorem runLog_fst (st : State × Log) (ops : List Op) : (runLog st ops).1 = run st.1 ops := by
  induction ops generalizing st with
  | nil => rfl
  | cons op ops ih => simp only [runLog, run, List.foldl_cons] at ih ⊢; rw [ih]; rfl

/-- every held contact carries what the last registration of its id said -/
def NewestInv (t : Table) (log : Log) : Prop :=
  ∀ i, ∀ c ∈ t.buckets i, lastReg log (toNat c.id) = some (c.addr, c.exp)

theorem lastReg_cons (k : Nat) (a : String) (e : Int) (log : Log) (k' : Nat) :
    lastReg ((k, a, e) :: log) k' = if k = k' then some (a, e) else lastReg log k' := by
  unfold lastReg
  rw [List.find?_cons]
  by_cases h : k = k'
  · simp [h]
  · have : (k == k') = false := by simpa using h
    simp [h, this]

theorem NewestInv.upsertBucket {t : Table} {log : Log} (hn : NewestInv t log) (h : Inv t) (w : WfT t)
    (now : Int) (c : Contact) (hc : WfId c.id) :
    NewestInv (upsertBucket t now c) ((toNat c.id, c.addr, c.exp) :: log) := by
  intro j x hx
  rw [lastReg_cons]
  unfold Routing.upsertBucket at hx
  split at hx
  · rename_i hnone
    have hne : toNat c.id ≠ toNat x.id := by
      intro heq
      have := hc.inj (w.held j x hx) heq
      have hp := (h j).place x hx
      rw [← this, hnone] at hp; cases hp
    rw [if_neg hne]; exact hn j x hx
  · rename_i i hi
    simp only at hx
    by_cases hj : j = i
    · subst hj
      simp only [if_true] at hx
      rcases mem_upsertList (h j).nodup hx with ⟨hid, ha, he⟩ | ⟨hb, hne, _⟩
      · rw [hid, ha, he]; simp
      · have hne' : toNat c.id ≠ toNat x.id := fun heq => hne (hc.inj (w.held j x hb) heq).symm
        rw [if_neg hne']; exact hn j x hb
    · simp only [hj, if_false] at hx
      have hne : toNat c.id ≠ toNat x.id := by
        intro heq
        have := hc.inj (w.held j x hx) heq
        have hp := (h j).place x hx
        rw [← this, hi] at hp
        cases hp; exact hj rfl
      rw [if_neg hne]; exact hn j x hx

theorem NewestInv.sweep {t : Table} {log : Log} (hn : NewestInv t log) (now : Int) :
    NewestInv (sweepBuckets t now) log :=
  fun i c hc => hn i c (List.mem_filter.1 hc).1

theorem effExp_eq (now : Int) (c : Contact) :
    (if c.exp = 0 then { c with exp := now } else c).exp = effExp now c.exp := by
  unfold effExp; split <;> rfl

theorem NewestInv.logStep {st : State × Log} (hn : NewestInv st.1.table st.2) (h : Inv st.1.table) (w : WfT st.1.table)
    {op : Op} (ho : OpWf op) : NewestInv (logStep st op).1.table (logStep st op).2 := by
  cases op with
  | adv d => exact hn
  | reg id addr exp =>
    have := NewestInv.upsertBucket hn h w st.1.now (if exp = 0 then ⟨id, addr, st.1.now⟩ else ⟨id, addr, exp⟩)
      (by split <;> exact ho)
    simp only [C07L.logStep, step, registerPeer]
    have e1 : (if exp = 0 then (⟨id, addr, st.1.now⟩ : Contact) else ⟨id, addr, exp⟩).id = id := by split <;> rfl
    have e2 : (if exp = 0 then (⟨id, addr, st.1.now⟩ : Contact) else ⟨id, addr, exp⟩).addr = addr := by split <;> rfl
    have e3 : (if exp = 0 then (⟨id, addr, st.1.now⟩ : Contact) else ⟨id, addr, exp⟩).exp = effExp st.1.now exp := by
      unfold effExp; split <;> rfl
    rw [e1, e2, e3] at this
    exact this
  | add id addr ttl => exact NewestInv.upsertBucket hn h w st.1.now ⟨id, addr, st.1.now + ttl⟩ ho
  | sweep => exact hn.sweep _
  | closest tg k => exact hn

theorem logStep_fst (st : State × Log) (op : Op) : (logStep st op).1 = step st.1 op := rfl

theorem NewestInv.runLog {st : State × Log} (hn : NewestInv st.1.table st.2) (h : Inv st.1.table) (w : WfT st.1.table)
    {ops : List Op} (ho : OpsWf ops) : NewestInv (runLog st ops).1.table (runLog st ops).2 := by
  induction ops generalizing st with
  | nil => exact hn
  | cons op ops ih =>
    have ho1 := ho op List.mem_cons_self
    exact ih (hn.logStep h w ho1) (h.step op) (w.step h ho1) (fun o hm => ho o (List.mem_cons_of_mem _ hm))

theorem newest_of {t : Table} {log : Log} (hn : NewestInv t log) (h : Inv t) : Newest log (dumpOf t) := by
  intro e he
  rw [entries_dumpOf, List.mem_map] at he
  obtain ⟨c, hc, rfl⟩ := he
  obtain ⟨i, hi⟩ := (mem_allContacts h).1 hc
  exact hn i c hi

/-- in a list with one entry per id, the entries with the id of a member are that member alone -/
theorem filter_id_eq_singleton {l : List Entry} (hp : l.Pairwise (fun a b => a.id ≠ b.id)) {e : Entry} (he : e ∈ l) :
    l.filter (·.id == e.id) = [e] := by
  induction l with
  | nil => cases he
  | cons y ys ih =>
    rw [List.pairwise_cons] at hp
    rw [List.mem_cons] at he
    rcases he with rfl | he
    · have : ys.filter (·.id == e.id) = [] := by
        rw [List.filter_eq_nil_iff]
        intro a ha
        have := hp.1 a ha
        simpa using fun h => this h.symm
      simp [this]
    · have hne : y.id ≠ e.id := hp.1 e he
      have : (y.id == e.id) = false := by simpa using hne
      simp only [List.filter_cons, this, Bool.false_eq_true, if_false]
      exact ih hp.2 he

/-- right after `upsert_bucket` of a contact that has a bucket, the table holds exactly one entry
    with its id, carrying the new address and expiry -/
theorem justRegistered_upsert {t : Table} (h : Inv t) (w : WfT t) (hk : kIdBits = 256) (hb : kBucketSize = 16)
    (now : Int) (c : Contact) (hc : WfId c.id) (hne : c.id ≠ t.self) :
    JustRegistered (dumpOf (upsertBucket t now c)) (toNat c.id) c.addr c.exp := by
  have h' := h.upsertBucket now c
  have w' := WfT.upsertBucket h w now c hc
  have hs := (shape_of_inv h' w' hk hb).singleEntry
  have hidx : bucketIndexFor t.self c.id = some (Nat.log2 (toNat t.self ^^^ toNat c.id)) := by
    rw [bucketIndexFor_wf w.own hc hk, if_neg (fun h => hne h.symm)]
  have hmem : (⟨toNat c.id, c.addr, c.exp⟩ : Entry) ∈ entries (dumpOf (upsertBucket t now c)) := by
    rw [entries_dumpOf, List.mem_map]
    refine ⟨⟨c.id, c.addr, c.exp⟩, ?_, rfl⟩
    rw [mem_allContacts h']
    refine ⟨Nat.log2 (toNat t.self ^^^ toNat c.id), ?_⟩
    unfold Routing.upsertBucket
    rw [hidx]
    simp only [if_true]
    exact upsertList_has now c _
  exact filter_id_eq_singleton hs hmem

/-! ### sweeps -/

theorem allContacts_sweep (t : Table) (now : Int) :
    allContacts (sweepBuckets t now) = (allContacts t).filter (live now) := by
  simp [allContacts, sweepBuckets, List.filter_flatMap]

theorem live_iff (now : Int) (c : Contact) : live now c = true ↔ now < c.exp := by
  simp [live, expired]

theorem sweepKeeps (t : Table) (now : Int) :
    SweepKeeps (entries (dumpOf t)) (entries (dumpOf (sweepBuckets t now))) now := by
  rw [entries_dumpOf, entries_dumpOf, allContacts_sweep]
  constructor
  · intro e he hlt
    rw [List.mem_map] at he ⊢
    obtain ⟨c, hc, rfl⟩ := he
    exact ⟨c, List.mem_filter.2 ⟨hc, (live_iff now c).2 hlt⟩, rfl⟩
  · intro e he
    rw [List.mem_map] at he ⊢
    obtain ⟨c, hc, rfl⟩ := he
    exact ⟨c, (List.mem_filter.1 hc).1, rfl⟩

/-- after a sweep nothing expired is left -/
theorem sweep_clean (t : Table) (now : Int) : ∀ e ∈ entries (dumpOf (sweepBuckets t now)), now < e.exp := by
  intro e he
  rw [entries_dumpOf, allContacts_sweep, List.mem_map] at he
  obtain ⟨c, hc, rfl⟩ := he
  exact (live_iff now c).1 (List.mem_filter.1 hc).2

end EphVerif.C07L
