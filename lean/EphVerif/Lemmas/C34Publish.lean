import EphVerif.Model.Advertise

/-! Helper lemmas for C34: where the automatically published hosts of the node model come from. -/
namespace EphVerif.C34L
open EphVerif.Adv EphVerif.Gen.C34

theorem candIf_admissible (ap : Bool) (via h : Str) (p : Nat) :
    ∀ c ∈ candIf ap via h p, admissible ap c.host c.port = true := by
  intro c hc
  unfold candIf at hc
  split at hc
  · simp only [List.mem_singleton] at hc; subst hc; assumption
  · simp at hc

theorem ite_candIf_admissible (ap : Bool) (b : Prop) [Decidable b] (v1 h1 : Str) (p1 : Nat) (v2 h2 : Str) (p2 : Nat) :
    ∀ c ∈ (if b then candIf ap v1 h1 p1 else candIf ap v2 h2 p2), admissible ap c.host c.port = true := by
  intro c hc
  by_cases hb : b
  · rw [if_pos hb] at hc; exact candIf_admissible _ _ _ _ c hc
  · rw [if_neg hb] at hc; exact candIf_admissible _ _ _ _ c hc

theorem ite_candIf_nil_admissible (ap : Bool) (b : Prop) [Decidable b] (v1 h1 : Str) (p1 : Nat) :
    ∀ c ∈ (if b then candIf ap v1 h1 p1 else []), admissible ap c.host c.port = true := by
  intro c hc
  by_cases hb : b
  · rw [if_pos hb] at hc; exact candIf_admissible _ _ _ _ c hc
  · rw [if_neg hb] at hc; simp at hc

/-- every candidate passed the guards of `append_candidate` -/
theorem build_admissible (cfg : Cfg) (echo : Str) (tp : Nat) (nat : NatRes) :
    ∀ c ∈ (build cfg echo tp nat).1, admissible cfg.allowPrivate c.host c.port = true := by
  intro c hc
  unfold build at hc
  simp only [List.mem_append] at hc
  rcases hc with hc | hc
  · exact ite_candIf_admissible _ _ _ _ _ _ _ _ c hc
  · exact ite_candIf_nil_admissible _ _ _ _ _ c hc

theorem admissible_not_private (h : Str) (p : Nat) (ha : admissible false h p = true) : isPrivHost h = false := by
  unfold admissible at ha
  simp only [Bool.false_or, Bool.and_eq_true, Bool.not_eq_true'] at ha
  exact ha.2

/-- `append_endpoint` only adds non-manual entries whose host is a candidate's host -/
theorem appendEps_mem (cs : List Cand) (tp : Nat) : ∀ (seen : List (Str × Nat)) (acc : List Ep) (e : Ep),
    e ∈ appendEps cs tp seen acc → e ∈ acc ∨ (e.manual = false ∧ ∃ c ∈ cs, e.host = c.host) := by
  induction cs with
  | nil => intro seen acc e h; exact Or.inl (by simpa [appendEps] using h)
  | cons c cs ih =>
    intro seen acc e h
    rw [appendEps] at h
    generalize (if (c.port != 0) = true then c.port else tp) = port at h
    by_cases hcond : (List.isEmpty c.host || port == 0 || seen.contains (c.host, port)) = true
    · rw [if_pos hcond] at h
      rcases ih _ _ _ h with h' | ⟨hm, c', hc', he⟩
      · exact Or.inl h'
      · exact Or.inr ⟨hm, c', List.mem_cons_of_mem _ hc', he⟩
    · rw [if_neg hcond] at h
      rcases ih _ _ _ h with h' | ⟨hm, c', hc', he⟩
      · rcases List.mem_append.mp h' with h'' | h''
        · exact Or.inl h''
        · simp only [List.mem_singleton] at h''
          subst h''
          exact Or.inr ⟨rfl, c, List.mem_cons_self, rfl⟩
      · exact Or.inr ⟨hm, c', List.mem_cons_of_mem _ hc', he⟩

theorem appendEps_nil (tp : Nat) (seen : List (Str × Nat)) (acc : List Ep) : appendEps [] tp seen acc = acc := rfl

theorem promoted_sub (mode : Mode) (conflict manualEmpty : Bool) (cands : List Cand) :
    ∀ c ∈ promoted mode conflict manualEmpty cands, c ∈ cands := by
  intro c hc
  unfold promoted at hc
  split at hc
  · simp at hc
  · split at hc
    · split at hc
      · split at hc
        · rename_i c' hfind
          simp only [List.mem_singleton] at hc
          subst hc
          exact List.mem_of_find?_eq_some hfind
        · exact List.mem_of_mem_take hc
      · exact hc
    · simp at hc

theorem promoted_warn_conflict (manualEmpty : Bool) (cands : List Cand) :
    promoted Mode.warn true manualEmpty cands = [] := by
  unfold promoted
  split
  · rfl
  · simp

/-- the `append` lambda of `preferred_control_endpoints` only keeps entries it was given -/
theorem appendAll_mem : ∀ (l : List CEp) (seen : List (Str × Nat)) (e : CEp), e ∈ appendAll l seen → e ∈ l := by
  intro l
  induction l with
  | nil => intro seen e h; simp [appendAll] at h
  | cons x xs ih =>
    intro seen e h
    rw [appendAll] at h
    split at h
    · exact List.mem_cons_of_mem _ (ih _ _ h)
    · rcases List.mem_cons.mp h with h' | h'
      · exact h' ▸ List.mem_cons_self
      · exact List.mem_cons_of_mem _ (ih _ _ h')

theorem manual_filter (cfg : Cfg) : ∀ e ∈ cfg.endpoints.filter (·.manual), e.manual = true := by
  intro e he; exact (List.mem_filter.mp he).2

/-- `refresh_advertised_endpoints` either returned early or ran the discovery -/
theorem refresh_cases (cfg : Cfg) (echo : Str) (tp : Nat) (nat : Option NatRes) :
    refresh cfg echo tp nat = refreshIdle cfg tp nat ∨
      (cfg.mode ≠ Mode.off ∧ ∃ nr, nat = some nr ∧ refresh cfg echo tp nat = refreshActive cfg echo tp nr) := by
  unfold refresh
  by_cases hoff : cfg.mode = Mode.off
  · left; simp [hoff]
  · have hoff' : (cfg.mode == Mode.off) = false := by simpa using hoff
    rw [hoff']
    simp only [Bool.false_eq_true, if_false]
    by_cases htp : (tp == 0) = true
    · left; rw [if_pos htp]
    · rw [if_neg htp]
      cases nat with
      | none => left; rfl
      | some nr => right; exact ⟨hoff, nr, rfl, rfl⟩

/-- after the discovery: candidates are admissible, automatic endpoints carry candidate hosts -/
theorem refreshActive_spec (cfg : Cfg) (echo : Str) (tp : Nat) (nr : NatRes) :
    (∀ c ∈ (refreshActive cfg echo tp nr).cands, admissible cfg.allowPrivate c.host c.port = true) ∧
    (∀ e ∈ (refreshActive cfg echo tp nr).endpoints,
        e.manual = true ∨ ∃ c ∈ (refreshActive cfg echo tp nr).cands, e.host = c.host) ∧
    (cfg.mode = Mode.warn → (refreshActive cfg echo tp nr).conflict = true →
        ∀ e ∈ (refreshActive cfg echo tp nr).endpoints, e.manual = true) := by
  unfold refreshActive
  simp only
  refine ⟨build_admissible cfg echo tp nr, ?_, ?_⟩
  · intro e he
    rcases appendEps_mem _ _ _ _ _ he with h' | ⟨_, c, hc, hec⟩
    · exact Or.inl (manual_filter cfg e h')
    · exact Or.inr ⟨c, promoted_sub _ _ _ _ c hc, hec⟩
  · intro hwarn hconf e he
    rw [hwarn, hconf, promoted_warn_conflict, appendEps_nil] at he
    exact manual_filter cfg e he

/-- where a non-manual entry of `preferred_control_endpoints` comes from -/
theorem preferred_auto (n : Node) (e : CEp) (he : e ∈ preferred n) (hm : e.manual = false) :
    (∃ ep ∈ n.endpoints, ep.manual = false ∧ ep.host = e.host) ∨
    (publishAuto n = true ∧ ∃ c ∈ n.cands, c.host = e.host) ∨
    (publishAuto n = true ∧ (n.cfg.allowPrivate = true ∨ isPrivHost e.host = false)) := by
  have hmem := appendAll_mem _ _ _ he
  simp only [List.mem_append] at hmem
  rcases hmem with (h | h) | h
  · left
    unfold prefListed at h
    split at h
    · obtain ⟨ep, hep, rfl⟩ := List.mem_map.mp h
      exact ⟨ep, hep, hm, rfl⟩
    · split at h
      · simp only [List.mem_singleton] at h; subst h; simp at hm
      · split at h
        · simp only [List.mem_singleton] at h; subst h; simp at hm
        · simp at h
  · right; left
    unfold prefCands at h
    split at h
    · rename_i hp
      obtain ⟨c, hc, rfl⟩ := List.mem_map.mp h
      exact ⟨hp, c, hc, rfl⟩
    · simp at h
  · right; right
    unfold prefSelf at h
    split at h
    · rename_i hp
      have hp' : publishAuto n = true := by
        simp only [Bool.and_eq_true] at hp; exact hp.1
      split at h
      · split at h
        · rename_i hh pp _ hallow
          simp only [List.mem_singleton] at h
          subst h
          refine ⟨hp', ?_⟩
          simp only [Bool.or_eq_true, Bool.not_eq_true'] at hallow
          exact hallow
        · simp at h
      · simp at h
    · simp at h

theorem sControl_ne_sTransport : (sControl == sTransport) = false := by decide

/-- a `transport` hint is a non-manual preferred endpoint -/
theorem autoHints_mem (n : Node) (h : Str) (hh : h ∈ autoHints n) :
    ∃ e ∈ preferred n, e.manual = false ∧ e.host = h := by
  unfold autoHints hints at hh
  obtain ⟨x, hx, rfl⟩ := List.mem_map.mp hh
  obtain ⟨hx1, hx2⟩ := List.mem_filter.mp hx
  obtain ⟨e, he, rfl⟩ := List.mem_map.mp hx1
  simp only at hx2 ⊢
  have hman : e.manual = false := by
    cases hm : e.manual
    · rfl
    · rw [hm] at hx2; simp only [if_true] at hx2; rw [sControl_ne_sTransport] at hx2; cases hx2
  refine ⟨e, ?_, hman, rfl⟩
  rcases List.mem_append.mp he with h' | h'
  · exact (List.mem_filter.mp h').1
  · exact (List.mem_filter.mp h').1

end EphVerif.C34L
