/-
Helper lemmas for C12: the square-and-multiply loop of `KeyExchange::modexp` computes `b^e mod m`
and none of its `uint64` products wraps when the modulus fits 32 bits.  Core Lean only.
-/
import EphVerif.Model.KeyExchange
import EphVerif.Spec.KeyExchange

namespace EphVerif.C12L
open EphVerif.Kex

/-- operands below a 32-bit modulus: the `uint64` product is exact (no overflow) -/
theorem mul64_exact {a b m : Nat} (ha : a < m) (hb : b < m) (hm : m ≤ two32) : mul64 a b = a * b := by
  unfold mul64
  apply Nat.mod_eq_of_lt
  have h1 : a * b < two32 * two32 := by
    calc a * b < m * m := Nat.mul_lt_mul'' ha hb
      _ ≤ two32 * two32 := Nat.mul_le_mul hm hm
  have : two32 * two32 = two64 := by decide
  omega

theorem pow_split (b e : Nat) : b ^ e = (b * b) ^ (e / 2) * b ^ (e % 2) := by
  have h : e = 2 * (e / 2) + e % 2 := (Nat.div_add_mod e 2).symm
  conv => lhs; rw [h]
  rw [Nat.pow_add, Nat.pow_mul, Nat.pow_two]

/-- loop invariant: with `result, base < m ≤ 2^32` and `e < 2^fuel` the loop returns `result · base^e mod m` -/
theorem modexpLoop_spec (fuel : Nat) : ∀ (r b e m : Nat), r < m → b < m → m ≤ two32 → e < 2 ^ fuel →
    modexpLoop fuel r b e m = (r * b ^ e) % m := by
  induction fuel with
  | zero =>
    intro r b e m hr hb hm he
    have : e = 0 := by simpa using he
    subst this
    simp [modexpLoop, Nat.mod_eq_of_lt hr]
  | succ f ih =>
    intro r b e m hr hb hm he
    have hmpos : 0 < m := by omega
    unfold modexpLoop
    by_cases h0 : e > 0
    · simp only [h0, if_true]
      have he2 : e / 2 < 2 ^ f := by
        rw [Nat.pow_succ] at he; omega
      have hbb : mul64 b b % m < m := Nat.mod_lt _ hmpos
      rw [mul64_exact hb hb hm] at hbb ⊢
      by_cases hodd : e % 2 = 1
      · have hrb : mul64 r b % m < m := Nat.mod_lt _ hmpos
        simp only [hodd, beq_self_eq_true, if_true]
        rw [mul64_exact hr hb hm] at hrb ⊢
        rw [ih _ _ _ _ hrb hbb hm he2]
        conv => rhs; rw [pow_split b e, hodd, Nat.pow_one]
        rw [Nat.mul_mod, Nat.mod_mod, Nat.pow_mod (b * b % m), Nat.mod_mod, ← Nat.pow_mod, ← Nat.mul_mod]
        congr 1
        rw [Nat.mul_comm ((b * b) ^ (e / 2)) b, Nat.mul_assoc]
      · have heven : e % 2 = 0 := by omega
        have : (e % 2 == 1) = false := by simp [heven]
        simp only [this, Bool.false_eq_true, if_false]
        rw [ih _ _ _ _ hr hbb hm he2]
        conv => rhs; rw [pow_split b e, heven, Nat.pow_zero, Nat.mul_one]
        rw [Nat.mul_mod, Nat.pow_mod (b * b % m), Nat.mod_mod, ← Nat.pow_mod, ← Nat.mul_mod]
    · have : e = 0 := by omega
      subst this
      simp [Nat.mod_eq_of_lt hr]

/-- `KeyExchange::modexp` is modular exponentiation for every 32-bit modulus ≥ 1 and exponent -/
theorem modexp_eq (b e m : Nat) (hm1 : 1 ≤ m) (hm : m < two32) (he : e < two32) :
    modexp b e m = b ^ e % m := by
  unfold modexp
  have hr : 1 % m < m := Nat.mod_lt _ (by omega)
  have hb : b % m < m := Nat.mod_lt _ (by omega)
  have he' : e < 2 ^ 32 := by simpa [two32] using he
  simp only []
  rw [modexpLoop_spec 32 _ _ _ _ hr hb (by omega) he']
  rw [Nat.mod_mod, Nat.mod_eq_of_lt (a := _ % m) (b := two32) (Nat.lt_trans (Nat.mod_lt _ (by omega)) hm)]
  rw [Nat.mul_mod, Nat.mod_mod, ← Nat.pow_mod, ← Nat.mul_mod, Nat.one_mul]

end EphVerif.C12L
