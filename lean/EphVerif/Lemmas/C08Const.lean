/-
C08 helper definitions/lemmas, part 4: what FIPS 180-4 says the constants *are*.
  §4.2.2  K_i   = first 32 bits of the fractional part of the cube root of the i-th prime (i < 64)
  §5.3.3  H0_i  = first 32 bits of the fractional part of the square root of the i-th prime (i < 8)
"x is the first 32 bits of the fractional part of the r-th root of p" is stated over the integers:
  ∃ n,  (n·2^32 + x)^r ≤ p·2^(32 r) < (n·2^32 + x + 1)^r      (with 0 ≤ x < 2^32),
i.e. n·2^32 + x = ⌊2^32 · p^(1/r)⌋, so n = ⌊p^(1/r)⌋ and x/2^32 is the fraction truncated to 32 bits.
-/
import EphVerif.Spec.Sha256

namespace EphVerif.C08

def IsPrime (p : Nat) : Prop := 2 ≤ p ∧ ∀ d, d < p → 2 ≤ d → p % d ≠ 0

/-- executable form of `IsPrime` (trial division by every `d < p`) -/
def isPrimeB (p : Nat) : Bool := decide (2 ≤ p) && (List.range p).all fun d => decide (d < 2) || p % d != 0

theorem isPrimeB_iff (p : Nat) : isPrimeB p = true ↔ IsPrime p := by
  unfold isPrimeB IsPrime
  rw [Bool.and_eq_true, decide_eq_true_iff, List.all_eq_true]
  constructor
  · rintro ⟨h2, h⟩
    refine ⟨h2, fun d hd h2d => ?_⟩
    have := h d (List.mem_range.mpr hd)
    rw [Bool.or_eq_true, decide_eq_true_iff, bne_iff_ne] at this
    rcases this with h' | h'
    · omega
    · exact h'
  · rintro ⟨h2, h⟩
    refine ⟨h2, fun d hd => ?_⟩
    rw [Bool.or_eq_true, decide_eq_true_iff, bne_iff_ne]
    by_cases hd2 : d < 2
    · exact Or.inl hd2
    · exact Or.inr (h d (List.mem_range.mp hd) (by omega))

instance : DecidablePred IsPrime := fun p => decidable_of_iff _ (isPrimeB_iff p)

/-- all primes below `b`, in increasing order -/
def primesBelow (b : Nat) : List Nat := (List.range b).filter fun p => decide (IsPrime p)

/-- the first sixty-four prime numbers -/
def primes64 : List Nat := [
  2, 3, 5, 7, 11, 13, 17, 19, 23, 29, 31, 37, 41, 43, 47, 53,
  59, 61, 67, 71, 73, 79, 83, 89, 97, 101, 103, 107, 109, 113, 127, 131,
  137, 139, 149, 151, 157, 163, 167, 173, 179, 181, 191, 193, 197, 199, 211, 223,
  227, 229, 233, 239, 241, 251, 257, 263, 269, 271, 277, 281, 283, 293, 307, 311]

/-- `x` is the first 32 bits of the fractional part of the `r`-th root of `p` -/
def IsFrac32OfRoot (r p x : Nat) : Prop :=
  x < 2 ^ 32 ∧ ∃ n, (n * 2 ^ 32 + x) ^ r ≤ p * 2 ^ (32 * r) ∧ p * 2 ^ (32 * r) < (n * 2 ^ 32 + x + 1) ^ r

/-- decidable form: the integer part searched below 32 (enough for every prime below 1024) -/
def isFrac32OfRootB (r p x : Nat) : Bool :=
  decide (x < 2 ^ 32) && (List.range 32).any fun n =>
    decide ((n * 2 ^ 32 + x) ^ r ≤ p * 2 ^ (32 * r)) && decide (p * 2 ^ (32 * r) < (n * 2 ^ 32 + x + 1) ^ r)

theorem isFrac32OfRoot_of_B (r p x : Nat) (h : isFrac32OfRootB r p x = true) : IsFrac32OfRoot r p x := by
  unfold isFrac32OfRootB at h
  rw [Bool.and_eq_true, decide_eq_true_iff, List.any_eq_true] at h
  obtain ⟨hx, n, _, hn⟩ := h
  rw [Bool.and_eq_true, decide_eq_true_iff, decide_eq_true_iff] at hn
  exact ⟨hx, n, hn⟩

/-- `primes64` lists exactly the primes below 312, in order, and there are 64 of them:
    they are the first sixty-four primes. -/
theorem primes64_are_the_first_64_primes : primes64 = primesBelow 312 ∧ primes64.length = 64 := by
  decide +kernel

end EphVerif.C08
