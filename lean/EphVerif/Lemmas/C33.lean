import EphVerif.Model.Stun
import EphVerif.Spec.Stun

/-! Helper lemmas for C33: list slicing, XOR forms, one loop step of the model vs one attribute of the spec. -/
namespace EphVerif.C33L
open EphVerif EphVerif.Stun EphVerif.Gen.C33

/-- the model's outcome for a specification answer -/
def ofSpec : Option StunSpec.Addr → Stun.Out
  | none => Out.none
  | some a => Out.addr a.family a.bytes a.port

theorem drop_take_cons (d : List UInt8) (o r : Nat) (h : o < d.length) (hr : 0 < r) :
    (d.drop o).take r = d[o] :: (d.drop (o + 1)).take (r - 1) := by
  cases r with
  | zero => omega
  | succ r => rw [List.drop_eq_getElem_cons h, List.take_succ_cons]; rfl

theorem slice4 (d : List UInt8) (o r : Nat) (h : o + 4 ≤ d.length) (hr : 4 ≤ r) :
    (d.drop o).take r =
      d[o] :: d[o+1] :: d[o+2] :: d[o+3] :: (d.drop (o + 4)).take (r - 4) := by
  rw [drop_take_cons d o r (by omega) (by omega),
      drop_take_cons d (o+1) (r-1) (by omega) (by omega),
      drop_take_cons d (o+2) (r-1-1) (by omega) (by omega),
      drop_take_cons d (o+3) (r-1-1-1) (by omega) (by omega)]
  have : r - 1 - 1 - 1 - 1 = r - 4 := by omega
  rw [this]

theorem xorBytes_eq_zipWith : ∀ (a k : List UInt8), a.length ≤ k.length →
    StunSpec.xorBytes a k = List.zipWith (· ^^^ ·) a k
  | [], k, _ => by cases k <;> simp [StunSpec.xorBytes]
  | a :: as, [], h => by simp at h
  | a :: as, k :: ks, h => by
    simp only [StunSpec.xorBytes, List.zipWith_cons_cons]
    rw [xorBytes_eq_zipWith as ks (by simpa using h)]

theorem cookie_bytes : [cookieByte 0, cookieByte 1, cookieByte 2, cookieByte 3] = StunSpec.cookieBytes := by decide

theorem xorCookie4_eq (a : List UInt8) (h : a.length ≤ 4) : xorCookie4 a = StunSpec.xorBytes a StunSpec.cookieBytes := by
  rw [xorBytes_eq_zipWith a _ (by simpa [StunSpec.cookieBytes] using h)]
  simp only [xorCookie4, cookie_bytes]

theorem xorTx_eq : ∀ (bs tx : List UInt8) (i : Nat), i + bs.length ≤ tx.length →
    xorTx bs tx i = some (StunSpec.xorBytes bs (tx.drop i))
  | [], tx, i, _ => by cases h : tx.drop i <;> simp [xorTx, StunSpec.xorBytes]
  | b :: bs, tx, i, h => by
    have hi : i < tx.length := by simp at h; omega
    simp only [xorTx, List.getElem?_eq_getElem hi]
    rw [xorTx_eq bs tx (i+1) (by simp at h ⊢; omega)]
    rw [List.drop_eq_getElem_cons hi]
    simp [StunSpec.xorBytes]

theorem xorBytes_append : ∀ (a b k1 k2 : List UInt8), a.length = k1.length →
    StunSpec.xorBytes (a ++ b) (k1 ++ k2) = StunSpec.xorBytes a k1 ++ StunSpec.xorBytes b k2
  | [], b, [], k2, _ => by simp [StunSpec.xorBytes]
  | a :: as, b, k :: ks, k2, h => by
    simp only [List.cons_append, StunSpec.xorBytes]
    rw [xorBytes_append as b ks k2 (by simpa using h)]
  | [], _, _ :: _, _, h => by simp at h
  | _ :: _, _, [], _, h => by simp at h

theorem decodeAddr_short (x : Bool) (tx v : List UInt8) (h : v.length < 4) : StunSpec.decodeAddr x tx v = none := by
  rcases v with _ | ⟨a, _ | ⟨b, _ | ⟨c, _ | ⟨e, rest⟩⟩⟩⟩ <;> simp [StunSpec.decodeAddr] at h ⊢
  omega

def toOut (a : StunSpec.Addr) : Out := Out.addr a.family a.bytes a.port

theorem port_const : (kStunMagicCookie >>> kPortXorShift) % 65536 = StunSpec.cookieHi16 := by decide

theorem xorV6_eq (a tx : List UInt8) (ha : a.length = 16) (htx : tx.length = 12) :
    xorV6 a tx = some (StunSpec.xorBytes a (StunSpec.cookieBytes ++ tx)) := by
  unfold xorV6
  rw [xorTx_eq _ _ _ (by simp [ha, htx])]
  have h16 : a.drop 16 = [] := by simp [ha]
  have h12 : (a.drop 4).take 12 = a.drop 4 := List.take_of_length_le (by simp [ha])
  simp only [Option.map_some, h16, h12, List.append_nil, List.drop_zero]
  rw [xorCookie4_eq _ (by simp; omega)]
  conv => rhs; rw [← List.take_append_drop 4 a]
  rw [xorBytes_append _ _ _ _ (by simp [ha, StunSpec.cookieBytes])]

/-- the address block of the model on a value lying inside the datagram = the specification's decoding of that value -/
theorem addrBlock_eq (d tx : List UInt8) (v ty len : Nat) (h : v + len ≤ d.length) (htx : tx.length = 12) :
    addrBlock d tx v ty len = (StunSpec.addrOfAttr tx ⟨ty, (d.drop v).take len⟩).map toOut := by
  unfold addrBlock StunSpec.addrOfAttr
  simp only [kAttrMapped, kAttrXorMapped, kAttrXorMapped2, kAddrMinLen, kFamilyV4, kFamilyV6, kV4MinLen, kV6MinLen]
  by_cases h4 : 4 ≤ len
  · -- the value has its four fixed bytes
    have hv := slice4 d v len (by omega) h4
    have e1 : rd d (v + 1) = some d[v+1] := by unfold rd; exact List.getElem?_eq_getElem (by omega)
    have e2 : rd d (v + 2) = some d[v+2] := by unfold rd; exact List.getElem?_eq_getElem (by omega)
    have e3 : rd d (v + 3) = some d[v+3] := by unfold rd; exact List.getElem?_eq_getElem (by omega)
    have hlen : ((d.drop (v + 4)).take (len - 4)).length = len - 4 := by simp; omega
    have t4 : 8 ≤ len → ((d.drop (v + 4)).take (len - 4)).take 4 = (d.drop (v + 4)).take 4 := by
      intro h8; rw [List.take_take]; congr 1; omega
    have t16 : 20 ≤ len → ((d.drop (v + 4)).take (len - 4)).take 16 = (d.drop (v + 4)).take 16 := by
      intro h8; rw [List.take_take]; congr 1; omega
    have r4 : 8 ≤ len → rdN d (v + 4) 4 = some ((d.drop (v + 4)).take 4) := by
      intro h8; unfold rdN; rw [if_pos (by omega)]
    have r16 : 20 ≤ len → rdN d (v + 4) 16 = some ((d.drop (v + 4)).take 16) := by
      intro h8; unfold rdN; rw [if_pos (by omega)]
    have l16 : 20 ≤ len → ((d.drop (v + 4)).take 16).length = 16 := by intro h8; simp; omega
    have l4 : 8 ≤ len → ((d.drop (v + 4)).take 4).length ≤ 4 := by intro h8; simp; omega
    by_cases hm : ty = 1
    · subst hm
      simp only [hv, StunSpec.decodeAddr, e1, e2, e3, hlen, port_const]
      by_cases f1 : d[v+1].toNat = 1
      · by_cases h8 : 8 ≤ len
        · simp [f1, h8, h4, r4 h8, t4 h8, toOut, Stun.be16, StunSpec.be16, (by omega : 4 ≤ len - 4)]
        · simp [f1, h8, h4, toOut, (by omega : len - 4 < 4)]
      · by_cases f2 : d[v+1].toNat = 2
        · by_cases h20 : 20 ≤ len
          · simp [f2, h20, h4, r16 h20, t16 h20, toOut, Stun.be16, StunSpec.be16, (by omega : 16 ≤ len - 4)]
          · simp [f2, h20, h4, toOut, (by omega : len - 4 < 16)]
        · simp [f1, f2, h4]
    · by_cases hx : ty = 32
      · subst hx
        simp only [hv, StunSpec.decodeAddr, e1, e2, e3, hlen, port_const]
        by_cases f1 : d[v+1].toNat = 1
        · by_cases h8 : 8 ≤ len
          · simp [f1, h8, h4, r4 h8, t4 h8, toOut, Stun.be16, StunSpec.be16, (by omega : 4 ≤ len - 4),
              xorCookie4_eq _ (l4 h8)]
          · simp [f1, h8, h4, toOut, (by omega : len - 4 < 4)]
        · by_cases f2 : d[v+1].toNat = 2
          · by_cases h20 : 20 ≤ len
            · simp [f2, h20, h4, r16 h20, t16 h20, toOut, Stun.be16, StunSpec.be16, (by omega : 16 ≤ len - 4),
                xorV6_eq _ _ (l16 h20) htx]
            · simp [f2, h20, h4, toOut, (by omega : len - 4 < 16)]
          · simp [f1, f2, h4]
      · simp [hm, hx]
  · -- fewer than four value bytes: neither side decodes
    have hs : ((d.drop v).take len).length < 4 := by simp; omega
    by_cases hm : ty = 1
    · simp [hm, h4, decodeAddr_short _ _ _ hs]
    · by_cases hx : ty = 32
      · simp [hx, h4, decodeAddr_short _ _ _ hs]
      · simp [hm, hx]

theorem ofSpec_map (o : Option StunSpec.Addr) : ofSpec o = match o.map toOut with | some x => x | none => Out.none := by
  cases o <;> rfl

theorem attrsF_short (fuel : Nat) (b : List UInt8) (h : b.length < 4) : StunSpec.attrsF fuel b = [] := by
  rcases b with _ | ⟨a, _ | ⟨b, _ | ⟨c, _ | ⟨e, rest⟩⟩⟩⟩ <;> cases fuel <;> simp [StunSpec.attrsF] at h ⊢
  all_goals omega

theorem attrs_short (b : List UInt8) (h : b.length < 4) : StunSpec.attrs b = [] := attrsF_short _ _ h

/-- more fuel than bytes changes nothing -/
theorem attrsF_fuel : ∀ (n f1 f2 : Nat) (b : List UInt8), b.length ≤ n → n ≤ f1 → n ≤ f2 →
    StunSpec.attrsF f1 b = StunSpec.attrsF f2 b := by
  intro n
  induction n with
  | zero =>
    intro f1 f2 b hb _ _
    rw [attrsF_short f1 b (by omega), attrsF_short f2 b (by omega)]
  | succ n ih =>
    intro f1 f2 b hb h1 h2
    rcases b with _ | ⟨t0, _ | ⟨t1, _ | ⟨l0, _ | ⟨l1, rest⟩⟩⟩⟩
    · rw [attrsF_short f1 _ (by simp), attrsF_short f2 _ (by simp)]
    · rw [attrsF_short f1 _ (by simp), attrsF_short f2 _ (by simp)]
    · rw [attrsF_short f1 _ (by simp), attrsF_short f2 _ (by simp)]
    · rw [attrsF_short f1 _ (by simp), attrsF_short f2 _ (by simp)]
    · obtain ⟨g1, rfl⟩ : ∃ g, f1 = g + 1 := ⟨f1 - 1, by omega⟩
      obtain ⟨g2, rfl⟩ : ∃ g, f2 = g + 1 := ⟨f2 - 1, by omega⟩
      simp only [StunSpec.attrsF]
      split
      · congr 1
        apply ih
        · simp only [List.length_drop, List.length_cons] at hb ⊢; omega
        · omega
        · omega
      · rfl

/-- the fuel-free unfolding equation of the specification's attribute walk -/
theorem attrs_cons (t0 t1 l0 l1 : UInt8) (rest : List UInt8) :
    StunSpec.attrs (t0 :: t1 :: l0 :: l1 :: rest) =
      if StunSpec.be16 l0 l1 ≤ rest.length then
        ⟨StunSpec.be16 t0 t1, rest.take (StunSpec.be16 l0 l1)⟩ :: StunSpec.attrs (rest.drop (StunSpec.pad4 (StunSpec.be16 l0 l1)))
      else [] := by
  unfold StunSpec.attrs
  simp only [List.length_cons, StunSpec.attrsF]
  split
  · congr 1
    apply attrsF_fuel (rest.drop (StunSpec.pad4 (StunSpec.be16 l0 l1))).length
    · omega
    · simp only [List.length_drop]; omega
    · omega
  · rfl

/-- The attribute loop of the model, started at `offset` with `remaining` declared bytes that all lie inside the
datagram, computes the specification's "first usable address attribute" of exactly those bytes. -/
theorem loopF_eq (d tx : List UInt8) (htx : tx.length = 12) : ∀ (fuel remaining offset : Nat),
    remaining < 4 * fuel → offset + remaining ≤ d.length →
    loopF d tx fuel offset remaining =
      ofSpec ((StunSpec.attrs ((d.drop offset).take remaining)).findSome? (StunSpec.addrOfAttr tx)) := by
  intro fuel
  induction fuel with
  | zero => intro remaining offset h; omega
  | succ fuel ih =>
    intro remaining offset hfuel hinv
    rw [loopF]
    by_cases h4 : 4 ≤ remaining
    · have hoff : offset + 4 ≤ d.length := by omega
      rw [if_pos ⟨h4, hoff⟩]
      have e0 : rd d offset = some d[offset] := by unfold rd; exact List.getElem?_eq_getElem (by omega)
      have e1 : rd d (offset + 1) = some d[offset+1] := by unfold rd; exact List.getElem?_eq_getElem (by omega)
      have e2 : rd d (offset + 2) = some d[offset+2] := by unfold rd; exact List.getElem?_eq_getElem (by omega)
      have e3 : rd d (offset + 3) = some d[offset+3] := by unfold rd; exact List.getElem?_eq_getElem (by omega)
      simp only [e0, e1, e2, e3, kAttrHdrInBound]
      rw [slice4 d offset remaining hoff h4, attrs_cons]
      have hrest : ((d.drop (offset + 4)).take (remaining - 4)).length = remaining - 4 := by simp; omega
      have hbe : ∀ a b : UInt8, Stun.be16 a b = StunSpec.be16 a b := fun _ _ => rfl
      simp only [hrest, hbe]
      generalize hlen : StunSpec.be16 d[offset+2] d[offset+3] = len
      generalize hty : StunSpec.be16 d[offset] d[offset+1] = ty
      by_cases hfit : len ≤ remaining - 4
      · rw [if_neg (by omega), if_pos hfit]
        simp only [List.findSome?_cons]
        have hval : ((d.drop (offset + 4)).take (remaining - 4)).take len = (d.drop (offset + 4)).take len := by
          rw [List.take_take]; congr 1; omega
        rw [hval, addrBlock_eq d tx (offset + 4) ty len (by omega) htx]
        cases hdec : StunSpec.addrOfAttr tx ⟨ty, (d.drop (offset + 4)).take len⟩ with
        | some a => simp [ofSpec, toOut]
        | none =>
          simp only [Option.map_none]
          have hpad : padded len = StunSpec.pad4 len := rfl
          rw [hpad]
          by_cases hp : remaining < 4 + StunSpec.pad4 len
          · rw [if_pos hp]
            have : ((d.drop (offset + 4)).take (remaining - 4)).drop (StunSpec.pad4 len) = [] := by
              apply List.drop_eq_nil_of_le; rw [hrest]; omega
            rw [this, attrs_short [] (by simp)]; rfl
          · rw [if_neg hp]
            rw [ih (remaining - (4 + StunSpec.pad4 len)) (offset + 4 + StunSpec.pad4 len) (by omega) (by omega)]
            rw [List.drop_take, List.drop_drop]
            have : remaining - 4 - StunSpec.pad4 len = remaining - (4 + StunSpec.pad4 len) := by omega
            rw [this]
      · rw [if_pos (by omega), if_neg hfit]; rfl
    · rw [if_neg (by omega), attrs_short _ (by simp; omega)]; rfl

theorem loop_eq (d tx : List UInt8) (htx : tx.length = 12) (remaining offset : Nat) (h : offset + remaining ≤ d.length) :
    loop d tx offset remaining =
      ofSpec ((StunSpec.attrs ((d.drop offset).take remaining)).findSome? (StunSpec.addrOfAttr tx)) :=
  loopF_eq d tx htx _ _ _ (by omega) h

end EphVerif.C33L
