/-
C14 helper lemmas: the length field round-trips, one well-formed frame fed to an idle reader is
one delivery, an oversized header ends the session, the body buffer never exceeds the limit.
-/
import EphVerif.Lemmas.C14Reader
import EphVerif.Lemmas.C14Cipher

set_option linter.unusedSimpArgs false

namespace EphVerif.Frames
open EphVerif.Gen

theorem lengthBytes_length (n : Nat) : (lengthBytes n).length = 4 := by
  simp [lengthBytes, C14.sendShifts]

/-- big-endian length field: what `receive_loop` reads is what `send` wrote (for sizes below 2^32) -/
theorem readLength_lengthBytes (n : Nat) (h : n < 4294967296) : readLength (lengthBytes n) = n := by
  simp only [lengthBytes, readLength, C14.sendShifts, C14.recvShifts, List.map_cons, List.map_nil, List.zipWith_cons_cons,
    List.zipWith_nil_right, List.foldl_cons, List.foldl_nil, UInt8.toNat_ofNat']
  omega

theorem recvRefuses_iff (n : Nat) : C14.recvRefuses n = true ↔ n > 1048576 := by
  simp [C14.recvRefuses, C14.kMaxPayloadSize]

theorem sendRefuses_iff (n : Nat) : C14.sendRefuses n = true ↔ n > 1048576 := by
  simp [C14.sendRefuses, C14.kMaxPayloadSize]

theorem counters_agree : C14.sendCounter = C14.recvCounter := rfl

/-- one frame written by `send`, fed (in any pieces, see `feed_append`) to a reader at the top of
its loop: exactly one delivery, of exactly the payload -/
theorem feed_frame (key nonce payload : Bytes) (r : Reader) (h : Idle r) (hk : key.length = 32) (hn : nonce.length = 12)
    (hp : payload.length ≤ 1048576) :
    feed key r (encodeFrame key nonce payload)
      = { r with delivered := r.delivered ++ [payload], consumed := r.consumed + 16 + payload.length,
                 maxAlloc := max r.maxAlloc payload.length } := by
  unfold encodeFrame
  rw [List.append_assoc, feed_append, feed_nonce key r h nonce hn, feed_append,
    feed_length key { r with want := .length nonce, need := 4, acc := [], consumed := r.consumed + 12 } nonce _ h.ended rfl rfl rfl
      (lengthBytes_length _),
    readLength_lengthBytes _ (by omega)]
  unfold afterHeader
  have hnot : ¬ C14.recvRefuses payload.length = true := by rw [recvRefuses_iff]; omega
  simp only [hnot, if_false, Bool.false_eq_true]
  have hlen : (cipher key nonce C14.sendCounter payload).length = payload.length :=
    Cipher.chacha20_length key nonce _ payload hk hn
  have hinv : cipher key nonce C14.recvCounter (cipher key nonce C14.sendCounter payload) = payload :=
    Cipher.chacha20_involution key nonce _ payload hk hn
  by_cases h0 : payload.length = 0
  · have hnil : payload = [] := List.eq_nil_of_length_eq_zero h0
    subst hnil
    have hct : cipher key nonce C14.sendCounter [] = [] :=
      List.eq_nil_of_length_eq_zero (by rw [hlen]; rfl)
    simp only [List.length_nil, if_true, hct, feed_nil, deliver]
    have hr : cipher key nonce C14.recvCounter [] = [] := hct
    rw [hr]
    cases r
    simp only [Reader.mk.injEq, kNonceSize_eq, Nat.max_zero, and_true, true_and] at h ⊢
    obtain ⟨he, hw, hneed, hacc⟩ := h
    simp only at he hw hneed hacc
    subst he hw hneed hacc
    simp
  · simp only [h0, if_false]
    rw [feed_body key { r with want := .body nonce, need := payload.length, acc := [], consumed := r.consumed + 12 + 4, maxAlloc := max r.maxAlloc payload.length } nonce _ h.ended rfl hlen.symm (by omega) rfl]
    simp only [deliver, hinv, hlen]
    cases r
    simp only [Reader.mk.injEq, kNonceSize_eq, and_true, true_and] at h ⊢
    obtain ⟨he, hw, hneed, hacc⟩ := h
    simp only at he hw hneed hacc
    subst he hw hneed hacc
    simp

/-- the reader is again at the top of its loop after a frame -/
theorem idle_after_frame (r : Reader) (h : Idle r) (d : List Bytes) (c m : Nat) :
    Idle { r with delivered := d, consumed := c, maxAlloc := m } := ⟨h.ended, h.want, h.need, h.acc⟩

/-- a sequence of frames: every payload once, in order -/
theorem feed_frames (key : Bytes) (frames : List (Bytes × Bytes)) (r : Reader) (h : Idle r) (hk : key.length = 32)
    (hn : ∀ f ∈ frames, f.1.length = 12) (hp : ∀ f ∈ frames, f.2.length ≤ 1048576) :
    let r' := feed key r (frames.flatMap fun f => encodeFrame key f.1 f.2)
    Idle r' ∧ r'.delivered = r.delivered ++ frames.map (·.2) ∧
      r'.consumed = r.consumed + (frames.map fun f => 16 + f.2.length).sum ∧
      r'.maxAlloc = (frames.map (·.2.length)).foldl max r.maxAlloc := by
  induction frames generalizing r with
  | nil => exact ⟨h, by simp [feed_nil], by simp [feed_nil], by simp [feed_nil]⟩
  | cons f fs ih =>
    simp only [List.flatMap_cons, feed_append]
    rw [feed_frame key f.1 f.2 r h hk (hn f (List.mem_cons_self ..)) (hp f (List.mem_cons_self ..))]
    have := ih { r with delivered := r.delivered ++ [f.2], consumed := r.consumed + 16 + f.2.length,
                        maxAlloc := max r.maxAlloc f.2.length }
      (idle_after_frame r h _ _ _) (fun g hg => hn g (List.mem_cons_of_mem _ hg)) (fun g hg => hp g (List.mem_cons_of_mem _ hg))
    obtain ⟨i1, i2, i3, i4⟩ := this
    refine ⟨i1, ?_, ?_, ?_⟩
    · rw [i2]; simp
    · rw [i3]; simp only [List.map_cons, List.sum_cons]; omega
    · rw [i4]; simp

/-- a header announcing more than the limit, reaching a reader at the top of its loop: the
session is ended after exactly these 16 bytes, no buffer is allocated, nothing is delivered, and
whatever follows is never read -/
theorem feed_oversized (key nonce lb rest : Bytes) (r : Reader) (h : Idle r) (hn : nonce.length = 12)
    (hl : lb.length = 4) (hbig : readLength lb > 1048576) :
    feed key r (nonce ++ lb ++ rest)
      = { r with ended := some (.oversized (readLength lb)), want := .length nonce, need := 0, acc := [],
                 consumed := r.consumed + 16 } := by
  rw [List.append_assoc, feed_append, feed_nonce key r h nonce hn, feed_append,
    feed_length key { r with want := .length nonce, need := 4, acc := [], consumed := r.consumed + 12 } nonce lb h.ended rfl rfl rfl hl]
  unfold afterHeader
  have hyes : C14.recvRefuses (readLength lb) = true := by rw [recvRefuses_iff]; exact hbig
  simp only [hyes, if_true]
  rw [feed_ended key _ rest (by rfl)]

/-- the ciphertext buffer is bounded by the limit on every byte string whatsoever -/
theorem stepByte_maxAlloc (key : Bytes) (r : Reader) (b : UInt8) (h : r.maxAlloc ≤ 1048576) :
    (stepByte key r b).maxAlloc ≤ 1048576 := by
  unfold stepByte
  cases hr : r.ended with
  | some e => simpa using h
  | none =>
    simp only
    split
    · unfold complete
      cases hw : r.want with
      | nonce => simpa using h
      | length nonce =>
        simp only [afterHeader]
        split
        · simpa using h
        · rename_i hnot
          split
          · simpa [deliver] using h
          · simp only
            have : ¬ readLength (b :: r.acc).reverse > 1048576 := by rw [← recvRefuses_iff]; exact hnot
            omega
      | body nonce => simpa [deliver] using h
    · simpa using h

theorem feed_maxAlloc (key : Bytes) (r : Reader) (s : Bytes) (h : r.maxAlloc ≤ 1048576) :
    (feed key r s).maxAlloc ≤ 1048576 := by
  induction s generalizing r with
  | nil => exact h
  | cons b s ih => rw [feed_cons]; exact ih _ (stepByte_maxAlloc key r b h)

/-- deliveries only ever grow: what was handed to the handler stays handed -/
theorem stepByte_delivered_prefix (key : Bytes) (r : Reader) (b : UInt8) :
    r.delivered <+: (stepByte key r b).delivered := by
  unfold stepByte
  cases hr : r.ended with
  | some e => exact List.prefix_refl _
  | none =>
    simp only
    split
    · unfold complete
      cases hw : r.want with
      | nonce => exact List.prefix_refl _
      | length nonce =>
        simp only [afterHeader]
        split
        · exact List.prefix_refl _
        · split
          · exact List.prefix_append _ _
          · exact List.prefix_refl _
      | body nonce => exact List.prefix_append _ _
    · exact List.prefix_refl _

theorem feed_delivered_prefix (key : Bytes) (r : Reader) (s : Bytes) : r.delivered <+: (feed key r s).delivered := by
  induction s generalizing r with
  | nil => exact List.prefix_refl _
  | cons b s ih => rw [feed_cons]; exact (stepByte_delivered_prefix key r b).trans (ih _)

end EphVerif.Frames
