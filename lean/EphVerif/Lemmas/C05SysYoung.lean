/-
System-level composition (extension of C05), part 2: nothing the node holds ends more than the
maximum TTL (≤ 24 h) after *now* — for a node constructed from any raw configuration.

`Young cfg s`: every chunk record, locator, locator holder, routing contact and key-share record
expires at or before `s.now + maxNs cfg`.  An entry is created with a deadline at most `maxNs` after
the instant of its creation (`Sys.store_bounds` ← C02.store, `Sys.manifest_shard_bounds` /
`Sys.announce_contact_bounds` ← C03.cap), and the clock only moves forward, so the bound holds in the
state right after the creating operation and in every later state.

Cached manifests are deliberately absent from `Young`: the cache keeps a manifest until the manifest's
*own* expiry, which for a manifest received from a peer is whatever the publisher wrote
(`Proofs/SystemLifetime.lean`, `remote_manifest_outlives_day`).
-/
import EphVerif.Lemmas.C05SysBridge

namespace EphVerif.Sys
open EphVerif.NodeCleanup EphVerif.C05L
open EphVerif.ChunkStore (aget aset Recs)
open EphVerif.Providers (Table Loc Holder)

/-- the histories the system theorems speak about: announcements come from other peers, and the node
    re-announces a chunk with a TTL it could have computed (`announce_chunk` is only ever called with a
    sanitised TTL) -/
def OpSys (cfg : Cfg) : Op → Prop
  | .announce _ _ _ p _ _ _ _ => p ≠ cfg.self
  | .reannounce _ ttl _ => ttl ≤ cfg.node.maxTtl
  | _ => True

def OpsSys (cfg : Cfg) (ops : List Op) : Prop := ∀ op ∈ ops, OpSys cfg op

theorem OpSys.wf {cfg : Cfg} {op : Op} (h : OpSys cfg op) : OpWf cfg op := by
  cases op <;> first | exact h | trivial

theorem OpsSys.wf {cfg : Cfg} {ops : List Op} (h : OpsSys cfg ops) : OpsWf cfg ops := fun op hop => (h op hop).wf

def RecsYoung (M : Int) (recs : Recs) : Prop := ∀ e ∈ recs, e.2.expires ≤ M
def LocsYoung (M : Int) (t : Table) : Prop := ∀ c l, t c = some l → l.exp ≤ M ∧ ∀ h ∈ l.holders, h.exp ≤ M
def RoutesYoung (M : Int) (r : Routing.Table) : Prop := ∀ i, ∀ x ∈ r.buckets i, x.exp ≤ M
def ListYoung (M : Int) (l : List (String × Int)) : Prop := ∀ e ∈ l, e.2 ≤ M

structure Young (cfg : Cfg) (s : State) : Prop where
  recs : RecsYoung (s.now + maxNs cfg) s.recs
  locs : LocsYoung (s.now + maxNs cfg) s.locs
  routes : RoutesYoung (s.now + maxNs cfg) s.routes
  shards : ListYoung (s.now + maxNs cfg) s.shards

/-! ### component lemmas -/

theorem maxExp_le {l : List Holder} {d M : Int} (hl : ∀ h ∈ l, h.exp ≤ M) (hd : d ≤ M) : Providers.maxExp l d ≤ M := by
  unfold Providers.maxExp
  induction l generalizing d with
  | nil => exact hd
  | cons x xs ih =>
    simp only [List.foldl_cons]
    exact ih (fun h hh => hl h (List.mem_cons_of_mem _ hh))
      (by have := hl x (List.mem_cons_self ..); omega)

theorem addContact_exp (t : Table) (now : Int) (c p : String) (ttlNs : Int) (hint : Option (List String)) (l' : Loc)
    (h : (Providers.addContact t now c p ttlNs hint) c = some l') : l'.exp = Providers.maxExp l'.holders (now + ttlNs) := by
  simp only [Providers.addContact] at h
  rw [set_get] at h
  simp only [if_true] at h
  cases h
  rfl

theorem recsYoung_put {M now : Int} {recs : Recs} (h : RecsYoung M recs) (c : ChunkStore.Cfg) (id : String)
    (d p : ChunkStore.Bytes) (ttl : Int) (n : ChunkStore.Bytes) (enc : Bool)
    (hb : now + ChunkStore.effTtl c ttl * ChunkStore.nsPerSec ≤ M) :
    RecsYoung M (ChunkStore.put c recs now id d p ttl n enc) := by
  intro e he
  rcases mem_aset he with he | ⟨he, _⟩
  · rw [he]; exact hb
  · exact h e he

theorem listYoung_aset {M : Int} {l : List (String × Int)} (h : ListYoung M l) (k : String) {v : Int} (hv : v ≤ M) :
    ListYoung M (aset l k v) := by
  intro e he
  rcases mem_aset he with he | ⟨he, _⟩
  · rw [he]; exact hv
  · exact h e he

theorem locsYoung_addContact {M now : Int} {t : Table} (h : LocsYoung M t) (c p : String) (ttlNs : Int)
    (hint : Option (List String)) (hb : now + ttlNs ≤ M) : LocsYoung M (Providers.addContact t now c p ttlNs hint) := by
  intro k l' hk
  rcases addContact_get t now c p ttlNs hint k l' hk with ⟨_, hold⟩ | ⟨hkc, _, _, hh⟩
  · exact h k l' hold
  · have hhold : ∀ x ∈ l'.holders, x.exp ≤ M := by
      intro x hx
      rcases hh x hx with hx | ⟨_, hx⟩
      · rw [hx]; exact hb
      · cases ht : t c with
        | none => rw [holdersOf_none ht] at hx; simp at hx
        | some l => rw [holdersOf_some ht] at hx; exact (h c l ht).2 x hx
    refine ⟨?_, hhold⟩
    rw [hkc] at hk
    rw [addContact_exp t now c p ttlNs hint l' hk]
    exact maxExp_le hhold hb

theorem routesYoung_add {M now : Int} {r : Routing.Table} (h : RoutesYoung M r) (c : Routing.Contact) (ttlNs : Int)
    (hb : now + ttlNs ≤ M) : RoutesYoung M (Routing.addContactBucket r now c ttlNs) := by
  intro i x hx
  rcases mem_addContactBucket hx with hx | hx
  · omega
  · exact h i x hx

theorem locsYoung_of_shrinks {M : Int} {t t' : Table} (h : LocsYoung M t)
    (hs : ∀ k l', t' k = some l' → ∃ l, t k = some l ∧ Shrunk l' l) : LocsYoung M t' := by
  intro k l' hk
  obtain ⟨l, hl, he, hh⟩ := hs k l' hk
  exact ⟨by rw [he]; exact (h k l hl).1, fun x hx => (h k l hl).2 x (hh x hx)⟩

theorem RecsYoung.mono {M M' : Int} {r : Recs} (h : RecsYoung M r) (hm : M ≤ M') : RecsYoung M' r :=
  fun e he => Int.le_trans (h e he) hm
theorem LocsYoung.mono {M M' : Int} {t : Table} (h : LocsYoung M t) (hm : M ≤ M') : LocsYoung M' t :=
  fun c l hl => ⟨Int.le_trans (h c l hl).1 hm, fun x hx => Int.le_trans ((h c l hl).2 x hx) hm⟩
theorem RoutesYoung.mono {M M' : Int} {r : Routing.Table} (h : RoutesYoung M r) (hm : M ≤ M') : RoutesYoung M' r :=
  fun i x hx => Int.le_trans (h i x hx) hm
theorem ListYoung.mono {M M' : Int} {l : List (String × Int)} (h : ListYoung M l) (hm : M ≤ M') : ListYoung M' l :=
  fun e he => Int.le_trans (h e he) hm

theorem sweep_shrinks_all (t : Table) (self : String) (cs : List String) (now : Int) :
    ∀ k l', (Providers.sweep (withdrawAll t self cs) now) k = some l' → ∃ l, t k = some l ∧ Shrunk l' l := by
  intro k l' hk
  obtain ⟨l1, h1, hs1, _, _⟩ := sweep_clean _ now k l' hk
  obtain ⟨l, h0, hs0, _⟩ := withdrawAll_shrinks self cs t k l1 h1
  exact ⟨l, h0, hs1.trans hs0⟩

/-! ### every operation preserves `Young` (node constructed from a raw configuration) -/

theorem young_init (cfg : Cfg) (t0 : Int) : Young cfg (State.init cfg t0) := by
  refine ⟨?_, ?_, ?_, ?_⟩
  · intro e he; simp [State.init] at he
  · intro c l hl; simp [State.init, Providers.Table.empty] at hl
  · intro i x hx; simp [State.init, Routing.Table.empty] at hx
  · intro e he; simp [State.init] at he

theorem young_acceptManifest {cfg : Cfg} {s : State} (h : Young cfg s) (c : String) (e : Int) {t : Int}
    (ht : t * ns ≤ maxNs cfg) : Young cfg (acceptManifest cfg s c e t) :=
  ⟨h.recs, h.locs, h.routes, listYoung_aset h.shards c (by show s.now + t * ns ≤ s.now + maxNs cfg; omega)⟩

theorem young_store (raw : Raw) (e : Env) {s : State} (h : Young (sysCfg raw e) s) (c : String) (ttl : Int)
    (hint : Option (List String)) : Young (sysCfg raw e) (store (sysCfg raw e) s c ttl hint) := by
  obtain ⟨⟨_, b1⟩, _, ⟨_, b3⟩, ⟨_, b4⟩, _⟩ := store_bounds raw e ttl
  simp only [storeLifetimes] at b1 b3 b4
  refine ⟨?_, ?_, ?_, ?_⟩
  · exact recsYoung_put h.recs _ _ _ _ _ _ _ (by omega)
  · exact locsYoung_addContact h.locs c _ _ hint (by show s.now + _ ≤ s.now + _; omega)
  · exact routesYoung_add h.routes _ _ (by show s.now + _ ≤ s.now + _; omega)
  · exact listYoung_aset h.shards c (by omega)

theorem young_ingest (raw : Raw) (e : Env) {s : State} (h : Young (sysCfg raw e) s) (c : String) (E : Int) (same : Bool) :
    Young (sysCfg raw e) (ingest (sysCfg raw e) s c E same) := by
  unfold ingest
  split
  · exact h
  · rename_i t ht
    split
    · exact h
    · exact young_acceptManifest h c E (manifest_shard_bounds raw e s.now E t ht).2.1

theorem young_announce (raw : Raw) (e : Env) {s : State} (h : Young (sysCfg raw e) s) (c : String) (E : Int) (same : Bool)
    (p : String) (pid : Routing.Id) (addr : String) (ttl : Int) (hint : Option (List String)) :
    Young (sysCfg raw e) (announce (sysCfg raw e) s c E same p pid addr ttl hint) := by
  unfold announce
  split
  · exact h
  · rename_i t ht
    have h' : Young (sysCfg raw e) (if (EphVerif.Gen.C05.announceGuardsHeld && !(keepsReadable s c same)) = true then s
        else acceptManifest (sysCfg raw e) s c E t) := by
      split
      · exact h
      · exact young_acceptManifest h c E (manifest_shard_bounds raw e s.now E t ht).2.1
    have hn : (if (EphVerif.Gen.C05.announceGuardsHeld && !(keepsReadable s c same)) = true then s
        else acceptManifest (sysCfg raw e) s c E t).now = s.now := by split <;> rfl
    have hb := (announce_contact_bounds raw e s.now E t p ttl ht).2.1
    simp only [advertised] at hb
    generalize (if (EphVerif.Gen.C05.announceGuardsHeld && !(keepsReadable s c same)) = true then s
        else acceptManifest (sysCfg raw e) s c E t) = s1 at h' hn ⊢
    simp only
    split
    · exact h'
    · exact ⟨h'.recs, locsYoung_addContact h'.locs c p _ hint (by rw [hn]; omega),
        routesYoung_add h'.routes _ _ (by rw [hn]; omega), h'.shards⟩

theorem young_reannounce {cfg : Cfg} {s : State} (h : Young cfg s) (c : String) (ttl : Int) (hint : Option (List String))
    (hle : ttl ≤ cfg.node.maxTtl) : Young cfg (reannounce cfg s c ttl hint) := by
  unfold reannounce
  split
  · exact h
  · split
    · exact h
    · have hb : ttl * ns ≤ maxNs cfg := by simp only [maxNs, ns]; omega
      exact ⟨h.recs, locsYoung_addContact h.locs c cfg.self _ hint (by omega),
        routesYoung_add h.routes _ _ (by omega), h.shards⟩

theorem young_probe {cfg : Cfg} {s : State} (h : Young cfg s) (c : String) : Young cfg (probe s c) :=
  ⟨h.recs, locsYoung_of_shrinks h.locs (findProviders_shrinks s.locs s.now c), h.routes, h.shards⟩

theorem young_lookup (raw : Raw) (e : Env) {s : State} (h : Young (sysCfg raw e) s) (c : String) :
    Young (sysCfg raw e) (lookup (sysCfg raw e) s c) := by
  unfold lookup
  split
  · split
    · exact h
    · split
      · exact h
      · split
        · have hb := (manifest_shard_bounds raw e s.now _ _ ‹manifestTtl _ _ _ = some _›).2.1
          exact ⟨h.recs, h.locs, h.routes, listYoung_aset h.shards c (by omega)⟩
        · exact h
  · exact young_probe h c

theorem young_cleanup {cfg : Cfg} {s : State} (h : Young cfg s) : Young cfg (cleanup cfg s) := by
  rw [cleanup_eq]
  refine ⟨?_, ?_, ?_, ?_⟩
  · exact fun x hx => h.recs x (List.mem_filter.mp hx).1
  · exact locsYoung_of_shrinks h.locs (sweep_shrinks_all _ _ _ _)
  · exact fun i x hx => h.routes i x (mem_sweepBuckets hx).1
  · exact fun x hx => h.shards x (List.mem_filter.mp hx).1

theorem young_tick {cfg : Cfg} {s : State} (h : Young cfg s) : Young cfg (tick cfg s) := by
  unfold tick
  split
  · have h' := young_cleanup h; exact ⟨h'.recs, h'.locs, h'.routes, h'.shards⟩
  · exact ⟨h.recs, h.locs, h.routes, h.shards⟩

theorem young_step (raw : Raw) (e : Env) {s : State} (h : Young (sysCfg raw e) s) (op : Op) (hw : OpSys (sysCfg raw e) op) :
    Young (sysCfg raw e) (step (sysCfg raw e) s op) := by
  cases op with
  | adv d =>
    have hm : s.now + maxNs (sysCfg raw e) ≤ s.now + d + maxNs (sysCfg raw e) := by omega
    exact ⟨h.recs.mono hm, h.locs.mono hm, h.routes.mono hm, h.shards.mono hm⟩
  | store c ttl hint => exact young_store raw e h c ttl hint
  | ingest c E same => exact young_ingest raw e h c E same
  | announce c E same p pid addr ttl hint => exact young_announce raw e h c E same p pid addr ttl hint
  | reannounce c ttl hint => exact young_reannounce h c ttl hint hw
  | lookup c => exact young_lookup raw e h c
  | probe c => exact young_probe h c
  | tick => exact young_tick h
  | drain => exact ⟨h.recs, h.locs, h.routes, h.shards⟩
  | audit => exact h

theorem young_run (raw : Raw) (e : Env) {r : Run} (h : Young (sysCfg raw e) r.s) (ops : List Op)
    (hw : OpsSys (sysCfg raw e) ops) : Young (sysCfg raw e) (run (sysCfg raw e) r ops).s := by
  induction ops generalizing r with
  | nil => exact h
  | cons op ops ih =>
    simp only [run, List.foldl_cons]
    exact ih (r := exec (sysCfg raw e) r op) (young_step raw e h op (hw op (List.mem_cons_self ..)))
      (fun o ho => hw o (List.mem_cons_of_mem _ ho))

end EphVerif.Sys
