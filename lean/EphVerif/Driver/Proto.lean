/-
Line protocol for model drivers (core Lean only; see DESIGN.md section 9).

  drv <ops-file> [<impl-out-file>]

`case <id>` lines reset the machine and are echoed.  Every other line is one operation:
the machine returns the model's output line and, when the implementation's output for the
same line is supplied, the monitor's verdict on it (`ok` or `viol:<clause>[:detail]`).
-/
namespace EphVerif.Proto

def hexDigit (n : Nat) : Char :=
  if n < 10 then Char.ofNat (48 + n) else Char.ofNat (87 + n)

def hexOfBytes (bs : List UInt8) : String :=
  String.ofList (bs.flatMap fun b => [hexDigit (b.toNat / 16), hexDigit (b.toNat % 16)])

def hexOfNats (bs : List Nat) : String :=
  String.ofList (bs.flatMap fun b => [hexDigit ((b % 256) / 16), hexDigit (b % 16)])

/-- `-` denotes the empty byte string (so that fields never vanish when split on spaces). -/
def hexOrDash (s : String) : String := if s.isEmpty then "-" else s

def hexVal (c : Char) : Option Nat :=
  if '0' ≤ c ∧ c ≤ '9' then some (c.toNat - 48)
  else if 'a' ≤ c ∧ c ≤ 'f' then some (c.toNat - 87)
  else if 'A' ≤ c ∧ c ≤ 'F' then some (c.toNat - 55)
  else none

def natsOfHexAux : List Char → List Nat → Option (List Nat)
  | [], acc => some acc.reverse
  | [_], _ => none
  | a :: b :: rest, acc =>
    match hexVal a, hexVal b with
    | some x, some y => natsOfHexAux rest ((x * 16 + y) :: acc)
    | _, _ => none

def natsOfHex (s : String) : Option (List Nat) :=
  if s == "-" then some [] else natsOfHexAux s.toList []

def bytesOfHex (s : String) : Option (List UInt8) :=
  (natsOfHex s).map (·.map UInt8.ofNat)

/-- Same mapping as `verif::id32` in harness/common/lineproto.hpp. -/
def id32 (tok : String) : List Nat :=
  if tok.length == 64 then (natsOfHex tok).getD (List.replicate 32 0)
  else
    let cs := tok.toList
    let first := match cs with | [] => 0 | c :: _ => c.toNat % 256
    let n := (String.ofList (cs.drop 1)).toNat?.getD 0
    [first] ++ List.replicate 27 0 ++ [(n / 16777216) % 256, (n / 65536) % 256, (n / 256) % 256, n % 256]

def tokens (line : String) : List String := line.splitOn " "

structure Machine (σ : Type) where
  init : σ
  /-- tokens of the op, the raw line, the implementation's output line (if supplied)
      ↦ new state, model output, verdict -/
  step : σ → List String → String → Option String → σ × String × String

def stripEol (s : String) : String :=
  let s := if s.endsWith "\n" then (s.dropEnd 1).toString else s
  if s.endsWith "\r" then (s.dropEnd 1).toString else s

partial def loop {σ : Type} (m : Machine σ) (ops : IO.FS.Stream) (impl : Option IO.FS.Stream)
    (out : IO.FS.Stream) (st : σ) : IO Unit := do
  let raw ← ops.getLine
  if raw.isEmpty then return ()
  let line := stripEol raw
  let implLine ← match impl with
    | some h => do
        let r ← h.getLine
        pure (some (stripEol r))
    | none => pure none
  if line.startsWith "case " then
    out.putStrLn line
    loop m ops impl out m.init
  else
    let (st', o, v) := m.step st (tokens line) line implLine
    match implLine with
    | some _ => out.putStrLn (o ++ " ## " ++ v)
    | none => out.putStrLn o
    loop m ops impl out st'

def runMain {σ : Type} (m : Machine σ) (args : List String) : IO UInt32 := do
  match args with
  | [] => IO.eprintln "usage: drv <ops-file> [<impl-out-file>]"; return 2
  | opsPath :: rest =>
    let opsH ← IO.FS.Handle.mk opsPath IO.FS.Mode.read
    let implS ← match rest with
      | p :: _ => do
          let h ← IO.FS.Handle.mk p IO.FS.Mode.read
          pure (some (IO.FS.Stream.ofHandle h))
      | [] => pure none
    let out ← IO.getStdout
    loop m (IO.FS.Stream.ofHandle opsH) implS out m.init
    out.flush
    return 0

/-- For pure functions: the verdict is equality of the implementation's line with the model's
    (which the property theorems prove equal to the specification). -/
def eqVerdict (clause : String) (model : String) (impl : Option String) : String :=
  match impl with
  | none => "ok"
  | some i => if i == model then "ok" else "viol:" ++ clause

end EphVerif.Proto
