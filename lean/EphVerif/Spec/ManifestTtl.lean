/-
C03 — specification, written from the property text only.

  "Anything a node derives from a manifest it received — cached key shares, provider contacts,
   replica copies of the chunk and pending fetches — expires no later than the manifest's own
   expiry time, and a manifest that is already expired or whose remaining lifetime is below the
   minimum TTL is rejected without changing node state. A far-future expiry is capped at the
   maximum TTL rather than extending any lifetime beyond it."

All times are wall-clock nanoseconds; a steady-clock deadline `d` is the wall time `d + off`
(`off` = wall − steady, constant).
-/
namespace EphVerif.C03Spec

def nsPerS : Int := 1000000000

/-- the kinds of state a node derives from a manifest -/
inductive Slot where
  | shard                      -- cached key shares (DHT shard record)
  | contact (peer : String)    -- provider contact
  | chunk                      -- replica copy in the chunk store
  | pending                    -- pending fetch
  deriving Repr, DecidableEq

def Slot.name : Slot → String
  | .shard => "key-shares"
  | .contact _ => "provider-contact"
  | .chunk => "replica"
  | .pending => "pending-fetch"

/-- "already expired or remaining lifetime below the minimum TTL" at wall time `wall` -/
def Rejectable (E wall minS : Int) : Prop := E ≤ wall ∨ E - wall < minS * nsPerS

instance (a b c : Int) : Decidable (Rejectable a b c) := by unfold Rejectable; exact inferInstance

/-- a lifetime created at wall time `wall` from a manifest expiring at `E` ends at `deadline`:
    no later than the manifest, … -/
def NotAfterManifest (E deadline : Int) : Prop := deadline ≤ E
/-- … and never more than the maximum TTL ahead -/
def Capped (wall maxS deadline : Int) : Prop := deadline ≤ wall + maxS * nsPerS

instance (a b : Int) : Decidable (NotAfterManifest a b) := by unfold NotAfterManifest; exact inferInstance
instance (a b c : Int) : Decidable (Capped a b c) := by unfold Capped; exact inferInstance

/-- what can be observed of one chunk's derived state (live records; wall-clock deadlines) -/
structure Obs where
  shard : Option Int := none
  contacts : List (String × Int) := []
  chunk : Option Int := none
  pending : Option Int := none
  /-- expiry of the manifest the node has currently adopted for the chunk (its cache entry), while unexpired -/
  manifest : Option Int := none
  deriving Repr, DecidableEq

/-- deadlines that are present in `new` and were not there (with that value) in `old`:
    the records this step created -/
def created (old new : Obs) : List (Slot × Int) :=
  (match new.shard with | some d => if old.shard = some d then [] else [(Slot.shard, d)] | none => []) ++
  (new.contacts.filter fun pc => !(old.contacts.contains pc)).map (fun pc => (Slot.contact pc.1, pc.2)) ++
  (match new.chunk with | some d => if old.chunk = some d then [] else [(Slot.chunk, d)] | none => []) ++
  (match new.pending with | some d => if old.pending = some d then [] else [(Slot.pending, d)] | none => [])

/-- verdict on one manifest arriving at wall time `wall`: `old`/`new` are the chunk's derived state
    as last seen / after the step, `unchanged` says whether the node state as a whole (chunk store,
    DHT, manifest cache, plans, pending fetches) is bit-for-bit what it was before the step.
    A step that changed nothing created nothing; a step that changed something must not have been
    caused by a rejectable manifest, and every record it created must respect both bounds. -/
def judge (E wall minS maxS : Int) (old new : Obs) (unchanged : Bool) : Option String :=
  if unchanged then none
  else if Rejectable E wall minS then some "reject:state changed by a manifest that must be rejected"
  else
    match (created old new).find? (fun sd => ¬ NotAfterManifest E sd.2) with
    | some sd => some s!"derived:{sd.1.name} outlives the manifest by {sd.2 - E} ns"
    | none =>
      match (created old new).find? (fun sd => ¬ Capped wall maxS sd.2) with
      | some sd => some s!"cap:{sd.1.name} exceeds now+max_ttl by {sd.2 - (wall + maxS * nsPerS)} ns"
      | none => none

/-- verdict on the cached key shares at any moment: they are the shares of the manifest the node
    last adopted for the chunk (manifest and shares are always replaced together), so they must not
    be kept beyond *that* manifest's expiry — also when an earlier, longer-lived manifest for the same
    chunk id had been adopted before -/
def judgeShares (o : Obs) : Option String :=
  match o.shard, o.manifest with
  | some d, some E =>
    if NotAfterManifest E d then none
    else some s!"derived:key-shares outlive the manifest they were last adopted from by {d - E} ns"
  | _, _ => none

/-- verdict on a pending-fetch entry seen after a scheduler pass at wall time `wall`: the entry of a
    manifest expiring at `E` must be gone at/after `E`, and must not have been dispatched at/after `E` -/
def judgePending (E wall : Int) (attemptsBefore attemptsAfter : Nat) : Option String :=
  if E ≤ wall then
    if attemptsAfter > attemptsBefore then some "pending:fetch dispatched at/after the manifest expiry"
    else some "pending:entry still present at/after the manifest expiry"
  else none

end EphVerif.C03Spec
