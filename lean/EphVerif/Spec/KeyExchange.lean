/-
Specification side of C12, core Lean only, independent of the code: textbook finite-field
Diffie-Hellman in the group the property names (`p = 2^31 − 1`, generator 5).
-/
namespace EphVerif.Spec.Kex

/-- the modulus `p` of the property statement -/
def p : Nat := 2147483647
/-- the generator -/
def g : Nat := 5

/-- modular exponentiation, mathematically -/
def powMod (b e m : Nat) : Nat := b ^ e % m

/-- public value of the private scalar `a` -/
def pub (a : Nat) : Nat := powMod g a p

/-- the value both sides agree on: `B^a mod p` -/
def shared (a B : Nat) : Nat := powMod B a p

/-- "public keys outside the open interval (1, p) are refused" -/
def acceptable (c : Nat) : Prop := 1 < c ∧ c < p

end EphVerif.Spec.Kex
