/-
What C13, C15 and C16 demand of a message codec, written against an arbitrary
`enc : Msg → Bytes`, `dec : Bytes → Outcome Msg`, `decS : Bytes → Bytes → Outcome Msg` and MAC.
All numbers here are the literals of the property statements (versions 1..4, nonce from version 3,
32-byte tag, TTL < 2^32), not the generated constants.  Core Lean only.
-/
import EphVerif.Model.Message

namespace EphVerif.MessageSpec
open EphVerif.Message

/-- the type byte that announces each payload alternative (Message.hpp, `enum class MessageType`) -/
def tagOf : Payload → Nat
  | .announce _ => 1
  | .request .. => 2
  | .chunk .. => 3
  | .ack .. => 4
  | .handshake .. => 5
  | .handshakeAck .. => 6

/-- "fields within their wire ranges": ids are 32 bytes, every length and TTL fits 32 bits,
    nonces fit 64 bits, public values 32 bits, version bytes 8 bits -/
def FieldsInRange : Payload → Prop
  | .announce a =>
    a.chunkId.length = 32 ∧ a.peerId.length = 32 ∧ a.endpoint.length < 2 ^ 32 ∧ a.manifestUri.length < 2 ^ 32 ∧
      a.shards.length < 2 ^ 32 ∧ 0 ≤ a.ttl ∧ a.ttl < 2 ^ 32 ∧ a.nonce < 2 ^ 64
  | .request c r => c.length = 32 ∧ r.length = 32
  | .chunk c data ttl => c.length = 32 ∧ data.length < 2 ^ 32 ∧ 0 ≤ ttl ∧ ttl < 2 ^ 32
  | .ack c p _ => c.length = 32 ∧ p.length = 32
  | .handshake pub nonce rv => pub < 2 ^ 32 ∧ nonce < 2 ^ 64 ∧ rv < 256
  | .handshakeAck _ nv pub => nv < 256 ∧ pub < 2 ^ 32

instance : (p : Payload) → Decidable (FieldsInRange p)
  | .announce _ => by unfold FieldsInRange; infer_instance
  | .request .. => by unfold FieldsInRange; infer_instance
  | .chunk .. => by unfold FieldsInRange; infer_instance
  | .ack .. => by unfold FieldsInRange; infer_instance
  | .handshake .. => by unfold FieldsInRange; infer_instance
  | .handshakeAck .. => by unfold FieldsInRange; infer_instance

/-- a message "of each type … with fields within their wire ranges": the tag names the payload -/
def Sendable (m : Msg) : Prop := m.type = tagOf m.payload ∧ FieldsInRange m.payload

instance (m : Msg) : Decidable (Sendable m) := by unfold Sendable; infer_instance

/-- … "with a version from 1 to 4" -/
def WellFormed (m : Msg) : Prop := 1 ≤ m.version ∧ m.version ≤ 4 ∧ Sendable m

instance (m : Msg) : Decidable (WellFormed m) := by unfold WellFormed; infer_instance

/-- "a version outside 1..4 is encoded as the nearest supported version" -/
def nearestVersion (v : Nat) : Nat := max 1 (min 4 v)

/-- What arrives: the version is the nearest supported one and the announce PoW nonce is carried
    "from version 3 onward" (older announces have no nonce field: it reads back as 0). -/
def arrives (m : Msg) : Msg :=
  let v := nearestVersion m.version
  { m with
    version := v
    payload := match m.payload with
      | .announce a => .announce (if 3 ≤ v then a else { a with nonce := 0 })
      | p => p }

/-- C15 -/
def RoundTrip (enc : Msg → Bytes) (dec : Bytes → Outcome Msg) : Prop :=
  ∀ m, Sendable m → dec (enc m) = .ok (arrives m)

/-- C15, version byte -/
def VersionClamped (enc : Msg → Bytes) : Prop :=
  ∀ m, (enc m).head? = some (UInt8.ofNat (nearestVersion m.version))

/-- C16: no access outside the input, for plain and signed decoding -/
def Total (dec : Bytes → Outcome Msg) (decS : Bytes → Bytes → Outcome Msg) : Prop :=
  (∀ buf, dec buf ≠ .oob) ∧ (∀ buf key, decS buf key ≠ .oob)

/-- C16: accepted fields are taken verbatim -/
def Verbatim (enc : Msg → Bytes) (dec : Bytes → Outcome Msg) : Prop :=
  ∀ buf m, dec buf = .ok m → enc m <+: buf

/-- C13: exactly the buffers `body ‖ MAC(key, body)` with a decodable body are accepted -/
def SignedExact (mac : Bytes → Bytes → Bytes) (dec : Bytes → Outcome Msg)
    (decS : Bytes → Bytes → Outcome Msg) : Prop :=
  ∀ buf key m, decS buf key = .ok m ↔
    32 ≤ buf.length ∧ buf.drop (buf.length - 32) = mac key (buf.take (buf.length - 32)) ∧
      dec (buf.take (buf.length - 32)) = .ok m

end EphVerif.MessageSpec
