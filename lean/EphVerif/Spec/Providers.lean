/-
Specification for C06: the abstract provider directory with *eager* expiry.

State: per chunk, the current announcements `(peer, expiry)`.  A lookup at time `t` returns
exactly the announcements with `t < expiry`.  An announcement replaces the peer's previous one
for that chunk; a withdrawal removes it; when more than 20 *live* providers would remain, any 20
of them expiring last are kept (ties resolved by the `keep` argument: the specification is
deliberately nondeterministic there, like `std::sort`).  Sweeps do not exist at this level, and
no provider ever disappears for any reason other than its own expiry, a withdrawal, a newer
announcement by the same peer, or the cut to the 20 latest-expiring.
The literal 20 is the number in the property statement, not the generated constant.
-/
namespace EphVerif.C06Spec

/-- an announcement as a lookup reports it: who provides, and until when -/
structure Ann where
  peer : String
  exp : Int
deriving DecidableEq, Repr, Inhabited

/-- chunk ↦ announcements -/
structure S where
  anns : String → List Ann

instance : CoeFun S (fun _ => String → List Ann) := ⟨S.anns⟩

def empty : S := ⟨fun _ => []⟩

def set (s : S) (c : String) (v : List Ann) : S := ⟨fun k => if k = c then v else s k⟩

def liveAt (now : Int) (a : Ann) : Bool := decide (now < a.exp)

/-- everything the directory knows about `c` that is live at `now` -/
def find (s : S) (now : Int) (c : String) : List Ann := (s c).filter (liveAt now)

/-- `keep` is a legal choice of "the 20 expiring last" among `base` -/
def validKeep (base : List Ann) (keep : List String) : Bool :=
  let kept := base.filter (fun a => keep.contains a.peer)
  let dropped := base.filter (fun a => !keep.contains a.peer)
  kept.length == 20 && kept.all (fun k => dropped.all (fun d => decide (d.exp ≤ k.exp)))

/-- canonical choice used when no (valid) hint is supplied: the first 20 after a stable
    descending insertion sort -/
def insertDesc (h : Ann) : List Ann → List Ann
  | [] => [h]
  | x :: xs => if x.exp ≥ h.exp then x :: insertDesc h xs else h :: x :: xs

def defaultKeep (base : List Ann) : List String :=
  ((base.foldl (fun acc h => insertDesc h acc) []).take 20).map (·.peer)

/-- announce `(c, p)` with expiry `e` at time `now`.  Returns the new state and whether the
    supplied hint was usable (`false` = a cut was needed and the hint was not a legal choice). -/
def add (s : S) (now : Int) (c p : String) (e : Int) (keep : Option (List String)) : S × Bool :=
  let base := (s c).filter (fun a => a.peer != p && liveAt now a) ++ [⟨p, e⟩]
  let liveBase := base.filter (liveAt now)
  if liveBase.length ≤ 20 then (set s c base, true)
  else
    match keep with
    | some k =>
      if validKeep liveBase k then (set s c (liveBase.filter (fun a => k.contains a.peer)), true)
      else (set s c (liveBase.filter (fun a => (defaultKeep liveBase).contains a.peer)), false)
    | none => (set s c (liveBase.filter (fun a => (defaultKeep liveBase).contains a.peer)), true)

def withdraw (s : S) (c p : String) : S :=
  set s c ((s c).filter (fun a => a.peer != p))

end EphVerif.C06Spec
