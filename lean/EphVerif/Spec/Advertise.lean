/-!
# Which numeric addresses must never be auto-advertised (C34)

The property: *no automatically discovered endpoint the node publishes is unspecified, loopback, private,
link-local, shared CGNAT, documentation/benchmark, multicast/reserved, or an IPv4-mapped IPv6 form of such an
address.*  Written here on **numeric** addresses (an IPv4 address is a number below 2^32, an IPv6 address a
number below 2^128) as membership in the CIDR blocks the RFCs assign; every number is a literal from the RFC
named next to it.  Nothing here looks at text.

The canonical *text* of a numeric address (what `inet_ntop` prints, RFC 5952 for IPv6) is defined in
`Model/Advertise.lean` (`fmt4`, `fmt6`) and cross-checked against `inet_ntop` by the correspondence run.
-/
namespace EphVerif.AdvSpec

/-- `a.b.c.d` as a 32-bit number -/
def ip4 (a b c d : Nat) : Nat := a * 2 ^ 24 + b * 2 ^ 16 + c * 2 ^ 8 + d

/-- membership of a `bits`-bit address in the block `base/len` -/
def inBlock (bits : Nat) (addr base len : Nat) : Prop := addr / 2 ^ (bits - len) = base / 2 ^ (bits - len)

instance (bits addr base len : Nat) : Decidable (inBlock bits addr base len) := by unfold inBlock; infer_instance

/-- the IPv4 blocks that are not globally routable unicast -/
def nonRoutable4 (x : Nat) : Prop :=
  inBlock 32 x (ip4 0 0 0 0) 8            -- RFC 1122 "this network", includes the unspecified address 0.0.0.0
  ∨ inBlock 32 x (ip4 10 0 0 0) 8         -- RFC 1918 private
  ∨ inBlock 32 x (ip4 100 64 0 0) 10      -- RFC 6598 shared address space (CGNAT)
  ∨ inBlock 32 x (ip4 127 0 0 0) 8        -- RFC 1122 loopback
  ∨ inBlock 32 x (ip4 169 254 0 0) 16     -- RFC 3927 link-local
  ∨ inBlock 32 x (ip4 172 16 0 0) 12      -- RFC 1918 private
  ∨ inBlock 32 x (ip4 192 0 2 0) 24       -- RFC 5737 documentation TEST-NET-1
  ∨ inBlock 32 x (ip4 192 168 0 0) 16     -- RFC 1918 private
  ∨ inBlock 32 x (ip4 198 18 0 0) 15      -- RFC 2544 benchmarking
  ∨ inBlock 32 x (ip4 198 51 100 0) 24    -- RFC 5737 documentation TEST-NET-2
  ∨ inBlock 32 x (ip4 203 0 113 0) 24     -- RFC 5737 documentation TEST-NET-3
  ∨ inBlock 32 x (ip4 224 0 0 0) 3        -- RFC 5771 multicast 224/4, RFC 1112 reserved 240/4, broadcast

instance (x : Nat) : Decidable (nonRoutable4 x) := by unfold nonRoutable4; infer_instance

/-- eight 16-bit groups as a 128-bit number -/
def ip6 (g0 g1 g2 g3 g4 g5 g6 g7 : Nat) : Nat :=
  g0 * 2 ^ 112 + g1 * 2 ^ 96 + g2 * 2 ^ 80 + g3 * 2 ^ 64 + g4 * 2 ^ 48 + g5 * 2 ^ 32 + g6 * 2 ^ 16 + g7

/-- the IPv6 addresses that are not globally routable unicast, as far as the property lists them -/
def nonRoutable6 (x : Nat) : Prop :=
  x = 0                                                   -- ::  unspecified (RFC 4291)
  ∨ x = 1                                                 -- ::1 loopback (RFC 4291)
  ∨ inBlock 128 x (ip6 0xfc00 0 0 0 0 0 0 0) 7            -- fc00::/7 unique local (RFC 4193)
  ∨ inBlock 128 x (ip6 0xfe80 0 0 0 0 0 0 0) 10           -- fe80::/10 link-local (RFC 4291)
  ∨ inBlock 128 x (ip6 0xff00 0 0 0 0 0 0 0) 8            -- ff00::/8 multicast (RFC 4291)
  ∨ inBlock 128 x (ip6 0x2001 0x0db8 0 0 0 0 0 0) 32      -- 2001:db8::/32 documentation (RFC 3849)
  ∨ (inBlock 128 x (ip6 0 0 0 0 0 0xffff 0 0) 96          -- ::ffff:0:0/96 IPv4-mapped (RFC 4291) …
      ∧ nonRoutable4 (x % 2 ^ 32))                        -- … of a non-routable IPv4 address

instance (x : Nat) : Decidable (nonRoutable6 x) := by unfold nonRoutable6; infer_instance

/-! ### host names

Only two kinds of host text can be judged at all: literal addresses (above) and the one name whose meaning is fixed
by standard, `localhost` (RFC 6761 §6.3: it names the loopback address).  Host names compare case-insensitively
(RFC 4343: ASCII letters `A`–`Z`, codes 65–90, equal `a`–`z`), so `LocalHost`, `LOCALHOST`, … are loopback too.
Any other name (`node.example`, `host.local`, `x.internal`, `localhost.` with a trailing dot, `a.localhost`) needs a
resolver to be judged; the property cannot demand anything of them and the code treats them as ordinary names. -/

def asciiLower (c : Char) : Char := if 65 ≤ c.toNat ∧ c.toNat ≤ 90 then Char.ofNat (c.toNat + 32) else c

/-- `s` spells `localhost` in some mixture of upper and lower case -/
def loopbackName (s : List Char) : Prop := s.map asciiLower = "localhost".toList

instance (s : List Char) : Decidable (loopbackName s) := by unfold loopbackName; infer_instance

end EphVerif.AdvSpec
