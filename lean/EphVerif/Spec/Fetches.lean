/-
Specification for C24 (fetch scheduling: per-peer limit, counter returns to zero, back-off,
dropping of finished fetches, termination), written from the property statement and independent
of the scheduler's data structures.  Numbers are the property's: delays "start at the initial
back-off and double up to the maximum"; the maximum is the configured maximum back-off, and in
no case more than 2^8 = 256 times the initial back-off (the code's overflow guard on the
exponent, DESIGN.md §5 C24).

What an implementation shows after a step is a list of pending fetches (`Seen`) and a per-peer
in-flight counter.  Clauses:
  * `limitOk`       : no peer has more in-flight requests (counter and actual) than the limit;
  * `countMismatch` : a peer's counter equals its number of in-flight entries (so it is zero
                      when none of its requests is outstanding);
  * `delay`         : the k-th consecutive failed attempt is followed by a delay of
                      `min(base·2^(k−1), cap)`;
  * `mustDrop`      : after the scheduler ran, no entry remains whose chunk is held, whose
                      manifest has expired (expiry capped at announce time + maximum TTL), or
                      whose failed attempt reached the attempt limit.
-/
namespace EphVerif.C24Spec

def second : Int := 1000000000

/-- the largest delay: the configured maximum (when positive), never above 256·base -/
def cap (base maxBackoff : Int) : Int :=
  if maxBackoff > 0 then min maxBackoff (256 * base) else 256 * base

/-- delay in seconds after the `k`-th failed attempt (`k ≥ 1`), `base ≥ 1` the initial back-off -/
def delay (base maxBackoff : Int) (k : Nat) : Int :=
  min (base * (2 ^ (k - 1) : Nat)) (cap base maxBackoff)

/-- a pending fetch as observed -/
structure Seen where
  chunk : String
  peer : String
  attempts : Nat
  inFlight : Bool
  nextRel : Option Int        -- next attempt − now (ns); `none` = never
  sinceDispatch : Option Int  -- now − last dispatch (ns); `none` = never dispatched
deriving Repr

def inflightOf (l : List Seen) (p : String) : Nat := (l.filter fun s => s.inFlight && s.peer == p).length

def limitOk (limit : Nat) (counter : String → Nat) (l : List Seen) (peers : List String) : Bool :=
  limit == 0 || peers.all fun p => decide (counter p ≤ limit) && decide (inflightOf l p ≤ limit)

/-- first peer whose counter differs from its number of in-flight entries; flag: nothing outstanding -/
def countMismatch (counter : String → Nat) (l : List Seen) (peers : List String) : Option (String × Bool) :=
  (peers.find? fun p => counter p != inflightOf l p).map fun p => (p, inflightOf l p == 0)

/-- the recorded expiry of a fetch: the manifest's, capped at announce time + maximum TTL -/
def deadline (manifestExpires announceWall maxTtlSeconds : Int) : Int :=
  min manifestExpires (announceWall + maxTtlSeconds * second)

/-- a failed dispatch happened in this very step -/
def justFailed (s : Seen) : Bool := s.sinceDispatch == some 0 && !s.inFlight

/-- the back-off clause for one observed entry: `none` = fine, `some expected` = wrong delay -/
def backoffWrong (base maxBackoff : Int) (attemptLimit : Nat) (s : Seen) : Option Int :=
  if justFailed s && !(attemptLimit > 0 && s.attempts ≥ attemptLimit) then
    let want := delay base maxBackoff s.attempts * second
    if s.nextRel == some want then none else some want
  else none

/-- why the entry should be gone after the scheduler ran (`none` = it may stay) -/
def mustDrop (held : Bool) (wall deadline : Int) (attemptLimit : Nat) (s : Seen) : Option String :=
  if held then some "drop-held"
  else if wall ≥ deadline then some "drop-expired"
  else if justFailed s && attemptLimit > 0 && s.attempts ≥ attemptLimit then some "drop-exhausted"
  else none

end EphVerif.C24Spec
