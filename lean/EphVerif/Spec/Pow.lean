/-
Specification side of C19 (proof-of-work acceptance), core Lean only, independent of the code.

"A digest has at least `k` leading zero bits": read the digest as one big-endian number `N` of
`8·len` bits; it has at least `k` leading zero bits iff `N < 2^(8·len − k)`.  `lz` is the number
of leading zero bits, i.e. `8·len − (number of significant bits of N)`; `Proofs/C19.lean`
(`lz_spec`) proves the characterisation above from this definition.
The difficulty cap is the literal 24 of the property statement.
-/
namespace EphVerif.Spec.Pow

/-- the digest as a natural number, first byte most significant -/
def beVal (bs : List UInt8) : Nat := bs.foldl (fun acc b => acc * 256 + b.toNat) 0

/-- number of significant bits: `0` for `0`, otherwise `⌊log₂ n⌋ + 1` -/
def bitLength (n : Nat) : Nat := if n = 0 then 0 else n.log2 + 1

/-- number of leading zero bits of a byte string read big-endian -/
def lz (digest : List UInt8) : Nat := 8 * digest.length - bitLength (beVal digest)

/-- "with the code's cap of 24 where it applies" -/
def capped (d : Nat) : Nat := min d 24

/-- a proof of work over `preimage` meets difficulty `d` -/
def meets (sha : List UInt8 → List UInt8) (preimage : List UInt8) (d : Nat) : Prop := d ≤ lz (sha preimage)

instance (sha : List UInt8 → List UInt8) (p : List UInt8) (d : Nat) : Decidable (meets sha p d) := by
  unfold meets; infer_instance

end EphVerif.Spec.Pow
