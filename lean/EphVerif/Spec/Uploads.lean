/-
Specification for C23 (upload concurrency limits, negative acknowledgements, slot release),
written from the property statement, independent of the scheduler's data structures.

The abstract object is the *ledger* of running uploads: a transfer `(peer, chunk)` is running
from the moment its chunk frame is sent until the peer acknowledges it or it times out
(its age reaches the configured transfer timeout, when that is positive, at a moment the node
runs its upload scheduler).  A repeated request for a transfer that is still running restarts
that transfer (one slot, fresh start time).

The clauses of the property, as predicates over what an implementation shows after a step:
  * `limitGlobal`  : at most the configured number of running uploads overall (when non-zero);
  * `limitPeer`    : at most the configured number per peer (when non-zero);
  * `slotsAgree`   : every peer's in-use slot count equals its number of running uploads — in
                     particular it is zero once all its uploads were acknowledged or timed out;
  * `nackDue`      : a request from a peer with a session for a chunk that cannot be served is
                     answered with a negative acknowledgement.
-/
namespace EphVerif.C23Spec

structure Xfer where
  peer : String
  chunk : String
  started : Int
deriving DecidableEq, Repr

abbrev Ledger := List Xfer

def same (p c : String) (x : Xfer) : Bool := x.peer == p && x.chunk == c

/-- acknowledged (either way) by the peer -/
def finish (l : Ledger) (p c : String) : Ledger := l.filter fun x => !same p c x

/-- chunk frame sent at `now` -/
def start (l : Ledger) (p c : String) (now : Int) : Ledger := finish l p c ++ [⟨p, c, now⟩]

/-- the scheduler ran at `now`: transfers whose age reached the timeout are over -/
def expire (timeout now : Int) (l : Ledger) : Ledger :=
  if timeout ≤ 0 then l else l.filter fun x => !decide (now - x.started ≥ timeout)

def running (l : Ledger) (p : String) : Nat := (l.filter fun x => x.peer == p).length

def startAll (l : Ledger) (now : Int) : List (String × String) → Ledger
  | [] => l
  | (p, c) :: rest => startAll (start l p c now) now rest

/-- What a step does to the ledger.  `acked`: the step is the acknowledgement of `(p, c)`;
    `scheduled`: the upload scheduler ran during the step; `sent`: the chunk frames the step
    put on the wire, in order. -/
def advance (timeout now : Int) (l : Ledger) (acked : Option (String × String)) (scheduled : Bool)
    (sent : List (String × String)) : Ledger :=
  let l1 := match acked with
    | some (p, c) => finish l p c
    | none => l
  let l2 := if scheduled then expire timeout now l1 else l1
  startAll l2 now sent

def limitGlobal (maxParallel : Nat) (l : Ledger) : Bool := maxParallel == 0 || decide (l.length ≤ maxParallel)

def limitPeer (maxPerPeer : Nat) (l : Ledger) (peers : List String) : Bool :=
  maxPerPeer == 0 || peers.all fun p => decide (running l p ≤ maxPerPeer)

/-- `slots p` is the implementation's in-use slot count for `p` -/
def slotsAgree (l : Ledger) (slots : String → Nat) (peers : List String) : Bool :=
  peers.all fun p => slots p == running l p

/-- the first peer whose slot count is wrong, and whether it is a leak with nothing running -/
def slotMismatch (l : Ledger) (slots : String → Nat) (peers : List String) : Option (String × Bool) :=
  (peers.find? fun p => slots p != running l p).map fun p => (p, running l p == 0)

/-- a peer with a session (key and live transport) asked for a chunk that cannot be served -/
def nackDue (hasSession servable : Bool) : Bool := hasSession && !servable

end EphVerif.C23Spec
