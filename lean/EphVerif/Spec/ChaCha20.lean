/-
RFC 8439 ChaCha20 (sections 2.1 – 2.4), written from the text of the RFC.  Core Lean only.

Stable public names (imported by C09, C11, C14):

  EphVerif.Spec.chacha20Block (key : List UInt8) (counter : UInt32) (nonce : List UInt8) : List UInt8
  EphVerif.Spec.chacha20      (key nonce : List UInt8) (counter : UInt32) (input : List UInt8) : List UInt8

`key` is the 32-byte key, `nonce` the 12-byte nonce (the functions are total: a shorter key/nonce
simply yields fewer state words; every theorem that matters carries the length hypotheses).

Nothing here is taken from the C++ source: the constants are the ones printed in RFC 8439
section 2.3, the rotation distances those of section 2.1, the index pattern that of section 2.3,
little-endian conversion is defined arithmetically (byte i has weight 256^i) and the left roll is
`BitVec.rotateLeft`.  The RFC's test vectors (2.1.1, 2.2.1, 2.3.2, 2.4.2) are checked at the end by
kernel evaluation.
-/
namespace EphVerif.Spec
namespace ChaCha

/-! ## 2.1 The quarter round -/

/-- "`<<< n`": an n-bit left roll (rotation) of a 32-bit word. -/
def rotl (x : UInt32) (n : Nat) : UInt32 := UInt32.ofBitVec (x.toBitVec.rotateLeft n)

/-- RFC 8439 section 2.1:
```
a += b; d ^= a; d <<<= 16;
c += d; b ^= c; b <<<= 12;
a += b; d ^= a; d <<<= 8;
c += d; b ^= c; b <<<= 7;
```
`+` is addition modulo 2^32 (`UInt32` addition), `^` is XOR. -/
def quarterRound (a b c d : UInt32) : UInt32 × UInt32 × UInt32 × UInt32 :=
  let a := a + b; let d := d ^^^ a; let d := rotl d 16
  let c := c + d; let b := b ^^^ c; let b := rotl b 12
  let a := a + b; let d := d ^^^ a; let d := rotl d 8
  let c := c + d; let b := b ^^^ c; let b := rotl b 7
  (a, b, c, d)

/-- The rotation distances of section 2.1, in order of use. -/
def rotations : List Nat := [16, 12, 8, 7]

/-! ## 2.2 A quarter round on the ChaCha state

The state is a vector of 16 words, here a `List UInt32` indexed 0 … 15. -/

abbrev State := List UInt32

/-- `QUARTERROUND(x, y, z, w)` applied to the state words with these indices. -/
def qrAt (s : State) (x y z w : Nat) : State :=
  let r := quarterRound (s.getD x 0) (s.getD y 0) (s.getD z 0) (s.getD w 0)
  (((s.set x r.1).set y r.2.1).set z r.2.2.1).set w r.2.2.2

/-! ## 2.3 The ChaCha20 block function -/

/-- The four constant words of section 2.3 ("expand 32-byte k"). -/
def sigma : List UInt32 := [0x61707865, 0x3320646e, 0x79622d32, 0x6b206574]

/-- Column rounds (quarter rounds 1–4 of `inner_block`). -/
def columnRounds : List (Nat × Nat × Nat × Nat) := [(0, 4, 8, 12), (1, 5, 9, 13), (2, 6, 10, 14), (3, 7, 11, 15)]

/-- Diagonal rounds (quarter rounds 5–8 of `inner_block`). -/
def diagonalRounds : List (Nat × Nat × Nat × Nat) := [(0, 5, 10, 15), (1, 6, 11, 12), (2, 7, 8, 13), (3, 4, 9, 14)]

/-- Number of double rounds: "ChaCha20 runs 20 rounds, alternating between column rounds and
diagonal rounds", i.e. 10 iterations of `inner_block`. -/
def doubleRounds : Nat := 10

/-- `inner_block (state)` of section 2.3.1: four column rounds, then four diagonal rounds. -/
def innerBlock (s : State) : State :=
  let s := qrAt s 0 4 8 12
  let s := qrAt s 1 5 9 13
  let s := qrAt s 2 6 10 14
  let s := qrAt s 3 7 11 15
  let s := qrAt s 0 5 10 15
  let s := qrAt s 1 6 11 12
  let s := qrAt s 2 7 8 13
  qrAt s 3 4 9 14

/-- `n` applications of `inner_block`. -/
def innerBlocks : Nat → State → State
  | 0, s => s
  | n + 1, s => innerBlocks n (innerBlock s)

/-- A little-endian 32-bit integer: byte `i` has weight `256^i`. -/
def le32 (b0 b1 b2 b3 : UInt8) : UInt32 :=
  UInt32.ofNat (b0.toNat + 256 * b1.toNat + 65536 * b2.toNat + 16777216 * b3.toNat)

/-- "…by reading the bytes in little-endian order, in 4-byte chunks" (a trailing partial
chunk, which cannot occur for 32-byte keys and 12-byte nonces, is dropped). -/
def leWords : List UInt8 → List UInt32
  | b0 :: b1 :: b2 :: b3 :: rest => le32 b0 b1 b2 b3 :: leWords rest
  | _ => []

/-- The four bytes of a word, least significant first. -/
def leBytes (w : UInt32) : List UInt8 :=
  [UInt8.ofNat (w.toNat % 256), UInt8.ofNat (w.toNat / 256 % 256),
   UInt8.ofNat (w.toNat / 65536 % 256), UInt8.ofNat (w.toNat / 16777216 % 256)]

/-- "…serialize the result by sequencing the words one-by-one in little-endian order." -/
def serialize (s : State) : List UInt8 := s.flatMap leBytes

/-- Initial state of section 2.3:
```
cccccccc  cccccccc  cccccccc  cccccccc
kkkkkkkk  kkkkkkkk  kkkkkkkk  kkkkkkkk
kkkkkkkk  kkkkkkkk  kkkkkkkk  kkkkkkkk
bbbbbbbb  nnnnnnnn  nnnnnnnn  nnnnnnnn
``` -/
def initState (key : List UInt8) (counter : UInt32) (nonce : List UInt8) : State :=
  sigma ++ leWords key ++ [counter] ++ leWords nonce

/-- "At the end of 20 rounds, we add the original input words to the output words". -/
def addStates (a b : State) : State := List.zipWith (· + ·) a b

/-- The state after the block function, before serialisation (section 2.3.2 prints it). -/
def blockState (key : List UInt8) (counter : UInt32) (nonce : List UInt8) : State :=
  let st := initState key counter nonce
  addStates (innerBlocks doubleRounds st) st

end ChaCha

/-- `chacha20_block(key, counter, nonce)` of RFC 8439 section 2.3.1: 64 bytes of key stream. -/
def chacha20Block (key : List UInt8) (counter : UInt32) (nonce : List UInt8) : List UInt8 :=
  ChaCha.serialize (ChaCha.blockState key counter nonce)

namespace ChaCha

/-! ## 2.4 The ChaCha20 encryption algorithm -/

/-- Key-stream blocks for block counters `counter, counter+1, …, counter+n-1`, concatenated.
The block counter is a 32-bit word: the sum is taken modulo 2^32 (`UInt32` addition). -/
def keystream (key nonce : List UInt8) (counter : UInt32) (n : Nat) : List UInt8 :=
  (List.range n).flatMap fun j => chacha20Block key (counter + UInt32.ofNat j) nonce

/-- Number of 64-byte blocks needed to cover `len` bytes:
`floor(len/64)` full blocks plus one more if `len % 64 ≠ 0`. -/
def blocksFor (len : Nat) : Nat := (len + 63) / 64

end ChaCha

/-- `chacha20_encrypt(key, counter, nonce, plaintext)` of RFC 8439 section 2.4.1: block `j` of the
input is XORed with `chacha20_block(key, counter+j, nonce)`; a final partial block uses only the
leading bytes of its key-stream block (`zipWith` stops at the end of the input). -/
def chacha20 (key nonce : List UInt8) (counter : UInt32) (input : List UInt8) : List UInt8 :=
  List.zipWith (· ^^^ ·) input (ChaCha.keystream key nonce counter (ChaCha.blocksFor input.length))

/-! ## RFC 8439 test vectors, checked by kernel evaluation -/
namespace ChaCha.Vectors

/-- 2.1.1 Test vector for the ChaCha quarter round. -/
theorem quarterRound_2_1_1 :
    quarterRound 0x11111111 0x01020304 0x9b8d6f43 0x01234567
      = (0xea2a92f4, 0xcb1cf8ce, 0x4581472e, 0x5881c4bb) := by decide +kernel

/-- 2.2.1 Test vector for the quarter round on the ChaCha state: `QUARTERROUND(2, 7, 8, 13)`. -/
theorem qrAt_2_2_1 :
    qrAt [0x879531e0, 0xc5ecf37d, 0x516461b1, 0xc9a62f8a,
          0x44c20ef3, 0x3390af7f, 0xd9fc690b, 0x2a5f714c,
          0x53372767, 0xb00a5631, 0x974c541a, 0x359e9963,
          0x5c971061, 0x3d631689, 0x2098d9d6, 0x91dbd320] 2 7 8 13
      = [0x879531e0, 0xc5ecf37d, 0xbdb886dc, 0xc9a62f8a,
         0x44c20ef3, 0x3390af7f, 0xd9fc690b, 0xcfacafd2,
         0xe46bea80, 0xb00a5631, 0x974c541a, 0x359e9963,
         0x5c971061, 0xccc07c79, 0x2098d9d6, 0x91dbd320] := by decide +kernel

/-- key 00:01:…:1f used by 2.3.2 and 2.4.2 -/
def key : List UInt8 := (List.range 32).map UInt8.ofNat

def nonce232 : List UInt8 := [0x00, 0x00, 0x00, 0x09, 0x00, 0x00, 0x00, 0x4a, 0x00, 0x00, 0x00, 0x00]

/-- 2.3.2: the state set up from key, block counter 1 and nonce. -/
theorem initState_2_3_2 :
    initState key 1 nonce232
      = [0x61707865, 0x3320646e, 0x79622d32, 0x6b206574,
         0x03020100, 0x07060504, 0x0b0a0908, 0x0f0e0d0c,
         0x13121110, 0x17161514, 0x1b1a1918, 0x1f1e1d1c,
         0x00000001, 0x09000000, 0x4a000000, 0x00000000] := by decide +kernel

/-- 2.3.2: ChaCha state after 20 rounds. -/
theorem rounds_2_3_2 :
    innerBlocks doubleRounds (initState key 1 nonce232)
      = [0x837778ab, 0xe238d763, 0xa67ae21e, 0x5950bb2f,
         0xc4f2d0c7, 0xfc62bb2f, 0x8fa018fc, 0x3f5ec7b7,
         0x335271c2, 0xf29489f3, 0xeabda8fc, 0x82e46ebd,
         0xd19c12b4, 0xb04e16de, 0x9e83d0cb, 0x4e3c50a2] := by decide +kernel

/-- 2.3.2: ChaCha state at the end of the ChaCha20 operation. -/
theorem blockState_2_3_2 :
    blockState key 1 nonce232
      = [0xe4e7f110, 0x15593bd1, 0x1fdd0f50, 0xc47120a3,
         0xc7f4d1c7, 0x0368c033, 0x9aaa2204, 0x4e6cd4c3,
         0x466482d2, 0x09aa9f07, 0x05d7c214, 0xa2028bd9,
         0xd19c12b5, 0xb94e16de, 0xe883d0cb, 0x4e3c50a2] := by decide +kernel

/-- 2.3.2: serialized block. -/
theorem block_2_3_2 :
    chacha20Block key 1 nonce232
      = [0x10, 0xf1, 0xe7, 0xe4, 0xd1, 0x3b, 0x59, 0x15, 0x50, 0x0f, 0xdd, 0x1f, 0xa3, 0x20, 0x71, 0xc4,
         0xc7, 0xd1, 0xf4, 0xc7, 0x33, 0xc0, 0x68, 0x03, 0x04, 0x22, 0xaa, 0x9a, 0xc3, 0xd4, 0x6c, 0x4e,
         0xd2, 0x82, 0x64, 0x46, 0x07, 0x9f, 0xaa, 0x09, 0x14, 0xc2, 0xd7, 0x05, 0xd9, 0x8b, 0x02, 0xa2,
         0xb5, 0x12, 0x9c, 0xd1, 0xde, 0x16, 0x4e, 0xb9, 0xcb, 0xd0, 0x83, 0xe8, 0xa2, 0x50, 0x3c, 0x4e] := by
  decide +kernel

def nonce242 : List UInt8 := [0x00, 0x00, 0x00, 0x00, 0x00, 0x00, 0x00, 0x4a, 0x00, 0x00, 0x00, 0x00]

/-- 2.4.2 plaintext: "Ladies and Gentlemen of the class of '99: If I could offer you only one tip for the
future, sunscreen would be it." (114 bytes) -/
def sunscreen : List UInt8 :=
  "Ladies and Gentlemen of the class of '99: If I could offer you only one tip for the future, sunscreen would be it.".toUTF8.toList

/-- 2.4.2: the plaintext bytes as printed in the RFC (first and last rows), and its length. -/
theorem sunscreen_bytes : sunscreen.length = 114 ∧
    sunscreen.take 16 = [0x4c, 0x61, 0x64, 0x69, 0x65, 0x73, 0x20, 0x61, 0x6e, 0x64, 0x20, 0x47, 0x65, 0x6e, 0x74, 0x6c] ∧
    sunscreen.drop 112 = [0x74, 0x2e] := by decide +kernel

/-- 2.4.2: first key-stream block (block counter 1). -/
theorem keystream1_2_4_2 :
    blockState key 1 nonce242
      = [0xf3514f22, 0xe1d91b40, 0x6f27de2f, 0xed1d63b8,
         0x821f138c, 0xe2062c3d, 0xecca4f7e, 0x78cff39e,
         0xa30a3b8a, 0x920a6072, 0xcd7479b5, 0x34932bed,
         0x40ba4c79, 0xcd343ec6, 0x4c2c21ea, 0xb7417df0] := by decide +kernel

/-- 2.4.2: second key-stream block (block counter 2). -/
theorem keystream2_2_4_2 :
    blockState key 2 nonce242
      = [0x9f74a669, 0x410f633f, 0x28feca22, 0x7ec44dec,
         0x6d34d426, 0x738cb970, 0x3ac5e9f3, 0x45590cc4,
         0xda6e8b39, 0x892c831a, 0xcdea67c1, 0x2b7e1d90,
         0x037463f3, 0xa11a2073, 0xe8bcfb88, 0xedc49139] := by decide +kernel

/-- 2.4.2: ciphertext of the sunscreen text with initial block counter 1. -/
theorem encrypt_2_4_2 :
    chacha20 key nonce242 1 sunscreen
      = [0x6e, 0x2e, 0x35, 0x9a, 0x25, 0x68, 0xf9, 0x80, 0x41, 0xba, 0x07, 0x28, 0xdd, 0x0d, 0x69, 0x81,
         0xe9, 0x7e, 0x7a, 0xec, 0x1d, 0x43, 0x60, 0xc2, 0x0a, 0x27, 0xaf, 0xcc, 0xfd, 0x9f, 0xae, 0x0b,
         0xf9, 0x1b, 0x65, 0xc5, 0x52, 0x47, 0x33, 0xab, 0x8f, 0x59, 0x3d, 0xab, 0xcd, 0x62, 0xb3, 0x57,
         0x16, 0x39, 0xd6, 0x24, 0xe6, 0x51, 0x52, 0xab, 0x8f, 0x53, 0x0c, 0x35, 0x9f, 0x08, 0x61, 0xd8,
         0x07, 0xca, 0x0d, 0xbf, 0x50, 0x0d, 0x6a, 0x61, 0x56, 0xa3, 0x8e, 0x08, 0x8a, 0x22, 0xb6, 0x5e,
         0x52, 0xbc, 0x51, 0x4d, 0x16, 0xcc, 0xf8, 0x06, 0x81, 0x8c, 0xe9, 0x1a, 0xb7, 0x79, 0x37, 0x36,
         0x5a, 0xf9, 0x0b, 0xbf, 0x74, 0xa3, 0x5b, 0xe6, 0xb4, 0x0b, 0x8e, 0xed, 0xf2, 0x78, 0x5e, 0x42,
         0x87, 0x4d] := by decide +kernel

/-- 2.4.2 read backwards: decryption is the same operation. -/
theorem decrypt_2_4_2 : chacha20 key nonce242 1 (chacha20 key nonce242 1 sunscreen) = sunscreen := by
  decide +kernel

end ChaCha.Vectors
end EphVerif.Spec
