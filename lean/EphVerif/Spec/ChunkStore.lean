/-
Specification for C01 (a stored chunk is retrievable exactly while it is live) and C04
(persisted chunk files do not outlive the chunk), written without reference to the code.

The abstract store is the *history of stores*, latest first: an entry records the id, the bytes
the caller handed in (`bytes`), the bytes the node keeps and serves to peers (`wire`: equal to
`bytes` for a raw chunk-store put, the ciphertext for `Node::store_chunk`) and the deadline
`store time + effective TTL`.  Nothing is ever removed: there is no sweep at this level.

    read id t = some b   ↔   the last store of id was (b, d) and t < d

`judge` says, for one operation and the observation an implementation returned for it, whether
the observation is what the property demands.  It is a decidable predicate: the theorems prove
it for every observation of the model, and the driver evaluates the very same function on the
observations of the real code (the monitor).

All literal numbers here (the 1-second floor) are the property's, not regenerated constants.
-/
namespace EphVerif.StoreSpec

abbrev Bytes := List Nat

/-- Operations of a history.  TTLs in seconds, advances in nanoseconds (`Nat`: time never
    goes backwards). -/
inductive Op where
  /-- `ChunkStore::put` (a store, or an overwrite when the id is present) -/
  | store (id : String) (data : Bytes) (ttl : Int) (nonce : Bytes) (enc : Bool)
  /-- `Node::store_chunk`; `cipher`/`nonce` are the (random) encryption outputs -/
  | nstore (id : String) (plain cipher nonce : Bytes) (ttl : Int)
  /-- `ChunkStore::get` -/
  | lookup (id : String)
  /-- `ChunkStore::get_record` / `Node::export_chunk_record` -/
  | record (id : String)
  /-- `Node::fetch_chunk` -/
  | fetch (id : String)
  /-- `Node::handle_request`: a peer asks for the chunk -/
  | request (id : String)
  /-- `Node::stored_chunks` (control-plane LIST) -/
  | list
  /-- `ChunkStore::sweep_expired` -/
  | sweep
  /-- `Node::tick` (sweeps when the cleanup interval has elapsed) -/
  | tick
  | advance (d : Nat)
deriving DecidableEq, Repr, Inhabited

/-- What an operation returned. -/
inductive Obs where
  | unit
  | bytes (o : Option Bytes)
  /-- data and deadline of a record -/
  | record (o : Option (Bytes × Int))
  /-- listed ids with their deadline -/
  | listing (l : List (String × Int))
  | removed (l : List String)
deriving DecidableEq, Repr, Inhabited

structure Entry where
  id : String
  bytes : Bytes
  wire : Bytes
  deadline : Int
deriving DecidableEq, Repr, Inhabited

abbrev S := List Entry

def last : S → String → Option Entry
  | [], _ => none
  | e :: rest, id => if e.id = id then some e else last rest id

def read (s : S) (id : String) (t : Int) : Option Bytes :=
  match last s id with
  | some e => if t < e.deadline then some e.bytes else none
  | none => none

def readWire (s : S) (id : String) (t : Int) : Option Bytes :=
  match last s id with
  | some e => if t < e.deadline then some e.wire else none
  | none => none

def readRecord (s : S) (id : String) (t : Int) : Option (Bytes × Int) :=
  match last s id with
  | some e => if t < e.deadline then some (e.wire, e.deadline) else none
  | none => none

def live (s : S) (id : String) (t : Int) : Bool := (read s id t).isSome

/-- sanitised TTL parameters (seconds) -/
structure Params where
  defaultTtl : Int
  minTtl : Int
  maxTtl : Int
  /-- a peer request may be refused when fewer than this many whole seconds remain -/
  graceTtl : Int
deriving Repr, Inhabited

def nsPerSec : Int := 1000000000

/-- effective TTL of a raw put: the requested TTL, the default when none is given, never less
    than one second -/
def effStore (p : Params) (ttl : Int) : Int := max (if ttl > 0 then ttl else p.defaultTtl) 1

/-- effective TTL of `Node::store_chunk`: the same, clamped into the manifest TTL window -/
def effNode (p : Params) (ttl : Int) : Int := max p.minTtl (min (if ttl > 0 then ttl else p.defaultTtl) p.maxTtl)

structure W where
  now : Int
  s : S
deriving Repr, Inhabited

def step (p : Params) (w : W) : Op → W
  | .store id data ttl _ _ => { w with s := ⟨id, data, data, w.now + effStore p ttl * nsPerSec⟩ :: w.s }
  | .nstore id plain cipher _ ttl => { w with s := ⟨id, plain, cipher, w.now + effNode p ttl * nsPerSec⟩ :: w.s }
  | .advance d => { w with now := w.now + d }
  | _ => w

/-- Is `obs` an acceptable answer to `op` in abstract state `w`?  Returns the violated clause. -/
def judge (p : Params) (w : W) : Op → Obs → Option String
  | .lookup id, .bytes o =>
    if o = readWire w.s id w.now then none
    else if (readWire w.s id w.now).isNone then some "served-after-deadline" else some "read-exact"
  | .record id, .record o =>
    if o = readRecord w.s id w.now then none
    else if (readRecord w.s id w.now).isNone then some "served-after-deadline" else some "read-exact"
  | .fetch id, .bytes o =>
    if o = read w.s id w.now then none
    else if (read w.s id w.now).isNone then some "served-after-deadline" else some "read-exact"
  | .request id, .bytes o =>
    match o with
    | some b =>
      if readWire w.s id w.now = some b then none
      else if (readWire w.s id w.now).isNone then some "served-after-deadline" else some "read-exact"
    | none =>
      -- a refusal is acceptable when the chunk is dead or inside the grace window before its deadline
      match last w.s id with
      | some e => if w.now < e.deadline ∧ p.graceTtl * nsPerSec ≤ e.deadline - w.now then some "request-refused" else none
      | none => none
  | .list, .listing l =>
    if l.any (fun e => !live w.s e.1 w.now) then some "listed-after-deadline"
    else if w.s.any (fun e => live w.s e.id w.now && !(l.map (·.1)).contains e.id) then some "listing-incomplete"
    else if l.any (fun e => (last w.s e.1).map (·.deadline) != some e.2) then some "listing-deadline"
    else none
  | .store .., .unit => none
  | .nstore .., .unit => none
  | .sweep, .removed _ => none
  | .tick, .unit => none
  | .tick, .removed _ => none
  | .advance _, .unit => none
  | _, _ => some "shape"

/-! ### C04: the storage directory -/

/-- A chunk file `id ↦ content` may be present at a moment when the most recent cleanup (sweep or
    start-up) happened at `lastCleanup` only if it holds exactly the bytes of the latest store of
    `id` and that chunk was still live at that cleanup. -/
def fileAllowed (s : S) (lastCleanup : Int) (id : String) (content : Bytes) : Bool :=
  match last s id with
  | some e => decide (content = e.wire) && decide (lastCleanup < e.deadline)
  | none => false

/-- which clause a present file violates, if any -/
def judgeFile (s : S) (lastCleanup : Int) (id : String) (content : Bytes) : Option String :=
  match last s id with
  | some e =>
    if ¬ (lastCleanup < e.deadline) then some "file-outlives-chunk"
    else if content ≠ e.wire then some "file-content"
    else none
  | none => some "file-outlives-chunk"

/-- With persistence on, the file of a chunk that is live at `t` and whose store completed without
    I/O error must be in the directory (with exactly the wire bytes: `judgeFile`).  `listed` are the
    chunk ids that have a file; `excused` the ids whose latest store hit an injected I/O error (the
    code may then keep the chunk in memory only).  Returns the first id whose file is missing. -/
def missingFile (s : S) (t : Int) (listed excused : List String) : Option String :=
  (s.map (·.id)).find? fun id => live s id t && !listed.contains id && !excused.contains id

end EphVerif.StoreSpec
