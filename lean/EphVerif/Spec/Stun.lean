/-!
# RFC 5389 specification of "the mapped address carried by a Binding Success response" (C33)

Written from the RFC text (§6 header, §15 attribute TLV format and padding, §15.1 MAPPED-ADDRESS,
§15.2 XOR-MAPPED-ADDRESS), independently of the C++ control flow: the message body is cut out of
the datagram as a list (`drop 20 |> take length`), attributes are peeled off that list, values
are decoded from their own byte lists.  All numbers are literals from the RFC / property text.

Choices the RFC leaves to the receiver and that the property text fixes (documented in notes/C33.md):
* "Binding Success response" = message type field `0x0101`; the magic-cookie *field* is not
  inspected (RFC 3489 servers echo it as part of their 128-bit transaction id anyway);
* the walk stops at the first attribute whose header or value does not fit inside the declared
  message length (such a message is malformed from there on); the 4-byte alignment padding after
  a value has to fit as well for the walk to continue, but not for that value to be used;
* an address attribute is usable when its value holds at least the 4 fixed bytes and the address of
  its family (8 bytes in total for family 0x01, 20 for family 0x02); extra value bytes are ignored;
  an address attribute of unknown family or too short is skipped;
* precedence between MAPPED-ADDRESS and XOR-MAPPED-ADDRESS: wire order (first usable one).
-/
namespace EphVerif.StunSpec

/-- A decoded transport address: family code (1 = IPv4, 2 = IPv6), address bytes in network order, port. -/
structure Addr where
  family : Nat
  bytes : List UInt8
  port : Nat
deriving DecidableEq, Repr, Inhabited

/-- The magic cookie 0x2112A442 in network byte order (RFC 5389 §6). -/
def cookieBytes : List UInt8 := [0x21, 0x12, 0xA4, 0x42]

/-- most significant 16 bits of the magic cookie (RFC 5389 §15.2: X-Port) -/
def cookieHi16 : Nat := 0x2112

def be16 (hi lo : UInt8) : Nat := hi.toNat * 256 + lo.toNat

/-- bytewise XOR of a value with a key (key at least as long as the value where it is used) -/
def xorBytes : List UInt8 → List UInt8 → List UInt8
  | a :: as, k :: ks => (a ^^^ k) :: xorBytes as ks
  | as, [] => as
  | [], _ => []

/-- One attribute as it appears on the wire. -/
structure Attr where
  type : Nat
  value : List UInt8
deriving Repr

/-- 4-byte alignment of attribute values (RFC 5389 §15). -/
def pad4 (n : Nat) : Nat := (n + 3) / 4 * 4

/-- TLV walk over a message body.  `fuel` only makes the recursion structural: every attribute consumes at
least its 4 header bytes, so `fuel = body.length` (as used by `attrs`) never runs out
(`C33L.attrs_cons` is the fuel-free unfolding equation). -/
def attrsF : Nat → List UInt8 → List Attr
  | fuel + 1, t0 :: t1 :: l0 :: l1 :: rest =>
    let len := be16 l0 l1
    if len ≤ rest.length then
      ⟨be16 t0 t1, rest.take len⟩ :: attrsF fuel (rest.drop (pad4 len))
    else []
  | _, _ => []

/-- The attributes of a message body (exactly the bytes covered by the declared message length): type and
value of each TLV, up to the first one whose header or value does not fit. -/
def attrs (body : List UInt8) : List Attr := attrsF body.length body

/-- §15.1 / §15.2 decoding of an address value; `xor = true` for XOR-MAPPED-ADDRESS. -/
def decodeAddr (xor : Bool) (txid : List UInt8) (value : List UInt8) : Option Addr :=
  match value with
  | _reserved :: family :: p0 :: p1 :: addr =>
    let port := if xor then Nat.xor (be16 p0 p1) cookieHi16 else be16 p0 p1
    if family.toNat = 1 then
      if 4 ≤ addr.length then
        some ⟨1, if xor then xorBytes (addr.take 4) cookieBytes else addr.take 4, port⟩
      else none
    else if family.toNat = 2 then
      if 16 ≤ addr.length then
        some ⟨2, if xor then xorBytes (addr.take 16) (cookieBytes ++ txid) else addr.take 16, port⟩
      else none
    else none
  | _ => none

/-- MAPPED-ADDRESS is attribute 0x0001, XOR-MAPPED-ADDRESS is 0x0020. -/
def addrOfAttr (txid : List UInt8) (a : Attr) : Option Addr :=
  if a.type = 0x0001 then decodeAddr false txid a.value
  else if a.type = 0x0020 then decodeAddr true txid a.value
  else none

/-- The header conditions under which a datagram is a Binding Success response to our request. -/
def isOurSuccess (d txid : List UInt8) : Bool :=
  match d with
  | t0 :: t1 :: l0 :: l1 :: _ =>
    decide (20 ≤ d.length) && decide (be16 t0 t1 = 0x0101) && decide (20 + be16 l0 l1 ≤ d.length) &&
      ((d.drop 8).take 12 == txid)
  | _ => false

def declaredLength (d : List UInt8) : Nat :=
  match d with
  | _ :: _ :: l0 :: l1 :: _ => be16 l0 l1
  | _ => 0

/-- The message body: the bytes after the 20-byte header covered by the declared length. -/
def body (d : List UInt8) : List UInt8 := (d.drop 20).take (declaredLength d)

/-- What a correct client reports for datagram `d` when it sent transaction id `txid`. -/
def mappedAddress (d txid : List UInt8) : Option Addr :=
  if isOurSuccess d txid then (attrs (body d)).findSome? (addrOfAttr txid) else none

end EphVerif.StunSpec
