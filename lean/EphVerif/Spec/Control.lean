/-
What properties C27, C28 and C29 say, written without reference to the code (core Lean only).
Literal numbers (6, 12, 30 s) are those of the property statements.

The control protocol (docs/02-core-concepts/02-networking-and-relay.md): a request is a sequence
of `KEY:VALUE` lines terminated by a blank line, keys are case-insensitive; lines end with LF and
CR bytes are line-ending noise (never part of a key or a value).
-/
namespace EphVerif.Spec.Control

abbrev Bytes := List UInt8

def asciiBytes (s : String) : Bytes := s.toList.map fun c => UInt8.ofNat c.toNat

def upper (b : UInt8) : UInt8 := if 97 ≤ b.toNat ∧ b.toNat ≤ 122 then UInt8.ofNat (b.toNat - 32) else b

/-- a header line as the protocol reads it: CR removed, split at the first colon, key upper-cased -/
def header (line : Bytes) : Option (Bytes × Bytes) :=
  let l := line.filter (· != 13)
  match l.dropWhile (· != 58) with
  | [] => none
  | _ :: v => some ((l.takeWhile (· != 58)).map upper, v)

/-! ## C27 -/

/-- the request presents the token: one of its header lines is `TOKEN:<t>` exactly -/
def presentsToken (lines : List Bytes) (t : Bytes) : Bool :=
  lines.any fun l => header l == some (asciiBytes "TOKEN", t)

/-- the authentication error of the control plane -/
def isAuthError (success : Bool) (code : String) : Bool := !success && ("_UNAUTHENTICATED".toList).isSuffixOf code.toList

/-! ## C28 -/

def storeLimit : Nat := 6
def fetchLimit : Nat := 12
def windowNs : Int := 30 * 1000000000

/-- how many of the accepted requests fall into the closed window `[t, t + 30 s]` -/
def inWindow (accepted : List Int) (t : Int) : Nat :=
  (accepted.filter fun x => decide (t ≤ x) && decide (x ≤ t + windowNs)).length

/-- at most `limit` accepted requests in every 30 s window -/
def RateOk (limit : Nat) (accepted : List Int) : Prop := ∀ t : Int, inWindow accepted t ≤ limit

/-- executable form used by the monitor when a request is accepted at `now` (the newest element):
    only windows ending at an accepted instant can be the fullest -/
def rateOkAt (limit : Nat) (accepted : List Int) (now : Int) : Bool :=
  decide (inWindow accepted (now - windowNs) ≤ limit)

/-! ## C29 -/

/-- what the daemon produced / what the client reports, as a finite map plus payload -/
structure View where
  success : Bool
  /-- sorted by key, keys distinct -/
  fields : List (Bytes × Bytes)
  payload : Option Bytes
deriving DecidableEq, Repr

end EphVerif.Spec.Control
