/-
SHA-256 written from FIPS 180-4 (Secure Hash Standard), byte-oriented messages.
Core Lean only (no Mathlib): imported by drivers and by other properties' specs.

Public, stable names:
  `EphVerif.Spec.sha256 : List UInt8 → List UInt8`        (32-byte digest)
Everything else lives in `EphVerif.Spec.Sha256`.

Section numbers refer to FIPS 180-4.  Words are 32 bits (`UInt32`, addition is mod 2^32, §3.2).
Messages are byte strings; bit `0` of the message is the most significant bit of byte `0`
(§3.1), so "append the bit 1 followed by k zero bits" with `l ≡ 0 (mod 8)` appends the byte
`0x80` followed by `(k-7)/8` zero bytes.

FIPS 180-4 defines SHA-256 for messages of `l < 2^64` bits.  For longer messages this
definition writes `l mod 2^64` in the length field (it is total); the property theorems carry
the hypothesis `length < 2^61` bytes where they speak about "the FIPS value".
-/
namespace EphVerif.Spec.Sha256

/-! ### §3.2 operations on words -/

/-- `ROTR^n(x) = (x >> n) ∨ (x << w - n)`, `w = 32`, `0 ≤ n < w` -/
@[inline] def ROTR (n : UInt32) (x : UInt32) : UInt32 := (x >>> n) ||| (x <<< (32 - n))

/-- `SHR^n(x) = x >> n` -/
@[inline] def SHR (n : UInt32) (x : UInt32) : UInt32 := x >>> n

/-! ### §4.1.2 SHA-256 functions (4.2)–(4.7) -/

@[inline] def Ch (x y z : UInt32) : UInt32 := (x &&& y) ^^^ (~~~x &&& z)
@[inline] def Maj (x y z : UInt32) : UInt32 := (x &&& y) ^^^ (x &&& z) ^^^ (y &&& z)
@[inline] def bigSigma0 (x : UInt32) : UInt32 := ROTR 2 x ^^^ ROTR 13 x ^^^ ROTR 22 x
@[inline] def bigSigma1 (x : UInt32) : UInt32 := ROTR 6 x ^^^ ROTR 11 x ^^^ ROTR 25 x
@[inline] def smallSigma0 (x : UInt32) : UInt32 := ROTR 7 x ^^^ ROTR 18 x ^^^ SHR 3 x
@[inline] def smallSigma1 (x : UInt32) : UInt32 := ROTR 17 x ^^^ ROTR 19 x ^^^ SHR 10 x

/-! ### §4.2.2 constants `K_0 … K_63`
"the first thirty-two bits of the fractional parts of the cube roots of the first sixty-four
prime numbers" — proved in `Proofs/C08.lean` (`K_is_standard`). -/

def K : List UInt32 := [
  0x428a2f98, 0x71374491, 0xb5c0fbcf, 0xe9b5dba5, 0x3956c25b, 0x59f111f1, 0x923f82a4, 0xab1c5ed5,
  0xd807aa98, 0x12835b01, 0x243185be, 0x550c7dc3, 0x72be5d74, 0x80deb1fe, 0x9bdc06a7, 0xc19bf174,
  0xe49b69c1, 0xefbe4786, 0x0fc19dc6, 0x240ca1cc, 0x2de92c6f, 0x4a7484aa, 0x5cb0a9dc, 0x76f988da,
  0x983e5152, 0xa831c66d, 0xb00327c8, 0xbf597fc7, 0xc6e00bf3, 0xd5a79147, 0x06ca6351, 0x14292967,
  0x27b70a85, 0x2e1b2138, 0x4d2c6dfc, 0x53380d13, 0x650a7354, 0x766a0abb, 0x81c2c92e, 0x92722c85,
  0xa2bfe8a1, 0xa81a664b, 0xc24b8b70, 0xc76c51a3, 0xd192e819, 0xd6990624, 0xf40e3585, 0x106aa070,
  0x19a4c116, 0x1e376c08, 0x2748774c, 0x34b0bcb5, 0x391c0cb3, 0x4ed8aa4a, 0x5b9cca4f, 0x682e6ff3,
  0x748f82ee, 0x78a5636f, 0x84c87814, 0x8cc70208, 0x90befffa, 0xa4506ceb, 0xbef9a3f7, 0xc67178f2]

/-- The eight working variables `a … h` / the eight words `H_0 … H_7` of a hash value. -/
structure Hash where
  a : UInt32
  b : UInt32
  c : UInt32
  d : UInt32
  e : UInt32
  f : UInt32
  g : UInt32
  h : UInt32
deriving DecidableEq, Repr, Inhabited

/-! ### §5.3.3 initial hash value `H^(0)`
"the first thirty-two bits of the fractional parts of the square roots of the first eight prime
numbers" — proved in `Proofs/C08.lean` (`H0_is_standard`). -/

def H0 : Hash :=
  ⟨0x6a09e667, 0xbb67ae85, 0x3c6ef372, 0xa54ff53a, 0x510e527f, 0x9b05688c, 0x1f83d9ab, 0x5be0cd19⟩

/-! ### §5.1.1 padding -/

/-- number `k` of zero bits: the smallest non-negative solution of `l + 1 + k ≡ 448 (mod 512)` -/
def padZeroBits (l : Nat) : Nat := (959 - l % 512) % 512

/-- the 64-bit block "equal to the number `l` expressed using a binary representation",
    big-endian, as 8 bytes (`l` reduced mod 2^64, see the header) -/
def be64 (l : Nat) : List UInt8 :=
  [UInt8.ofNat (l >>> 56), UInt8.ofNat (l >>> 48), UInt8.ofNat (l >>> 40), UInt8.ofNat (l >>> 32),
   UInt8.ofNat (l >>> 24), UInt8.ofNat (l >>> 16), UInt8.ofNat (l >>> 8), UInt8.ofNat l]

/-- the bytes appended to a message of `n` bytes (`l = 8n` bits): the bit "1", `k` zero bits, `l` -/
def padding (n : Nat) : List UInt8 :=
  let l := 8 * n
  0x80 :: (List.replicate ((padZeroBits l - 7) / 8) 0 ++ be64 l)

/-- the padded message -/
def pad (M : List UInt8) : List UInt8 := M ++ padding M.length

/-! ### §5.2.1 parsing the padded message into `N` 512-bit blocks, each sixteen 32-bit words -/

/-- the first `N` 64-byte blocks of a byte string -/
def parseN : Nat → List UInt8 → List (List UInt8)
  | 0, _ => []
  | N + 1, M => M.take 64 :: parseN N (M.drop 64)

/-- `M^(1), …, M^(N)` -/
def parse (M : List UInt8) : List (List UInt8) := parseN (M.length / 64) M

/-- big-endian 32-bit word (§3.1) -/
@[inline] def be32 (b0 b1 b2 b3 : UInt8) : UInt32 :=
  (b0.toUInt32 <<< 24) ||| (b1.toUInt32 <<< 16) ||| (b2.toUInt32 <<< 8) ||| b3.toUInt32

/-- `M_0^(i) … M_15^(i)` of a block (trailing bytes that do not fill a word are ignored; blocks
    produced by `parse` always have 64 bytes) -/
def words : List UInt8 → List UInt32
  | b0 :: b1 :: b2 :: b3 :: rest => be32 b0 b1 b2 b3 :: words rest
  | _ => []

/-! ### §6.2.2 hash computation -/

/-- one more word of the message schedule:
    `W_t = σ1(W_{t-2}) + W_{t-7} + σ0(W_{t-15}) + W_{t-16}` where `t` is the current length -/
def scheduleStep (W : List UInt32) : List UInt32 :=
  let t := W.length
  W ++ [smallSigma1 (W.getD (t - 2) 0) + W.getD (t - 7) 0 + smallSigma0 (W.getD (t - 15) 0) + W.getD (t - 16) 0]

/-- step 1: `W_t = M_t` for `0 ≤ t ≤ 15`, then the recurrence for `16 ≤ t ≤ 63` -/
def schedule (M : List UInt32) : List UInt32 := Nat.repeat scheduleStep 48 M

/-- step 3, one value of `t` -/
@[inline] def round (v : Hash) (k w : UInt32) : Hash :=
  let T1 := v.h + bigSigma1 v.e + Ch v.e v.f v.g + k + w
  let T2 := bigSigma0 v.a + Maj v.a v.b v.c
  { h := v.g, g := v.f, f := v.e, e := v.d + T1, d := v.c, c := v.b, b := v.a, a := T1 + T2 }

/-- step 3 for `t = 0 … 63` -/
def rounds : Hash → List UInt32 → List UInt32 → Hash
  | v, k :: ks, w :: ws => rounds (round v k w) ks ws
  | v, _, _ => v

/-- step 4 -/
@[inline] def addHash (x y : Hash) : Hash :=
  ⟨x.a + y.a, x.b + y.b, x.c + y.c, x.d + y.d, x.e + y.e, x.f + y.f, x.g + y.g, x.h + y.h⟩

/-- steps 1–4 for one message block: `H^(i)` from `H^(i-1)` and `M^(i)` -/
def compress (H : Hash) (block : List UInt8) : Hash :=
  let W := schedule (words block)
  let v := rounds H K W          -- step 2: a … h := H^(i-1); step 3
  addHash v H                    -- step 4: H_j^(i) = (a…h)_j + H_j^(i-1)

/-- big-endian bytes of a word -/
@[inline] def bytes32 (x : UInt32) : List UInt8 :=
  [(x >>> 24).toUInt8, (x >>> 16).toUInt8, (x >>> 8).toUInt8, x.toUInt8]

/-- the 256-bit message digest `H_0^(N) ‖ … ‖ H_7^(N)` -/
def digestBytes (H : Hash) : List UInt8 :=
  bytes32 H.a ++ bytes32 H.b ++ bytes32 H.c ++ bytes32 H.d ++
  bytes32 H.e ++ bytes32 H.f ++ bytes32 H.g ++ bytes32 H.h

/-- `H^(N)`: pad, parse, fold -/
def hash (M : List UInt8) : Hash := (parse (pad M)).foldl compress H0

end EphVerif.Spec.Sha256

namespace EphVerif.Spec

/-- FIPS 180-4 SHA-256 of a byte string (32 bytes). -/
def sha256 (M : List UInt8) : List UInt8 := Sha256.digestBytes (Sha256.hash M)

@[simp] theorem sha256_length (M : List UInt8) : (sha256 M).length = 32 := rfl

end EphVerif.Spec
