/-!
# Specification for C31 — what a safe output file name is

Written from the property text only: *a name containing no path separators, control or reserved
characters and never `.` or `..`*; the file is *a direct child* of the chosen directory.
All numbers are literals of the property (DESIGN §5 C31): separators `/` `\`, control bytes `< 0x20` and
`0x7f`, reserved characters `: * ? " < > |`, at most 255 bytes.
-/
namespace EphVerif.Spec.Filename

abbrev Bytes := List UInt8

/-- `/` and `\` -/
def sepN (n : Nat) : Bool := n == 0x2f || n == 0x5c
def ctlN (n : Nat) : Bool := n < 0x20 || n == 0x7f
/-- `: * ? " < > |` -/
def resN (n : Nat) : Bool :=
  n == 0x3a || n == 0x2a || n == 0x3f || n == 0x22 || n == 0x3c || n == 0x3e || n == 0x7c
def goodN (n : Nat) : Bool := !sepN n && !ctlN n && !resN n

def isSeparator (b : UInt8) : Bool := sepN b.toNat
def isControl (b : UInt8) : Bool := ctlN b.toNat
def isReserved (b : UInt8) : Bool := resN b.toNat
/-- neither separator nor control nor reserved -/
def goodByte (b : UInt8) : Bool := goodN b.toNat

def dot : Bytes := [0x2e]
def dotdot : Bytes := [0x2e, 0x2e]

/-- The property's notion of a name that may be created inside the chosen directory. -/
def safeName (n : Bytes) : Bool :=
  !n.isEmpty && n.all goodByte && n != dot && n != dotdot && n.length ≤ 255

/-- What the CLI / the node may produce: nothing (the caller falls back to the hex chunk id, resp. records no
name) or a safe name. -/
def acceptable (n : Bytes) : Bool := n.isEmpty || safeName n

end EphVerif.Spec.Filename
