/-
Specification of the relay (properties C25 and C26), written over what an observer sees and
independently of the model: the relay's pairing table (`View`), what each client received and
who was disconnected in one step (`Obs`), and the relay's resource counters (`Resources`).

The same predicates are (a) proved of the model for every event sequence
(EphVerif/Proofs/C25.lean, C26.lean) and (b) evaluated by the monitor on the lines the real
RelayServer produces in the correspondence harness (EphVerif/Monitor/Relay.lean).
Core Lean only.
-/
namespace EphVerif.RelaySpec

/-- `p` holds of the value, if there is one -/
def whenSome {α : Type} (o : Option α) (p : α → Prop) : Prop := match o with | none => True | some x => p x
/-- there is a value and `p` holds of it -/
def isSomeAnd {α : Type} (o : Option α) (p : α → Prop) : Prop := match o with | none => False | some x => p x

instance {α : Type} (o : Option α) (p : α → Prop) [DecidablePred p] : Decidable (whenSome o p) := by
  cases o <;> simp only [whenSome] <;> exact inferInstance
instance {α : Type} (o : Option α) (p : α → Prop) [DecidablePred p] : Decidable (isSomeAnd o p) := by
  cases o <;> simp only [isSomeAnd] <;> exact inferInstance

/-- One connected client as the relay sees it. -/
structure Peer where
  client : Nat
  bridged : Bool               -- its bridge is established
  partner : Option Nat         -- the client it is paired with (claimed by / claiming / bridged to)
  deriving DecidableEq, Repr, Inhabited

abbrev View := List Peer

def View.peer (v : View) (c : Nat) : Option Peer := v.find? fun p => p.client == c
def View.partnerOf (v : View) (c : Nat) : Option Nat := (v.peer c).bind (·.partner)
def View.isBridged (v : View) (c : Nat) : Bool := match v.peer c with | some p => p.bridged | none => false
def View.connected (v : View) (c : Nat) : Bool := (v.peer c).isSome

/-! ### C25: the pairing table -/

/-- "pairings are symmetric": whoever `a` is paired with is a different, connected client that is
    paired with `a`. -/
def Symmetric (v : View) : Prop :=
  ∀ a ∈ v, whenSome a.partner fun b => b ≠ a.client ∧ v.partnerOf b = some a.client

/-- "a registered peer is claimed by at most one connector at a time" -/
def ClaimUnique (v : View) : Prop :=
  ∀ a ∈ v, ∀ b ∈ v, a.partner.isSome → a.partner = b.partner → a.client = b.client

/-- an established bridge has an established other end -/
def BridgePaired (v : View) : Prop :=
  ∀ a ∈ v, a.bridged = true → isSomeAnd a.partner fun b => v.isBridged b = true

instance (v : View) : Decidable (Symmetric v) := by unfold Symmetric; exact inferInstance
instance (v : View) : Decidable (ClaimUnique v) := by unfold ClaimUnique; exact inferInstance
instance (v : View) : Decidable (BridgePaired v) := by unfold BridgePaired; exact inferInstance

/-! ### C25: one step.  `β` is the representation of a byte string (bytes in the theorems, the
canonical rendering of the line protocol in the monitor). -/

structure Obs (β : Type) where
  rx : List (Nat × β)     -- what each client received because of this step (clients with nothing are absent)
  closed : List Nat       -- clients the relay disconnected in this step
  deriving Repr

/-- "bytes a client sends after its bridge is established reach only its bridge partner, in order and
    without loss while both stay connected": the step in which the bridged client `src` sends `data`
    delivers exactly `data` to exactly its partner and disconnects nobody. -/
def Delivery {β : Type} (before : View) (src : Nat) (data : Option β) (o : Obs β) : Prop :=
  before.isBridged src = true →
    whenSome (before.partnerOf src) fun p =>         -- (no partner: excluded by BridgePaired)
      o.closed = [] ∧ o.rx = (match data with | none => [] | some d => [(p, d)])

/-- "no client receives relayed bytes before its own bridge exists" and "only its bridge partner":
    whatever a step triggered by `src` makes another client receive goes to a client whose bridge with
    `src` is established after the step; `src` itself only hears from the relay (command replies) while
    it is not bridged. -/
def Isolation {β : Type} (before after : View) (src : Nat) (o : Obs β) : Prop :=
  ∀ e ∈ o.rx,
    if e.1 = src then before.isBridged src = false
    else after.isBridged e.1 = true ∧ after.partnerOf e.1 = some src ∧ after.isBridged src = true

/-- "in order and without loss while both stay connected" when the receiving side is slow: while the bridged partner
    of the sender is not reading, a step of the sender delivers nothing to anybody and disconnects nobody (the relay
    holds the bytes) … -/
def Held {β : Type} (o : Obs β) : Prop := o.rx.isEmpty = true ∧ o.closed = []

/-- … and when that partner `k` reads again it finds exactly the bytes `owed` to it — everything its partner sent
    meanwhile, in order, nothing dropped or duplicated, however the relay's writes were split — and nobody is
    disconnected. -/
def CatchUp {β : Type} (k : Nat) (owed : Option β) (o : Obs β) : Prop :=
  o.closed = [] ∧ o.rx = (match owed with | none => [] | some d => [(k, d)])

instance {β : Type} (o : Obs β) : Decidable (Held o) := by unfold Held; exact inferInstance
instance {β : Type} [DecidableEq β] (k : Nat) (d : Option β) (o : Obs β) : Decidable (CatchUp k d o) := by
  unfold CatchUp; exact inferInstance

/-- a step in which no client sent anything (connect, disconnect) delivers nothing -/
def Quiet {β : Type} (o : Obs β) : Prop := o.rx.isEmpty = true

/-- "when one side of an established bridge disconnects the other side is disconnected" -/
def Teardown {β : Type} (before : View) (src : Nat) (o : Obs β) : Prop :=
  before.isBridged src = true →
    whenSome (before.partnerOf src) fun p => p ∈ o.closed

/-- "without loss", at the moment a bridge comes into being: what the partner receives after the relay's own
    announcement line is exactly the tail — from the connector's identity on — of the bytes the connector had
    sent and the relay had not yet consumed: a suffix of `pending`, at least one identity long. -/
def BridgeHandover (identityBytes : Nat) (pending afterAnnouncement : List UInt8) : Prop :=
  identityBytes ≤ afterAnnouncement.length ∧ afterAnnouncement.isSuffixOf pending = true

instance (n : Nat) (p a : List UInt8) : Decidable (BridgeHandover n p a) := by unfold BridgeHandover; exact inferInstance

/-- "without loss", before the bridge: a connector whose CONNECT has been accepted and whose identity is not complete yet
    is not in command mode any more — the relay keeps every byte it sends (its unconsumed count grows by exactly the
    number of bytes sent; they are handed to the partner when the bridge forms) and sends it nothing. -/
def IdentityHeld (unconsumedBefore sent unconsumedAfter : Nat) (heardFromRelay : Bool) : Prop :=
  unconsumedAfter = unconsumedBefore + sent ∧ heardFromRelay = false

instance (a b c : Nat) (h : Bool) : Decidable (IdentityHeld a b c h) := by unfold IdentityHeld; exact inferInstance

/-- "without loss": once a client's bridge exists the relay holds none of its bytes back (`unconsumed` = how many
    bytes of that client the relay still has buffered right after the step that established the bridge). -/
def BridgeDrained (unconsumed : Nat) : Prop := unconsumed = 0

/-- "only to its partner", for the step that establishes a bridge: the relay's own reply lines to the connector answer
    the command lines it sent *before* its identity — at most one each; anything beyond that would be relay text sent
    to a client whose bridge already exists. -/
def RepliesBounded (commandLines replyLines : Nat) : Prop := replyLines ≤ commandLines

instance (n : Nat) : Decidable (BridgeDrained n) := by unfold BridgeDrained; exact inferInstance
instance (a b : Nat) : Decidable (RepliesBounded a b) := by unfold RepliesBounded; exact inferInstance

instance {β : Type} [DecidableEq β] (v : View) (s : Nat) (d : Option β) (o : Obs β) : Decidable (Delivery v s d o) := by
  unfold Delivery; exact inferInstance
instance {β : Type} (v w : View) (s : Nat) (o : Obs β) : Decidable (Isolation v w s o) := by
  unfold Isolation; exact inferInstance
instance {β : Type} (o : Obs β) : Decidable (Quiet o) := by unfold Quiet; exact inferInstance
instance {β : Type} (v : View) (s : Nat) (o : Obs β) : Decidable (Teardown v s o) := by
  unfold Teardown; exact inferInstance

/-! ### C26: resources -/

/-- What the relay holds: client sessions, registrations (with the client each one names, `none` for a
    registration whose session no longer exists) and open client descriptors. -/
structure Resources where
  sessions : List Nat
  registrations : List (Option Nat)
  fds : Nat
  deriving Repr

/-- "once every client has disconnected it holds no client sessions, registrations or open client
    descriptors" — stated for every moment: the relay holds a session and a descriptor for exactly the
    clients that are still connected, and every registration names one of them. -/
def Released (connected : List Nat) (r : Resources) : Prop :=
  (∀ c ∈ r.sessions, c ∈ connected) ∧
  r.fds = r.sessions.length ∧
  (∀ e ∈ r.registrations, isSomeAnd e fun c => c ∈ r.sessions)

instance (cs : List Nat) (r : Resources) : Decidable (Released cs r) := by unfold Released; exact inferInstance

/-- the literal end state of the property -/
theorem released_nil {r : Resources} (h : Released [] r) :
    r.sessions = [] ∧ r.registrations = [] ∧ r.fds = 0 := by
  obtain ⟨h1, h2, h3⟩ := h
  have hs : r.sessions = [] := by
    cases hr : r.sessions with
    | nil => rfl
    | cons a t => exact absurd (h1 a (by simp [hr])) (by simp)
  refine ⟨hs, ?_, by simp [h2, hs]⟩
  cases hr : r.registrations with
  | nil => rfl
  | cons e t =>
    have := h3 e (by simp [hr])
    cases e with
    | none => exact absurd this (by simp [isSomeAnd])
    | some c => simp [isSomeAnd, hs] at this

end EphVerif.RelaySpec
