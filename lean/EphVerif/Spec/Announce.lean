/-
C21, written from the property text (not from the code): a reference observer of a timed
sequence of announces.  It keeps, per peer, every time an announce of that peer got through,
the rejections counted towards a lockout, and the lockout deadline, and judges each observed
announce: an announce that changed node state must have been admissible, sent by a peer that is
not locked out, at least the minimum interval after every earlier accepted announce of the peer,
and must leave at most `burst` accepted announces in the window ending at it; three rejections
within 120 s (no accept in between, lockouts restart the count) lock the peer out for 180 s.
-/
namespace EphVerif.C21Spec

def NS : Int := 1000000000
def rejectionWindow : Int := 120 * NS
def lockoutTime : Int := 180 * NS
def rejectionsToLock : Nat := 3

/-- throttle parameters in force (seconds / count) -/
structure Throttle where
  minInterval : Int
  window : Int
  burst : Nat
deriving Repr

structure Peer where
  through : List Int := []
  rejections : List Int := []
  lockedUntil : Option Int := none
deriving Repr, Inhabited

structure S where
  peers : String → Peer := fun _ => {}

def isLocked (now : Int) (pr : Peer) : Bool :=
  match pr.lockedUntil with
  | some u => decide (now < u)
  | none => false

def spacingOk (th : Throttle) (now : Int) (pr : Peer) : Bool :=
  pr.through.all (fun t => decide (t + th.minInterval * NS ≤ now))

/-- accepted announces in the closed window of length `window` ending now, this one included -/
def burstOk (th : Throttle) (now : Int) (pr : Peer) : Bool :=
  decide ((pr.through.filter (fun t => decide (now - th.window * NS ≤ t))).length + 1 ≤ th.burst)

def setPeer (s : S) (p : String) (pr : Peer) : S :=
  { peers := fun q => if q = p then pr else s.peers q }

/-- Judge one announce of peer `p` observed at `now`: `admissible` = every payload condition of the
    property holds; `changed` = the implementation let it change node state.  Returns the violated
    clause, if any. -/
def observe (th : Throttle) (s : S) (now : Int) (p : String) (admissible changed : Bool) : S × Option String :=
  let pr := s.peers p
  if changed then
    let verdict :=
      if isLocked now pr then some "lockout"
      else if !admissible then some "admit"
      else if !spacingOk th now pr then some "spacing"
      else if !burstOk th now pr then some "burst"
      else none
    (setPeer s p { through := pr.through ++ [now], rejections := [], lockedUntil := none }, verdict)
  else if isLocked now pr then (s, none)
  else
    let recent := pr.rejections.filter (fun t => decide (now - t ≤ rejectionWindow)) ++ [now]
    if recent.length ≥ rejectionsToLock then
      (setPeer s p { pr with rejections := [], lockedUntil := some (now + lockoutTime) }, none)
    else (setPeer s p { pr with rejections := recent, lockedUntil := none }, none)

end EphVerif.C21Spec
