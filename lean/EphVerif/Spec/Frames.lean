/-
C14, the property told independently of the code (core Lean only).  Literal numbers are those of
the property text: payloads of at most 1 MiB = 1048576 bytes; the wire format of the transport
(`nonce(12) ‖ length(4, big-endian) ‖ ChaCha20 ciphertext`, RFC 8439 with initial block counter 0)
is the documented frame layout.

  * `frame`      what one payload looks like on the wire, given the nonce the sender drew;
  * `mayBeSent`  which payloads may be sent at all;
  * `receive`    what the receiving side of a session has to make of a byte stream: every complete
                 frame announcing at most 1 MiB is handed on decrypted, in order; a header
                 announcing more ends the session there; an incomplete frame is not handed on.
-/
import EphVerif.Spec.ChaCha20

namespace EphVerif.Spec.Frames

abbrev Bytes := List UInt8

/-- 1 MiB -/
def maxPayload : Nat := 1048576

/-- a 32-bit number, most significant byte first -/
def be32 (n : Nat) : Bytes :=
  [UInt8.ofNat (n / 16777216 % 256), UInt8.ofNat (n / 65536 % 256), UInt8.ofNat (n / 256 % 256), UInt8.ofNat (n % 256)]

def fromBe32 : Bytes → Nat
  | [a, b, c, d] => a.toNat * 16777216 + b.toNat * 65536 + c.toNat * 256 + d.toNat
  | _ => 0

def mayBeSent (payload : Bytes) : Bool := decide (payload.length ≤ maxPayload)

def frame (key nonce payload : Bytes) : Bytes :=
  nonce ++ be32 payload.length ++ chacha20 key nonce 0 payload

structure View where
  /-- payloads handed to the receiver's message handler, oldest first -/
  delivered : List Bytes
  /-- the session was ended because a header announced more than 1 MiB -/
  endedOversized : Bool
deriving DecidableEq, Repr

def receive (key : Bytes) : Nat → Bytes → List Bytes → View
  | 0, _, acc => ⟨acc, false⟩
  | fuel + 1, s, acc =>
    if s.length < 16 then ⟨acc, false⟩
    else
      let nonce := s.take 12
      let n := fromBe32 ((s.drop 12).take 4)
      let rest := s.drop 16
      if n > maxPayload then ⟨acc, true⟩
      else if rest.length < n then ⟨acc, false⟩
      else receive key fuel (rest.drop n) (acc ++ [chacha20 key nonce 0 (rest.take n)])

/-- the receiving side after the peer has sent `s` -/
def view (key s : Bytes) : View := receive key (s.length + 1) s []

end EphVerif.Spec.Frames
