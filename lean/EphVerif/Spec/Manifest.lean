/-
Specification for C17 / C18: what the manifest codec owes its callers, written without looking
at how the codec works.

* The data: `Manifest` is the API structure of `include/ephemeralnet/protocol/Manifest.hpp`
  (byte strings are `List UInt8`; `expires_at` is the clock's tick count, nanoseconds).
  `WF` says that a Lean value is a value of the C++ type: fixed-size arrays have their size,
  the `std::map` is strictly ordered by key, the tick count fits `int64`.
* C17, "the same manifest up to whole-second expiry and an empty discovery scheme being reported
  as its transport": `normalise`.  A digest that is not flagged as present is not part of the
  manifest's content; a decoder reports it as zeros.
* C17, "a field the format cannot represent (an over-long string, or more than 255 entries in
  any counted list)": `Encodable` is the negation, with the literal limits 255 (counts and
  8-bit length fields) and 65535 (16-bit length fields) from the property statement.
* C18, "either returns a manifest or throws an invalid-argument error; never crashes, reads out
  of bounds, loops, triggers undefined behaviour or throws any other exception type":
  the outcome type `Res` names each of these, `Res.Acceptable` allows the first two.
-/
namespace EphVerif.Manifest

abbrev Bytes := List UInt8

structure KeyShard where
  index : UInt8
  value : Bytes
deriving DecidableEq, Repr, Inhabited

structure DiscoveryHint where
  scheme : Bytes
  transport : Bytes
  endpoint : Bytes
  priority : UInt8
deriving DecidableEq, Repr, Inhabited

structure Security where
  advisory : Bytes
  digest : Bytes
  hasDigest : Bool
  tokenBits : UInt8
deriving DecidableEq, Repr, Inhabited

structure FallbackHint where
  uri : Bytes
  priority : UInt8
deriving DecidableEq, Repr, Inhabited

structure Manifest where
  chunkId : Bytes
  chunkHash : Bytes
  nonce : Bytes
  threshold : UInt8
  totalShares : UInt8
  /-- `expires_at.time_since_epoch().count()`: nanoseconds since the epoch -/
  expiresNs : Int
  shards : List KeyShard
  /-- `std::map<string,string>` in iteration order -/
  metadata : List (Bytes × Bytes)
  discovery : List DiscoveryHint
  security : Security
  fallback : List FallbackHint
deriving DecidableEq, Repr, Inhabited

/-- `std::string::operator<`: lexicographic on unsigned bytes, a proper prefix is smaller -/
def bytesLt : Bytes → Bytes → Bool
  | [], [] => false
  | [], _ :: _ => true
  | _ :: _, [] => false
  | a :: as, b :: bs => a < b || (a == b && bytesLt as bs)

/-- the value is one the C++ type can hold -/
structure WF (m : Manifest) : Prop where
  chunkId : m.chunkId.length = 32
  chunkHash : m.chunkHash.length = 32
  nonce : m.nonce.length = 12
  shards : ∀ s ∈ m.shards, s.value.length = 32
  digest : m.security.digest.length = 32
  metadata : m.metadata.Pairwise (fun a b => bytesLt a.1 b.1 = true)
  expiry : -9223372036854775808 ≤ m.expiresNs ∧ m.expiresNs ≤ 9223372036854775807

/-- the scheme a reader is told: an empty scheme means "same as the transport" -/
def reportedScheme (h : DiscoveryHint) : Bytes := if h.scheme.isEmpty then h.transport else h.scheme

/-- whole seconds, rounding toward the epoch (what `duration_cast<seconds>` keeps) -/
def wholeSeconds (ns : Int) : Int := Int.tdiv ns 1000000000

def normalise (m : Manifest) : Manifest :=
  { m with
    expiresNs := wholeSeconds m.expiresNs * 1000000000
    discovery := m.discovery.map fun h => { h with scheme := reportedScheme h }
    security := { m.security with digest := if m.security.hasDigest then m.security.digest else List.replicate 32 0 } }

/-- every counted list has at most 255 entries and every string fits its 8- or 16-bit length -/
def Encodable (m : Manifest) : Prop :=
  m.shards.length ≤ 255 ∧
  m.metadata.length ≤ 255 ∧
  (∀ e ∈ m.metadata, e.1.length ≤ 255 ∧ e.2.length ≤ 65535) ∧
  m.discovery.length ≤ 255 ∧
  (∀ h ∈ m.discovery, (reportedScheme h).length ≤ 255 ∧ h.transport.length ≤ 255 ∧ h.endpoint.length ≤ 65535) ∧
  m.fallback.length ≤ 255 ∧
  (∀ f ∈ m.fallback, f.uri.length ≤ 65535) ∧
  m.security.advisory.length ≤ 65535

instance (m : Manifest) : Decidable (Encodable m) := by
  unfold Encodable; infer_instance

/-- what can happen when C++ code runs on an input -/
inductive Res (α : Type) where
  | ok (a : α)
  /-- `throw std::invalid_argument` -/
  | invalidArg
  /-- a read outside the buffer -/
  | oob
  /-- undefined behaviour (signed overflow in the clock conversion) -/
  | ub
  /-- any other exception type -/
  | otherExc
deriving DecidableEq, Repr

/-- C18: a manifest or an invalid-argument error, nothing else -/
def Res.Acceptable {α : Type} : Res α → Prop
  | .ok _ => True
  | .invalidArg => True
  | _ => False

instance {α : Type} (r : Res α) : Decidable r.Acceptable := by
  cases r <;> (unfold Res.Acceptable; infer_instance)

/-- outcome of encoding -/
inductive EncOut where
  | ok (uri : Bytes)
  /-- `throw std::length_error` -/
  | lengthError
deriving DecidableEq, Repr

end EphVerif.Manifest
