/-
Executable specification (monitor) for C22, written from the property text only:
given the live candidates the routing table offered, the manifest's shard labels and the swarm
configuration, decide whether an observed plan is acceptable.  Returns the violated clause.
-/
namespace EphVerif.C22Spec

structure Obs where
  peer : String
  shards : List Nat
deriving Repr, Inhabited

def specCount (c s thr mn tg : Nat) : Nat :=
  min c (min s (max tg (min (max mn thr) (min c s))))

def nodup (l : List String) : Bool :=
  match l with
  | [] => true
  | x :: xs => !xs.contains x && nodup xs

def count (l : List Nat) (x : Nat) : Nat := (l.filter (· == x)).length

/-- same multiset of labels -/
def sameMultiset (a b : List Nat) : Bool :=
  a.length == b.length && a.all (fun x => count a x == count b x)

def check (cands : List String) (self : String) (live : String → Bool)
    (labels : List Nat) (thr mn tg : Nat) (plan : List Obs) : Option String :=
  let provs := plan.map (·.peer)
  if !(nodup cands && cands.all (fun p => p != self && live p)) then some "eligible:candidate list has duplicates, self or a dead peer"
  else if !(nodup provs && provs.all (fun p => cands.contains p && p != self)) then some "eligible:provider not a distinct live candidate"
  else if plan.length != (if labels.isEmpty then 0 else specCount cands.length labels.length thr mn tg) then some "count:number of providers differs from the formula"
  else if plan.isEmpty then none
  else if !sameMultiset (plan.flatMap (·.shards)) labels then some "each-shard-once:assigned shards are not exactly the manifest's shards"
  else if !(plan.all (fun a => a.shards.length ≥ 1)) then some "even:a provider received no shard"
  else if !(plan.all (fun a => plan.all (fun b => a.shards.length ≤ b.shards.length + 1))) then some "even:shard counts differ by more than one"
  else none

end EphVerif.C22Spec
