import EphVerif.Model.ConfigLayers
/-!
# Specification for C32 — precedence of configuration layers

Written from the property text and docs/03-operations/01-configuration.md ("later layers override earlier
ones"): *each effective setting equals the value from the highest-precedence layer that sets it — command-line
flags, then environment overrides, then the selected profile, then its ancestors (nearest first), then the
built-in default (= unset); cyclic or missing profiles are reported as errors.*

Nothing here merges trees.  A **layer** is one mapping as written in the file; a layer *sets* a setting when one
of the setting's key spellings is present in that very mapping.  Only the value type `Value` (and its `lookup`)
is shared with the model.
-/
namespace EphVerif.Spec.ConfigLayers
open EphVerif.ConfigLayers

/-- every value a layer gives to a setting (one per spelling that is present in the layer) -/
def layerValues (layer : Value) (spellings : List (List String)) : List Value :=
  spellings.filterMap (lookup layer)

/-- the values of the highest-precedence layer that sets the setting (layers are listed highest first);
`[]` when no layer sets it.  More than one value only if that single layer spells the setting twice. -/
def winner (layers : List Value) (spellings : List (List String)) : List Value :=
  match layers with
  | [] => []
  | l :: rest =>
    match layerValues l spellings with
    | [] => winner rest spellings
    | vs => vs

/-- walk the `extends` links from `name`: the selected profile's own mapping first, then its ancestors nearest
first.  `none` when a profile on the way is missing, is not a mapping, has a non-text `extends`, or when the
walk does not end within `fuel` steps (more steps than there are profiles = a cycle). -/
def chain (profiles : Fields) : Nat → String → Option (List Value)
  | 0, _ => none
  | fuel + 1, name =>
    match profiles.get name with
    | some (.obj fs) =>
      match fs.get "extends" with
      | none => some [.obj fs]
      | some (.str parent) => (chain profiles fuel parent).map (Value.obj fs :: ·)
      | some _ => none
    | _ => none

/-- the environment layer: the environment's own direct keys and its `overrides` mapping are the same layer -/
def envLayers (envNode : Value) : List Value :=
  match envNode with
  | .obj fs =>
    let direct := Value.obj (fs.filterKeys fun k => k != "profile" && k != "overrides")
    match fs.get "overrides" with
    | some (.obj o) => [direct, .obj o]
    | _ => [direct]
  | _ => []

/-- values the environment layer gives to a setting (both ways of writing it) -/
def envValues (envNode : Value) (spellings : List (List String)) : List Value :=
  (envLayers envNode).flatMap (layerValues · spellings)

/-- what the property allows for one setting: the flag if given, otherwise the environment's value(s), otherwise
the value(s) of the nearest profile on the chain that sets it; `[]` = must stay unset -/
def allowed (envNode : Option Value) (profileChain : List Value) (spellings : List (List String)) : List Value :=
  let fromEnv := match envNode with
    | some e => envValues e spellings
    | none => []
  match fromEnv with
  | [] => winner profileChain spellings
  | vs => vs

/-- is the tree free of shapes the property says nothing about along `path`: every proper prefix that is present
is a mapping and the value at the path itself is not a mapping -/
def cleanAt : Value → List String → Bool
  | v, [] => !v.isObj
  | .obj fs, k :: ks =>
    match fs.get k with
    | some c => cleanAt c ks
    | none => true
  | _, _ :: _ => false

end EphVerif.Spec.ConfigLayers
