/-
C39, the property told independently of the code (core Lean only).

"Whenever a session key is rotated either both ends of the session switch to the same new key or
the session is torn down and re-established; a session never stays open while its two ends encrypt
and authenticate with different keys."

An observer sees, of each end: whether it holds an open session to the other end and which key it
uses for that session.  The property is the invariant `Consistent` over every reachable pair of
observations, for any timing of the two ends' ticks.
-/
namespace EphVerif.Spec.Rotation

abbrev Bytes := List UInt8

/-- what can be observed of the two ends of one session -/
structure Obs where
  openA : Bool
  openB : Bool
  keyA : Option Bytes
  keyB : Option Bytes
deriving DecidableEq, Repr

/-- the property's invariant: a session open at both ends uses one key -/
def Consistent (o : Obs) : Prop := o.openA = true → o.openB = true → o.keyA = o.keyB

instance (o : Obs) : Decidable (Consistent o) := by unfold Consistent; exact inferInstance

/-- a message authenticated (and encrypted) by the sender under `kSender` is accepted by a receiver
holding `kReceiver` exactly when the keys are the same (up to a MAC forgery, which the property
does not count on) -/
def accepts (kSender kReceiver : Option Bytes) : Bool := kSender.isSome && decide (kSender = kReceiver)

end EphVerif.Spec.Rotation
