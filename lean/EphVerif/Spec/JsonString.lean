/-
Specification vocabulary for the two JSON string properties (C37, C38).  Core Lean only.

Bytes are natural numbers (`List Nat`); every definition is total on arbitrary naturals, so
theorems stated for all `List Nat` cover all byte strings.

* `utf8Encode`   RFC 3629 §3: the UTF-8 encoding of a Unicode scalar value (by division, not by
                 the shifts and masks of the implementation).  Surrogates D800–DFFF and values
                 above 10FFFF have no encoding.
* `validUtf8`    RFC 3629 §4 `UTF8-octets` syntax (no overlongs, no surrogates, ≤ U+10FFFF).
* `decodeStr`    RFC 8259 §7: decoder for the characters of a JSON string *after* the opening
                 quotation mark up to and including the closing one; returns the denoted byte
                 string (UTF-8) and the remaining input.  Escapes: `\" \\ \/ \b \f \n \r \t`,
                 `\uXXXX` for a BMP scalar value, and a high surrogate escape immediately
                 followed by a low surrogate escape for U+10000…U+10FFFF (combined into one
                 code point, hence one 4-byte sequence).  **A surrogate escape that is not part
                 of such a pair denotes nothing** — RFC 8259 leaves its meaning open and RFC 3629
                 gives it no UTF-8 encoding — so the string is undecodable (`none`).
                 `strict = true` additionally rejects raw bytes below 0x20 as RFC 8259 requires
                 of a JSON text (used to judge what the logger *writes*, C37); `strict = false`
                 lets every raw byte other than `"` and `\` denote itself (used to say what a
                 reader that *accepted* a document must report, C38: which non-JSON documents a
                 lenient reader accepts is outside that property).
* `decodeLine`   acceptor/decoder for one line holding a JSON object whose members are strings or
                 objects of strings, no insignificant whitespace: a sub-language of RFC 8259 §2–§4
                 (every accepted text is a valid JSON text provided it is valid UTF-8).
  Byte-wise parsing is equivalent to code-point-wise parsing on valid UTF-8 because every
  structural character is ASCII and no byte of a multi-byte sequence is below 0x80.
-/
namespace EphVerif.JsonSpec

abbrev Bytes := List Nat

/-! ### UTF-8 (RFC 3629) -/

def utf8Encode (cp : Nat) : Option Bytes :=
  if cp < 0x80 then some [cp]
  else if cp < 0x800 then some [0xC0 + cp / 64, 0x80 + cp % 64]
  else if 0xD800 ≤ cp ∧ cp ≤ 0xDFFF then none
  else if cp < 0x10000 then some [0xE0 + cp / 4096, 0x80 + cp / 64 % 64, 0x80 + cp % 64]
  else if cp < 0x110000 then
    some [0xF0 + cp / 262144, 0x80 + cp / 4096 % 64, 0x80 + cp / 64 % 64, 0x80 + cp % 64]
  else none

def isCont (b : Nat) : Bool := decide (0x80 ≤ b ∧ b ≤ 0xBF)

/-- RFC 3629 §4:
```
UTF8-1 = %x00-7F
UTF8-2 = %xC2-DF UTF8-tail
UTF8-3 = %xE0 %xA0-BF UTF8-tail / %xE1-EC 2( UTF8-tail ) / %xED %x80-9F UTF8-tail / %xEE-EF 2( UTF8-tail )
UTF8-4 = %xF0 %x90-BF 2( UTF8-tail ) / %xF1-F3 3( UTF8-tail ) / %xF4 %x80-8F 2( UTF8-tail )
``` -/
def validUtf8 : Bytes → Bool
  | [] => true
  | b0 :: rest =>
    if b0 < 0x80 then validUtf8 rest
    else if 0xC2 ≤ b0 ∧ b0 ≤ 0xDF then
      match rest with
      | b1 :: r => isCont b1 && validUtf8 r
      | _ => false
    else if 0xE0 ≤ b0 ∧ b0 ≤ 0xEF then
      match rest with
      | b1 :: b2 :: r =>
        isCont b1 && isCont b2 && !(b0 = 0xE0 ∧ b1 < 0xA0) && !(b0 = 0xED ∧ 0x9F < b1) && validUtf8 r
      | _ => false
    else if 0xF0 ≤ b0 ∧ b0 ≤ 0xF4 then
      match rest with
      | b1 :: b2 :: b3 :: r =>
        isCont b1 && isCont b2 && isCont b3 && !(b0 = 0xF0 ∧ b1 < 0x90) && !(b0 = 0xF4 ∧ 0x8F < b1)
          && validUtf8 r
      | _ => false
    else false

/-! ### JSON strings (RFC 8259 §7) -/

def hexVal (b : Nat) : Option Nat :=
  if 0x30 ≤ b ∧ b ≤ 0x39 then some (b - 0x30)        -- 0-9
  else if 0x41 ≤ b ∧ b ≤ 0x46 then some (b - 0x41 + 10)  -- A-F
  else if 0x61 ≤ b ∧ b ≤ 0x66 then some (b - 0x61 + 10)  -- a-f
  else none

/-- the value of four hexadecimal digits -/
def hex4 (a b c d : Nat) : Option Nat :=
  match hexVal a, hexVal b, hexVal c, hexVal d with
  | some w, some x, some y, some z => some (w * 4096 + x * 256 + y * 16 + z)
  | _, _, _, _ => none

def isHighSurrogate (u : Nat) : Bool := decide (0xD800 ≤ u ∧ u ≤ 0xDBFF)
def isLowSurrogate (u : Nat) : Bool := decide (0xDC00 ≤ u ∧ u ≤ 0xDFFF)

/-- the code point denoted by a surrogate pair (Unicode §3.8 / RFC 8259 §7) -/
def combineSurrogates (hi lo : Nat) : Nat := 0x10000 + (hi - 0xD800) * 0x400 + (lo - 0xDC00)

/-- `\"`, `\\`, `\/`, `\b`, `\f`, `\n`, `\r`, `\t` -/
def simpleEscape (e : Nat) : Option Nat :=
  if e = 0x22 then some 0x22
  else if e = 0x5C then some 0x5C
  else if e = 0x2F then some 0x2F
  else if e = 0x62 then some 0x08
  else if e = 0x66 then some 0x0C
  else if e = 0x6E then some 0x0A
  else if e = 0x72 then some 0x0D
  else if e = 0x74 then some 0x09
  else none

def prepend (pre : Option Bytes) (r : Option (Bytes × Bytes)) : Option (Bytes × Bytes) :=
  match pre, r with
  | some p, some (s, rest) => some (p ++ s, rest)
  | _, _ => none

def decodeStr (strict : Bool) : Bytes → Option (Bytes × Bytes)
  | [] => none                                            -- no closing quotation mark
  | b :: rest =>
    if b = 0x22 then some ([], rest)
    else if b = 0x5C then
      match rest with
      | [] => none
      | e :: rest1 =>
        if e = 0x75 then
          match rest1 with
          | h1 :: h2 :: h3 :: h4 :: rest2 =>
            match hex4 h1 h2 h3 h4 with
            | none => none
            | some u =>
              if isHighSurrogate u then
                match rest2 with
                | bs :: bu :: l1 :: l2 :: l3 :: l4 :: rest3 =>
                  if bs = 0x5C ∧ bu = 0x75 then
                    match hex4 l1 l2 l3 l4 with
                    | some lo =>
                      if isLowSurrogate lo then
                        prepend (utf8Encode (combineSurrogates u lo)) (decodeStr strict rest3)
                      else none
                    | none => none
                  else none
                | _ => none
              else if isLowSurrogate u then none
              else prepend (utf8Encode u) (decodeStr strict rest2)
          | _ => none
        else
          match simpleEscape e with
          | some v => prepend (some [v]) (decodeStr strict rest1)
          | none => none
    else if strict && decide (b < 0x20) then none
    else prepend (some [b]) (decodeStr strict rest)

/-- the string denoted by the characters between two quotation marks -/
def unescape (lit : Bytes) : Option Bytes :=
  match decodeStr true (lit ++ [0x22]) with
  | some (s, []) => some s
  | _ => none

/-- no quotation mark or reverse solidus except as part of a two-character escape -/
def bareFree : Bytes → Bool
  | [] => true
  | b :: rest =>
    if b = 0x22 then false
    else if b = 0x5C then
      match rest with
      | [] => false
      | _ :: rest1 => bareFree rest1
    else bareFree rest

/-! ### One line holding an object of strings / objects of strings -/

/-- `"k":"v"` ( `,` `"k":"v"` )* `}` — members of an object all of whose values are strings -/
def decodeFlatMembers : Nat → Bytes → Option (List (Bytes × Bytes) × Bytes)
  | 0, _ => none
  | fuel + 1, t =>
    match t with
    | q :: t1 =>
      if q = 0x22 then
        match decodeStr true t1 with
        | some (k, c :: q2 :: t2) =>
          if c = 0x3A ∧ q2 = 0x22 then
            match decodeStr true t2 with
            | some (v, sep :: t3) =>
              if sep = 0x7D then some ([(k, v)], t3)
              else if sep = 0x2C then
                match decodeFlatMembers fuel t3 with
                | some (ms, t4) => some ((k, v) :: ms, t4)
                | none => none
              else none
            | _ => none
          else none
        | _ => none
      else none
    | [] => none

/-- `{}` or `{` members `}` -/
def decodeFlatObj (t : Bytes) : Option (List (Bytes × Bytes) × Bytes) :=
  match t with
  | o :: c :: rest =>
    if o = 0x7B then
      if c = 0x7D then some ([], rest) else decodeFlatMembers (rest.length + 1) (c :: rest)
    else none
  | _ => none

inductive Val where
  | s (b : Bytes)
  | o (ms : List (Bytes × Bytes))
deriving DecidableEq, Repr

/-- members of the outer object: values are strings or flat objects -/
def decodeTopMembers : Nat → Bytes → Option (List (Bytes × Val) × Bytes)
  | 0, _ => none
  | fuel + 1, t =>
    match t with
    | q :: t1 =>
      if q = 0x22 then
        match decodeStr true t1 with
        | some (k, c :: t2) =>
          if c = 0x3A then
            let value : Option (Val × Bytes) :=
              match t2 with
              | q2 :: t2' =>
                if q2 = 0x22 then (decodeStr true t2').map fun (v, r) => (Val.s v, r)
                else (decodeFlatObj t2).map fun (ms, r) => (Val.o ms, r)
              | [] => none
            match value with
            | some (v, sep :: t3) =>
              if sep = 0x7D then some ([(k, v)], t3)
              else if sep = 0x2C then
                match decodeTopMembers fuel t3 with
                | some (ms, t4) => some ((k, v) :: ms, t4)
                | none => none
              else none
            | _ => none
          else none
        | _ => none
      else none
    | [] => none

/-- exactly: `{` members `}` LF, end of input -/
def decodeLine (t : Bytes) : Option (List (Bytes × Val)) :=
  match t with
  | o :: rest =>
    if o = 0x7B then
      match decodeTopMembers (rest.length + 1) rest with
      | some (ms, [nl]) => if nl = 0x0A then some ms else none
      | _ => none
    else none
  | [] => none

/-- exactly one line: a body without control bytes, then one LF -/
def oneLine (t : Bytes) : Prop := ∃ body, t = body ++ [0x0A] ∧ ∀ b ∈ body, 0x20 ≤ b

def oneLineB (t : Bytes) : Bool :=
  match t.reverse with
  | nl :: body => nl == 0x0A && body.all fun b => decide (0x20 ≤ b)
  | [] => false

end EphVerif.JsonSpec
