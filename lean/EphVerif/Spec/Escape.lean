/-
C35 — specification, written from the property text, independent of the code's structure.

"No sequence of bytes sent by a remote peer — before or after completing a handshake, including
validly signed messages carrying adversarial manifests, shard sets or lengths — or by a
control-plane client makes the node or daemon crash, terminate, hit undefined behaviour or memory
errors, or stop serving others."

The logic core that a model can carry: the daemon consists of a fixed set of *boundaries* (the
entry functions of its threads and its main loop).  Each delivery of remote input is handled by
one boundary and ends, for the process, in one of the results below.  The property demands that
the result is `survives` for every boundary and every delivery, whatever the input and whatever
state the node is in.  (Memory errors and liveness of the real threads are outside this core; they
are observed with sanitizers and real-thread runs, see notes/C35.md.)
-/
namespace EphVerif.EscapeSpec

/-- the five places where remote input is processed with nothing above to catch an exception -/
def requiredBoundaries : List String :=
  ["reader-thread", "transport-accept-thread", "control-accept-thread", "relay-worker-thread", "main-loop-tick"]

/-- result of one delivery, as the process sees it -/
inductive Result where
  | survives
  | terminates
deriving DecidableEq, Repr

/-- `run input boundary` never terminates the process: ∀ inputs (bytes + state), ∀ boundaries -/
def NoRemoteCrash {Input Boundary : Type} (boundaries : List Boundary) (run : Input → Boundary → Result) : Prop :=
  ∀ (i : Input) (b : Boundary), b ∈ boundaries → run i b = .survives

/-- verdict on one observed delivery (the monitor): the implementation's line is `ok …`,
    `escape:<type> …` (an exception reached the boundary) or `crash:<summary>` -/
def judge (implLine : String) : String :=
  if implLine.startsWith "escape:" then
    "viol:escape:" ++ ((implLine.splitOn " ").headD "")
  else if implLine.startsWith "crash:" then "viol:crash:" ++ implLine
  else if implLine.startsWith "ok" then "ok"
  else if implLine.startsWith "hang" then "viol:hang:" ++ implLine
  else "viol:malformed-output:" ++ implLine

end EphVerif.EscapeSpec
