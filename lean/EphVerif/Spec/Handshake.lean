/-
C20, written from the property text: an observer of inbound handshakes.  An accepted handshake
(acknowledged / session registered) must carry a valid public key and a nonce that is valid for
(claimed peer, this node, offered key); a rejected one must leave the keys and sessions of the
claimed peer as they were and lower its reputation (unless it already sits at the floor, -100).
-/
namespace EphVerif.C20Spec

def reputationFloor : Int := -100

/-- a valid public key of the handshake group: an element of (1, p) for p = 2^31 - 1 -/
def keyValid (pub : Nat) : Bool := decide (1 < pub) && decide (pub < 2147483647)

/-- what can be seen of one claimed peer -/
structure Seen where
  key : String := "-"        -- session key known to the node for the peer
  sessionKey : String := "-" -- key registered with the session layer
  rep : Int := 0
deriving Repr, Inhabited, DecidableEq

def judge (before after : Seen) (accepted keyValid powValid : Bool) : Option String :=
  if accepted then
    if keyValid && powValid then none else some "accept"
  else if after.key != before.key || after.sessionKey != before.sessionKey then some "reject-keys"
  else if decide (after.rep < before.rep) || (before.rep == reputationFloor && after.rep == reputationFloor) then none
  else some "reject-reputation"

end EphVerif.C20Spec
