/-!
Specification for C07, written from the property text and independent of the code and of
`Model/Routing.lean` (core Lean only; every predicate is decidable, the driver's monitor is
`decide` of these very predicates on what the implementation reported).

  "A closest-peer query returns, in strictly increasing XOR distance to the target, the min(k, n)
   nearest of the n unexpired contacts the table holds; the node's own id is never held, no bucket
   holds more than 16 contacts, every contact sits in the bucket of its highest bit differing from
   the local id, and a refreshed contact keeps a single entry with its newest address and expiry."

Ids are 256-bit numbers (`Nat`, the big-endian value `toNat` of the 32 id bytes), time is an
`Int` of nanoseconds, a contact is unexpired at `now` iff `now < exp`.
-/
namespace EphVerif.C07Spec

/-- big-endian value of a byte string -/
def toNat : List Nat → Nat
  | [] => 0
  | b :: bs => b * 256 ^ bs.length + toNat bs

structure Entry where
  id : Nat
  addr : String
  exp : Int
deriving DecidableEq, Repr, Inhabited

/-- what a table holds: per bucket index the entries, front to back -/
abbrev Dump := List (Nat × List Entry)

def entries (d : Dump) : List Entry := d.flatMap (·.2)

/-- `i` is the highest bit position in which `a` and `b` differ -/
def HighestDiff (a b i : Nat) : Prop :=
  a.testBit i ≠ b.testBit i ∧ ∀ j, i < j → a.testBit j = b.testBit j

/-- executable form of "the highest differing bit" (`Lemmas/C07Bits`: `HighestDiff a b i ↔
    a ≠ b ∧ i = bucketOf a b`) -/
def bucketOf (self id : Nat) : Nat := Nat.log2 (self ^^^ id)

/-! ### bucket shape -/

/-- the node's own id is never held -/
def SelfNotHeld (self : Nat) (d : Dump) : Prop := ∀ e ∈ entries d, e.id ≠ self
/-- no bucket holds more than 16 contacts -/
def BucketCap (d : Dump) : Prop := ∀ b ∈ d, b.2.length ≤ 16
/-- every contact sits in the bucket of its highest bit differing from the local id -/
def BucketPlace (self : Nat) (d : Dump) : Prop := ∀ b ∈ d, ∀ e ∈ b.2, e.id ≠ self ∧ b.1 = bucketOf self e.id
/-- one entry per id over the whole table -/
def SingleEntry (d : Dump) : Prop := (entries d).Pairwise (fun a b => a.id ≠ b.id)

instance (self d) : Decidable (SelfNotHeld self d) := by unfold SelfNotHeld; infer_instance
instance (d) : Decidable (BucketCap d) := by unfold BucketCap; infer_instance
instance (self d) : Decidable (BucketPlace self d) := by unfold BucketPlace; infer_instance
instance (d) : Decidable (SingleEntry d) := by unfold SingleEntry; infer_instance

structure Shape (own : Nat) (d : Dump) : Prop where
  selfNotHeld : SelfNotHeld own d
  bucketCap : BucketCap d
  bucketPlace : BucketPlace own d
  singleEntry : SingleEntry d

/-! ### newest address and expiry -/

/-- registrations so far, newest first: (id, address, effective expiry) -/
abbrev Log := List (Nat × String × Int)

/-- the expiry a registration asks for: `register_peer` documents the epoch value 0 as "now" -/
def effExp (now exp : Int) : Int := if exp = 0 then now else exp

def lastReg (log : Log) (id : Nat) : Option (String × Int) := (log.find? (·.1 == id)).map (·.2)

/-- every held contact carries the address and expiry of the most recent registration of its id -/
def Newest (log : Log) (d : Dump) : Prop := ∀ e ∈ entries d, lastReg log e.id = some (e.addr, e.exp)

/-- right after registering `id` (≠ self): the table holds exactly one entry with that id, and
    it carries the new address and expiry -/
def JustRegistered (d : Dump) (id : Nat) (addr : String) (exp : Int) : Prop :=
  (entries d).filter (·.id == id) = [⟨id, addr, exp⟩]

instance (log d) : Decidable (Newest log d) := by unfold Newest; infer_instance
instance (d id addr exp) : Decidable (JustRegistered d id addr exp) := by unfold JustRegistered; infer_instance

/-! ### sweeps -/

/-- a sweep removes nothing that is unexpired and adds nothing -/
def SweepKeeps (before after : List Entry) (now : Int) : Prop :=
  (∀ e ∈ before, now < e.exp → e ∈ after) ∧ (∀ e ∈ after, e ∈ before)

instance (b a now) : Decidable (SweepKeeps b a now) := by unfold SweepKeeps; infer_instance

/-! ### what the table holds is fixed by the registration history -/

def unexpiredAt (now : Int) (e : Entry) : Bool := decide (now < e.exp)

/-- **retained**: registering `id` (by `register_peer` or `add_contact`) at time `now` costs no other
    unexpired contact its place — every contact held before that is unexpired and has another id
    is still held afterwards — with the single exception the 16-entry cap forces: when `id` is
    *new* (no unexpired entry carries it), is not the local id, and its bucket already holds 16
    unexpired contacts, the least recently registered of those (the front one) may be dropped.
    In particular a refresh of a held, unexpired contact never evicts anyone. -/
def Retained (self : Nat) (before after : Dump) (now : Int) (id : Nat) : Prop :=
  ∀ b ∈ before, ∀ e ∈ b.2, now < e.exp → e.id ≠ id →
    e ∈ entries after ∨
      ((∀ x ∈ (entries before).filter (unexpiredAt now), x.id ≠ id) ∧ id ≠ self ∧ b.1 = bucketOf self id ∧
        16 ≤ (b.2.filter (unexpiredAt now)).length ∧ (b.2.filter (unexpiredAt now)).head? = some e)

instance (self before after now id) : Decidable (Retained self before after now id) := by
  unfold Retained; infer_instance

/-- operations that register nobody (queries, dumps, clock moves) lose no unexpired contact -/
def NothingLost (before after : List Entry) (now : Int) : Prop :=
  ∀ e ∈ before, now < e.exp → e ∈ after

instance (b a now) : Decidable (NothingLost b a now) := by unfold NothingLost; infer_instance

/-! ### closest-peer queries -/

def dist (target : Nat) (e : Entry) : Nat := e.id ^^^ target

def unexpired (now : Int) (e : Entry) : Bool := decide (now < e.exp)

/-- `r` is the answer to "the `k` closest to `target`" over the held contacts at time `now` -/
def IsClosest (held : List Entry) (now : Int) (target k : Nat) (r : List Entry) : Prop :=
  -- min(k, n) of the n unexpired contacts
  r.length = min k (held.filter (unexpired now)).length
  -- in strictly increasing XOR distance
  ∧ r.Pairwise (fun a b => dist target a < dist target b)
  -- they are unexpired held contacts
  ∧ (∀ e ∈ r, e ∈ held ∧ now < e.exp)
  -- and the nearest ones: whatever unexpired contact is left out is farther than every member
  ∧ (∀ e ∈ held, now < e.exp → e ∉ r → ∀ m ∈ r, dist target m < dist target e)

instance (held now target k r) : Decidable (IsClosest held now target k r) := by
  unfold IsClosest; infer_instance

end EphVerif.C07Spec
