/-
Specification vocabulary for C38 that talks about the parsed tree (`UpdateJson.JV`):
what it means for the strings of a tree to be the RFC 8259 decodings of the string literals of
the document, and for a tree to be nested at most `n` containers deep.
-/
import EphVerif.Model.UpdateJson
import EphVerif.Spec.JsonString

namespace EphVerif.C38Spec
open EphVerif.UpdateJson EphVerif.JsonSpec

/-- the JSON string literal that starts at offset `off` of the document denotes the byte string
    `s`: there is a quotation mark at `off`, and the RFC 8259 decoder, run on what follows it,
    reaches the closing quotation mark and yields `s` (UTF-8) -/
def StrAt (inp : Input) (off : Nat) (s : List Nat) : Prop :=
  inp[off]? = some 0x22 ∧ ∃ p', decodeStr false (inp.toList.drop (off + 1)) = some (s, inp.toList.drop p')

/-- every string of the tree — values and member names — satisfies `P offset value` -/
inductive AllStr (P : Nat → List Nat → Prop) : JV → Prop
  | null : AllStr P .null
  | bool (b : Bool) : AllStr P (.bool b)
  | num (t : List Nat) : AllStr P (.num t)
  | str (off : Nat) (s : List Nat) : P off s → AllStr P (.str off s)
  | arr (xs : List JV) : (∀ x ∈ xs, AllStr P x) → AllStr P (.arr xs)
  | obj (ms : List (Nat × List Nat × JV)) :
      (∀ m ∈ ms, P m.1 m.2.1) → (∀ m ∈ ms, AllStr P m.2.2) → AllStr P (.obj ms)

/-- the tree is nested at most `n` containers deep (a scalar is depth 0) -/
inductive DepthLe : Nat → JV → Prop
  | null (n : Nat) : DepthLe n .null
  | bool (n : Nat) (b : Bool) : DepthLe n (.bool b)
  | num (n : Nat) (t : List Nat) : DepthLe n (.num t)
  | str (n off : Nat) (s : List Nat) : DepthLe n (.str off s)
  | arr (n : Nat) (xs : List JV) : (∀ x ∈ xs, DepthLe n x) → DepthLe (n + 1) (.arr xs)
  | obj (n : Nat) (ms : List (Nat × List Nat × JV)) : (∀ m ∈ ms, DepthLe n m.2.2) → DepthLe (n + 1) (.obj ms)

/-- the member list has a first member named `key`, its value is a string literal, and the
    reported value `val` is the decoding of that literal -/
def FieldIs (inp : Input) (ms : List (Nat × List Nat × JV)) (key : String) (val : List Nat) : Prop :=
  ∃ off, findMember ms (ascii key) = some (.str off val) ∧ StrAt inp off val

/-- optional field: reported iff the first member of that name is a string literal -/
def OptFieldIs (inp : Input) (ms : List (Nat × List Nat × JV)) (key : String) (val : Option (List Nat)) : Prop :=
  match val with
  | some v => FieldIs inp ms key v
  | none => ∀ off s, findMember ms (ascii key) ≠ some (.str off s)

/-- field with an empty default (`arch`, `format`) -/
def DefFieldIs (inp : Input) (ms : List (Nat × List Nat × JV)) (key : String) (val : List Nat) : Prop :=
  FieldIs inp ms key val ∨ (val = [] ∧ ∀ off s, findMember ms (ascii key) ≠ some (.str off s))

/-- a reported download entry comes from a member of the `downloads` object whose value is an
    object: the platform is the decoding of the member's name, `url`/`arch`/`format`/`sha256` the
    decodings of the corresponding string members of that object -/
def DownloadIs (inp : Input) (dls : List (Nat × List Nat × JV)) (d : Download) : Prop :=
  ∃ keyOff vms, (keyOff, d.platform, JV.obj vms) ∈ dls ∧ StrAt inp keyOff d.platform ∧
    FieldIs inp vms "url" d.url ∧ DefFieldIs inp vms "arch" d.arch ∧ DefFieldIs inp vms "format" d.format ∧
    OptFieldIs inp vms "sha256" d.sha256

end EphVerif.C38Spec
