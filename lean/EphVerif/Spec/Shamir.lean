/-
Specification side of C10 (core Lean only), written without reference to the log/exp tables of
the source.

* The field: GF(2^8) = F_2[x] / (x^8 + x^4 + x^3 + x^2 + 1), elements as bytes, addition = xor,
  multiplication = shift-and-add with reduction (`pmul`).  `isFieldTable` is the executable form
  of "this 256×256 table is the multiplication of a field whose addition is xor" – it is what
  the monitor applies to the table the implementation exhibits.
* A t-of-n sharing of a byte `s`: n points with distinct non-zero abscissae on a polynomial of
  degree < t whose value at 0 is `s` (`validSharing`, decided through Lagrange interpolation on
  the first t points).  Reconstruction = the value at 0 of the interpolating polynomial
  (`reconstruct`).
-/
namespace EphVerif.ShamirSpec

/-! ### the field -/

/-- multiplication by `x` modulo x^8 + x^4 + x^3 + x^2 + 1 -/
def xtime (a : Nat) : Nat :=
  let y := a <<< 1
  if y < 256 then y else y ^^^ 0x11D

/-- `x^i · a` -/
def xpow : Nat → Nat → Nat
  | 0, a => a
  | i + 1, a => xpow i (xtime a)

def pmulTerm (a b i : Nat) : Nat := if b.testBit i then xpow i a else 0

/-- `a · b`: Σ_{i<8} b_i · x^i · a -/
def pmul (a b : Nat) : Nat :=
  (List.range 8).foldl (fun acc i => acc ^^^ pmulTerm a b i) 0

/-! ### field axioms as an executable predicate on a multiplication table (addition = xor) -/

def allBytes (p : Nat → Bool) : Bool := (List.range 256).all p

/-- first field axiom violated by `mul` on bytes, if any -/
def fieldDefect (mul : Nat → Nat → Nat) : Option String :=
  if !(allBytes fun a => allBytes fun b => mul a b < 256) then some "closure"
  else if !(allBytes fun a => allBytes fun b => mul a b == mul b a) then some "mul-comm"
  else if !(allBytes fun a => mul 1 a == a) then some "mul-one"
  else if !(allBytes fun a => mul 0 a == 0) then some "mul-zero"
  else if !(allBytes fun a => a == 0 || (List.range 256).any fun b => mul a b == 1) then some "inverse"
  else if !(allBytes fun a => allBytes fun b => allBytes fun c => mul (mul a b) c == mul a (mul b c)) then some "mul-assoc"
  else if !(allBytes fun a => allBytes fun b => allBytes fun c => mul a (b ^^^ c) == (mul a b ^^^ mul a c)) then some "distrib"
  else none

/-! ### sharing and reconstruction over a field given by `mul` / `inv` -/

structure Field where
  mul : Nat → Nat → Nat
  inv : Nat → Nat

def prodOver (F : Field) (l : List Nat) : Nat := l.foldl F.mul 1
def xorSum (l : List Nat) : Nat := l.foldl (· ^^^ ·) 0

/-- barycentric weights `1 / Π_{j≠i} (x_i + x_j)` of the nodes `xs` -/
def weights (F : Field) (xs : List Nat) : List Nat :=
  xs.zipIdx.map fun (xi, i) =>
    F.inv (prodOver F (xs.zipIdx.filterMap fun (xj, j) => if i = j then none else some (xi ^^^ xj)))

/-- value at `x` of the polynomial of degree < |xs| through the points `(xs, ys)`; `ws = weights xs`.
    (Lagrange form; nodes are assumed distinct.) -/
def lagrangeAt (F : Field) (xs ws ys : List Nat) (x : Nat) : Nat :=
  match (xs.zip ys).find? (fun p => p.1 == x) with
  | some p => p.2
  | none =>
    let l := prodOver F (xs.map (x ^^^ ·))
    F.mul l (xorSum ((xs.zip (ws.zip ys)).map fun (xi, w, y) => F.mul (F.mul y w) (F.inv (x ^^^ xi))))

def distinctNonZero (xs : List Nat) : Bool := xs.all (· != 0) && xs.eraseDups.length == xs.length

/-- the secret byte that `t` shares `(x, y)` with distinct abscissae determine -/
def reconstruct (F : Field) (pts : List (Nat × Nat)) : Nat :=
  let xs := pts.map (·.1)
  lagrangeAt F xs (weights F xs) (pts.map (·.2)) 0

/-- `shares` is a t-of-n sharing of `secret` (one byte per share): n shares, distinct non-zero
    abscissae, and all of them together with (0, secret) on one polynomial of degree < t. -/
def validSharing (F : Field) (secret t n : Nat) (shares : List (Nat × Nat)) : Bool :=
  let xs := shares.map (·.1)
  shares.length == n && distinctNonZero xs && decide (1 ≤ t) && decide (t ≤ n) &&
  (let base := shares.take t
   let bx := base.map (·.1)
   let ws := weights F bx
   let by_ := base.map (·.2)
   lagrangeAt F bx ws by_ 0 == secret &&
   (shares.drop t).all fun (x, y) => lagrangeAt F bx ws by_ x == y)

/-- `a^254` by square-and-multiply: the inverse in a field with 256 elements. -/
def powInv (mul : Nat → Nat → Nat) (a : Nat) : Nat :=
  let a2 := mul a a
  let a4 := mul a2 a2
  let a8 := mul a4 a4
  let a16 := mul a8 a8
  let a32 := mul a16 a16
  let a64 := mul a32 a32
  let a128 := mul a64 a64
  mul a128 (mul a64 (mul a32 (mul a16 (mul a8 (mul a4 a2)))))

/-- GF(2^8) with the reduction polynomial above, multiplication tabulated once. -/
def gf256 : Field :=
  let tab : Array Nat := Array.ofFn (n := 65536) fun i => pmul (i.val / 256) (i.val % 256)
  let mul := fun a b => if a < 256 ∧ b < 256 then tab.getD (a * 256 + b) 0 else 0
  { mul := mul, inv := powInv mul }

end EphVerif.ShamirSpec
