/-
HMAC-SHA256 written from RFC 2104 §2 with `H` = SHA-256 (`B = 64`, `L = 32`).
Core Lean only.  Public, stable name:
  `EphVerif.Spec.hmacSha256 (key data : List UInt8) : List UInt8`     (32-byte tag)
-/
import EphVerif.Spec.Sha256

namespace EphVerif.Spec.Hmac

/-- byte-length of a SHA-256 block -/
def B : Nat := 64

/-- "Applications that use keys longer than B bytes will first hash the key using H and then use
    the resultant L byte string as the actual key to HMAC." -/
def effectiveKey (K : List UInt8) : List UInt8 := if K.length > B then sha256 K else K

/-- step (1): "append zeros to the end of K to create a B byte string" -/
def padKey (K : List UInt8) : List UInt8 := K ++ List.replicate (B - K.length) 0

/-- XOR of a byte string with a byte repeated (`ipad` = 0x36 repeated, `opad` = 0x5c repeated) -/
def xorWith (c : UInt8) (bs : List UInt8) : List UInt8 := bs.map (· ^^^ c)

end EphVerif.Spec.Hmac

namespace EphVerif.Spec

/-- RFC 2104: `H(K XOR opad, H(K XOR ipad, text))` -/
def hmacSha256 (key data : List UInt8) : List UInt8 :=
  let K := Hmac.padKey (Hmac.effectiveKey key)
  sha256 (Hmac.xorWith 0x5c K ++ sha256 (Hmac.xorWith 0x36 K ++ data))

@[simp] theorem hmacSha256_length (key data : List UInt8) : (hmacSha256 key data).length = 32 := rfl

end EphVerif.Spec
