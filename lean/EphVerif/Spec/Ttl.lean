/-
C02 — specification, written from the property text only (literal numbers; nothing from `Generated/`).

  "the node's effective limits satisfy 1 s ≤ minimum TTL ≤ maximum TTL ≤ 24 h, with the default TTL
   inside that window, key rotation within [5 s, 1 h] and PoW difficulties of at most 24 bits.
   Whatever TTL a caller requests, every chunk record, manifest expiry, shard record and
   self-announcement the node creates for a store lives for a duration inside
   [minimum TTL, maximum TTL], and the control plane refuses STORE TTLs outside that window."
-/
namespace EphVerif.C02Spec

/-- the effective limits of a node (seconds / bits) -/
structure Limits where
  default : Int
  min : Int
  max : Int
  rotation : Int
  announcePow : Nat
  handshakePow : Nat
  storePow : Nat
  deriving Repr, DecidableEq

def dayS : Int := 24 * 60 * 60
def hourS : Int := 60 * 60
def nsPerS : Int := 1000000000

/-- clause 1: the effective limits -/
def ConfigOk (l : Limits) : Prop :=
  1 ≤ l.min ∧ l.min ≤ l.max ∧ l.max ≤ dayS ∧ l.min ≤ l.default ∧ l.default ≤ l.max ∧
  5 ≤ l.rotation ∧ l.rotation ≤ hourS ∧ l.announcePow ≤ 24 ∧ l.handshakePow ≤ 24 ∧ l.storePow ≤ 24

instance (l : Limits) : Decidable (ConfigOk l) := by unfold ConfigOk; exact inferInstance

/-- first failing conjunct of `ConfigOk` (for the monitor's detail text) -/
def configViolation (l : Limits) : Option String :=
  if ¬ 1 ≤ l.min then some "min<1s"
  else if ¬ l.min ≤ l.max then some "min>max"
  else if ¬ l.max ≤ dayS then some "max>24h"
  else if ¬ (l.min ≤ l.default ∧ l.default ≤ l.max) then some "default-outside-window"
  else if ¬ (5 ≤ l.rotation ∧ l.rotation ≤ hourS) then some "rotation-outside-5s-1h"
  else if ¬ (l.announcePow ≤ 24 ∧ l.handshakePow ≤ 24 ∧ l.storePow ≤ 24) then some "pow>24"
  else none

/-- a recorded lifetime (nanoseconds) lies inside the window (seconds) -/
def DurationOk (min max durationNs : Int) : Prop :=
  min * nsPerS ≤ durationNs ∧ durationNs ≤ max * nsPerS

instance (a b c : Int) : Decidable (DurationOk a b c) := by unfold DurationOk; exact inferInstance

/-- the four lifetimes a store creates -/
structure StoreDurations where
  chunk : Int
  manifest : Int
  shard : Int
  announce : Int
  deriving Repr, DecidableEq

/-- clause 2: every lifetime created for a store lies inside [min, max] -/
def StoreOk (min max : Int) (d : StoreDurations) : Prop :=
  DurationOk min max d.chunk ∧ DurationOk min max d.manifest ∧ DurationOk min max d.shard ∧ DurationOk min max d.announce

instance (a b : Int) (d : StoreDurations) : Decidable (StoreOk a b d) := by unfold StoreOk; exact inferInstance

def storeViolation (min max : Int) (d : StoreDurations) : Option String :=
  if ¬ DurationOk min max d.chunk then some "chunk-record"
  else if ¬ DurationOk min max d.manifest then some "manifest-expiry"
  else if ¬ DurationOk min max d.shard then some "shard-record"
  else if ¬ DurationOk min max d.announce then some "self-announce"
  else none

/-- clause 3: the control plane refuses STORE TTLs outside the window
    (`header` is the numeric value of the TTL header, any 64-bit unsigned number) -/
def ControlOk (min max : Int) (header : Nat) (accepted : Bool) : Prop :=
  accepted = true → min ≤ (header : Int) ∧ (header : Int) ≤ max

instance (a b : Int) (h : Nat) (acc : Bool) : Decidable (ControlOk a b h acc) := by unfold ControlOk; exact inferInstance

end EphVerif.C02Spec
