/-
Specification for C05 (a cleanup tick removes all expired state and reports each expiry once),
written without reference to the code.

Two independent parts.

1. **What the node may hold right after a cleanup tick.**  `Dump` is the observable vocabulary: every
   chunk, provider contact (as a holder of a locator and as a routing contact), locator, key-share
   record, cached manifest and swarm plan the node holds, each with the instant at which it expires
   (steady-clock nanoseconds; wall-clock nanoseconds for manifests and for the manifest a plan belongs
   to).  `judgeDump self T W d` names the first clause of the property that `d` violates at steady
   time `T` / wall time `W`: nothing with expiry `≤ T` (resp. `≤ W`) may be there, a plan must belong
   to a manifest the node still holds, and the node may appear as a holder only of chunks it still
   stores.  `judgeAudit` does the same for the TTL audit's own report.

2. **Which expiries have to be reported.**  `N` is the abstract node: the clock, the time of the last
   cleanup, for every id the deadline of the *current* local copy, and how often the id has been
   reported.  A store (re)places the copy with deadline `now + effTtl`; a tick runs cleanup iff
   `cleanup_interval` has elapsed since the last cleanup; a cleanup at `T` reports every id whose
   current copy has deadline `≤ T` exactly once and forgets the copy.  Lookups, announcements,
   manifests, audits and drains do not exist at this level: whichever of them notices an expiry first
   is irrelevant.  A copy that is overwritten before a cleanup saw it expired was replaced, not
   reported: at no instant did a cleanup find the node holding an expired copy of that id, and a
   report would make the node withdraw the announcement of the chunk it has just stored again.

Literal numbers/formulas here are the property's (effective TTL = requested, else default, clamped
into the manifest TTL window), not regenerated constants.
-/
namespace EphVerif.C05Spec

def nsPerSec : Int := 1000000000

/-! ### part 1: the state after a cleanup tick -/

structure Dump where
  /-- locally stored chunks: id, deadline -/
  chunks : List (String × Int)
  /-- locators: chunk, locator expiry, holders (peer, expiry) -/
  locators : List (String × Int × List (String × Int))
  /-- routing-table contacts: peer, expiry -/
  contacts : List (String × Int)
  /-- key-share records: chunk, expiry -/
  shards : List (String × Int)
  /-- cached manifests: chunk, expiry (wall clock) -/
  manifests : List (String × Int)
  /-- swarm plans: chunk, expiry (wall clock) of the cached manifest of that chunk, if the node holds one -/
  plans : List (String × Option Int)
deriving Repr, Inhabited

def planDead (W : Int) (p : String × Option Int) : Bool :=
  match p.2 with
  | some e => decide (e ≤ W)
  | none => true

/-- the node is a holder of `l`'s chunk although it does not store that chunk -/
def staleSelf (self : String) (chunks : List (String × Int)) (l : String × Int × List (String × Int)) : Bool :=
  l.2.2.any (fun h => h.1 == self) && !(chunks.any (fun e => e.1 == l.1))

/-- first violated clause of "after a cleanup tick at time T the node holds no expired …" -/
def judgeDump (self : String) (T W : Int) (d : Dump) : Option String :=
  if d.chunks.any (fun e => decide (e.2 ≤ T)) then some "expired-chunk"
  else if d.locators.any (fun l => l.2.2.any (fun h => decide (h.2 ≤ T))) then some "expired-contact"
  else if d.contacts.any (fun e => decide (e.2 ≤ T)) then some "expired-contact"
  else if d.locators.any (fun l => decide (l.2.1 ≤ T)) then some "expired-locator"
  else if d.shards.any (fun e => decide (e.2 ≤ T)) then some "expired-keyshare"
  else if d.manifests.any (fun e => decide (e.2 ≤ W)) then some "expired-manifest"
  else if d.plans.any (planDead W) then some "expired-plan"
  else if d.locators.any (staleSelf self d.chunks) then some "announcement-not-withdrawn"
  else none

/-- the report of the node's TTL audit -/
structure Audit where
  expiredLocal : List String
  expiredLocators : List String
  /-- chunk, peer -/
  expiredContacts : List (String × String)
  /-- stored chunks the node is not announced for (not an expiry clause: judged by correspondence only) -/
  missing : List String
  /-- chunks the node is announced for but does not store -/
  orphans : List String
deriving Repr, Inhabited, DecidableEq

/-- "the TTL audit reports no expired entries" (and no announcement left behind by an expired chunk) -/
def judgeAudit (a : Audit) : Option String :=
  if a.expiredLocal.isEmpty && a.expiredLocators.isEmpty && a.expiredContacts.isEmpty && a.orphans.isEmpty then none
  else some "audit-unhealthy"

/-! ### part 2: which expiries are reported -/

structure Params where
  defaultTtl : Int
  minTtl : Int
  maxTtl : Int
  cleanupInterval : Int
deriving Repr, Inhabited

/-- effective lifetime (seconds) of a locally stored chunk -/
def effTtl (p : Params) (ttl : Int) : Int := max p.minTtl (min (if ttl > 0 then ttl else p.defaultTtl) p.maxTtl)

/-- id ↦ deadline of the current local copy (a structure, so that the compiled monitor evaluates
    each update once) -/
structure Copies where
  get : String → Option Int

structure Counts where
  get : String → Nat

structure N where
  now : Int
  lastCleanup : Int
  copies : Copies
  reported : Counts

def N.init (t0 : Int) : N := { now := t0, lastCleanup := t0, copies := ⟨fun _ => none⟩, reported := ⟨fun _ => 0⟩ }

/-- the only events that matter for the reports -/
inductive Ev where
  | adv (d : Nat)
  | store (c : String) (ttl : Int)
  | tick
  /-- anything else: lookups, manifests, announcements, audits, drains -/
  | other
deriving Repr, Inhabited

/-- the current copy of `c` has expired by `n.now` -/
def due (n : N) (c : String) : Bool :=
  match n.copies.get c with
  | some d => decide (d ≤ n.now)
  | none => false

/-- does a tick at `n.now` run the cleanup? -/
def cleans (p : Params) (n : N) : Bool := decide (n.now - n.lastCleanup ≥ p.cleanupInterval * nsPerSec)

def step (p : Params) (n : N) : Ev → N
  | .adv d => { n with now := n.now + d }
  | .store c ttl =>
    let dl := n.now + effTtl p ttl * nsPerSec
    { n with copies := ⟨fun k => if k = c then some dl else n.copies.get k⟩ }
  | .tick =>
    if cleans p n then
      { n with lastCleanup := n.now,
               reported := ⟨fun k => if due n k then n.reported.get k + 1 else n.reported.get k⟩,
               copies := ⟨fun k => if due n k then none else n.copies.get k⟩ }
    else n
  | .other => n

def run (p : Params) (n : N) (evs : List Ev) : N := evs.foldl (step p) n

def count (c : String) (l : List String) : Nat := (l.filter (· == c)).length

/-- judgement of one drained notification list `got` against the number of reports `expected c`
    that have become due since the previous drain; `ever c` = has `c` ever been due -/
def judgeDrain (keys : List String) (expected : String → Nat) (ever : String → Bool) (got : List String) : Option String :=
  let ks := (keys ++ got).eraseDups
  match ks.find? (fun k => decide (count k got > expected k) && !(ever k)) with
  | some k => some ("notified-early:" ++ k)
  | none =>
    match ks.find? (fun k => decide (count k got > expected k)) with
    | some k => some ("notified-twice:" ++ k)
    | none =>
      match ks.find? (fun k => decide (count k got < expected k)) with
      | some k => some ("not-notified:" ++ k)
      | none => none

end EphVerif.C05Spec
