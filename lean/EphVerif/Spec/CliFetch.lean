/-!
# Specification for C30 — judged on what the CLI was observed to do

Written from the property text: *`eph fetch` writes an output file only if its bytes hash to the manifest's
content hash, whichever path delivered them; an endpoint that returns other bytes makes that path fail
instead of producing a file* (and the next path is tried).

The judgement needs no model of the search order: it looks at the manifest hash, at what every endpoint of
the scenario would answer, at the discovery mode, and at the observed result (output file, exit code).
-/
namespace EphVerif.Spec.CliFetch

abbrev Bytes := List UInt8

/-- what an endpoint offers: a payload (after decryption for the transport paths) or nothing usable -/
structure Offer where
  /-- 0 transport hint, 1 relay, 2 control hint, 3 control:// fallback, 4 local daemon -/
  kind : Nat
  reachable : Bool
  payload : Option Bytes
  /-- answers `STATUS:OK` without a payload (the CLI then reports success without a local file) -/
  okWithoutPayload : Bool

/-- which endpoints a discovery mode permits: 0 auto, 1 --direct-only, 2 --transport-only, 3 --control-fallback -/
def allowed (mode kind : Nat) : Bool :=
  match mode with
  | 1 => kind != 4
  | 2 => kind == 0 || kind == 1
  | 3 => kind != 0 && kind != 1
  | _ => true

section
variable (sha : Bytes → Bytes)

/-- clause 1: a file is written only if its bytes hash to the manifest's content hash -/
def fileMatches (h : Bytes) (file : Option Bytes) : Bool :=
  match file with
  | none => true
  | some b => sha b == h

/-- clause 1 when the CLI cannot read the manifest: there is no content hash any bytes could be shown to match, so no
file may be written at all -/
def nothingUnverifiable (hashKnown : Bool) (file : Option Bytes) : Bool := hashKnown || file.isNone

/-- clause 2: a path returning other bytes fails *and the next is tried*: the command may only end in failure
(no file, non-zero exit) if no permitted, reachable endpoint offered the matching bytes -/
def noHonestSkipped (mode : Nat) (h : Bytes) (offers : List Offer) (file : Option Bytes) (exit : Nat) : Bool :=
  if file.isNone && exit != 0 then
    !(offers.any fun o => allowed mode o.kind && o.reachable &&
        (match o.payload with | some b => sha b == h | none => false))
  else true

/-- exit code 0 means a file was written or some permitted endpoint claimed success without a payload -/
def exitConsistent (mode : Nat) (offers : List Offer) (file : Option Bytes) (exit : Nat) : Bool :=
  if exit == 0 then file.isSome || offers.any (fun o => allowed mode o.kind && o.reachable && o.okWithoutPayload)
  else file.isNone

/-- `hashKnown`: the manifest is decodable by the CLI.  `offers` lists, for clause 2, only what the property obliges the
CLI to use: the driver marks an endpoint unreachable when the manifest's own state rules the path out (expired or
anonymous manifest on a transport path, key shares that cannot be recombined). -/
def judge (hashKnown : Bool) (mode : Nat) (h : Bytes) (offers : List Offer) (file : Option Bytes) (exit : Nat) : String :=
  if !nothingUnverifiable hashKnown file then "viol:wrote-unverifiable:a file was written although the manifest (and so its chunk_hash) could not be decoded"
  else if !hashKnown then (if exit == 0 && !(offers.any fun o => allowed mode o.kind && o.reachable && o.okWithoutPayload)
    then "viol:exit-code:exit code and output file disagree" else "ok")
  else if !fileMatches sha h file then "viol:wrote-mismatch:the output file does not hash to the manifest's chunk_hash"
  else if !noHonestSkipped sha mode h offers file exit then "viol:honest-skipped:an endpoint offering the matching bytes was never used"
  else if !exitConsistent mode offers file exit then "viol:exit-code:exit code and output file disagree"
  else "ok"

end

end EphVerif.Spec.CliFetch
