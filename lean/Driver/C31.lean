import EphVerif.Driver.Proto
import EphVerif.Model.Filename
import EphVerif.Spec.Filename

open EphVerif EphVerif.Proto

namespace EphVerif.DriverC31
open EphVerif.Filename

def hexB (b : List UInt8) : String := hexOrDash (hexOfBytes b)
def hexO (o : Option (List UInt8)) : String := match o with | some b => hexB b | none => "-"

/-- value of `key=` in a space separated line -/
def field (line key : String) : Option String :=
  (line.splitOn " ").findSome? fun tok =>
    if tok.startsWith (key ++ "=") then some ((tok.drop (key.length + 1)).toString) else none

/-- the Lean specification judging one reported name: `-` (nothing recorded / fall-back) or a safe name -/
def judgeName (clause : String) (v : Option String) : Option String :=
  match v with
  | none => some s!"viol:{clause}:missing"
  | some "-" => none
  | some h =>
    if h.startsWith "ESC:" then some "viol:escape:a file appeared outside the chosen directory"
    else if h.startsWith "ERR:" then some s!"viol:{clause}-error:{h}"
    else match bytesOfHex h with
      | none => some s!"viol:{clause}:unparsable"
      | some b => if Spec.Filename.safeName b then none else some s!"viol:{clause}:unsafe name {h}"

def firstSome (l : List (Option String)) : String :=
  match l.findSome? id with
  | some v => v
  | none => "ok"

def step (st : Unit) (tok : List String) (_line : String) (impl : Option String) : Unit × String × String :=
  match tok with
  | [op, h] =>
    if op == "name" || op == "nm" then
      match bytesOfHex h with
      | none => (st, "bad-op", "ok")
      | some raw =>
        let out := s!"cli={hexB (cliSanitize raw)} node={hexO (nodeName raw)} hint={hexO (hint raw)} via={hexO (viaHint raw)}"
        let verdict := match impl with
          | none => "ok"
          | some i =>
            if i == "unavailable" then "ok" else
            firstSome [judgeName "cli-name" (field i "cli"), judgeName "node-name" (field i "node"),
                       judgeName "node-name" (field i "via")]
        (st, out, verdict)
    else (st, "bad-op", "ok")
  | ["join", d, n] =>
    match bytesOfHex d, bytesOfHex n with
    | some dir, some name =>
      let p := join dir name
      let out := s!"p={hexB p} parent={hexB (parentPath p)} file={hexB (filename p)}"
      let verdict := match impl with
        | none => "ok"
        | some i =>
          if Spec.Filename.safeName name then
            if field i "parent" == some (hexB (normDir dir)) && field i "file" == some (hexB name) then "ok"
            else "viol:child:dir / name is not a direct child of dir"
          else "ok"
      (st, out, verdict)
    | _, _ => (st, "bad-op", "ok")
  | _ => (st, "bad-op", "ok")

def machine : Machine Unit := { init := (), step := step }

end EphVerif.DriverC31

def main (args : List String) : IO UInt32 := EphVerif.Proto.runMain EphVerif.DriverC31.machine args
