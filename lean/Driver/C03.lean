import EphVerif.Driver.Proto
import EphVerif.Monitor.Ttl
import EphVerif.Model.ManifestTtl

open EphVerif EphVerif.Proto EphVerif.Gen.C02 EphVerif.TtlMon EphVerif.MTtl EphVerif.C03Spec

namespace EphVerif.DriverC03

/-- what the monitor remembers of the implementation's own answers -/
structure Mon where
  /-- (min, max) the implementation reported for its node -/
  win : Option (Int × Int) := none
  /-- last observation per chunk, wall-clock deadlines -/
  obs : List (String × Obs) := []
  /-- attempts last seen per pending entry -/
  att : List (String × Nat) := []
  /-- expiry (wall ns) of the manifest of the last accepted announce per chunk -/
  annE : List (String × Int) := []

structure St where
  now : Int
  off : Int
  cfg : Option Cfg            -- effective configuration
  chunks : List (String × ChunkSt)
  mon : Mon

def lookup {α : Type} (l : List (String × α)) (k : String) : Option α := (l.find? fun p => p.1 == k).map (·.2)
def insert {α : Type} (l : List (String × α)) (k : String) (v : α) : List (String × α) := (l.filter fun p => p.1 != k) ++ [(k, v)]

def getChunk (st : St) (c : String) : ChunkSt := (lookup st.chunks c).getD {}

def fmtOptInt (o : Option Int) : String := match o with | some v => toString v | none => "-"

def sortStr (l : List String) : List String := l.mergeSort (fun a b => a ≤ b)

/-- the harness's `obs_records`: live records, steady-clock deadlines, pending with attempts -/
def fmtChunk (off now : Int) (c : ChunkSt) : String :=
  let sh := if live c.shard now then fmtOptInt c.shard else "-"
  let cs := (c.contacts.filter fun pc => decide (now < pc.2)).mergeSort (fun a b => a.1 ≤ b.1)
  let ct := if cs.isEmpty then "-" else ",".intercalate (cs.map fun pc => s!"{pc.1}:{pc.2}")
  let ck := if live c.chunk now then fmtOptInt c.chunk else "-"
  let pf := match c.pending with | some p => s!"{p.exp}:{p.attempts}" | none => "-"
  let mc := match c.adopted with | some e => if now + off < e then toString (e / ns) else "-" | none => "-"
  s!"sh={sh} ct={ct} ck={ck} pf={pf} mc={mc}"

def fmtPendingList (chunks : List (String × ChunkSt)) : String :=
  let items := chunks.filterMap fun (k, c) => c.pending.map fun p => s!"{k}:{p.exp}:{p.attempts}"
  if items.isEmpty then "-" else ",".intercalate (sortStr items)

/-- `c8:exp:att,c9:exp:att` (or `-`) -/
def parsePendingList (s : String) : List (String × Int × Nat) :=
  if s == "-" then [] else
  (s.splitOn ",").filterMap fun item =>
    match item.splitOn ":" with
    | [k, e, a] => match e.toInt?, a.toNat? with
      | some e, some a => some (k, e, a)
      | _, _ => none
    | _ => none

/-- the implementation's observation of one chunk, converted to wall-clock deadlines -/
def parseObs (off : Int) (tok : List String) : Option (Obs × Option Nat) := do
  let sh ← kv tok "sh"
  let ct ← kv tok "ct"
  let ck ← kv tok "ck"
  let pf ← kv tok "pf"
  let shard ← if sh == "-" then some none else sh.toInt?.map (fun d => some (d + off))
  let chunk ← if ck == "-" then some none else ck.toInt?.map (fun d => some (d + off))
  let contacts ← if ct == "-" then some [] else
    (ct.splitOn ",").mapM fun item =>
      match item.splitOn ":" with
      | [p, e] => e.toInt?.map fun d => (p, d + off)
      | _ => none
  let (pending, att) ← if pf == "-" then some (none, none) else
    match pf.splitOn ":" with
    | [e, a] => match e.toInt?, a.toNat? with
      | some e, some a => some (some e, some a)
      | _, _ => none
    | _ => none
  let manifest : Option Int := match kv tok "mc" with
    | some m => if m == "-" then none else m.toInt?.map (· * ns)
    | none => none
  some ({ shard := shard, contacts := contacts, chunk := chunk, pending := pending, manifest := manifest }, att)

/-- records whose deadline has passed are no longer shown by the harness -/
def age (wall : Int) (o : Obs) : Obs :=
  { o with shard := o.shard.filter (fun d => decide (wall < d)),
           contacts := o.contacts.filter (fun pc => decide (wall < pc.2)),
           chunk := o.chunk.filter (fun d => decide (wall < d)) }

/-- one scheduler pass over all chunks; `hint` = the implementation's pending table after the pass -/
def passAll (cfg : Cfg) (off now : Int) (skip : Option String) (hint : Option (List (String × Int × Nat)))
    (chunks : List (String × ChunkSt)) : List (String × ChunkSt) :=
  chunks.map fun (k, c) =>
    match c.pending with
    | none => (k, c)
    | some p =>
      let seen : Option Nat := hint.bind fun h => (h.find? fun e => e.1 == k).map (·.2.2)
      if some k == skip then
        -- the entry just (re)written by this announce: its own dispatch re-ingests the same manifest at the same instant
        let c' := processPending cfg off now 0 c
        (k, { c' with pending := c'.pending.map fun q => { q with attempts := seen.getD q.attempts } })
      else
        let want := match seen with | some a => a - p.attempts | none => 0
        (k, processPending cfg off now want c)

/-- monitor: entries of the implementation's pending table after a scheduler pass -/
def judgeTable (mon : Mon) (wall : Int) (table : List (String × Int × Nat)) : String :=
  let bad := table.findSome? fun (k, _exp, a) =>
    match lookup mon.annE k with
    | none => none
    | some E => judgePending E wall ((lookup mon.att k).getD 0) a
  match bad with
  | some why => "viol:" ++ why
  | none => "ok"

def updAtt (mon : Mon) (table : List (String × Int × Nat)) : Mon :=
  { mon with att := table.map fun (k, _e, a) => (k, a) }

def manifestOp (st : St) (cfg : Cfg) (c : String) (Es : Int) (path : Path) (rShown : Bool)
    (impl : Option String) : St × String × String :=
  let E := Es * ns
  let wall := st.now + st.off
  let old := getChunk st c
  let (new, acc) := arrive cfg st.off st.now E path old
  let isAnn := match path with | .announce .. => true | _ => false
  let implTok := impl.map tokens
  let hintTable := implTok.bind fun t => (kv t "all").map parsePendingList
  let runsPass := match path with
    | .announce _ _ _ assigned replicaLive => acc && assigned && !replicaLive
    | _ => false
  let chunks1 := insert st.chunks c new
  let chunks2 := if runsPass then passAll cfg st.off st.now (some c) hintTable chunks1 else chunks1
  let shown := (lookup chunks2 c).getD {}
  let fp := if !acc then "same" else ((implTok.bind fun t => kv t "fp").getD "chg")
  let r := if rShown then (if acc then "1" else "0") else "-"
  let out := s!"r={r} {fmtChunk st.off st.now shown} fp={fp}" ++ (if isAnn then s!" all={fmtPendingList chunks2}" else "")
  -- monitor ------------------------------------------------------------------------------
  let (mon, verdict) := match implTok, st.mon.win with
    | some t, some (mn, mx) =>
      match parseObs st.off t with
      | none => (st.mon, "viol:unparsable")
      | some (newObs, att) =>
        let oldObs := age wall ((lookup st.mon.obs c).getD {})
        let unchanged := (kv t "fp") == some "same"
        let implAcc := (kv t "r") == some "1"
        let mon1 := { st.mon with obs := insert st.mon.obs c newObs }
        -- the pending entry (if any) belongs to the last accepted announce that *assigned* shards
        let assignedAnn := match path with | .announce _ _ _ assigned _ => assigned | _ => false
        let mon2 := if assignedAnn && implAcc && newObs.pending.isSome then { mon1 with annE := insert mon1.annE c E } else mon1
        let v1 := match judge E wall mn mx oldObs newObs unchanged with
          | some why => "viol:" ++ why
          | none => match judgeShares newObs with
            | some why => "viol:" ++ why
            | none => "ok"
        let table := (kv t "all").map parsePendingList
        -- the scheduler pass of an announce only runs when the announce was accepted and went on to
        -- schedule a fetch (its own entry is then in the table)
        let passRan := assignedAnn && implAcc && newObs.pending.isSome
        let v2 := match table with
          | some tb => if v1 == "ok" && passRan then judgeTable mon2 wall tb else v1
          | none => v1
        let mon3 := match table with
          | some tb => updAtt mon2 tb
          | none => match att with
            | some a => { mon2 with att := insert mon2.att c a }
            | none => mon2
        (mon3, v2)
    | _, _ => (st.mon, "ok")
  ({ st with chunks := chunks2, mon := mon }, out, verdict)

def step (st : St) (tok : List String) (_line : String) (impl : Option String) : St × String × String :=
  match tok with
  | ["adv", n] =>
    match n.toInt? with
    | some d => ({ st with now := st.now + d }, "ok", "ok")
    | none => (st, "bad-op", "ok")
  | ["wall", n] =>
    match n.toInt? with
    | some d => ({ st with off := d }, "ok", "ok")
    | none => (st, "bad-op", "ok")
  | "cfg" :: rest =>
    match parseCfg rest with
    | none => (st, "bad-op", "ok")
    | some c =>
      let eff := Ttl.effective c
      let win := impl.bind fun line => (parseCfg (tokens line)).map fun ic => (ic.min_manifest_ttl, ic.max_manifest_ttl)
      ({ st with cfg := some eff, chunks := [], mon := { win := win } }, fmtCfg eff, "ok")
  | ["mttl", e] =>
    match st.cfg, e.toInt? with
    | some c, some e => (st, fmtOpt (manifest_ttl (e * ns) c (st.now + st.off)), "ok")
    | none, _ => (st, "no-node", "ok")
    | _, _ => (st, "bad-op", "ok")
  | ["obs", c] =>
    match st.cfg with
    | none => (st, "no-node", "ok")
    | some _ =>
      let out := s!"r=- {fmtChunk st.off st.now (getChunk st c)} fp=same"
      let seen := impl.bind (fun l => parseObs st.off (tokens l))
      let verdict := match seen with
        | some (o, _) => match judgeShares o with | some why => "viol:" ++ why | none => "ok"
        | none => "ok"
      let mon := match seen with
        | some (o, att) =>
          let m := { st.mon with obs := insert st.mon.obs c o }
          match att with | some a => { m with att := insert m.att c a } | none => m
        | none => st.mon
      ({ st with mon := mon }, out, verdict)
  | ["ingest", c, e] =>
    match st.cfg, e.toInt? with
    | some cfg, some e => manifestOp st cfg c e .ingest true impl
    | none, _ => (st, "no-node", "ok")
    | _, _ => (st, "bad-op", "ok")
  | ["request", c, e] =>
    match st.cfg, e.toInt? with
    | some cfg, some e => manifestOp st cfg c e .ingest false impl
    | none, _ => (st, "no-node", "ok")
    | _, _ => (st, "bad-op", "ok")
  | ["receive", c, e, good] =>
    match st.cfg, e.toInt? with
    | some cfg, some e => manifestOp st cfg c e (.receive (good == "1")) true impl
    | none, _ => (st, "no-node", "ok")
    | _, _ => (st, "bad-op", "ok")
  | ["announce", c, e, peer, attl, ep, asg] =>
    match st.cfg, e.toInt?, attl.toInt? with
    | some cfg, some e, some attl =>
      let replicaLive := live (getChunk st c).chunk st.now
      manifestOp st cfg c e (.announce peer attl (ep == "1") (asg == "1") replicaLive) true impl
    | none, _, _ => (st, "no-node", "ok")
    | _, _, _ => (st, "bad-op", "ok")
  | ["tick"] =>
    match st.cfg with
    | none => (st, "no-node", "ok")
    | some cfg =>
      let table := impl.bind fun l => (kv (tokens l) "pf").map parsePendingList
      let chunks := passAll cfg st.off st.now none table st.chunks
      let out := "pf=" ++ fmtPendingList chunks
      let verdict := match table with
        | some tb => judgeTable st.mon (st.now + st.off) tb
        | none => "ok"
      let mon := match table with | some tb => updAtt st.mon tb | none => st.mon
      ({ st with chunks := chunks, mon := mon }, out, verdict)
  | _ => (st, "bad-op", "ok")

def machine : Machine St :=
  { init := ⟨vclockStart, defaultWallOffset, none, [], {}⟩, step := step }

end EphVerif.DriverC03

def main (args : List String) : IO UInt32 := EphVerif.Proto.runMain EphVerif.DriverC03.machine args
