import EphVerif.Driver.Proto
import EphVerif.Model.Swarm
import EphVerif.Spec.Swarm

open EphVerif EphVerif.Proto

namespace EphVerif.DriverC22

structure St where
  now : Int
  target : Nat
  minProv : Nat
  peers : List (String × Int)      -- registered peer ↦ expiry (latest registration wins)
deriving Inhabited

def selfId : String := "s0"

def parseNats (s : String) : List Nat :=
  if s == "-" || s.isEmpty then [] else (s.splitOn ".").filterMap (·.toNat?)

def parseNames (s : String) : List String :=
  if s == "-" || s.isEmpty then [] else s.splitOn ","

/-- `c=<p,p,..>|a=<p:l.l;p:l>` -/
def parseImpl (s : String) : Option (List String × List C22Spec.Obs) :=
  match s.splitOn "|" with
  | [c, a] =>
    if c.startsWith "c=" && a.startsWith "a=" then
      let cands := parseNames (c.drop 2).toString
      let body := (a.drop 2).toString
      let items := if body == "-" || body.isEmpty then [] else body.splitOn ";"
      let obs := items.filterMap fun it =>
        match it.splitOn ":" with
        | [p, ls] => some { peer := p, shards := parseNats ls : C22Spec.Obs }
        | _ => none
      if obs.length == items.length then some (cands, obs) else none
    else none
  | _ => none

def fmtPlan (cands : List String) (plan : List Swarm.Assignment) : String :=
  let c := if cands.isEmpty then "-" else ",".intercalate cands
  let a := if plan.isEmpty then "-" else
    ";".intercalate (plan.map fun x => x.peer ++ ":" ++
      (if x.shards.isEmpty then "-" else ".".intercalate (x.shards.map toString)))
  s!"c={c}|a={a}"

def step (st : St) (tok : List String) (_line : String) (impl : Option String) : St × String × String :=
  match tok with
  | ["adv", n] =>
    match n.toInt? with
    | some d => ({ st with now := st.now + d }, "ok", "ok")
    | none => (st, "bad-op", "ok")
  | ["cfg", tg, mn, _sample] =>
    ({ st with target := tg.toNat?.getD 0, minProv := mn.toNat?.getD 0 }, "ok", "ok")
  | ["peer", p, ttl] =>
    match ttl.toInt? with
    | some secs => ({ st with peers := (p, st.now + secs * 1000000000) :: st.peers.filter (·.1 != p) }, "ok", "ok")
    | none => (st, "bad-op", "ok")
  | "load" :: _ => (st, "ok", "ok")
  | ["tself", _] => ({ st with peers := [] }, "ok", "ok")
  | ["plan", _chunk, thr, labels] =>
    let thr := thr.toNat?.getD 0
    let labels := parseNats labels
    match impl.bind parseImpl with
    | none =>
      -- no (parsable) implementation line: nothing to rank with; report the empty candidate view
      (st, fmtPlan [] (Swarm.computePlan [] labels thr st.minProv st.target),
        if impl.isSome then "viol:format:unparsable plan line" else "ok")
    | some (cands, obs) =>
      let provs := obs.map (·.peer)
      let valid := C22Spec.nodup provs && provs.all (cands.contains ·)
      -- the ranking is the implementation's business (floating-point score, jitter): take its
      -- order as the hint when it is a legal ranking prefix, else fall back to the candidate order
      let ranked := if valid then provs ++ cands.filter (fun p => !provs.contains p) else cands
      let plan := Swarm.computePlan ranked labels thr st.minProv st.target
      let live := fun p => match st.peers.find? (·.1 == p) with
        | some (_, e) => decide (st.now < e)
        | none => false
      let verdict := match C22Spec.check cands selfId live labels thr st.minProv st.target obs with
        | none => "ok"
        | some c => "viol:" ++ c
      (st, fmtPlan cands plan, verdict)
  | _ => (st, "bad-op", "ok")

def machine : Machine St := { init := ⟨1000000000000, 3, 2, []⟩, step := step }

end EphVerif.DriverC22

def main (args : List String) : IO UInt32 := EphVerif.Proto.runMain EphVerif.DriverC22.machine args
