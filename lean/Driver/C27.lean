import EphVerif.Monitor.Control

/-- line-protocol driver for C27: the control-plane model + the C27 clauses of the monitor -/
def main (args : List String) : IO UInt32 :=
  EphVerif.Proto.runMain (EphVerif.ControlMonitor.machine .c27) args
