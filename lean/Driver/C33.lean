import EphVerif.Driver.Proto
import EphVerif.Model.Stun
import EphVerif.Spec.Stun

open EphVerif EphVerif.Proto

namespace EphVerif.DriverC33

def fmtModel : Stun.Out → String
  | .none => "none"
  | .oob => "oob"
  | .addr f b p => s!"a {f} {hexOrDash (hexOfBytes b)} {p}"

def fmtSpec : Option StunSpec.Addr → String
  | none => "none"
  | some a => s!"a {a.family} {hexOrDash (hexOfBytes a.bytes)} {a.port}"

/-- The monitor: the RFC 5389 specification judges the implementation's answer. -/
def verdict (expect : String) (impl : Option String) : String :=
  match impl with
  | none => "ok"
  | some i =>
    if i == expect then "ok"
    else if i.startsWith "crash:" then "ok"          -- crashes are reported by the framework itself
    else if expect == "none" then s!"viol:spurious-address:specification says none, implementation says {i}"
    else if i == "none" then s!"viol:missed-address:specification says {expect}"
    else s!"viol:wrong-decoding:specification says {expect}"

def step (_ : Unit) (tok : List String) (_line : String) (impl : Option String) : Unit × String × String :=
  match tok with
  | ["parse", tx, dg] =>
    match bytesOfHex tx, bytesOfHex dg with
    | some t, some d =>
      if t.length != 12 then ((), "bad-op", "ok") else
      let m := fmtModel (Stun.parse d t)
      let s := fmtSpec (StunSpec.mappedAddress d t)
      ((), m, verdict s impl)
    | _, _ => ((), "bad-op", "ok")
  | _ => ((), "bad-op", "ok")

def machine : Machine Unit := { init := (), step := step }

end EphVerif.DriverC33

def main (args : List String) : IO UInt32 := EphVerif.Proto.runMain EphVerif.DriverC33.machine args
