import EphVerif.Driver.Proto
import EphVerif.Model.ConfigLayers
import EphVerif.Spec.ConfigLayers

open EphVerif EphVerif.Proto

namespace EphVerif.DriverC32
open EphVerif.ConfigLayers

/-! ### the tree syntax of the ops: `{key:value,...}`, value = `{..}` | integer | `t` | `f` | `n` | `"text"` -/

mutual
partial def parseValue : List Char → Option (Value × List Char)
  | '{' :: '}' :: rest => some (.obj .nil, rest)
  | '{' :: rest => parseFields rest
  | '"' :: rest =>
    let s := rest.takeWhile (· != '"')
    match rest.dropWhile (· != '"') with
    | '"' :: r => some (.str (String.ofList s), r)
    | _ => none
  | 't' :: rest => some (.bool true, rest)
  | 'f' :: rest => some (.bool false, rest)
  | 'n' :: rest => some (.null, rest)
  | cs =>
    let num := cs.takeWhile fun c => c == '-' || c.isDigit
    if num.isEmpty then none else
    match (String.ofList num).toInt? with
    | some i => some (.int i, cs.drop num.length)
    | none => none
/-- after `{` or `,`: `key:value` then `,` or `}`.  Later duplicates of a key win, as in the C++ parsers. -/
partial def parseFields (cs : List Char) : Option (Value × List Char) :=
  let key := cs.takeWhile (· != ':')
  match cs.dropWhile (· != ':') with
  | ':' :: rest =>
    match parseValue rest with
    | some (v, ',' :: more) =>
      match parseFields more with
      | some (.obj fs, r) =>
        let k := String.ofList key
        some (.obj (if (fs.get k).isSome then fs else .cons k v fs), r)
      | _ => none
    | some (v, '}' :: more) => some (.obj (.cons (String.ofList key) v .nil), more)
    | _ => none
  | _ => none
end

def parseDoc (s : String) : Option Value :=
  match parseValue s.toList with
  | some (v, []) => some v
  | _ => none

def parseFlags (s : String) : Options :=
  if s == "-" then {} else
  (s.splitOn ",").foldl (fun o item =>
    match item.splitOn "=" with
    | [k, v] =>
      match k with
      | "ttl" => { o with ttl := v.toInt? }
      | "min" => { o with min := v.toInt? }
      | "max" => { o with max := v.toInt? }
      | "cport" => { o with cport := v.toInt? }
      | "tport" => { o with tport := v.toInt? }
      | "pow" => { o with pow := v.toInt? }
      | "tok" => { o with tok := some v }
      | "dir" => { o with dir := some v }
      | "pers" => { o with pers := some (v == "t") }
      | _ => o
    | _ => o) {}

def showStr (s : Option String) : String :=
  match s with
  | none => "-"
  | some t => if t.isEmpty then "\"\"" else t
def showInt (i : Option Int) : String := match i with | none => "-" | some v => toString v
def showBool (b : Option Bool) : String := match b with | none => "-" | some true => "t" | some false => "f"

def fmtOptions (o : Options) : String :=
  s!"ttl={showInt o.ttl} min={showInt o.min} max={showInt o.max} cport={showInt o.cport} tport={showInt o.tport} tok={showStr o.tok} pow={showInt o.pow} dir={showStr o.dir} pers={showBool o.pers}"

def fmtErr : Err → String
  | .notFound => "err:E_CONFIG_PROFILE:notfound"
  | .cycle => "err:E_CONFIG_PROFILE:cycle"
  | .extendsType => "err:E_CONFIG_PROFILE:extends"
  | .notMap => "err:E_CONFIG_STRUCTURE:-"
  | .structure => "err:E_CONFIG_STRUCTURE:-"
  | .env => "err:E_CONFIG_ENVIRONMENT:-"
  | .type => "err:E_CONFIG_TYPE:-"
  | .range => "err:E_CONFIG_VALUE:-"
  | .fuel => "err:MODEL_FUEL:-"

/-! ### the specification as a monitor -/

inductive SKind | str | bool | port | positive | pow

structure Setting where
  name : String
  spellings : List (List String)
  kind : SKind
  flag : Options → Option String

def settings : List Setting := [
  ⟨"dir", dirPaths, .str, fun o => o.dir.map fun s => showStr (some s)⟩,
  ⟨"pers", persPaths, .bool, fun o => o.pers.map fun b => showBool (some b)⟩,
  ⟨"cport", cportPaths, .port, fun o => o.cport.map toString⟩,
  ⟨"tport", tportPaths, .port, fun o => o.tport.map toString⟩,
  ⟨"tok", tokPaths, .str, fun o => o.tok.map fun s => showStr (some s)⟩,
  ⟨"ttl", ttlPaths, .positive, fun o => o.ttl.map toString⟩,
  ⟨"min", minPaths, .positive, fun o => o.min.map toString⟩,
  ⟨"max", maxPaths, .positive, fun o => o.max.map toString⟩,
  ⟨"pow", powPaths, .pow, fun o => o.pow.map toString⟩]

/-- how a value of the file shows up as an effective option; `none` = not a valid value for this setting -/
def render (k : SKind) (v : Value) : Option String :=
  match k, v with
  | .str, .str s => some (showStr (some s))
  | .bool, .bool b => some (showBool (some b))
  | .bool, .str s =>
    let l := lowerAscii s
    if l == "true" || l == "yes" || l == "on" then some "t"
    else if l == "false" || l == "no" || l == "off" then some "f" else none
  | .port, .int i => if 0 < i && i ≤ 65535 then some (toString i) else none
  | .positive, .int i => if 0 < i then some (toString i) else none
  | .pow, .int i => if 0 ≤ i && i ≤ 24 then some (toString i) else none
  | _, _ => none

def field (line key : String) : Option String :=
  (line.splitOn " ").findSome? fun tok =>
    if tok.startsWith (key ++ "=") then some ((tok.drop (key.length + 1)).toString) else none

/-- number of distinct spellings of a setting used anywhere in the layers -/
def spellingsUsed (layers : List Value) (sp : List (List String)) : Nat :=
  (sp.filter fun p => layers.any fun l => (lookup l p).isSome).length

def judge (doc : Value) (profileFlag envFlag : Option String) (flags : Options) (impl : String) : String :=
  let implErr := impl.startsWith "err:"
  match lookup doc ["profiles"] with
  | some (.obj pfs) =>
    -- the environment node, if one is selected
    let envLookup : Option (Option Value) := match envFlag with
      | none => some none
      | some e =>
        match lookup doc ["environments", e] with
        | some (.obj efs) => some (some (.obj efs))
        | _ => none
    match envLookup with
    | none => if impl.startsWith "err:E_CONFIG_ENVIRONMENT" then "ok" else "viol:errors:unknown environment not reported"
    | some envNode =>
      let envProfile : Option (Option String) := match envNode with
        | some e => match lookup e ["profile"] with
          | none => some none
          | some (.str s) => some (some s)
          | some _ => none
        | none => some none
      match envProfile with
      | none => "ok"   -- malformed `profile` entry: the property says nothing
      | some envProf =>
        let selected := match profileFlag with
          | some p => p
          | none => envProf.getD "default"
        match Spec.ConfigLayers.chain pfs (pfs.length + 1) selected with
        | none =>
          if impl.startsWith "err:E_CONFIG_PROFILE" || impl.startsWith "err:E_CONFIG_STRUCTURE" then "ok"
          else "viol:errors:cyclic, missing or malformed profile chain not reported as an error"
        | some chain =>
          let envLayers := match envNode with | some e => Spec.ConfigLayers.envLayers e | none => []
          let allLayers := envLayers ++ chain
          -- per setting: what the property allows
          let verdicts := settings.map fun s =>
            let clean := allLayers.all fun l => s.spellings.all fun p => Spec.ConfigLayers.cleanAt l p
            if !clean then ("skip", false)
            else match s.flag flags with
              | some fv => (if implErr then "ok" else if field impl s.name == some fv then "ok" else s!"viol:flags:{s.name}", false)
              | none =>
                let allowed := Spec.ConfigLayers.allowed envNode chain s.spellings
                let rendered := allowed.map (render s.kind)
                let invalid := rendered.any (·.isNone)
                if implErr then ("ok", invalid)
                else
                  let okv := match allowed with
                    | [] => field impl s.name == some "-"
                    | _ => rendered.any fun r => r.isSome && r == field impl s.name
                  if okv then ("ok", invalid)
                  else if spellingsUsed allLayers s.spellings > 1 then (s!"viol:alias-shadow:{s.name}", invalid)
                  else if invalid then (s!"viol:precedence:{s.name} invalid value accepted", true)
                  else (s!"viol:precedence:{s.name}", false)
          if verdicts.any (·.1 == "skip") then "ok"
          else if implErr then
            if impl.startsWith "err:E_CONFIG_TYPE" || impl.startsWith "err:E_CONFIG_VALUE" then
              if verdicts.any (·.2) then "ok"
              else if settings.any (fun s => spellingsUsed allLayers s.spellings > 1) then "viol:alias-shadow:error from a hidden spelling"
              else "viol:precedence:value error although every winning value is valid"
            else s!"viol:errors:unexpected {impl}"
          else match verdicts.find? (·.1 != "ok") with
            | some (v, _) => v
            | none => "ok"
  | _ => if implErr then "ok" else "viol:errors:missing profiles section accepted"

def step (st : Unit) (tok : List String) (_line : String) (impl : Option String) : Unit × String × String :=
  match tok with
  | [op, _fmt, profile, env, flags, docText] =>
    if op != "cfg" && op != "cfgx" then (st, "bad-op", "ok") else
    match parseDoc docText with
    | none => (st, "bad-op", "ok")
    | some doc =>
      let pf := if profile == "-" then none else some profile
      let ef := if env == "-" then none else some env
      let fl := parseFlags flags
      let out := match loadConfiguration doc pf ef fl with
        | .ok o => fmtOptions o
        | .error e => fmtErr e
      let verdict := match impl with
        | none => "ok"
        | some i => if i.startsWith "crash:" then "ok" else judge doc pf ef fl i
      (st, out, verdict)
  | _ => (st, "bad-op", "ok")

def machine : Machine Unit := { init := (), step := step }

end EphVerif.DriverC32

def main (args : List String) : IO UInt32 := EphVerif.Proto.runMain EphVerif.DriverC32.machine args
