import EphVerif.Driver.Proto
import EphVerif.Model.ChaCha20
import EphVerif.Spec.ChaCha20

/-!
Driver for C09 (ops: see harness/chacha_h.cpp).  Model column: `EphVerif.ChaCha20.*` (the C++ as
written).  Verdict column: the implementation's line judged against `EphVerif.Spec.chacha20*`
(RFC 8439) — not against the model.
-/
open EphVerif EphVerif.Proto

namespace EphVerif.DriverC09

abbrev Bytes := List UInt8

/-- `gen:<len>:<seed>` filler, same generator as `bytes_arg` in harness/chacha_h.cpp -/
def genBytes (n : Nat) (seed : UInt64) : Bytes :=
  let rec go : Nat → UInt64 → List UInt8 → List UInt8
    | 0, _, acc => acc.reverse
    | k + 1, x, acc =>
      let x' := x * 6364136223846793005 + 1442695040888963407
      go k x' ((x' >>> 56).toUInt8 :: acc)
  go n seed []

def bytesArg (tok : String) : Option Bytes :=
  if tok.startsWith "gen:" then
    match tok.splitOn ":" with
    | [_, n, s] =>
      match n.toNat?, s.toNat? with
      | some n, some s => some (genBytes n (UInt64.ofNat s))
      | _, _ => none
    | _ => none
  else bytesOfHex tok

def fixedArg (n : Nat) (tok : String) : Option Bytes :=
  match bytesOfHex tok with
  | some b => if b.length == n then some b else none
  | none => none

def u32Arg (tok : String) : Option UInt32 :=
  match tok.toNat? with
  | some v => if v < 4294967296 then some (UInt32.ofNat v) else none
  | none => none

def hexNat (digits : Nat) (v : Nat) : String :=
  String.ofList ((List.range digits).reverse.map fun i => hexDigit ((v / 16 ^ i) % 16))

def hex32 (v : UInt32) : String := hexNat 8 v.toNat

def hex32Arg (tok : String) : Option UInt32 :=
  if tok.length == 0 || tok.length > 8 then none
  else (tok.toList.foldlM (fun acc c => (hexVal c).map fun d => acc * 16 + d) 0).map UInt32.ofNat

def fnv1a (b : Bytes) : UInt64 :=
  b.foldl (fun h v => (h ^^^ v.toUInt64) * 1099511628211) 14695981039346656037

def canon (b : Bytes) : String :=
  if b.isEmpty then "-"
  else if b.length ≤ 256 then hexOfBytes b
  else s!"len:{b.length}:fnv:{hexNat 16 (fnv1a b).toNat}:head:{hexOfBytes (b.take 16)}:tail:{hexOfBytes (b.drop (b.length - 16))}"

def canonOpt : Option Bytes → String
  | some b => canon b
  | none => "nullopt"

def verdict (clause : String) (expect : String) (impl : Option String) : String :=
  match impl with
  | none => "ok"
  | some i => if i == expect then "ok" else s!"viol:{clause}:expected {expect}"

def zeros (n : Nat) : Bytes := List.replicate n 0

def specCounter (id : Bytes) : UInt32 :=
  Spec.ChaCha.le32 (id.getD 0 0) (id.getD 1 0) (id.getD 2 0) (id.getD 3 0)

def badArgs : Unit × String × String := ((), "throw:invalid_argument", "ok")

def stepOp (tok : List String) (impl : Option String) : Unit × String × String :=
  let implTok := (impl.map tokens).getD []
  match tok with
  | ["qr", a, b, c, d] =>
    match hex32Arg a, hex32Arg b, hex32Arg c, hex32Arg d with
    | some a, some b, some c, some d =>
      let m := ChaCha20.quarter_round a b c d
      let s := Spec.ChaCha.quarterRound a b c d
      let fmt := fun (r : UInt32 × UInt32 × UInt32 × UInt32) => s!"{hex32 r.1} {hex32 r.2.1} {hex32 r.2.2.1} {hex32 r.2.2.2}"
      ((), fmt m, verdict "quarter-round" (fmt s) impl)
    | _, _, _, _ => badArgs
  | ["block", key, nonce, ctr] =>
    match fixedArg 32 key, fixedArg 12 nonce, u32Arg ctr with
    | some key, some nonce, some ctr =>
      ((), hexOfBytes (ChaCha20.chacha20_block key nonce ctr), verdict "block" (hexOfBytes (Spec.chacha20Block key ctr nonce)) impl)
    | _, _, _ => badArgs
  | ["apply", key, nonce, ctr, input] =>
    match fixedArg 32 key, fixedArg 12 nonce, u32Arg ctr, bytesArg input with
    | some key, some nonce, some ctr, some input =>
      ((), canon (ChaCha20.apply key nonce input ctr), verdict "rfc8439" (canon (Spec.chacha20 key nonce ctr input)) impl)
    | _, _, _, _ => badArgs
  | ["applyinto", key, nonce, ctr, input, old] =>
    match fixedArg 32 key, fixedArg 12 nonce, u32Arg ctr, bytesArg input, bytesArg old with
    | some key, some nonce, some ctr, some input, some old =>
      ((), canon (ChaCha20.applyInto key nonce input ctr old), verdict "rfc8439" (canon (Spec.chacha20 key nonce ctr input)) impl)
    | _, _, _, _, _ => badArgs
  | ["applyinplace", key, nonce, ctr, buf] =>
    match fixedArg 32 key, fixedArg 12 nonce, u32Arg ctr, bytesArg buf with
    | some key, some nonce, some ctr, some buf =>
      ((), canon (ChaCha20.applyInPlace key nonce buf ctr), verdict "inplace" (canon (Spec.chacha20 key nonce ctr buf)) impl)
    | _, _, _, _ => badArgs
  | ["inplacetwice", key, nonce, ctr, buf] =>
    match fixedArg 32 key, fixedArg 12 nonce, u32Arg ctr, bytesArg buf with
    | some key, some nonce, some ctr, some buf =>
      ((), canon (ChaCha20.applyInPlace key nonce (ChaCha20.applyInPlace key nonce buf ctr) ctr),
        verdict "inplace-involution" (canon buf) impl)
    | _, _, _, _ => badArgs
  | ["applyalias-longer", key, nonce, ctr, vec, n] =>
    match fixedArg 32 key, fixedArg 12 nonce, u32Arg ctr, bytesArg vec, n.toNat? with
    | some key, some nonce, some ctr, some vec, some n =>
      if n > vec.length then badArgs else
      ((), canon (ChaCha20.applyAliased key nonce vec n ctr), verdict "aliased" (canon (Spec.chacha20 key nonce ctr (vec.take n))) impl)
    | _, _, _, _, _ => badArgs
  | ["applyalias-shorter", key, nonce, ctr, vec, n] =>
    match fixedArg 32 key, fixedArg 12 nonce, u32Arg ctr, bytesArg vec, n.toNat? with
    | some key, some nonce, some ctr, some vec, some n =>
      if n ≤ vec.length then badArgs else
      -- only the bytes that were live input are determined: they are the RFC encryption of `vec`
      let r := ChaCha20.applyAliased key nonce vec n ctr
      ((), s!"{r.length}:{canon (r.take vec.length)}", verdict "aliased" s!"{n}:{canon (Spec.chacha20 key nonce ctr vec)}" impl)
    | _, _, _, _, _ => badArgs
  | ["twice", key, nonce, ctr, input] =>
    match fixedArg 32 key, fixedArg 12 nonce, u32Arg ctr, bytesArg input with
    | some key, some nonce, some ctr, some input =>
      ((), canon (ChaCha20.apply key nonce (ChaCha20.apply key nonce input ctr) ctr), verdict "involution" (canon input) impl)
    | _, _, _, _ => badArgs
  | ["ctr", id] =>
    match fixedArg 32 id with
    | some id => ((), toString (ChaCha20.derive_counter id).toNat, verdict "derive-counter" (toString (specCounter id).toNat) impl)
    | none => badArgs
  | ["mgr_enc", key, id, pt] =>
    match fixedArg 32 key, fixedArg 32 id, bytesArg pt with
    | some key, some id, some pt =>
      if ChaCha20.allZero key then
        -- excluded point: the key actually used is random and not observable through the static call;
        -- the property prescribes nothing here, the implementation's line is echoed and not judged
        ((), impl.getD "zero-key", "ok")
      else
      -- the random nonce is the implementation's choice (any 12 bytes are legal)
      match impl, (implTok.head?.bind (fixedArg 12)) with
      | some _, none => ((), "?", "viol:manager-encrypt:no 12-byte nonce in the output")
      | _, nonce? =>
        let nonce := nonce?.getD (zeros 12)
        let m := ChaCha20.encrypt_with_key key id pt nonce (zeros 32)
        let line := fun (d : Bytes) => s!"{hexOfBytes nonce} {canon d} enc=1"
        ((), line m.data, verdict "manager-encrypt" (line (Spec.chacha20 key nonce (specCounter id) pt)) impl)
    | _, _, _ => badArgs
  | ["mgr_dec", key, id, nonce, ct] =>
    match fixedArg 32 key, fixedArg 32 id, fixedArg 12 nonce, bytesArg ct with
    | some key, some id, some nonce, some ct =>
      if ChaCha20.allZero key then ((), impl.getD "zero-key", "ok")    -- excluded point, see mgr_enc
      else
        ((), canonOpt (ChaCha20.decrypt_with_key key id ct nonce (zeros 32)),
          verdict "manager-decrypt" (canon (Spec.chacha20 key nonce (specCounter id) ct)) impl)
    | _, _, _, _ => badArgs
  | ["mgr_rt", key, id, pt] =>
    match fixedArg 32 key, fixedArg 32 id, bytesArg pt with
    | some key, some id, some pt =>
      if ChaCha20.allZero key then ((), impl.getD "zero-key", "ok")    -- excluded point, see mgr_enc
      else
      match impl, (implTok.head?.bind (fixedArg 12)) with
      | some _, none => ((), "?", "viol:manager-roundtrip:no 12-byte nonce in the output")
      | _, nonce? =>
        let nonce := nonce?.getD (zeros 12)
        let m := ChaCha20.encrypt_with_key key id pt nonce (zeros 32)
        let back := ChaCha20.decrypt_with_key key id m.data m.nonce (zeros 32)
        let expect := s!"{hexOfBytes nonce} {canon (Spec.chacha20 key nonce (specCounter id) pt)} {canon pt}"
        ((), s!"{hexOfBytes nonce} {canon m.data} {canonOpt back}", verdict "manager-roundtrip" expect impl)
    | _, _, _ => badArgs
  | ["mgr_obj", key, id, pt] =>
    match fixedArg 32 key, fixedArg 32 id, bytesArg pt with
    | some key, some id, some pt =>
      let zeroKey := ChaCha20.allZero key
      match impl, (implTok.head?.bind (fixedArg 32)), ((implTok.drop 1).head?.bind (fixedArg 12)) with
      | some i, none, _ =>
        -- at the excluded point (all-zero key) the property prescribes nothing: an answer of another shape
        -- (say, a refusal) is echoed, not judged
        if zeroKey then ((), i, "ok") else ((), "?", "viol:manager-object:no key_ in the output")
      | some i, _, none =>
        if zeroKey then ((), i, "ok") else ((), "?", "viol:manager-object:no 12-byte nonce in the output")
      | _, rk?, nonce? =>
        -- hints: the random key the constructor may have drawn, and the random nonce
        let rk := rk?.getD (zeros 32)
        let nonce := nonce?.getD (zeros 12)
        let key_ := ChaCha20.ctorKey key rk
        let m := ChaCha20.encrypt key_ id pt nonce
        let back := ChaCha20.decrypt key_ id m.data m.nonce
        let out := s!"{hexOfBytes key_} {hexOfBytes nonce} {canon m.data} {canonOpt back}"
        -- specification: a non-zero key is used as given; whatever key the object holds, the data is
        -- RFC 8439 under that key and the same object decrypts to the plaintext
        let usedKey := if zeroKey then rk else key
        let expect := s!"{hexOfBytes usedKey} {hexOfBytes nonce} {canon (Spec.chacha20 usedKey nonce (specCounter id) pt)} {canon pt}"
        ((), out, verdict "manager-object" expect impl)
    | _, _, _ => badArgs
  | _ => ((), "bad-op", "ok")

/-- A harness built without access to the anonymous-namespace helpers (after a harmless rename, see
harness/chacha_h.cpp) answers `internals-unavailable` to `qr` / `block` / `ctr`: nothing was observed, so
nothing is judged and the line is echoed. -/
def step (_ : Unit) (tok : List String) (_line : String) (impl : Option String) : Unit × String × String :=
  if impl == some "internals-unavailable" then ((), "internals-unavailable", "ok") else stepOp tok impl

def machine : Machine Unit := { init := (), step := step }

end EphVerif.DriverC09

def main (args : List String) : IO UInt32 := EphVerif.Proto.runMain EphVerif.DriverC09.machine args
