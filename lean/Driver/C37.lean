import EphVerif.Driver.Proto
import EphVerif.Model.LogEscape
import EphVerif.Spec.JsonString

/-!
Driver for C37 (same ops as harness/logjson_h.cpp built with -DLOGJSON_C37):
  esc <hex>                                   escape_json
  log <level> <event-hex> [<key-hex> <value-hex>]...   everything one log() call writes
Monitor = the specification applied to the implementation's bytes:
  esc: the output has no byte < 0x20, no bare `"`/`\`, and RFC 8259-decodes to the input;
  log: the output is exactly one line, valid UTF-8 (when the inputs are), and decodes as a JSON
       object to ts (any string), level, event and the fields in order.
The model's line for `log` uses the timestamp the implementation printed (an opaque parameter
of the model, see Model/LogEscape.lean).
-/
open EphVerif EphVerif.Proto EphVerif.LogEscape EphVerif.JsonSpec

namespace EphVerif.DriverC37

def hx (b : List Nat) : String := hexOrDash (hexOfNats b)

def pairs : List (List Nat) → List (List Nat × List Nat)
  | k :: v :: rest => (k, v) :: pairs rest
  | _ => []

def expected (ts level event : List Nat) (fields : List (List Nat × List Nat)) : List (List Nat × Val) :=
  [(keyTs, Val.s ts), (keyLevel, Val.s level), (keyEvent, Val.s event)] ++
    (if fields.isEmpty then [] else [(keyFields, Val.o fields)])

def escVerdict (s : List Nat) (impl : Option String) : String :=
  match impl with
  | none => "ok"
  | some i =>
    match natsOfHex i with
    | none => "viol:escape:unreadable output"
    | some o =>
      if !(o.all fun b => decide (0x20 ≤ b)) then "viol:escape:control byte in output"
      else if !bareFree o then "viol:escape:bare quote or backslash in output"
      else if unescape o != some s then "viol:escape:output does not decode to the input"
      else "ok"

def logVerdict (level event : List Nat) (fields : List (List Nat × List Nat)) (o : List Nat) : String :=
  if !oneLineB o then "viol:one-line:record is not exactly one line"
  else
    match decodeLine o with
    | none => "viol:valid-json:record is not a JSON object of strings"
    | some ms =>
      let ts := match ms with
        | (_, Val.s t) :: _ => t
        | _ => []
      if ms != expected ts level event fields then "viol:faithful:record does not decode to the logged strings"
      else
        let inputsUtf8 := validUtf8 event && fields.all fun (k, v) => validUtf8 k && validUtf8 v
        if inputsUtf8 && !validUtf8 o then "viol:valid-json:record is not valid UTF-8" else "ok"

def step (st : Unit) (tok : List String) (_line : String) (impl : Option String) : Unit × String × String :=
  match tok with
  | ["esc", h] =>
    match natsOfHex h with
    | some s => (st, hx (escape s), escVerdict s impl)
    | none => (st, "bad-op", "ok")
  | "log" :: lv :: ev :: rest =>
    match lv.toNat?, natsOfHex ev, rest.mapM natsOfHex with
    | some lv, some ev, some kvs =>
      let fields := pairs kvs
      let level := levelToString lv
      let implBytes := impl.bind natsOfHex
      -- the timestamp is whatever the implementation printed (first member of its record)
      let ts : List Nat := match implBytes.bind decodeLine with
        | some ((_, Val.s t) :: _) => t
        | _ => [0x3F]
      let v := match impl, implBytes with
        | none, _ => "ok"
        | some _, none => "viol:valid-json:unreadable output"
        | some _, some o => logVerdict level ev fields o
      (st, hx (logRecord ts level ev fields), v)
    | _, _, _ => (st, "bad-op", "ok")
  | _ => (st, "bad-op", "ok")

def machine : Machine Unit := { init := (), step := step }

end EphVerif.DriverC37

def main (args : List String) : IO UInt32 := EphVerif.Proto.runMain EphVerif.DriverC37.machine args
