import EphVerif.Driver.Proto
import EphVerif.Model.StorePipeline
import EphVerif.Model.ReplicationGlue
import EphVerif.Spec.Sha256
import EphVerif.Spec.ChaCha20
import EphVerif.Spec.Shamir
import EphVerif.Monitor.Shamir

/-!
Driver for C11 (ops: see harness/pipeline_h.cpp).

Model column: `EphVerif.StorePipeline.*` run on two modelled nodes A and B.  The random values of the real code are
hints taken from the implementation's `store` line and validated: the chunk key is what the printed shares
reconstruct, the Shamir coefficients are recovered from the shares (polynomial through the first `t`, as in
Driver/C10), the nonce is read off — the model's line then equals the implementation's exactly when the held bytes
are the encryption under that key / nonce and the shares are a polynomial sharing of that key.

Verdict column: the implementation's line judged with the *specification* functions only — `Spec.sha256`,
`Spec.chacha20`, Lagrange reconstruction in the specification field (`ShamirSpec`):
  held-bytes            the held bytes are not ChaCha20_{key,nonce,LE32(id)}(payload), the recorded nonce differs from the
                        manifest's, or t-subsets of the shares do not agree on one key
  manifest-hash         the manifest's content hash is not SHA-256(payload)
  manifest-shards       t / n / share count / indices not as the configuration demands
  roundtrip-local       fetch on the storing node does not return the payload
  roundtrip-replica     an untampered replica + manifest, admitted by the TTL window, is not accepted / not returned /
                        not stored / not announced / not readable on the importing node
  roundtrip-cli         the CLI function does not return the payload for the untampered pair
  tamper-accepted       something was returned although its SHA-256 is not the manifest's content hash, or the
                        returned bytes are not the decryption of the replica under the shares' key
  tamper-state-changed  a rejected replica changed the importing node's state
The all-zero chunk key (excluded point) is echoed and not judged.
-/

open EphVerif EphVerif.Proto EphVerif.StorePipeline

namespace EphVerif.DriverC11

def genBytes (n : Nat) (seed : UInt64) : Bytes :=
  let rec go : Nat → UInt64 → List UInt8 → List UInt8
    | 0, _, acc => acc.reverse
    | k + 1, x, acc =>
      let x' := x * 6364136223846793005 + 1442695040888963407
      go k x' ((x' >>> 56).toUInt8 :: acc)
  go n seed []

def bytesArg (tok : String) : Option Bytes :=
  if tok.startsWith "gen:" then
    match tok.splitOn ":" with
    | [_, n, s] =>
      match n.toNat?, s.toNat? with
      | some n, some s => some (genBytes n (UInt64.ofNat s))
      | _, _ => none
    | _ => none
  else bytesOfHex tok

def hexNat (digits : Nat) (v : Nat) : String :=
  String.ofList ((List.range digits).reverse.map fun i => hexDigit ((v / 16 ^ i) % 16))

def fnv1a (b : Bytes) : UInt64 :=
  b.foldl (fun h v => (h ^^^ v.toUInt64) * 1099511628211) 14695981039346656037

def canon (b : Bytes) : String :=
  if b.isEmpty then "-"
  else if b.length ≤ 64 then hexOfBytes b
  else s!"len:{b.length}:fnv:{hexNat 16 (fnv1a b).toNat}"

def fmtShards (l : List Shamir.Share) : String :=
  if l.isEmpty then "-" else ",".intercalate (l.map fun s => s!"{s.index}:{hexOfNats s.value}")

def b01 (b : Bool) : String := if b then "1" else "0"

/-- `k=v` fields of an implementation line -/
def fields (line : String) : List (String × String) :=
  (tokens line).filterMap fun t =>
    match t.splitOn "=" with
    | [k, v] => some (k, v)
    | _ => none

def field (fs : List (String × String)) (k : String) : String := (fs.lookup k).getD ""

/-! ### coefficient recovery (hint; same construction as Driver/C10) -/

open EphVerif.Shamir in
def mInv (a : Nat) : Nat := match gfDiv 1 a with | .ok v => v | _ => 0

open EphVerif.Shamir in
def mulLinear (p : Array Nat) (x : Nat) : Array Nat :=
  Array.ofFn (n := p.size + 1) fun k =>
    (if k.val = 0 then 0 else p.getD (k.val - 1) 0) ^^^ gfMul x (p.getD k.val 0)

open EphVerif.Shamir in
def divLinear (m : Array Nat) (x : Nat) : Array Nat :=
  let d := m.size - 1
  let q := (List.range d).foldl (fun (acc : List Nat × Nat) i =>
      let k := d - i
      let v := m.getD k 0 ^^^ gfMul x acc.2
      (v :: acc.1, v)) (([] : List Nat), 0)
  q.1.toArray

open EphVerif.Shamir in
def horner (p : Array Nat) (x : Nat) : Nat := p.foldr (fun c acc => c ^^^ gfMul x acc) 0

open EphVerif.Shamir in
def recoverCoeffs (bytes t : Nat) (shares : List (Nat × List Nat)) : Array (Array Nat) :=
  let base := (shares.take t).toArray
  let xs := base.toList.map (·.1)
  let master := xs.foldl mulLinear #[1]
  let qs := base.map fun s => divLinear master s.1
  let ws := (base.zip qs).map fun (s, q) => mInv (horner q s.1)
  (Array.range bytes).map fun b =>
    let acc := (Array.range base.size).foldl (fun (acc : Array Nat) i =>
        let y := (base.getD i (0, [])).2.getD b 0
        let f := gfMul y (ws.getD i 0)
        if f = 0 then acc else
          let q := qs.getD i #[]
          Array.ofFn (n := acc.size) fun k => acc.getD k.val 0 ^^^ gfMul f (q.getD k.val 0))
      (Array.replicate t 0)
    acc.extract 1 t

@[noinline] def rdOf (t : Nat) (cs : Array (Array Nat)) : Nat → Nat := fun k =>
  if t ≤ 1 then 0 else (cs.getD (k / (t - 1)) #[]).getD (k % (t - 1)) 0

/-! ### corruption of (manifest, replica), same grammar as the harness -/

def xorAt (b : Bytes) (k x : Nat) : Bytes :=
  if b.isEmpty then b else b.set (k % b.length) ((b.getD (k % b.length) 0) ^^^ UInt8.ofNat x)

def xorAtN (b : List Nat) (k x : Nat) : List Nat :=
  if b.isEmpty then b else b.set (k % b.length) (((b.getD (k % b.length) 0) ^^^ x) % 256)

def corruptItem (mc : Manifest × Bytes) (item : String) : Option (Manifest × Bytes) :=
  let (m, ct) := mc
  let p := item.splitOn ":"
  let num (i : Nat) : Option Nat := (p.getD i "").toNat?
  match p.getD 0 "" with
  | "ct" => do let k ← num 1; let x ← num 2; pure (m, xorAt ct k x)
  | "ctadd" => do let e ← bytesOfHex (p.getD 1 ""); pure (m, ct ++ e)
  | "ctcut" => do let k ← num 1; pure (m, ct.take (ct.length - min ct.length k))
  | "hash" => do let k ← num 1; let x ← num 2; pure ({ m with chunkHash := xorAt m.chunkHash k x }, ct)
  | "nonce" => do let k ← num 1; let x ← num 2; pure ({ m with nonce := xorAt m.nonce k x }, ct)
  | "id" => do let k ← num 1; let x ← num 2; pure ({ m with chunkId := xorAt m.chunkId k x }, ct)
  | "shard" => do
    let i ← num 1; let k ← num 2; let x ← num 3
    if m.shards.isEmpty then pure (m, ct) else
      let j := i % m.shards.length
      let s := m.shards.getD j default
      pure ({ m with shards := m.shards.set j { s with value := xorAtN s.value k x } }, ct)
  | "sidx" => do
    let i ← num 1; let v ← num 2
    if m.shards.isEmpty then pure (m, ct) else
      let j := i % m.shards.length
      let s := m.shards.getD j default
      pure ({ m with shards := m.shards.set j { s with index := v % 256 } }, ct)
  | "thr" => do let v ← num 1; pure ({ m with threshold := v % 256 }, ct)
  | "total" => do let v ← num 1; pure ({ m with totalShares := v % 256 }, ct)
  | "exp" => do let d ← (p.getD 1 "").toInt?; pure ({ m with expiresNs := m.expiresNs + d * 1000000000 }, ct)
  | "drop" => do
    let i ← num 1
    if m.shards.isEmpty then pure (m, ct) else pure ({ m with shards := m.shards.eraseIdx (i % m.shards.length) }, ct)
  | "rot" => do
    let k ← num 1
    if m.shards.isEmpty then pure (m, ct) else
      let j := k % m.shards.length
      pure ({ m with shards := m.shards.drop j ++ m.shards.take j }, ct)
  | "rev" => pure ({ m with shards := m.shards.reverse }, ct)
  | _ => none

def corrupt (spec : String) (mc : Manifest × Bytes) : Option (Manifest × Bytes) :=
  if spec == "none" then some mc else (spec.splitOn "+").foldlM corruptItem mc

/-- corruptions that leave manifest and replica semantically intact (a reordering of the shares) -/
def harmless (spec : String) : Bool :=
  spec == "none" || (spec.splitOn "+").all fun it => it == "rev" || it.startsWith "rot:"

/-! ### specification-side judgement -/

def specCounter (id : Bytes) : UInt32 :=
  Spec.ChaCha.le32 (id.getD 0 0) (id.getD 1 0) (id.getD 2 0) (id.getD 3 0)

def pshares (l : List Shamir.Share) : List ShamirMonitor.PShare := l.map fun s => (s.index, s.value)

/-- the key the first `t` shares determine (specification field), if they are a well-formed set -/
def specKey (shards : List Shamir.Share) (t : Nat) : Option Bytes :=
  let used := (shards.take t).map (·.index)
  if t = 0 ∨ shards.length < t then none
  else if !ShamirSpec.distinctNonZero used || used.any (· ≥ 256) then none
  else if (shards.take t).any fun s => s.value.length != 32 || s.value.any (· ≥ 256) then none
  else some (ofNats (ShamirMonitor.specReconstruct 32 t (pshares shards)))

def isZeroKey (k : Bytes) : Bool := k.all (· == 0)

/-- what a correct node may return for (manifest, replica): the decryption, provided it hashes to the content hash -/
def specPlaintext (m : Manifest) (ct : Bytes) : Option Bytes :=
  match specKey m.shards m.threshold with
  | none => none
  | some key =>
    if m.nonce.length != 12 || isZeroKey key then none
    else
      let pt := Spec.chacha20 key m.nonce (specCounter m.chunkId) ct
      if Spec.sha256 pt == m.chunkHash then some pt else none

structure Last where
  manifest : Manifest
  held : Bytes
  payload : Bytes
  excluded : Bool        -- all-zero chunk key
  valid : Bool           -- the store line was well-formed enough to work with

structure St where
  ready : Bool := false
  cfg : Config := ⟨3, 5, 30, 21600, 21600⟩
  nowNs : Int := 1000000000000
  wallOff : Int := 1700000000000000000
  a : NodeState := {}
  b : NodeState := {}
  last : Option Last := none
  /-- ids stored on A in this case with their payloads (excluded-point stores are left out) -/
  onA : List (Bytes × Bytes) := []
  /-- ids the specification says B must be able to serve, with their payloads -/
  onB : List (Bytes × Bytes) := []
  /-- ids touched at the excluded point: look-ups are echoed -/
  skip : List Bytes := []
  /-- a manifest arrived without replica (ingest / announce) since the last store: a look-up may also miss, see `held-chunk-poisoned` -/
  forged : Bool := false
  /-- ids for which the implementation reported a pending fetch on B (C24's bookkeeping, taken as a hint) -/
  pendB : List Bytes := []

/-- the association lists of the model stand for `unordered_map`s: compare states up to their order -/
def sortByKey {β : Type} (l : List (Bytes × β)) : List (Bytes × β) :=
  l.mergeSort fun a b => hexOfBytes a.1 ≤ hexOfBytes b.1

def normalize (s : NodeState) : NodeState :=
  { chunks := sortByKey s.chunks, shardTable := sortByKey s.shardTable, announced := sortByKey s.announced,
    manifests := sortByKey s.manifests, seeds := s.seeds.mergeSort fun a b => hexOfBytes a ≤ hexOfBytes b }

def idBytes (tok : String) : Bytes := (id32 tok).map UInt8.ofNat

def zeros (n : Nat) : Bytes := List.replicate n 0

def fmtFetch : Outcome (Option Bytes) → String
  | .value (some b) => "hit " ++ canon b
  | .value none => "miss"
  | .threw => "throw:invalid_argument"
  | .hang => "timeout"

def judge (impl : Option String) (f : String → String) : String :=
  match impl with
  | some i => f i
  | none => "ok"

def stepStore (st : St) (idTok payloadTok ttlTok : String) (impl : Option String) : St × String × String :=
  match bytesArg payloadTok, ttlTok.toInt? with
  | some payload, some ttl =>
    let id := idBytes idTok
    let t := effThreshold st.cfg
    let n := effTotal st.cfg
    let wall := st.nowNs + st.wallOff
    -- hints from the implementation's line
    let fs := fields (impl.getD "")
    let implShards := (ShamirMonitor.parseShares (field fs "shards")).getD []
    let nonce := (bytesOfHex (field fs "nonce")).getD (zeros 12)
    let shardsOk := implShards.length == n && ShamirSpec.distinctNonZero ((implShards.take t).map (·.1)) &&
      implShards.all (fun s => s.1 < 256 && s.2.length == 32 && s.2.all (· < 256))
    let keyN := if impl.isSome && shardsOk then ShamirMonitor.specReconstruct 32 t implShards else List.replicate 32 1
    let key := ofNats keyN
    let excluded := isZeroKey key
    -- the coefficient table is a value computed once (a conditional of function type would be eta-expanded by the compiler
    -- and the recovery re-run on every draw)
    let coeffs : Array (Array Nat) := if impl.isSome && shardsOk then recoverCoeffs 32 t implShards else #[]
    let rd := rdOf t coeffs
    if excluded then
      -- excluded point: the key actually used is hidden inside a temporary CryptoManager; echo, do not judge
      let m : Manifest := { chunkId := id, chunkHash := (bytesOfHex (field fs "hash")).getD [], nonce := nonce, threshold := t,
                            totalShares := n, expiresNs := ((field fs "exp").toInt?).getD 0,
                            shards := implShards.map fun s => ⟨s.1, s.2⟩ }
      ({ st with last := some ⟨m, [], payload, true, false⟩, skip := id :: st.skip }, impl.getD "zero-key", "ok")
    else
    match storeChunk st.cfg st.a wall id payload ttl key nonce (zeros 32) rd with
    | .value r =>
      let rec? := exportRecord r.node id
      let held := (rec?.map (·.data)).getD []
      let m := r.manifest
      let out := s!"ok held={canon held} enc={b01 ((rec?.map (·.encrypted)).getD false)} rnonce={hexOfBytes ((rec?.map (·.nonce)).getD [])}" ++
        s!" hash={hexOfBytes m.chunkHash} nonce={hexOfBytes m.nonce} t={m.threshold} n={m.totalShares} exp={m.expiresNs}" ++
        s!" ann={b01 (find r.node.announced id).isSome} shards={fmtShards m.shards}"
      let verdict := judge impl fun i =>
        if !i.startsWith "ok " then "viol:held-bytes:store failed: " ++ (i.take 40).toString
        else if field fs "t" != toString t || field fs "n" != toString n || !shardsOk then
          "viol:manifest-shards:expected " ++ toString t ++ "-of-" ++ toString n ++ " with distinct non-zero indices"
        else
          -- every t-subset tried must give the same key: the last t, the reversed list, every second share
          let alt1 := ShamirMonitor.specReconstruct 32 t (implShards.drop (n - t))
          let alt2 := ShamirMonitor.specReconstruct 32 t implShards.reverse
          let stride := (implShards.zipIdx.filter fun p => p.2 % 2 == 0).map (·.1) ++ (implShards.zipIdx.filter fun p => p.2 % 2 == 1).map (·.1)
          let alt3 := ShamirMonitor.specReconstruct 32 t stride
          if alt1 != keyN || alt2 != keyN || alt3 != keyN then "viol:held-bytes:t-subsets of the shares reconstruct different keys"
          else if nonce.length != 12 || field fs "rnonce" != field fs "nonce" || field fs "enc" != "1" then
            "viol:held-bytes:record nonce / encrypted flag"
          else if field fs "held" != canon (Spec.chacha20 key nonce (specCounter id) payload) then
            "viol:held-bytes:not ChaCha20(key from shares, nonce, LE32(id)) of the payload"
          else if field fs "hash" != hexOfBytes (Spec.sha256 payload) then "viol:manifest-hash"
          else "ok"
      -- later ops work on what the implementation exhibited when that is usable, else on the model's values
      let implHeldOk := impl.isNone || field fs "held" == canon held
      ({ st with a := r.node, last := some ⟨m, held, payload, false, implHeldOk⟩,
                 onA := (id, payload) :: st.onA.filter (·.1 != id) }, out, verdict)
    | .threw => (st, "throw:invalid_argument", judge impl fun _ => "viol:held-bytes:model store threw")
    | .hang => (st, "timeout", judge impl fun _ => "viol:held-bytes:model store hangs")
  | _, _ => (st, "bad-args", "ok")

def step (st : St) (tok : List String) (_line : String) (impl : Option String) : St × String × String :=
  match tok with
  | ["cfg", t, n, mn, mx, df, sub] =>
    match t.toNat?, n.toNat?, mn.toInt?, mx.toInt?, df.toInt?, sub.toInt? with
    | some t, some n, some mn, some mx, some df, some sub =>
      ({ ready := true, cfg := ⟨t % 256, n % 256, mn, mx, df⟩, wallOff := 1700000000000000000 + sub }, "ok", "ok")
    | _, _, _, _, _, _ => (st, "bad-args", "ok")
  | ["adv", ns] =>
    if !st.ready then (st, "no-cfg", "ok") else
    match ns.toInt? with
    | some ns => ({ st with nowNs := st.nowNs + ns }, "ok", "ok")
    | none => (st, "bad-args", "ok")
  | ["store", id, payload, ttl, _rng] =>
    if !st.ready then (st, "no-cfg", "ok") else stepStore st id payload ttl impl
  | ["fetch", who, idTok] =>
    if !st.ready then (st, "no-cfg", "ok") else
    let id := idBytes idTok
    if st.skip.contains id then (st, impl.getD "zero-key", "ok") else
    let node := if who == "b" then st.b else st.a
    let out := fmtFetch (fetchChunk node id (zeros 32))
    let expect := (if who == "b" then st.onB else st.onA).lookup id
    let clause := if who == "b" then "roundtrip-replica" else "roundtrip-local"
    let verdict := judge impl fun i =>
      match expect with
      | some p =>
        if i == "hit " ++ canon p then "ok"
        else if st.forged then
          -- manifests that came without the chunk must not change what a held chunk reads as: the payload or a miss
          (if i == "miss" then "ok" else s!"viol:held-chunk-poisoned:expected hit {canon p} or miss")
        else s!"viol:{clause}:expected hit {canon p}"
      | none => "ok"
    (st, out, verdict)
  | ["ingest", who, spec] =>
    if !st.ready then (st, "no-cfg", "ok") else
    match st.last with
    | none => (st, "no-manifest", "ok")
    | some last =>
      if last.excluded then (st, impl.getD "zero-key", "ok") else
      match corrupt spec (last.manifest, []) with
      | none => (st, "bad-args", "ok")
      | some (m0, _) =>
        let wall := st.nowNs + st.wallOff
        let node := if who == "b" then st.b else st.a
        let (n', ok) := ingestManifest st.cfg node wall (some (wire m0))
        let st' := if who == "b" then { st with b := n', forged := true } else { st with a := n', forged := true }
        (st', if ok then "ok" else "refused", "ok")
  | ["announce", _from, spec, _assign] =>
    if !st.ready then (st, "no-cfg", "ok") else
    match st.last with
    | none => (st, "no-manifest", "ok")
    | some last =>
      if last.excluded then (st, impl.getD "zero-key", "ok") else
      match corrupt spec (last.manifest, []) with
      | none => (st, "bad-args", "ok")
      | some (m0, _) =>
        let m := wire m0
        let nowNs := st.nowNs + 1000000000        -- the harness lets one second pass (announce throttle)
        let wall := nowNs + st.wallOff
        let fs := fields (impl.getD "")
        -- admission (sender, throttle, PoW, validation: C21) is taken from the implementation's answer
        let acc := if impl.isSome then field fs "acc" == "1"
          else decide (m.threshold > 0 ∧ m.shards.length ≥ m.threshold) && (manifestTtl m.expiresNs wall st.cfg.minTtl st.cfg.maxTtl).isSome
        let b' := if acc then announceAdmitted st.cfg st.b wall m else st.b
        let cached := find b'.manifests m.chunkId == some m
        let pend := field fs "pend" == "1"
        let out := s!"ok acc={b01 acc} cached={b01 cached} pend={b01 pend} req={if field fs "req" == "1" then "1" else "0"}"
        let pendB := if pend then m.chunkId :: st.pendB.filter (· != m.chunkId) else st.pendB.filter (· != m.chunkId)
        ({ st with b := b', nowNs := nowNs, forged := true, pendB := pendB }, out, "ok")
  | ["serve"] =>
    if !st.ready then (st, "no-cfg", "ok") else
    match st.last with
    | none => (st, "no-manifest", "ok")
    | some last =>
      if last.excluded then (st, impl.getD "zero-key", "ok") else
      let wall := st.nowNs + st.wallOff
      let out := match ReplicationGlue.chunkMessage st.cfg st.a wall last.manifest.chunkId with
        | some msg => s!"chunk data={canon msg.data} ttl={msg.ttl}"
        | none => "nack"
      let verdict := judge impl fun i =>
        if !last.valid || st.forged then "ok"
        else if i.startsWith "chunk " then
          (if field (fields i) "data" == canon last.held then "ok" else "viol:glue-serve:the CHUNK message does not carry the held bytes")
        else "ok"
      (st, out, verdict)
  | ["deliver", _from, spec] =>
    if !st.ready then (st, "no-cfg", "ok") else
    match st.last with
    | none => (st, "no-manifest", "ok")
    | some last =>
      if last.excluded then (st, impl.getD "zero-key", "ok") else
      match corrupt spec (last.manifest, last.held) with
      | none => (st, "bad-args", "ok")
      | some (m0, ct) =>
        let id := m0.chunkId
        let wall := st.nowNs + st.wallOff
        let fs := fields (impl.getD "")
        let (b', ack) := ReplicationGlue.handleChunk st.cfg st.b wall true ⟨id, ct, 0⟩ (zeros 32)
        let acc := ack == some true
        let after := if acc then (match fetchChunk b' id (zeros 32) with
          | .value (some p) => canon p | .value none => "miss" | _ => "throw") else "-"
        let pendAfter := if acc then false else st.pendB.contains id
        let out := s!"ack={match ack with | some true => "1" | some false => "0" | none => "none"} stored={b01 (find b'.chunks id).isSome}" ++
          s!" ann={b01 (find b'.announced id).isSome} changed={if acc then "acc" else b01 (decide (normalize b' ≠ normalize st.b))}" ++
          s!" pend={b01 pendAfter} fetch={after}"
        let cachedB := find st.b.manifests id
        let implAcc := field fs "ack" == "1"
        let verdict := judge impl fun i =>
          if !last.valid then "ok"
          else if implAcc then
            match cachedB.bind fun m => specPlaintext (wire m) ct with
            | none => "viol:tamper-accepted:CHUNK accepted although its decryption does not hash to the cached manifest's content hash"
            | some pt =>
              if field fs "fetch" != canon pt || field fs "stored" != "1" then
                "viol:roundtrip-replica:the importing node cannot serve the replica it accepted: " ++ i
              else if field fs "pend" != "0" then "viol:pending-cleared:a pending fetch survives the arrival of its chunk"
              else "ok"
          else if field fs "changed" != "0" then "viol:tamper-state-changed"
          else if field fs "ack" == "none" then "viol:roundtrip-replica:no ACK for a CHUNK on a keyed session"
          else if harmless spec && cachedB == some (wire last.manifest) &&
              (manifestTtl (wire last.manifest).expiresNs wall st.cfg.minTtl st.cfg.maxTtl).isSome then
            "viol:roundtrip-replica:genuine CHUNK refused: " ++ i
          else "ok"
        let onB := match (if implAcc || impl.isNone then cachedB.bind fun m => specPlaintext (wire m) ct else none) with
          | some pt => if acc then (id, pt) :: st.onB.filter (·.1 != id) else st.onB
          | none => st.onB
        ({ st with b := b', onB := onB, pendB := if acc then st.pendB.filter (· != id) else st.pendB }, out, verdict)
  | ["receive", spec] =>
    if !st.ready then (st, "no-cfg", "ok") else
    match st.last with
    | none => (st, "no-manifest", "ok")
    | some last =>
      if last.excluded then (st, impl.getD "zero-key", "ok") else
      match corrupt spec (last.manifest, last.held) with
      | none => (st, "bad-args", "ok")
      | some (m0, ct) =>
        let m := wire m0
        let fs := fields (impl.getD "")
        let dec := impl.isNone || field fs "dec" != "0"
        let wall := st.nowNs + st.wallOff
        let (b', r) := receiveChunk st.cfg st.b wall (if dec then some m else none) ct (zeros 32)
        let acc := r.isAccepted
        let ret := match r with | .accepted p => canon p | _ => "none"
        let after := if acc then (match fetchChunk b' m.chunkId (zeros 32) with
          | .value (some p) => canon p | .value none => "miss" | _ => "throw") else "-"
        let out := s!"{if acc then "accept" else "reject"} ret={ret} dec={b01 dec} stored={b01 (find b'.chunks m.chunkId).isSome}" ++
          s!" ann={b01 (find b'.announced m.chunkId).isSome} changed={b01 (decide (normalize b' ≠ normalize st.b))} fetch={after}"
        let implAcc := (impl.getD "").startsWith "accept"
        let admitted := (manifestTtl m.expiresNs wall st.cfg.minTtl st.cfg.maxTtl).isSome
        let verdict := judge impl fun i =>
          if !last.valid then "ok"
          else if implAcc then
            match specPlaintext m ct with
            | none => "viol:tamper-accepted:the replica's decryption does not hash to the manifest's content hash"
            | some pt =>
              if field fs "ret" != canon pt then "viol:tamper-accepted:returned bytes are not the decryption of the replica"
              else if field fs "fetch" != field fs "ret" || field fs "stored" != "1" then
                "viol:roundtrip-replica:the importing node cannot serve the replica it accepted: " ++ i
              else if harmless spec && (field fs "stored" != "1" || field fs "ann" != "1" || field fs "fetch" != canon last.payload
                                         || pt != last.payload) then
                "viol:roundtrip-replica:accepted but not stored / announced / readable: " ++ i
              else "ok"
          else if !i.startsWith "reject" then "viol:roundtrip-replica:" ++ (i.take 40).toString
          else if field fs "changed" != "0" then "viol:tamper-state-changed"
          else if harmless spec && admitted then "viol:roundtrip-replica:untampered replica refused"
          else "ok"
        -- B's modelled state follows the model; what B must serve follows the specification
        let onB := match (if implAcc || impl.isNone then specPlaintext m ct else none) with
          | some pt => if acc then (m.chunkId, pt) :: st.onB.filter (·.1 != m.chunkId) else st.onB
          | none => st.onB
        ({ st with b := b', onB := onB, pendB := if acc then st.pendB.filter (· != m.chunkId) else st.pendB }, out, verdict)
  | ["cli", spec] =>
    if !st.ready then (st, "no-cfg", "ok") else
    match st.last with
    | none => (st, "no-manifest", "ok")
    | some last =>
      if last.excluded then (st, impl.getD "zero-key", "ok") else
      match corrupt spec (last.manifest, last.held) with
      | none => (st, "bad-args", "ok")
      | some (m0, ct) =>
        let m := wire m0
        let out := match decryptChunkWithManifest m ct (zeros 32) with
          | .accepted p => "ok " ++ canon p
          | _ => "null"
        let verdict := judge impl fun i =>
          if !last.valid then "ok"
          else if i.startsWith "ok " then
            match specPlaintext m ct with
            | none => "viol:tamper-accepted:the CLI returned bytes whose SHA-256 is not the manifest's content hash"
            | some pt =>
              if i != "ok " ++ canon pt then "viol:tamper-accepted:the CLI's bytes are not the decryption of the replica"
              else if harmless spec && pt != last.payload then "viol:roundtrip-cli"
              else "ok"
          else if harmless spec then "viol:roundtrip-cli:" ++ (i.take 40).toString
          else "ok"
        (st, out, verdict)
  | _ => (st, "bad-op", "ok")

def machine : Machine St := { init := {}, step := step }

end EphVerif.DriverC11

def main (args : List String) : IO UInt32 := EphVerif.Proto.runMain EphVerif.DriverC11.machine args
