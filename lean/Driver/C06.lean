import EphVerif.Driver.Proto
import EphVerif.Model.Providers
import EphVerif.Spec.Providers

open EphVerif EphVerif.Proto

namespace EphVerif.DriverC06

structure St where
  now : Int
  table : Providers.Table
  spec : C06Spec.S
  /-- chunk names seen so far (the model's table is a function; this is only used to print it) -/
  keys : List String

def vclockStart : Int := 1000000000000

def fmtHolders (hs : List (String × Int)) : String :=
  if hs.isEmpty then "-" else
  ",".intercalate ((hs.mergeSort (fun a b => a.1 ≤ b.1)).map fun (p, e) => s!"{p}:{e}")

def fmtModelHolders (hs : List Providers.Holder) : String := fmtHolders (hs.map fun h => (h.peer, h.exp))

def holdersOf (t : Providers.Table) (c : String) : List Providers.Holder := Providers.holdersOf t c

def fmtTable (keys : List String) (t : Providers.Table) : String :=
  let present := keys.eraseDups.filter fun c => (t c).isSome
  if present.isEmpty then "-" else
  "|".intercalate ((present.mergeSort (fun a b => a ≤ b)).map fun c => s!"{c}=[{fmtModelHolders (holdersOf t c)}]")

/-- parse `p:e,p:e` (or `-`) -/
def parseHolders (s : String) : Option (List (String × Int)) :=
  if s == "-" then some [] else
  (s.splitOn ",").mapM fun item =>
    match item.splitOn ":" with
    | [p, e] => e.toInt?.map fun v => (p, v)
    | _ => none

/-- parse a table dump `c=[p:e,..]|c=[..]` (or `-`) -/
def parseDump (s : String) : Option (List (String × List (String × Int))) :=
  if s == "-" then some [] else
  (s.splitOn "|").mapM fun item =>
    match item.splitOn "=[" with
    | [c, rest] => (parseHolders ((rest.dropEnd 1).toString)).map fun hs => (c, hs)
    | _ => none

/-- the property's sweep clause judged on the implementation's dump after a sweep: every
    announcement the abstract directory holds live must still be there -/
def sweepVerdict (st : St) (impl : Option String) : String :=
  match impl with
  | none => "ok"
  | some line =>
    match parseDump line with
    | none => "viol:sweep-format"
    | some dump =>
      let missing := st.keys.eraseDups.flatMap fun c =>
        let have_ := (dump.lookup c).getD []
        ((C06Spec.find st.spec st.now c).filter fun a => !have_.contains (a.peer, a.exp)).map fun a => s!"{c}/{a.peer}"
      if missing.isEmpty then "ok" else s!"viol:sweep-early:live provider removed {missing}"

def step (st : St) (tok : List String) (_line : String) (impl : Option String) : St × String × String :=
  match tok with
  | ["adv", n] =>
    match n.toInt? with
    | some d => ({ st with now := st.now + d }, "ok", "ok")
    | none => (st, "bad-op", "ok")
  | ["add", c, p, ttl] =>
    match ttl.toInt? with
    | none => (st, "bad-op", "ok")
    | some secs =>
      let implHolders := impl.bind parseHolders
      let hint := implHolders.map (·.map (·.1))
      let t' := Providers.addContact st.table st.now c p (secs * 1000000000) hint
      let liveHint := implHolders.map fun hs => (hs.filter fun (_, e) => decide (st.now < e)).map (·.1)
      let (s', okHint) := C06Spec.add st.spec st.now c p (st.now + secs * 1000000000) liveHint
      let verdict := if impl.isSome && !okHint then "viol:top20:kept set is not the 20 latest-expiring live providers" else "ok"
      ({ st with table := t', spec := s', keys := c :: st.keys }, fmtModelHolders (holdersOf t' c), verdict)
  | ["find", c] =>
    let (t', hs) := Providers.findProviders st.table st.now c
    let expect := fmtHolders ((C06Spec.find st.spec st.now c).map fun a => (a.peer, a.exp))
    let verdict := match impl with
      | none => "ok"
      | some i => if i == expect then "ok" else s!"viol:find-exact:expected {expect}"
    ({ st with table := t' }, fmtModelHolders hs, verdict)
  | ["sweep"] =>
    let t' := Providers.sweep st.table st.now
    ({ st with table := t' }, fmtTable st.keys t', sweepVerdict st impl)
  | ["withdraw", c, p] =>
    let t' := Providers.withdraw st.table c p
    ({ st with table := t', spec := C06Spec.withdraw st.spec c p }, fmtModelHolders (holdersOf t' c), "ok")
  | _ => (st, "bad-op", "ok")

def machine : Machine St := { init := ⟨vclockStart, Providers.Table.empty, C06Spec.empty, []⟩, step := step }

end EphVerif.DriverC06

def main (args : List String) : IO UInt32 := EphVerif.Proto.runMain EphVerif.DriverC06.machine args
