import EphVerif.Driver.Proto
import EphVerif.Model.Shamir
import EphVerif.Monitor.Shamir

/-!
Driver for C10: model output (`Model/Shamir.lean`) and monitor verdict (`Monitor/Shamir.lean`) for
every op of harness/shamir_h.cpp.

`split`: the random coefficients are not an input of the real code.  The driver recovers them from
the shares the implementation printed (polynomial through its first `t` shares, computed with the
model's field operations) and hands them to the model as the draws `rd`; the model output then
equals the implementation's line exactly when every share byte is the evaluation of one polynomial
of degree < t with the secret byte as constant term.  The monitor's verdict does not use the
recovered coefficients.
-/

open EphVerif EphVerif.Proto EphVerif.Shamir

namespace EphVerif.DriverC10

structure St where
  rows : Array (Array Nat) := #[]
  secret : List Nat := []
  t : Nat := 0
  n : Nat := 0
  shares : List Share := []
  printed : List (Nat × List Nat) := []     -- what the implementation printed at the last split
  valid : Bool := false
deriving Inhabited

def fmtShares (l : List Share) : String :=
  if l.isEmpty then "-" else ",".intercalate (l.map fun s => s!"{s.index}:{hexOfNats s.value}")

def fmtOutcome {α : Type} (f : α → String) : Outcome α → String
  | .ok v => "ok " ++ f v
  | .invalidArgument => "throw:invalid_argument"
  | .hang => "timeout"

def byteArg (s : String) : Option Nat := s.toNat?.map (· % 256)

/-! ### coefficient recovery (hint) -/

def mInv (a : Nat) : Nat := match gfDiv 1 a with | .ok v => v | _ => 0

/-- `(X + x) · p` -/
def mulLinear (p : Array Nat) (x : Nat) : Array Nat :=
  Array.ofFn (n := p.size + 1) fun k =>
    (if k.val = 0 then 0 else p.getD (k.val - 1) 0) ^^^ gfMul x (p.getD k.val 0)

/-- `m / (X + x)` for a polynomial `m` of which `x` is a root (synthetic division, highest coefficient first) -/
def divLinear (m : Array Nat) (x : Nat) : Array Nat :=
  let d := m.size - 1
  let q := (List.range d).foldl (fun (acc : List Nat × Nat) i =>
      -- k runs d, d-1, …, 1;  q[k-1] = m[k] + x·q[k]
      let k := d - i
      let v := m.getD k 0 ^^^ gfMul x acc.2
      (v :: acc.1, v)) (([] : List Nat), 0)
  q.1.toArray

def horner (p : Array Nat) (x : Nat) : Nat := p.foldr (fun c acc => c ^^^ gfMul x acc) 0

/-- coefficients c₁ … c_{t-1} for every byte, from the first `t` printed shares -/
def recoverCoeffs (bytes t : Nat) (shares : List (Nat × List Nat)) : Array (Array Nat) :=
  let base := (shares.take t).toArray
  let xs := base.toList.map (·.1)
  let master := xs.foldl mulLinear #[1]
  let qs := base.map fun s => divLinear master s.1
  let ws := (base.zip qs).map fun (s, q) => mInv (horner q s.1)
  (Array.range bytes).map fun b =>
    let acc := (Array.range base.size).foldl (fun (acc : Array Nat) i =>
        let y := (base.getD i (0, [])).2.getD b 0
        let f := gfMul y (ws.getD i 0)
        if f = 0 then acc else
          let q := qs.getD i #[]
          Array.ofFn (n := acc.size) fun k => acc.getD k.val 0 ^^^ gfMul f (q.getD k.val 0))
      (Array.replicate t 0)
    acc.extract 1 t

def rdOf (t : Nat) (cs : Array (Array Nat)) : Nat → Nat := fun k =>
  if t ≤ 1 then 0 else (cs.getD (k / (t - 1)) #[]).getD (k % (t - 1)) 0

/-! ### the machine -/

def modelShares (st : St) (positions : List Nat) : Option (List Share) :=
  positions.mapM fun p => st.shares[p]?

def toShare (p : Nat × List Nat) : Share := { index := p.1 % 256, value := p.2 }

def parsePositions (s : String) : Option (List Nat) :=
  if s == "-" then some [] else (s.splitOn ",").mapM (·.toNat?)

def step (st : St) (tok : List String) (_line : String) (impl : Option String) : St × String × String :=
  let judge (f : String → String) : String := match impl with | some i => f i | none => "ok"
  match tok with
  | ["exptab"] => (st, hexOfNats expList, "ok")
  | ["logtab"] => (st, hexOfNats logList, "ok")
  | ["mulrow", a] =>
    match byteArg a with
    | none => (st, "bad-op", "ok")
    | some a =>
      let st' := match impl.bind natsOfHex with
        | some row => if a == st.rows.size && row.length == 256 then { st with rows := st.rows.push row.toArray } else st
        | none => st
      (st', hexOfNats ((List.range 256).map (gfMul a)), "ok")
  | ["divrow", a] =>
    match byteArg a with
    | none => (st, "bad-op", "ok")
    | some a =>
      let row := (List.range' 1 255).map fun b => match gfDiv a b with | .ok v => v | _ => 0
      (st, hexOfNats row, judge (ShamirMonitor.judgeDivRow a))
  | ["mul", a, b] =>
    match byteArg a, byteArg b with
    | some a, some b => (st, hexOfNats [gfMul a b], judge (ShamirMonitor.judgeMul a b))
    | _, _ => (st, "bad-op", "ok")
  | ["div", a, b] =>
    match byteArg a, byteArg b with
    | some a, some b => (st, fmtOutcome (fun v => hexOfNats [v]) (gfDiv a b), judge (ShamirMonitor.judgeDiv a b))
    | _, _ => (st, "bad-op", "ok")
  | ["gfdigest"] =>
    let d := ShamirMonitor.tableDigest gfMul (fun a b => match gfDiv a b with | .ok v => v | _ => 0)
    (st, toString d, judge ShamirMonitor.judgeDigest)
  | ["fieldcheck"] => (st, "ok", judge fun _ => ShamirMonitor.judgeField st.rows)
  | ["eval", x, c, cs] =>
    match byteArg x, byteArg c, natsOfHex cs with
    | some x, some c, some cs => (st, hexOfNats [evalPoly x c cs], judge (ShamirMonitor.judgeEval x c cs))
    | _, _, _ => (st, "bad-op", "ok")
  | ["split", sec, t, n, rng] =>
    match natsOfHex sec, byteArg t, byteArg n with
    | some sec, some t, some n =>
      let secret := (sec ++ List.replicate 32 0).take 32
      let printed := impl.bind ShamirMonitor.splitShares
      let constStream := rng.startsWith "z" || rng.startsWith "k"
      let cs := match printed with
        | some shares => if t ≥ 1 && shares.length ≥ t then recoverCoeffs 32 t shares else #[]
        | none => #[]
      let out := split (rdOf t cs) secret t n
      let (verdict, valid) := match impl with
        | some i => ShamirMonitor.judgeSplit secret t n constStream i
        | none => ("ok", false)
      let shares := match out with | .ok l => l | _ => []
      ({ st with secret := secret, t := t, n := n, shares := shares, printed := printed.getD [], valid := valid }, fmtOutcome (fun l => fmtShares l ++ s!" draws={drawsConsumed Gen.C10.kDrawPerByte 32 t}") out, verdict)
    | _, _, _ => (st, "bad-op", "ok")
  | ["combsel", t, ps] =>
    match byteArg t, parsePositions ps with
    | some t, some ps =>
      match modelShares st ps with
      | none => (st, "nosplit", "ok")
      | some sel =>
        let out := combine sel t
        -- the selected shares as the specification sees them: position p of a valid sharing carries index p + 1
        let verdict := judge fun i =>
          if !st.valid then (if i.startsWith "crash" || i == "timeout" then "viol:combine-crash" else "ok")
          else
            let pshares := ps.filterMap fun p => st.printed[p]?
            let expect := if t ≥ st.t then some st.secret else none
            ShamirMonitor.judgeCombine t pshares expect i
        (st, fmtOutcome hexOfNats out, verdict)
    | _, _ => (st, "bad-op", "ok")
  | ["combine", t, ss] =>
    match byteArg t, ShamirMonitor.parseShares ss with
    | some t, some ps =>
      let ps := ps.map fun p => (p.1 % 256, (p.2 ++ List.replicate 32 0).take 32)
      let out := combine (ps.map toShare) t
      let verdict := judge fun i =>
        let wellformed := ps.length ≥ t && t ≥ 1
        let expect := if wellformed then some (ShamirMonitor.specReconstruct 32 t ps) else none
        ShamirMonitor.judgeCombine t ps expect i
      (st, fmtOutcome hexOfNats out, verdict)
    | _, _ => (st, "bad-op", "ok")
  | _ => (st, "bad-op", "ok")

def machine : Machine St := { init := {}, step := step }

end EphVerif.DriverC10

def main (args : List String) : IO UInt32 := EphVerif.Proto.runMain EphVerif.DriverC10.machine args
