import EphVerif.Driver.Proto
import EphVerif.Model.Routing
import EphVerif.Spec.Routing

/-!
Line-protocol driver for C07 (same ops and output format as harness/routing_h.cpp).

Model column: `Model/Routing.lean` run on the op.  Verdict column: the *specification*
(`Spec/Routing.lean`, `decide` of its predicates) judging the implementation's line.  The
spec-side state is built only from the implementation's own reports (`obs`: last reported
content of every bucket) plus the op history (`log`: registrations so far, `now`).
-/
open EphVerif EphVerif.Proto

namespace EphVerif.DriverC07
open EphVerif.Routing (Contact Table)
open EphVerif.C07Spec (Entry Dump Log)

structure St where
  now : Int
  table : Table
  names : List (List Nat × String)
  obs : Dump
  log : Log

def vclockStart : Int := 1000000000000

def St.init : St :=
  { now := vclockStart, table := Table.empty (List.replicate 32 0), names := [], obs := [], log := [] }

/-- first token given for an id wins (as in the harness) -/
def intern (names : List (List Nat × String)) (tok : String) : List (List Nat × String) × List Nat :=
  let id := id32 tok
  if names.any (·.1 == id) then (names, id) else ((id, tok) :: names, id)

def nameOf (names : List (List Nat × String)) (id : List Nat) : String :=
  match names.find? (·.1 == id) with
  | some p => p.2
  | none => hexOfNats id

/-- extensionally the identity: replaces the closure chain of point updates by an array lookup -/
def normalise (t : Table) : Table :=
  let arr := ((List.range Routing.kIdBits).map t.buckets).toArray
  { t with buckets := fun j => if j < Routing.kIdBits then arr.getD j [] else t.buckets j }

def fmtContact (names : List (List Nat × String)) (c : Contact) : String :=
  s!"{nameOf names c.id}:{c.addr}:{c.exp}"

def fmtSeq (names : List (List Nat × String)) (cs : List Contact) : String :=
  ",".intercalate (cs.map (fmtContact names))

/-- the non-empty buckets (only those holding `want`, if given) in index order -/
def dumpModel (names : List (List Nat × String)) (t : Table) (want : Option (List Nat)) : String :=
  let parts := (List.range Routing.kIdBits).filterMap fun i =>
    let b := t.buckets i
    if b.isEmpty then none
    else match want with
      | some id => if b.any (·.id == id) then some s!"{i}=[{fmtSeq names b}]" else none
      | none => some s!"{i}=[{fmtSeq names b}]"
  if parts.isEmpty then "-" else "|".intercalate parts

/-! ### reading the implementation's lines into spec-side values -/

def parseEntry (s : String) : Option Entry :=
  match s.splitOn ":" with
  | [tok, addr, e] => e.toInt?.map fun v => ⟨C07Spec.toNat (id32 tok), addr, v⟩
  | _ => none

def parseSeq (s : String) : Option (List Entry) :=
  if s == "-" || s == "" then some [] else (s.splitOn ",").mapM parseEntry

def parseDump (s : String) : Option Dump :=
  if s == "-" then some [] else
  (s.splitOn "|").mapM fun part =>
    match part.splitOn "=[" with
    | [idx, rest] =>
      if rest.endsWith "]" then
        match idx.toNat?, parseSeq (rest.dropEnd 1).toString with
        | some i, some es => some (i, es)
        | _, _ => none
      else none
    | _ => none

/-- replace the reported buckets in the observation -/
def mergeObs (obs reported : Dump) : Dump :=
  (obs.filter fun b => !reported.any (·.1 == b.1)) ++ reported

def shapeVerdict (self : Nat) (d : Dump) : Option String :=
  if !decide (C07Spec.SelfNotHeld self d) then some "viol:self-held:the local id is held"
  else if !decide (C07Spec.BucketCap d) then some "viol:bucket-cap:a bucket holds more than 16 contacts"
  else if !decide (C07Spec.BucketPlace self d) then some "viol:bucket-place:a contact is not in the bucket of its highest differing bit"
  else if !decide (C07Spec.SingleEntry d) then some "viol:dup-id:an id is held twice"
  else none

def isCrash (s : String) : Bool := s.startsWith "crash:" || s.startsWith "throw:" || s == "<missing>"

/-- verdict after `register_peer` / `add_contact` of (`id`, `addr`, effective expiry `eff`) -/
def judgeUpsert (st : St) (impl : Option String) (id : Nat) (addr : String) (eff : Int) : St × String :=
  let st := { st with log := (id, addr, eff) :: st.log }
  match impl with
  | none => (st, "ok")
  | some line =>
    if isCrash line then (st, "ok") else
    match parseDump line with
    | none => (st, "viol:malformed:cannot parse the bucket dump")
    | some rd =>
      let before := st.obs
      let obs := mergeObs st.obs rd
      let st := { st with obs := obs }
      let self := C07Spec.toNat st.table.self
      match shapeVerdict self obs with
      | some v => (st, v)
      | none =>
        if id ≠ self && !decide (C07Spec.JustRegistered obs id addr eff) then
          (st, "viol:newest:the registered contact is missing, duplicated or lacks the new address/expiry")
        else if !decide (C07Spec.Newest st.log obs) then
          (st, "viol:newest:a held contact differs from the last registration of its id")
        else if !decide (C07Spec.Retained self before obs st.now id) then
          (st, "viol:retained:an unexpired contact lost its place although no new id overflowed its bucket")
        else (st, "ok")

def judgeDump (st : St) (impl : Option String) (isSweep : Bool) : St × String :=
  match impl with
  | none => (st, "ok")
  | some line =>
    if isCrash line then (st, "ok") else
    match parseDump line with
    | none => (st, "viol:malformed:cannot parse the table dump")
    | some rd =>
      let before := C07Spec.entries st.obs
      let st := { st with obs := rd }
      let self := C07Spec.toNat st.table.self
      match shapeVerdict self rd with
      | some v => (st, v)
      | none =>
        if !decide (C07Spec.Newest st.log rd) then
          (st, "viol:newest:a held contact differs from the last registration of its id")
        else if isSweep && !decide (C07Spec.SweepKeeps before (C07Spec.entries rd) st.now) then
          (st, "viol:sweep:the sweep removed an unexpired contact or added one")
        else if !isSweep && !decide (C07Spec.NothingLost before (C07Spec.entries rd) st.now) then
          (st, "viol:retained:an unexpired contact reported earlier is no longer held")
        else (st, "ok")

def judgeClosest (st : St) (impl : Option String) (target : Nat) (k : Nat) : String :=
  match impl with
  | none => "ok"
  | some line =>
    if isCrash line then "ok" else
    match parseSeq line with
    | none => "viol:malformed:cannot parse the query result"
    | some r =>
      if decide (C07Spec.IsClosest (C07Spec.entries st.obs) st.now target k r) then "ok"
      else "viol:closest:not the min(k,n) nearest unexpired held contacts in increasing XOR distance"

def step (st : St) (tok : List String) (_line : String) (impl : Option String) : St × String × String :=
  match tok with
  | ["init", selfTok] =>
    let (names, self) := intern [] selfTok
    ({ st with table := Table.empty self, names := names, obs := [], log := [] }, "ok", "ok")
  | ["adv", n] =>
    match n.toInt? with
    | some d => ({ st with now := st.now + d }, "ok", "ok")
    | none => (st, "bad-op", "ok")
  | ["reg", idTok, addr, ttl] =>
    let exp? : Option Int := if ttl == "epoch" then some 0 else ttl.toInt?.map (st.now + ·)
    match exp? with
    | none => (st, "bad-op", "ok")
    | some exp =>
      let (names, id) := intern st.names idTok
      let t' := normalise (Routing.registerPeer st.table st.now ⟨id, addr, exp⟩)
      let st := { st with table := t', names := names }
      let (st, v) := judgeUpsert st impl (C07Spec.toNat id) addr (C07Spec.effExp st.now exp)
      (st, dumpModel names t' (some id), v)
  | ["add", _chunk, idTok, addr, ttl] =>
    match ttl.toInt? with
    | none => (st, "bad-op", "ok")
    | some secs =>
      let (names, id) := intern st.names idTok
      let t' := normalise (Routing.addContactBucket st.table st.now ⟨id, addr, 0⟩ (secs * 1000000000))
      let st := { st with table := t', names := names }
      let (st, v) := judgeUpsert st impl (C07Spec.toNat id) addr (st.now + secs * 1000000000)
      (st, dumpModel names t' (some id), v)
  | ["sweep"] =>
    let t' := normalise (Routing.sweepBuckets st.table st.now)
    let st := { st with table := t' }
    let (st, v) := judgeDump st impl true
    (st, dumpModel st.names t' none, v)
  | ["buckets"] =>
    let (st, v) := judgeDump st impl false
    (st, dumpModel st.names st.table none, v)
  | ["closest", targetTok, limit] =>
    match limit.toNat? with
    | none => (st, "bad-op", "ok")
    | some k =>
      let (names, target) := intern st.names targetTok
      let st := { st with names := names }
      let res := Routing.closestPeers st.table st.now target k
      let out := if res.isEmpty then "-" else fmtSeq names res
      (st, out, judgeClosest st impl (C07Spec.toNat target) k)
  | _ => (st, "bad-op", "ok")

def machine : Machine St := { init := St.init, step := step }

end EphVerif.DriverC07

def main (args : List String) : IO UInt32 := EphVerif.Proto.runMain EphVerif.DriverC07.machine args
