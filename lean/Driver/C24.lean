import EphVerif.Driver.Proto
import EphVerif.Generated.C24
import EphVerif.Model.Fetches
import EphVerif.Spec.Fetches

open EphVerif EphVerif.Proto

namespace EphVerif.DriverC24
open EphVerif.Fetches

def vclockStart : Int := 1000000000000
def wallOffset : Int := 1700000000000000000
def wallStart : Int := vclockStart + wallOffset
/-- whole seconds of the wall clock at the start of a case (manifest expiries are whole seconds) -/
def wallStartS : Int := wallStart / second

structure RawCfg where
  base : Int := Gen.C24.cfg_fetch_retry_initial_backoff
  maxBackoff : Int := Gen.C24.cfg_fetch_retry_max_backoff
  successInterval : Int := Gen.C24.cfg_fetch_retry_success_interval
  attemptLimit : Nat := Gen.C24.cfg_fetch_retry_attempt_limit
  maxParallel : Nat := Gen.C24.cfg_fetch_max_parallel_requests
  refresh : Int := Gen.C24.cfg_fetch_availability_refresh

def provTtl : Int := 100000000 * second
def minTtl : Int := Gen.C24.cfg_min_manifest_ttl
def maxTtl : Int := Gen.C24.cfg_max_manifest_ttl

def RawCfg.toCfg (r : RawCfg) : Cfg :=
  ⟨r.base, r.maxBackoff, r.successInterval, r.attemptLimit, r.maxParallel, r.refresh, maxTtl⟩

structure St where
  raw : RawCfg := {}
  started : Bool := false
  now : Int := vclockStart
  keys : List String := []
  links : List String := []
  manifests : List (String × Int) := []   -- manifest_cache_: chunk ↦ expiry (wall ns)
  store : List (String × Int) := []       -- chunk ↦ steady-clock expiry of the stored record
  provs : List (String × String × Int) := []  -- provider directory: (chunk, peer, steady-clock expiry)
  peers : List String := []
  model : State := State.init
  deadlines : List (String × Int) := []   -- monitor: chunk ↦ recorded expiry of its pending fetch

def St.wall (st : St) : Int := st.now + wallOffset

def lookup (l : List (String × Int)) (c : String) : Option Int := (l.find? fun x => x.1 == c).map (·.2)
def setKey (l : List (String × Int)) (c : String) (v : Int) : List (String × Int) := (c, v) :: l.filter (·.1 != c)

def held (st : St) (c : String) : Bool :=
  match lookup st.store c with
  | some e => decide (st.now < e)
  | none => false

def envOf (st : St) : Env :=
  { held := held st,
    sendOk := fun p => st.keys.contains p && st.links.contains p,
    providers := fun c => ((st.provs.filter fun x => x.1 == c && decide (st.now < x.2.2)).map (·.2.1)).eraseDups.length }

def sortStrs (l : List String) : List String := l.mergeSort (fun a b => a ≤ b)
def joinOrDash (l : List String) : String := if l.isEmpty then "-" else ";".intercalate l

def fmtFrames (items : List (String × String)) : String :=
  let items := items.mergeSort (fun a b => a.1 ≤ b.1)
  if items.isEmpty then "-" else ",".intercalate (items.map (·.2))

def fmtEntry (st : St) (e : Entry) : String :=
  let next := match e.nextAttempt with
    | some t => toString (t - st.now)
    | none => "max"
  let exp := if e.expires = 0 then "none" else toString (e.expires - wallStartS * second)
  let ld := if e.lastDispatch = 0 then "never" else toString (st.now - e.lastDispatch)
  s!"{e.chunk}:{e.peer}:{e.attempts}:{if e.inFlight then 1 else 0}:{next}:{exp}:{e.provCount}:{ld}"

def fmtState (st : St) : String :=
  let m := st.model
  let pf := sortStrs (m.pending.map (fmtEntry st))
  let ar := sortStrs ((st.peers.eraseDups.filter fun p => m.active p > 0).map fun p => s!"{p}:{m.active p}")
  let heldL := sortStrs ((st.store.map (·.1)).eraseDups.filter (held st))
  s!"pf={joinOrDash pf} ar={joinOrDash ar} held={joinOrDash heldL}"

def modelLine (st : St) (frames : List (String × String)) : String := fmtFrames frames ++ " | " ++ fmtState st

def reqFrames (fr : List Frame) : List (String × String) := fr.map fun f => (f.peer, s!"{f.peer}>req:{f.chunk}")

/-! ### Reading the implementation's line -/

def field (fields : List String) (key : String) : Option String :=
  (fields.find? fun f => f.startsWith (key ++ "=")).map fun f => (f.drop (key.length + 1)).toString

def items (s : String) (sep : String) : List String := if s == "-" then [] else s.splitOn sep

def parseSeen (it : String) : Option C24Spec.Seen :=
  match it.splitOn ":" with
  | [c, p, att, fl, next, _exp, _prov, ld] =>
    match att.toNat? with
    | none => none
    | some a =>
      let nx := if next == "max" then some none else next.toInt?.map some
      let l := if ld == "never" then some none else ld.toInt?.map some
      match nx, l with
      | some nx, some l => some ⟨c, p, a, fl == "1", nx, l⟩
      | _, _ => none
  | _ => none

structure Obs where
  seen : List C24Spec.Seen
  counters : List (String × Nat)

def parseObs (line : String) : Option Obs :=
  match line.splitOn " | " with
  | [_, stt] =>
    let fields := stt.splitOn " "
    match field fields "pf", field fields "ar" with
    | some pf, some ar =>
      let parsed := (items pf ";").map parseSeen
      if parsed.any Option.isNone then none else
      let cs := (items ar ";").filterMap fun it =>
        match it.splitOn ":" with
        | [p, n] => n.toNat?.map fun k => (p, k)
        | _ => none
      some ⟨parsed.filterMap id, cs⟩
    | _, _ => none
  | _ => none

/-- The monitor: the specification judging the implementation's line.  `processed`: the fetch
    scheduler ran during the step; `arrived`: the chunk was accepted and stored in this step. -/
def judge (st : St) (processed : Bool) (arrived : Option String) (impl : Option String) : String :=
  match impl with
  | none => "ok"
  | some line =>
    match parseObs line with
    | none => if line.startsWith "crash" then "ok" else "viol:unreadable"
    | some o =>
      let r := st.raw
      let counter : String → Nat := fun p => ((o.counters.find? fun x => x.1 == p).map (·.2)).getD 0
      let peers := (st.peers ++ o.counters.map (·.1) ++ o.seen.map (·.peer)).eraseDups
      let base : Int := if r.base ≤ 0 then 1 else r.base
      let v : Option String :=
        if !C24Spec.limitOk r.maxParallel counter o.seen peers then
          some s!"viol:limit:a peer has more than {r.maxParallel} requests in flight" else none
      let v := v.orElse fun _ =>
        match C24Spec.countMismatch counter o.seen peers with
        | some (p, true) => some s!"viol:zero:{p} has no request outstanding but an in-flight count of {counter p}"
        | some (p, false) => some s!"viol:count:{p} has {C24Spec.inflightOf o.seen p} request(s) in flight but a count of {counter p}"
        | none => none
      let v := v.orElse fun _ =>
        o.seen.findSome? fun s =>
          (C24Spec.backoffWrong base r.maxBackoff r.attemptLimit s).map fun want =>
            s!"viol:backoff:{s.chunk} attempt {s.attempts} failed, next attempt expected in {want} ns"
      let v := v.orElse fun _ =>
        match arrived with
        | some c => if o.seen.any (·.chunk == c) then some s!"viol:drop-held:{c} arrived but its fetch is still pending" else none
        | none => none
      let v := v.orElse fun _ =>
        if processed then
          o.seen.findSome? fun s =>
            match lookup st.deadlines s.chunk with
            | none => none
            | some d => (C24Spec.mustDrop (held st s.chunk) st.wall d r.attemptLimit s).map fun why =>
                s!"viol:{why}:{s.chunk} is still pending"
        else none
      v.getD "ok"

def notePeer (st : St) (p : String) : St := if st.peers.contains p then st else { st with peers := st.peers ++ [p] }
def startNode (st : St) : St := { st with started := true }

/-- `manifest_ttl(manifest, config)`: whole seconds left, refused below the minimum; capped -/
def manifestTtl (st : St) (expires : Int) : Option Int :=
  if expires ≤ st.wall then none
  else
    let t := (expires - st.wall) / second
    if t ≤ 0 then none else if t < minTtl then none else some (if t > maxTtl then maxTtl else t)

def doAnnounce (st : St) (c p : String) (expires : Int) (impl : Option String) : St × String × String :=
  let st := notePeer (startNode st) p
  let st := { st with manifests := setKey st.manifests c expires }
  let env := envOf st
  let processed := !env.held c
  let (m, fr) := announce st.raw.toCfg env st.now st.wall st.model c p expires
  let st' := { st with model := m,
                       deadlines := if processed then setKey st.deadlines c (C24Spec.deadline expires st.wall maxTtl) else st.deadlines }
  (st', modelLine st' (reqFrames fr), judge st' processed none impl)

def step (st : St) (tok : List String) (_line : String) (impl : Option String) : St × String × String :=
  match tok with
  | ["cfg", f, v] =>
    if st.started then (st, "bad-op", "ok") else
    match v.toInt? with
    | none => (st, "bad-op", "ok")
    | some n =>
      let r := st.raw
      let r' : Option RawCfg :=
        if f == "fetch_retry_initial_backoff" then some { r with base := n }
        else if f == "fetch_retry_max_backoff" then some { r with maxBackoff := n }
        else if f == "fetch_retry_success_interval" then some { r with successInterval := n }
        else if f == "fetch_retry_attempt_limit" then some { r with attemptLimit := (n % 256).toNat }
        else if f == "fetch_max_parallel_requests" then some { r with maxParallel := (n % 65536).toNat }
        else if f == "fetch_availability_refresh" then some { r with refresh := n }
        else if f.startsWith "upload_" then some r
        else none
      match r' with
      | some r' => ({ st with raw := r' }, "ok", "ok")
      | none => (st, "bad-op", "ok")
  | ["adv", n] =>
    match n.toInt? with
    | some d => ({ st with now := st.now + d }, "ok", "ok")
    | none => (st, "bad-op", "ok")
  | ["key", p] =>
    let st := notePeer (startNode st) p
    let st := { st with keys := if st.keys.contains p then st.keys else p :: st.keys }
    (st, modelLine st [], judge st false none impl)
  | ["link", p] =>
    let st := notePeer (startNode st) p
    let st := { st with links := if st.links.contains p then st.links else p :: st.links }
    (st, modelLine st [], judge st false none impl)
  | ["unlink", p] =>
    let st := notePeer (startNode st) p
    let st := { st with links := st.links.filter (· != p) }
    (st, modelLine st [], judge st false none impl)
  | ["prov", c, p] =>
    let st := startNode st
    -- the harness registers the contact with a TTL of 10^8 s (`add_contact` replaces the holder's entry)
    ({ st with provs := (c, p, st.now + provTtl) :: st.provs.filter fun x => !(x.1 == c && x.2.1 == p) }, "ok", "ok")
  | ["unprov", c, p] =>
    let st := startNode st
    ({ st with provs := st.provs.filter fun x => !(x.1 == c && x.2.1 == p) }, "ok", "ok")
  | ["ann", c, p, x] =>
    match x.toInt? with
    | none => (st, "bad-op", "ok")
    | some xs => doAnnounce st c p ((wallStartS + xs) * second) impl
  | ["hann", c, p, x] =>
    match x.toInt? with
    | none => (st, "bad-op", "ok")
    | some xs =>
      let expires := (wallStartS + xs) * second
      -- handle_announce admits the announce only while manifest_ttl has a value (throttles are
      -- kept out of the way by the generator)
      if (manifestTtl st expires).isSome then doAnnounce st c p expires impl
      else
        let st := notePeer (startNode st) p
        (st, modelLine st [], judge st false none impl)
  | ["arr", c, p, g] =>
    let st := notePeer (startNode st) p
    if !st.keys.contains p then (st, modelLine st [], judge st false none impl) else
    let ttl := (lookup st.manifests c).bind (manifestTtl st)
    let accepted := g == "good" && ttl.isSome
    let frames := if st.links.contains p then [(p, if accepted then s!"{p}>ack:{c}:1" else s!"{p}>nack:{c}")] else []
    if accepted then
      let st' := { st with store := setKey st.store c (st.now + ttl.getD 0 * second), model := clear st.model c }
      (st', modelLine st' frames, judge st' false (some c) impl)
    else (st, modelLine st frames, judge st false none impl)
  | ["tick"] =>
    let st := startNode st
    let (m, fr) := process st.raw.toCfg (envOf st) st.now st.wall st.model
    let st' := { st with model := m }
    (st', modelLine st' (reqFrames fr), judge st' true none impl)
  | _ => (st, "bad-op", "ok")

def machine : Machine St := { init := {}, step := step }

end EphVerif.DriverC24

def main (args : List String) : IO UInt32 := EphVerif.Proto.runMain EphVerif.DriverC24.machine args
