import EphVerif.Driver.Proto
import EphVerif.Monitor.Ttl

open EphVerif EphVerif.Proto EphVerif.Gen.C02 EphVerif.TtlMon

namespace EphVerif.DriverC02

structure St where
  now : Int
  off : Int
  /-- configuration the node was constructed from -/
  cfg : Option Cfg
  /-- the window the *implementation* reported for its node (min, max), used by the monitor -/
  implWin : Option (Int × Int)
  /-- steady deadline of the key-share record last published per chunk id (`publish_shards` sees it) -/
  shards : List (String × Int) := []

def int1 (f : Int → Int) (v : String) : String := match v.toInt? with | some x => toString (f x) | none => "bad-op"

def step (st : St) (tok : List String) (_line : String) (impl : Option String) : St × String × String :=
  match tok with
  | ["adv", n] =>
    match n.toInt? with
    | some d => ({ st with now := st.now + d }, "ok", "ok")
    | none => (st, "bad-op", "ok")
  | ["wall", n] =>
    match n.toInt? with
    | some d => ({ st with off := d }, "ok", "ok")
    | none => (st, "bad-op", "ok")
  | "cfg" :: rest =>
    match parseCfg rest with
    | none => (st, "bad-op", "ok")
    | some c =>
      let eff := Ttl.effective c
      -- monitor: the limits the implementation reports must satisfy the specification
      let (win, verdict) := match impl with
        | none => (none, "ok")
        | some line =>
          match parseCfg (tokens line) with
          | none => (none, "viol:config:unparsable")
          | some ic =>
            match C02Spec.configViolation (Ttl.limits ic) with
            | some why => (some (ic.min_manifest_ttl, ic.max_manifest_ttl), s!"viol:config:{why}")
            | none => (some (ic.min_manifest_ttl, ic.max_manifest_ttl), "ok")
      ({ st with cfg := some c, implWin := win, shards := [] }, fmtCfg eff, verdict)
  | ["rot", v] => (st, int1 sanitize_key_rotation_interval v, "ok")
  | ["smin", v] => (st, int1 sanitize_manifest_min v, "ok")
  | ["aint", v] => (st, int1 sanitize_announce_interval v, "ok")
  | ["awin", v] => (st, int1 sanitize_announce_window v, "ok")
  | ["smax", v, m] =>
    match v.toInt?, m.toInt? with
    | some v, some m => (st, toString (sanitize_manifest_max v m), "ok")
    | _, _ => (st, "bad-op", "ok")
  | ["clamp", a, b, c] =>
    match a.toInt?, b.toInt?, c.toInt? with
    | some a, some b, some c => (st, toString (clamp_chunk_ttl a b c), "ok")
    | _, _, _ => (st, "bad-op", "ok")
  | ["enforce", a, b, c] =>
    match a.toInt?, b.toInt?, c.toInt? with
    | some a, some b, some c => (st, fmtOpt (enforce_manifest_ttl a b c), "ok")
    | _, _, _ => (st, "bad-op", "ok")
  | ["mttl", e] =>
    match st.cfg, e.toInt? with
    | some c, some e => (st, fmtOpt (manifest_ttl (e * ns) (Ttl.effective c) (st.now + st.off)), "ok")
    | none, _ => (st, "no-node", "ok")
    | _, _ => (st, "bad-op", "ok")
  | ["put", t] =>
    match st.cfg, t.toInt? with
    | some c, some t => (st, toString (Ttl.chunkStorePut (Ttl.effective c) t st.now - st.now), "ok")
    | none, _ => (st, "no-node", "ok")
    | _, _ => (st, "bad-op", "ok")
  | ["store", ck, t] =>
    match st.cfg, t.toInt? with
    | some c, some t =>
      let prev := ((st.shards.find? fun p => p.1 == ck).map (·.2)).getD 0
      let d := Ttl.storeChunk c t st.now (st.now + st.off) prev
      let st := { st with shards := (st.shards.filter fun p => p.1 != ck) ++ [(ck, st.now + d.shard)] }
      let verdict := match impl, st.implWin with
        | some line, some (mn, mx) =>
          match parseStore (tokens line) with
          | none => "viol:store:unparsable"
          | some id => match C02Spec.storeViolation mn mx id with
            | some why => s!"viol:store:{why}"
            | none => "ok"
        | _, _ => "ok"
      (st, fmtStore d, verdict)
    | none, _ => (st, "no-node", "ok")
    | _, _ => (st, "bad-op", "ok")
  | ["ctl", hdr] =>
    match st.cfg with
    | none => (st, "no-node", "ok")
    | some c =>
      let header : Option Nat := if hdr == "-" then none else if hdr == "e" then none else parseU64 hdr
      let accepted : Option Int :=
        if hdr == "-" then Ttl.controlStoreDefault c
        else match header with
          | some h => Ttl.controlStore c h
          | none => none
      -- every control STORE of the harness carries the same payload, hence the same chunk id
      let prev := ((st.shards.find? fun p => p.1 == "#ctl").map (·.2)).getD 0
      let stored := accepted.map fun t => Ttl.storeChunk c t st.now (st.now + st.off) prev
      let st := match stored with
        | some d => { st with shards := (st.shards.filter fun p => p.1 != "#ctl") ++ [("#ctl", st.now + d.shard)] }
        | none => st
      let out := match stored with
        | some d => "ok " ++ fmtStore d
        | none => if hdr != "-" && header.isNone then "rej:ERR_STORE_TTL_INVALID" else "rej:ERR_STORE_TTL_OUT_OF_RANGE"
      -- monitor: an accepted STORE carries a TTL inside the window and records lifetimes inside it
      let verdict := match impl, st.implWin with
        | some line, some (mn, mx) =>
          if line.startsWith "ok" then
            let hv : String := match header with
              | some h => if decide (C02Spec.ControlOk mn mx h true) then "" else s!"viol:control:accepted TTL {h} outside [{mn},{mx}]"
              | none => ""
            if hv != "" then hv else
            match parseStore (tokens line) with
            | none => "viol:store:unparsable"
            | some id => match C02Spec.storeViolation mn mx id with
              | some why => s!"viol:store:{why}"
              | none => "ok"
          else "ok"
        | _, _ => "ok"
      (st, out, verdict)
  | _ => (st, "bad-op", "ok")

def machine : Machine St := { init := ⟨vclockStart, defaultWallOffset, none, none, []⟩, step := step }

end EphVerif.DriverC02

def main (args : List String) : IO UInt32 := EphVerif.Proto.runMain EphVerif.DriverC02.machine args
