import EphVerif.Monitor.Relay

/-- C26 driver: relay model + the C26 clauses (resources, crash) of the relay specification as monitor. -/
def main (args : List String) : IO UInt32 :=
  EphVerif.Proto.runMain (EphVerif.RelayMon.machine .c26) args
