import EphVerif.Driver.Proto
import EphVerif.Model.NodeCleanup
import EphVerif.Spec.NodeCleanup

/-!
Line-protocol driver for C05 (same ops and output format as harness/cleanup_h.cpp).

Model column: `Model/NodeCleanup.lean` run on the op.  Verdict column: the *specification*
(`Spec/NodeCleanup.lean`) judging the implementation's line:
  * every `tick`/`dump` line is parsed into a `C05Spec.Dump` (absolute expiries = the line's relative
    values + the clock) and judged by `judgeDump` at the time of the most recent cleanup the
    specification says has happened (`expired-chunk`, `expired-contact`, `expired-locator`,
    `expired-keyshare`, `expired-manifest`, `expired-plan`, `announcement-not-withdrawn`);
  * an `audit` line at the instant of a cleanup is judged by `judgeAudit` (`audit-unhealthy`);
  * every `drain` line is judged by `judgeDrain` against the reports the abstract node `C05Spec.N`
    says are due (`notified-twice`, `not-notified`, `notified-early`).

The pending-fetch table is C24's: the driver keeps the minimum needed to know which `probe`s and
`ingest`s of the model a scheduler pass amounts to; which entries are dispatched is taken from the
implementation's line as a hint (validated: only entries that are pending can be dispatched).
-/
open EphVerif EphVerif.Proto

namespace EphVerif.DriverC05
open EphVerif.NodeCleanup (Cfg State Op)
open EphVerif.C05Spec (Dump Audit)

def vclockStart : Int := 1000000000000
def defaultWallOff : Int := 1700000000000000000
def ns : Int := 1000000000
def selfTok : String := "s1"
def announceAddr : String := "10.0.0.9:4000"

structure Pending where
  chunk : String
  /-- `PendingFetchState::manifest_expires` (wall ns) -/
  expires : Int
  /-- expiry of the manifest in `manifest_uri` (wall ns) -/
  manifest : Int
  /-- key / content tags of that manifest -/
  tag : Nat × Nat

structure St where
  wallOff : Int
  cfg : Option Cfg
  s : State
  spec : C05Spec.N
  params : C05Spec.Params
  keys : List String
  peers : List String
  pending : List Pending
  /-- `spec.reported` at the previous drain -/
  drainedAt : List (String × Nat)
  /-- contents, which the model does not carry: (key id, content id) of the cached manifest of a chunk and key id of
      its key-share record; local stores draw fresh key ids 1, 2, …; the remote publisher's manifest of a chunk has key id 0 -/
  ctag : List (String × (Nat × Nat))
  stag : List (String × Nat)
  stores : Nat

def dummyCfg : Cfg :=
  { node := { store := { defaultTtl := 1, persistent := false, wipeOnExpiry := true, passes := 1 },
              minTtl := 1, maxTtl := 1, cleanupInterval := 1 },
    rebalance := 1, self := "self", selfId := id32 selfTok, wallOff := defaultWallOff }

def St.init : St :=
  { wallOff := defaultWallOff, cfg := none, s := State.init dummyCfg vclockStart, spec := C05Spec.N.init vclockStart,
    params := ⟨1, 1, 1, 1⟩, keys := [], peers := [], pending := [], drainedAt := [], ctag := [], stag := [], stores := 0 }

def clampI (x lo hi : Int) : Int := if x < lo then lo else if x > hi then hi else x

/-! ### formatting (the same canonical form as the harness: items formatted, then sorted as strings) -/

def joinSorted (items : List String) (sep : String) : String :=
  if items.isEmpty then "-" else sep.intercalate (items.mergeSort (fun a b => a ≤ b))

def nameOfId (peers : List String) (id : List Nat) : String :=
  if id == id32 selfTok then "self" else
  match peers.find? (fun p => id32 p == id) with
  | some p => p
  | none => "?" ++ hexOfNats id

def fmtPending (st : St) : String :=
  let W := st.s.now + st.wallOff
  joinSorted (st.pending.map fun p => s!"{p.chunk}:{p.expires - W}") ","

def fmtDump (st : St) : String :=
  let s := st.s
  let now := s.now
  let W := now + st.wallOff
  let ck := s.recs.map fun e => s!"{e.1}:{e.2.expires - now}"
  let lc := st.keys.eraseDups.filterMap fun c => (s.locs c).map fun l =>
    let hs := l.holders.map fun h => s!"{h.peer}:{h.exp - now}"
    s!"{c}@{l.exp - now}" ++ "{" ++ joinSorted hs ";" ++ "}"
  let bk := (Routing.allContacts s.routes).map fun c => s!"{nameOfId st.peers c.id}:{c.exp - now}"
  let sh := s.shards.map fun e => s!"{e.1}:{e.2 - now}"
  let mc := s.cache.map fun e => s!"{e.1}:{e.2 - W}"
  let sp := s.plans.map fun e =>
    let m := match ChunkStore.aget s.cache e.1 with
      | some x => toString (x - W)
      | none => "none"
    s!"{e.1}:{m}:{e.2 - now}"
  s!"ck={joinSorted ck ","} lc={joinSorted lc ","} bk={joinSorted bk ","} sh={joinSorted sh ","} mc={joinSorted mc ","} sp={joinSorted sp ","} pf={fmtPending st}"

def fmtAudit (a : Audit) : String :=
  s!"el={joinSorted a.expiredLocal ","} elc={joinSorted a.expiredLocators ","} ec={joinSorted (a.expiredContacts.map fun e => e.1 ++ "/" ++ e.2) ","} miss={joinSorted a.missing ","} orph={joinSorted a.orphans ","}"

/-! ### reading the implementation's lines -/

def field (line key : String) : Option String :=
  (line.splitOn " ").findSome? fun tok =>
    if tok.startsWith (key ++ "=") then some ((tok.drop (key.length + 1)).toString) else none

def parseList (s : String) : List String := if s == "-" || s == "" then [] else s.splitOn ","

def parsePair (s : String) : Option (String × Int) :=
  match s.splitOn ":" with
  | [k, v] => v.toInt?.map fun x => (k, x)
  | _ => none

/-- `c@rel{p:rel;p:rel}` -/
def parseLocator (base : Int) (s : String) : Option (String × Int × List (String × Int)) :=
  match s.splitOn "{" with
  | [hd, tl] =>
    match hd.splitOn "@" with
    | [c, e] =>
      let inner := (tl.dropEnd 1).toString
      let hs := if inner == "-" || inner == "" then some [] else (inner.splitOn ";").mapM parsePair
      match e.toInt?, hs with
      | some ev, some l => some (c, base + ev, l.map fun h => (h.1, base + h.2))
      | _, _ => none
    | _ => none
  | _ => none

/-- `c:manifest rel|none:next rel` -/
def parsePlan (W : Int) (s : String) : Option (String × Option Int) :=
  match s.splitOn ":" with
  | [c, m, _] => if m == "none" then some (c, none) else m.toInt?.map fun x => (c, some (W + x))
  | _ => none

def parseDump (now W : Int) (line : String) : Option Dump := do
  let ck ← (parseList (← field line "ck")).mapM parsePair
  let lc ← (parseList (← field line "lc")).mapM (parseLocator now)
  let bk ← (parseList (← field line "bk")).mapM parsePair
  let sh ← (parseList (← field line "sh")).mapM parsePair
  let mc ← (parseList (← field line "mc")).mapM parsePair
  let sp ← (parseList (← field line "sp")).mapM (parsePlan W)
  let ab := fun (l : List (String × Int)) (b : Int) => l.map fun e => (e.1, b + e.2)
  pure { chunks := ab ck now, locators := lc, contacts := ab bk now, shards := ab sh now, manifests := ab mc W, plans := sp }

def parseAudit (line : String) : Option Audit := do
  let el ← field line "el"
  let elc ← field line "elc"
  let ec ← field line "ec"
  let miss ← field line "miss"
  let orph ← field line "orph"
  let ecs := (parseList ec).map fun s => match s.splitOn "/" with
    | [c, p] => (c, p)
    | _ => (s, "")
  pure { expiredLocal := parseList el, expiredLocators := parseList elc, expiredContacts := ecs,
         missing := parseList miss, orphans := parseList orph }

def isCrash (impl : String) : Bool := impl.startsWith "crash" || impl.startsWith "throw" || impl == "<missing>"

/-- the dump clause: judged at the time of the latest cleanup the specification knows of -/
def dumpVerdict (st : St) (impl : Option String) : String :=
  match impl with
  | none => "ok"
  | some line =>
    if isCrash line then "ok" else
    match parseDump st.s.now (st.s.now + st.wallOff) line with
    | none => "viol:malformed-dump"
    | some d =>
      let T := st.spec.lastCleanup
      match C05Spec.judgeDump "self" T (T + st.wallOff) d with
      | none => "ok"
      | some c => "viol:" ++ c

/-! ### manifest contents (repair C11-1) -/

def chunkNo (c : String) : Nat := ((c.drop 1).toString).toNat?.getD 0

/-- the remote publisher's manifest: its own key; same content as a local store for odd-numbered chunks -/
def originTag (c : String) : Nat × Nat := (0, if chunkNo c % 2 == 0 then 2 else 1)

def setTag {α : Type} (l : List (String × α)) (c : String) (v : α) : List (String × α) := (c, v) :: l.filter (·.1 != c)

/-- the manifest an op carries: `s` = the one the node has cached for the chunk, if any -/
def tagOf (st : St) (c : String) (src : String) : Nat × Nat :=
  if src == "s" && (ChunkStore.aget st.s.cache c).isSome then (st.ctag.lookup c).getD (originTag c) else originTag c

/-- outcome of the comparisons `manifest_keeps_held_chunk_readable` performs -/
def sameAs (st : St) (c : String) (m : Nat × Nat) : Bool :=
  let cached := if (ChunkStore.aget st.s.cache c).isSome then st.ctag.lookup c else none
  let hashOk := match cached with
    | some t => t.2 == m.2
    | none => true
  let current : Option Nat := if NodeCleanup.shardLive st.s c then st.stag.lookup c else cached.map (·.1)
  let keyOk := match current with
    | some k => k == m.1
    | none => true
  hashOk && keyOk

/-- model `ingest` with the contents bookkeeping -/
def doIngest (cfg : Cfg) (st : St) (c : String) (e : Int) (m : Nat × Nat) : St × Bool :=
  let same := sameAs st c m
  let ttlOk := (NodeCleanup.manifestTtl cfg (st.s.now + st.wallOff) e).isSome
  let adopted := ttlOk && (!EphVerif.Gen.C05.ingestGuardsHeld || NodeCleanup.keepsReadable st.s c same)
  let st1 := { st with s := NodeCleanup.step cfg st.s (.ingest c e same) }
  (if adopted then { st1 with ctag := setTag st1.ctag c m, stag := setTag st1.stag c m.1 } else st1, adopted)

/-! ### the fetch scheduler pass (`process_pending_fetches`) as model operations -/

def held (st : St) (c : String) : Bool := (ChunkStore.getRecord st.s.recs st.s.now c).isSome

/-- returns the state after the pass and whether every dispatch hint named a pending entry -/
def processPending (cfg : Cfg) (st : St) (hints : List String) : St × Bool :=
  if st.pending.isEmpty then (st, hints.isEmpty) else
  let W := st.s.now + st.wallOff
  -- first loop: held → completed; refresh_provider_count (interval 0: always) → find_providers; expired → completed
  let notHeld := st.pending.filter fun p => !(held st p.chunk)
  let s1 := notHeld.foldl (fun s p => NodeCleanup.probe s p.chunk) st.s
  let kept := notHeld.filter fun p => !(p.expires != 0 && decide (W ≥ p.expires))
  -- dispatch: request_chunk → ingest_manifest of the entry's manifest
  let okHints := hints.all fun h => kept.any (·.chunk == h)
  let st2 := kept.foldl (fun acc p => if hints.contains p.chunk then (doIngest cfg acc p.chunk p.manifest p.tag).1 else acc)
    { st with s := s1, pending := kept }
  (st2, okHints)

def addKey (st : St) (c : String) : St := if st.keys.contains c then st else { st with keys := c :: st.keys }
def addPeer (st : St) (p : String) : St := if st.peers.contains p then st else { st with peers := p :: st.peers }

def specStep (st : St) (ev : C05Spec.Ev) : St := { st with spec := C05Spec.step st.params st.spec ev }

def step (st : St) (tok : List String) (_line : String) (impl : Option String) : St × String × String :=
  match tok, st.cfg with
  | ["wall", off], _ =>
    match off.toInt? with
    | some o => ({ st with wallOff := o }, "ok", "ok")
    | none => (st, "bad-op", "ok")
  | ["cfg", d, mn, mx, ci, rb], _ =>
    match d.toInt?, mn.toInt?, mx.toInt?, ci.toInt?, rb.toInt? with
    | some d, some mn, some mx, some ci, some rb =>
      -- sanitize_config (C02): min into [1, 86400], max into [min, 86400], default into [min, max]
      let mn := clampI mn 1 86400
      let mx := clampI (if mx < mn then mn else mx) 1 86400
      let d := clampI d mn mx
      let cfg : Cfg :=
        { node := { store := { defaultTtl := d, persistent := false, wipeOnExpiry := true, passes := 1 },
                    minTtl := mn, maxTtl := mx, cleanupInterval := ci },
          rebalance := rb, self := "self", selfId := id32 selfTok, wallOff := st.wallOff }
      ({ St.init with wallOff := st.wallOff, cfg := some cfg, s := State.init cfg vclockStart,
                      params := ⟨d, mn, mx, ci⟩ }, s!"{d} {mn} {mx} {ci} {rb}", "ok")
    | _, _, _, _, _ => (st, "bad-op", "ok")
  | _, none => (st, "no-node", "ok")
  | ["adv", n], some cfg =>
    match n.toNat? with
    | some d => (specStep { st with s := NodeCleanup.step cfg st.s (.adv d) } (.adv d), "ok", "ok")
    | none => (st, "bad-op", "ok")
  | ["store", c, ttl], some cfg =>
    match ttl.toInt? with
    | some t =>
      let st := addKey st c
      let s' := NodeCleanup.step cfg st.s (.store c t none)
      let life := match ChunkStore.aget s'.recs c with
        | some r => toString (r.expires - s'.now)
        | none => "-"
      let k := st.stores + 1
      (specStep { st with s := s', stores := k, ctag := setTag st.ctag c (k, 1), stag := setTag st.stag c k } (.store c t),
        s!"ok ck={life}", "ok")
    | none => (st, "bad-op", "ok")
  | "ingest" :: c :: e :: rest, some cfg =>
    match e.toInt? with
    | some es =>
      let st := addKey st c
      let m := tagOf st c (rest.headD "o")
      let (st', adopted) := doIngest cfg st c (es * ns) m
      (st', if adopted then "r=1" else "r=0", "ok")
    | none => (st, "bad-op", "ok")
  | "announce" :: c :: e :: p :: ttl :: asg :: rest, some cfg =>
    match e.toInt?, ttl.toInt? with
    | some es, some t =>
      let st := addPeer (addKey st c) p
      let W := st.s.now + st.wallOff
      let m := tagOf st c (rest.headD "o")
      let same := sameAs st c m
      let acc := (NodeCleanup.manifestTtl cfg W (es * ns)).isSome
      let adopted := acc && (!EphVerif.Gen.C05.announceGuardsHeld || NodeCleanup.keepsReadable st.s c same)
      let wasHeld := held st c
      let st1 := { st with s := NodeCleanup.step cfg st.s (.announce c (es * ns) same p (id32 p) announceAddr t none) }
      let st1 := if adopted then { st1 with ctag := setTag st1.ctag c m, stag := setTag st1.stag c m.1 } else st1
      if acc && asg == "1" && !wasHeld then
        -- schedule_assigned_fetch: (re)target the entry, forced availability refresh, scheduler pass
        let cap := W + cfg.node.maxTtl * ns
        let entry : Pending := ⟨c, if es * ns < cap then es * ns else cap, es * ns, m⟩
        let st2 := { st1 with pending := (st1.pending.filter (·.chunk != c)) ++ [entry], s := NodeCleanup.probe st1.s c }
        let hints := parseList ((impl.bind (field · "disp")).getD "-")
        let (st3, okh) := processPending cfg st2 hints
        (st3, s!"r=1 disp={if okh then joinSorted hints "," else "bad-hint"} pf={fmtPending st3}", "ok")
      else
        (st1, s!"r={if acc then "1" else "0"} disp=- pf={fmtPending st1}", "ok")
    | _, _ => (st, "bad-op", "ok")
  | ["reannounce", c, ttl], some cfg =>
    match ttl.toInt? with
    | some t =>
      let st := addKey st c
      let does := match ChunkStore.getRecord st.s.recs st.s.now c with
        | some r => !(decide (st.s.now + t * ns < r.expires))
        | none => false
      ({ st with s := NodeCleanup.step cfg st.s (.reannounce c t none) }, if does then "ok" else "skip", "ok")
    | none => (st, "bad-op", "ok")
  | ["lookup", c], some cfg =>
    let st := addKey st c
    let hit := held st c
    let s' := NodeCleanup.step cfg st.s (.lookup c)
    -- fetch_chunk re-published the key shares from the cached manifest
    let stag' := if ChunkStore.aget s'.shards c != ChunkStore.aget st.s.shards c then
        setTag st.stag c ((st.ctag.lookup c).getD (originTag c)).1 else st.stag
    ({ st with s := s', stag := stag' }, if hit then "hit" else "miss", "ok")
  | ["probe", c], some cfg =>
    let st := addKey st c
    let n := NodeCleanup.probeCount cfg st.s c
    ({ st with s := NodeCleanup.step cfg st.s (.probe c) }, s!"n={n}", "ok")
  | ["tick"], some cfg =>
    let st1 := specStep { st with s := NodeCleanup.step cfg st.s .tick } .tick
    let since := st1.s.now - st1.s.lastCleanup
    let hints := parseList ((impl.bind (field · "disp")).getD "-")
    let (st2, okh) := processPending cfg st1 hints
    (st2, s!"since={since} disp={if okh then joinSorted hints "," else "bad-hint"} {fmtDump st2}", dumpVerdict st2 impl)
  | ["dump"], some _ => (st, fmtDump st, dumpVerdict st impl)
  | ["drain"], some cfg =>
    let out := joinSorted st.s.notes ","
    let expected := fun k => st.spec.reported.get k - ((st.drainedAt.lookup k).getD 0)
    let ever := fun k => decide (st.spec.reported.get k > 0)
    let verdict := match impl with
      | none => "ok"
      | some line =>
        if isCrash line then "ok" else
        match C05Spec.judgeDrain st.keys expected ever (parseList line) with
        | none => "ok"
        | some c => "viol:" ++ c
    ({ st with s := NodeCleanup.step cfg st.s .drain,
               drainedAt := st.keys.map fun k => (k, st.spec.reported.get k) }, out, verdict)
  | ["audit"], some cfg =>
    let a := NodeCleanup.audit cfg st.keys st.s
    let verdict := match impl with
      | none => "ok"
      | some line =>
        if isCrash line then "ok"
        else if st.spec.lastCleanup != st.spec.now then "ok"
        else match parseAudit line with
          | none => "viol:malformed-audit"
          | some r => match C05Spec.judgeAudit r with
            | none => "ok"
            | some c => "viol:" ++ c
    (st, fmtAudit a, verdict)
  | _, _ => (st, "bad-op", "ok")

def machine : Machine St := { init := St.init, step := step }

end EphVerif.DriverC05

def main (args : List String) : IO UInt32 := EphVerif.Proto.runMain EphVerif.DriverC05.machine args
