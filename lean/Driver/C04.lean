import EphVerif.Monitor.ChunkStore

/-- C04 driver: same machine, for the harness build with file-system tracing and crash injection. -/
def main (args : List String) : IO UInt32 :=
  EphVerif.Proto.runMain (EphVerif.StoreMonitor.machine true) args
