import EphVerif.Driver.Proto
import EphVerif.Model.CliFetch
import EphVerif.Spec.CliFetch
import EphVerif.Spec.Sha256

open EphVerif EphVerif.Proto

namespace EphVerif.DriverC30
open EphVerif.CliFetch

def sha (b : List UInt8) : List UInt8 := EphVerif.Spec.sha256 b

def parseBase (s : String) : Option (Mode × Nat) :=
  match s with
  | "auto" => some (.auto, 0)
  | "direct" => some (.direct, 1)
  | "tonly" => some (.transportOnly, 2)
  | "cfb" => some (.controlFallback, 3)
  | _ => none

/-- `<mode>[+past|+now|+far|+thr0|+thrbig|+nopub|+undec1|+undec2|+undec3|+undec4]*` : the discovery mode and the state
of the manifest the harness crafts -/
def parseMode (s : String) : Option (Mode × Nat × MState) :=
  match s.splitOn "+" with
  | [] => none
  | base :: flags =>
    match parseBase base with
    | none => none
    | some (m, c) =>
      let known := ["past", "now", "far", "thr0", "thrbig", "nopub", "undec1", "undec2", "undec3", "undec4"]
      if flags.all known.contains then
        some (m, c, { decodable := !(flags.any (·.startsWith "undec"))
                      expired := flags.contains "past" || flags.contains "now"
                      keyOk := !(flags.contains "thr0" || flags.contains "thrbig")
                      publisher := !flags.contains "nopub" })
      else none

/-- `ok=<hex>`, `chunk=<hex>` (empty hex = empty payload), `nop`, `down`, everything else fails -/
def parseResp (script : String) : Option Resp :=
  match script.splitOn "=" with
  | [verb, h] =>
    let body := bytesOfHex (if h.isEmpty then "-" else h)
    if verb == "ok" || verb == "chunk" then body.map Resp.payload
    -- `oks…`: the SIZE header is wrong, missing or garbage; it is informational, what counts are the bytes delivered
    else if verb.startsWith "oks" then body.map Resp.payload
    -- `okl<N>`: PAYLOAD-LENGTH announces N bytes: the client reads exactly N (a prefix) or the stream ends early
    else if verb.startsWith "okl" then
      match (verb.drop 3).toString.toNat?, body with
      | some n, some b => if n ≤ b.length then some (.payload (b.take n)) else some .fail
      | _, _ => none
    else if verb == "trunc" || verb == "nostatus" then some .fail
    else none
  | [verb] =>
    if verb == "nop" then some .okNoPayload
    else if verb == "down" then some .down
    else if verb == "err" || verb == "nack" || verb == "close" || verb == "badhs" then some .fail
    else none
  | _ => none

structure Ep where
  idx : Nat
  kindCode : Nat      -- 0 t, 1 r, 2 c, 3 f, 4 l
  prio : Nat
  resp : Resp

def parseEp (idx : Nat) (tok : String) : Option Ep :=
  match tok.splitOn ":" with
  | [k, p, s] =>
    let kc := match k with | "t" => some 0 | "r" => some 1 | "c" => some 2 | "f" => some 3 | "l" => some 4 | _ => none
    match kc, p.toNat?, parseResp s with
    | some kc, some p, some r => some ⟨idx, kc, p, r⟩
    | _, _, _ => none
  | _ => none

def parseEps (toks : List String) : Option (List Ep) :=
  (toks.zipIdx).mapM fun (t, i) => parseEp i t

def kindOf : Nat → Kind
  | 0 => .transport | 1 => .relay | 2 => .control | _ => .fallback

def offerOf (m : MState) (e : Ep) : Spec.CliFetch.Offer :=
  { kind := e.kindCode
    -- a transport path the manifest's own state rules out is not one the property obliges the CLI to use
    reachable := e.resp != .down && (e.kindCode ≥ 2 || (m.publisher && !m.expired && m.keyOk))
    payload := match e.resp with | .payload b => some b | _ => none
    okWithoutPayload := e.kindCode ≥ 2 && e.resp == .okNoPayload }

def fmtFile : Option (List UInt8) → String
  | none => "-"
  | some [] => "empty"
  | some b => hexOfBytes b

def fmtTried (l : List Nat) : String :=
  if l.isEmpty then "-" else ",".intercalate (l.map toString)

def field (line key : String) : Option String :=
  (line.splitOn " ").findSome? fun tok =>
    if tok.startsWith (key ++ "=") then some ((tok.drop (key.length + 1)).toString) else none

def parseFile (s : String) : Option (Option (List UInt8)) :=
  if s == "-" then some none
  else if s == "empty" then some (some [])
  else (bytesOfHex s).map some

def step (st : Unit) (tok : List String) (_line : String) (impl : Option String) : Unit × String × String :=
  match tok with
  | "fetch" :: modeTok :: p :: rest =>
    match parseMode modeTok, bytesOfHex p, parseEps rest with
    | some (mode, modeCode, ms), some payload, some eps =>
      let h := sha payload
      let paths := (eps.filter (·.kindCode < 4)).map fun e => (⟨e.idx, kindOf e.kindCode, e.prio, e.resp⟩ : Path)
      let (li, loc) := match eps.find? (·.kindCode == 4) with
        | some e => (e.idx, e.resp)
        | none => (0, Resp.down)
      let r := fetchM sha ms mode h paths li loc
      let out := s!"exit={r.exit} file={fmtFile r.file} tried={fmtTried r.tried}"
      let verdict := match impl with
        | none => "ok"
        | some i =>
          match field i "exit" |>.bind String.toNat?, field i "file" |>.bind parseFile with
          | some ex, some file => Spec.CliFetch.judge sha ms.decodable modeCode h (eps.map (offerOf ms)) file ex
          | _, _ => if i.startsWith "crash:" then "ok" else s!"viol:unexpected-output:{i.take 60}"
      (st, out, verdict)
    | _, _, _ => (st, "bad-op", "ok")
  | _ => (st, "bad-op", "ok")

def machine : Machine Unit := { init := (), step := step }

end EphVerif.DriverC30

def main (args : List String) : IO UInt32 := EphVerif.Proto.runMain EphVerif.DriverC30.machine args
