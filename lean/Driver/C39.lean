import EphVerif.Driver.Proto
import EphVerif.Model.Rotation
import EphVerif.Spec.Rotation
import EphVerif.Spec.Hmac

/-!
Driver for C39 (ops and line format: see harness/rotation_h.cpp).

Model column: `EphVerif.Rotation` (the code as it is — known finding, nothing repaired) with
`EphVerif.Spec.hmacSha256`.  The Diffie-Hellman secret and public values of a handshake are taken
from the implementation's line as hints (that both ends derive one secret is C12's theorem; the
monitor nevertheless checks that the two hinted secrets are equal).

Verdict column: the implementation's observation judged by `EphVerif.Spec.Rotation`:
  rotation-unequal-keys            both ends hold an open session, their keys differ, and at least one end has
                                   rotated since the handshake   (the known finding)
  unequal-before-rotation          … and neither end has rotated yet
  rotation-not-due                 a tick/rotate changed an end's key although less than that end's interval had
                                   passed on its clock since its last rotation
  key-changed-unprompted           an end's key changed in an op that is not its tick/rotate/handshake
  message-rejected-same-keys /     the fate of a message disagrees with key equality
  message-accepted-different-keys
  handshake-secrets-differ, format
-/
open EphVerif EphVerif.Proto

namespace EphVerif.DriverC39

abbrev Bytes := List UInt8

def vclockStart : Int := 1000000000000

structure Seen where
  kA : Option Bytes := none
  kB : Option Bytes := none
  sA : Option Bytes := none
  sB : Option Bytes := none
  cA : Option Nat := none
  cB : Option Nat := none
  lA : Option Int := none
  lB : Option Int := none
  oA : Bool := false
  oB : Bool := false

structure St where
  now : Int := vclockStart
  sys : Rotation.Sys := { a := Rotation.Node.fresh 0, b := Rotation.Node.fresh 0 }
  /-- effective intervals reported by the implementation at `nodes` (monitor only) -/
  ivA : Int := 0
  ivB : Int := 0
  pubA : Nat := 0
  pubB : Nat := 0
  /-- the previous observation of the implementation (monitor only) -/
  prev : Seen := {}
  havePrev : Bool := false

def hexOpt (b : Option Bytes) : String := match b with | some x => hexOfBytes x | none => "-"
def natOpt (n : Option Nat) : String := match n with | some x => toString x | none => "-"
def intOpt (n : Option Int) : String := match n with | some x => toString x | none => "-"
def bit (b : Bool) : String := if b then "1" else "0"

def fmtSeen (o : Seen) : String :=
  s!"kA={hexOpt o.kA} kB={hexOpt o.kB} sA={hexOpt o.sA} sB={hexOpt o.sB} cA={natOpt o.cA} cB={natOpt o.cB} " ++
  s!"lA={intOpt o.lA} lB={intOpt o.lB} oA={bit o.oA} oB={bit o.oB}"

def seenOfModel (s : Rotation.Sys) : Seen :=
  { kA := s.a.key, kB := s.b.key,
    sA := if s.a.sessionOpen then s.a.sessionKey else none, sB := if s.b.sessionOpen then s.b.sessionKey else none,
    cA := s.a.ctx.map (·.counter), cB := s.b.ctx.map (·.counter),
    lA := s.a.ctx.map (·.lastRotation), lB := s.b.ctx.map (·.lastRotation),
    oA := s.a.sessionOpen, oB := s.b.sessionOpen }

def field (toks : List String) (name : String) : Option String :=
  (toks.find? fun t => t.startsWith (name ++ "=")).map fun t => (t.drop (name.length + 1)).toString

def optBytes (s : String) : Option (Option Bytes) := if s == "-" then some none else (bytesOfHex s).map some
def optNat (s : String) : Option (Option Nat) := if s == "-" then some none else s.toNat?.map some
def optInt (s : String) : Option (Option Int) := if s == "-" then some none else s.toInt?.map some

def parseSeen (toks : List String) : Option Seen := do
  let kA ← (← field toks "kA") |> optBytes
  let kB ← (← field toks "kB") |> optBytes
  let sA ← (← field toks "sA") |> optBytes
  let sB ← (← field toks "sB") |> optBytes
  let cA ← (← field toks "cA") |> optNat
  let cB ← (← field toks "cB") |> optNat
  let lA ← (← field toks "lA") |> optInt
  let lB ← (← field toks "lB") |> optInt
  let oA ← field toks "oA"
  let oB ← field toks "oB"
  pure { kA, kB, sA, sB, cA, cB, lA, lB, oA := oA == "1", oB := oB == "1" }

/-- which end's key an op is allowed to change -/
inductive Touch | none | a | b | both

/-- the monitor: the implementation's observation `o` after an op, judged against the property -/
def judge (st : St) (touch : Touch) (nowAfter : Int) (o : Seen) (msg : Option (Bool × Bool)) : String :=
  let changedA := st.havePrev && st.prev.kA != o.kA
  let changedB := st.havePrev && st.prev.kB != o.kB
  let allowA := match touch with | .a | .both => true | _ => false
  let allowB := match touch with | .b | .both => true | _ => false
  let isBoth := match touch with | .both => true | _ => false
  let notDue (changed : Bool) (last : Option Int) (iv : Int) : Bool :=
    changed && !isBoth && (match last with | some l => decide (nowAfter - l < iv) | none => false)
  if changedA && !allowA then "viol:key-changed-unprompted:A"
  else if changedB && !allowB then "viol:key-changed-unprompted:B"
  else if notDue changedA st.prev.lA st.ivA then "viol:rotation-not-due:A"
  else if notDue changedB st.prev.lB st.ivB then "viol:rotation-not-due:B"
  else
    let obs : Spec.Rotation.Obs := { openA := o.oA, openB := o.oB, keyA := o.kA, keyB := o.kB }
    if !decide (Spec.Rotation.Consistent obs) then
      if o.cA.getD 0 == 0 && o.cB.getD 0 == 0 then "viol:unequal-before-rotation"
      else s!"viol:rotation-unequal-keys:counters {natOpt o.cA}/{natOpt o.cB}, last rotations {intOpt o.lA}/{intOpt o.lB}"
    else
      match msg with
      | some (fromA, verified) =>
        let ks := if fromA then o.kA else o.kB
        let kr := if fromA then o.kB else o.kA
        let want := Spec.Rotation.accepts ks kr
        if verified == want then "ok"
        else if want then "viol:message-rejected-same-keys" else "viol:message-accepted-different-keys"
      | none => "ok"

def hmac := Spec.hmacSha256

def finish (st : St) (sys : Rotation.Sys) (now : Int) (pre : String) (touch : Touch) (impl : Option String)
    (msg : Option (Bool × Bool)) : St × String × String :=
  let model := pre ++ fmtSeen (seenOfModel sys)
  match impl with
  | none => ({ st with sys := sys, now := now }, model, "ok")
  | some line =>
    match parseSeen (tokens line) with
    | none => ({ st with sys := sys, now := now }, model, if line == "bad-op" then "ok" else "viol:format")
    | some o =>
      let v := judge st touch now o msg
      ({ st with sys := sys, now := now, prev := o, havePrev := true }, model, v)

def step (st : St) (tok : List String) (_line : String) (impl : Option String) : St × String × String :=
  let implTok := (impl.map tokens).getD []
  match tok with
  | ["nodes", a, b, _sa, _sb] =>
    match a.toInt?, b.toInt? with
    | some ia, some ib =>
      let sys : Rotation.Sys := { a := Rotation.Node.fresh ia, b := Rotation.Node.fresh ib }
      -- hints: public values (for the handshake material); the implementation's effective intervals feed the monitor
      let pubs := ((field implTok "pub").getD "0/0").splitOn "/"
      let ivs := ((field implTok "iv").getD s!"{sys.a.interval}/{sys.b.interval}").splitOn "/"
      let pA := (pubs.getD 0 "0").toNat?.getD 0
      let pB := (pubs.getD 1 "0").toNat?.getD 0
      let st' : St := { now := vclockStart, sys := sys, pubA := pA, pubB := pB,
                        ivA := (ivs.getD 0 "0").toInt?.getD sys.a.interval, ivB := (ivs.getD 1 "0").toInt?.getD sys.b.interval }
      finish st' sys vclockStart s!"iv={sys.a.interval}/{sys.b.interval} pub={pA}/{pB} " .none impl none
    | _, _ => (st, "bad-op", "ok")
  | ["hs", d] =>
    match d.toInt? with
    | some delta =>
      let secs := ((field implTok "sec").getD "-/-").splitOn "/"
      let secA := (bytesOfHex (secs.getD 0 "-")).getD []
      let secB := (bytesOfHex (secs.getD 1 "-")).getD []
      let mat := Rotation.handshakeMaterial st.pubA st.pubB
      let a := { st.sys.a.handshake hmac secA mat st.now with sessionOpen := true }
      let b := { st.sys.b.handshake hmac secB mat (st.now + delta) with sessionOpen := true }
      let pre := s!"hs=11 sec={hexOrDash (hexOfBytes secA)}/{hexOrDash (hexOfBytes secB)} "
      let r := finish st { a := a, b := b } (st.now + delta) pre .both impl none
      if impl.isSome && secA != secB then (r.1, r.2.1, "viol:handshake-secrets-differ") else r
    | none => (st, "bad-op", "ok")
  | ["reg", s] =>
    match bytesOfHex s with
    | some secret =>
      let a := { st.sys.a.registerSecret hmac secret st.now with sessionOpen := true }
      let b := { st.sys.b.registerSecret hmac secret st.now with sessionOpen := true }
      finish st { a := a, b := b } st.now "" .both impl none
    | none => (st, "bad-op", "ok")
  | ["adv", d] =>
    match d.toInt? with
    | some delta => finish st st.sys (st.now + delta) "" .none impl none
    | none => (st, "bad-op", "ok")
  | ["tick", who] =>
    if who == "a" then finish st { st.sys with a := st.sys.a.tick hmac st.now } st.now "" .a impl none
    else if who == "b" then finish st { st.sys with b := st.sys.b.tick hmac st.now } st.now "" .b impl none
    else if who == "ab" then
      -- both ends tick at one clock reading; only the state after both is an observation
      let sys := (st.sys.step hmac (.tickA st.now)).step hmac (.tickB st.now)
      let r := finish { st with prev := st.prev } sys st.now "" .both impl none
      -- `.both` waives the due-check; redo it here for each end
      match impl.bind (fun l => parseSeen (tokens l)) with
      | some o =>
        let early (changed : Bool) (last : Option Int) (iv : Int) : Bool :=
          changed && (match last with | some l => decide (st.now - l < iv) | none => false)
        if r.2.2 == "ok" || r.2.2.startsWith "viol:rotation-unequal-keys" then
          if early (st.havePrev && st.prev.kA != o.kA) st.prev.lA st.ivA then (r.1, r.2.1, "viol:rotation-not-due:A")
          else if early (st.havePrev && st.prev.kB != o.kB) st.prev.lB st.ivB then (r.1, r.2.1, "viol:rotation-not-due:B")
          else r
        else r
      | none => r
    else (st, "bad-op", "ok")
  | ["rot", who] =>
    if who == "a" then
      let a' := st.sys.a.tick hmac st.now
      finish st { st.sys with a := a' } st.now s!"rot={bit (a'.key != st.sys.a.key)} " .a impl none
    else if who == "b" then
      let b' := st.sys.b.tick hmac st.now
      finish st { st.sys with b := b' } st.now s!"rot={bit (b'.key != st.sys.b.key)} " .b impl none
    else (st, "bad-op", "ok")
  | ["msg", dir] =>
    if dir != "ab" && dir != "ba" then (st, "bad-op", "ok") else
    let fromA := dir == "ab"
    -- send_secure re-registers the sender's current key with its session manager
    let sys : Rotation.Sys := if fromA then { st.sys with a := st.sys.a.beforeSend } else { st.sys with b := st.sys.b.beforeSend }
    let snd := if fromA then sys.a else sys.b
    let rcv := if fromA then sys.b else sys.a
    let sent := snd.key.isSome && snd.sessionOpen
    -- transport decryption under the receiver's Session::key, then decode_signed under its session key
    let ok := sent && snd.sessionKey == rcv.sessionKey && Spec.Rotation.accepts snd.key rcv.key
    let implVerified := (field implTok "verify").map (· == "1")
    finish st sys st.now s!"sent={bit sent} verify={bit ok} " .none impl (implVerified.map fun v => (fromA, v))
  | _ => (st, "bad-op", "ok")

def machine : Machine St := { init := {}, step := step }

end EphVerif.DriverC39

def main (args : List String) : IO UInt32 := EphVerif.Proto.runMain EphVerif.DriverC39.machine args
