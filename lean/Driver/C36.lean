/-
C36 has no line-protocol harness (the implementation side is a ThreadSanitizer run); this
executable is the Lean *checker* (`Lockset.violations`) compiled and run on the access table
extracted from the working tree (`Generated/C36.lean`).  Output, one item per line:

  rows <n>                      size of the table
  groups <n>                    number of locations
  keys <true|false>             no location has two groups
  nodup <true|false>            every lockset duplicate-free
  flat-agrees <true|false>      group-by-group and flat evaluation give the same set
  viol <field> <roleA> <roleB>  a (location, role pair) with two conflicting rows and no common lock

`props/C36.py` compares this list with its own computation and with the list the kernel has
checked (`EphVerif.C36.table_violations`).
-/
import EphVerif.Model.Lockset
import EphVerif.Generated.C36

open EphVerif EphVerif.Lockset

def nameOf (names : List String) (i : Nat) : String := names.getD i s!"#{i}"

def main (_args : List String) : IO UInt32 := do
  let groups := Gen.C36.groups
  let table := flattenG groups
  IO.println s!"rows {table.length}"
  IO.println s!"groups {groups.length}"
  IO.println s!"keys {keysNodup groups}"
  IO.println s!"nodup {locksNodup table}"
  let vg := violationsG Gen.C36.multi groups
  let vf := violations Gen.C36.multi table
  -- compiled cross-check of the two evaluators (their equivalence is `mem_violationsG`)
  IO.println s!"flat-agrees {vg.all (vf.contains ·) && vf.all (vg.contains ·)}"
  for v in vg do
    IO.println s!"viol {nameOf Gen.C36.fieldNames v.1} {nameOf Gen.C36.roleNames v.2.1} {nameOf Gen.C36.roleNames v.2.2}"
  return 0
