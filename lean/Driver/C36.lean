/-
C36 has no line-protocol harness (the implementation side is a ThreadSanitizer run); this
executable is the Lean *checker* (`Lockset.violations`) compiled and run on the access table
extracted from the working tree (`Generated/C36.lean`).  Output, one item per line:

  rows <n>                      size of the table
  nodup <true|false>            every lockset duplicate-free
  viol <field> <roleA> <roleB>  a (location, role pair) with two conflicting rows and no common lock

`props/C36.py` compares this list with its own computation and with the list the kernel has
checked (`EphVerif.C36.table_violations`).
-/
import EphVerif.Model.Lockset
import EphVerif.Generated.C36

open EphVerif EphVerif.Lockset

def nameOf (names : List String) (i : Nat) : String := names.getD i s!"#{i}"

def main (_args : List String) : IO UInt32 := do
  let table := toRows Gen.C36.tableRaw
  IO.println s!"rows {table.length}"
  IO.println s!"nodup {locksNodup table}"
  for v in violations Gen.C36.multi table do
    IO.println s!"viol {nameOf Gen.C36.fieldNames v.1} {nameOf Gen.C36.roleNames v.2.1} {nameOf Gen.C36.roleNames v.2.2}"
  return 0
