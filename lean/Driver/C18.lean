import EphVerif.Driver.Proto
import EphVerif.Monitor.Manifest

/-!
Driver for C18 (manifest decoding is total and UB-free).  Op:
  dec <bs>   model: `decodeManifest`; monitor: the implementation answered with a manifest or
             `throw:invalid_argument` (`Res.Acceptable`), not a crash / sanitizer abort / other exception
-/
open EphVerif EphVerif.Proto EphVerif.Manifest EphVerif.Manifest.Wire

namespace EphVerif.DriverC18

def step (_ : Unit) (tok : List String) (_line : String) (impl : Option String) : Unit × String × String :=
  match tok with
  | ["dec", u] =>
    match parseBs u with
    | none => ((), "bad-op", "ok")
    | some uri => ((), fmtDecode (decodeManifest uri), (impl.map monitorDecode).getD "ok")
  | _ => ((), "bad-op", "ok")

def machine : Machine Unit := { init := (), step := step }

end EphVerif.DriverC18

def main (args : List String) : IO UInt32 := EphVerif.Proto.runMain EphVerif.DriverC18.machine args
