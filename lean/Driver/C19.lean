import EphVerif.Driver.Proto
import EphVerif.Model.Pow
import EphVerif.Spec.Pow
import EphVerif.Spec.Sha256

/-!
Driver for C19.  Model output = the `EphVerif.Pow` functions instantiated with `Spec.sha256` and the
`mt19937_64` candidate streams.  Monitor = the specification (`Spec.Pow.lz`, `Spec.Pow.capped`,
`Spec.sha256`) judging the implementation's own preimage, digest, verdict and nonce.
-/

open EphVerif EphVerif.Proto EphVerif.Pow

namespace EphVerif.DriverC19

def sha := Spec.sha256

def hexB (bs : List UInt8) : String := hexOrDash (hexOfBytes bs)
def idBytes (tok : String) : List UInt8 := (id32 tok).map UInt8.ofNat
def b01 (b : Bool) : String := if b then "1" else "0"

/-- `key=value` fields of an output line -/
def field (line key : String) : Option String :=
  (line.splitOn " ").findSome? fun item =>
    if item.startsWith (key ++ "=") then some ((item.drop (key.length + 1)).toString) else none

def natField (line key : String) : Option Nat := (field line key).bind String.toNat?
def bytesField (line key : String) : Option (List UInt8) := (field line key).bind bytesOfHex

def specMeets (digest : List UInt8) (d : Nat) : Bool := decide (d ≤ Spec.Pow.lz digest)

/-- model line and verdict for the `pre= dg= valid=` ops.
    `required` is the number of bits the specification demands (cap already applied where it applies). -/
def preDgValid (surface : String) (pre : List UInt8) (modelValid : Bool) (required : Nat) (impl : Option String) : String × String :=
  let dg := sha pre
  let unobserved := (impl.bind (field · "pre")) == some "?"
  let out := if unobserved then s!"pre=? dg=? valid={b01 modelValid}" else s!"pre={hexB pre} dg={hexB dg} valid={b01 modelValid}"
  let verdict := match impl with
    | none => "ok"
    | some line =>
      if unobserved then
        -- harness built without internals and the validator did not hash (difficulty 0): only the verdict is
        -- visible; it is judged against the digest of the encoding the specification expects
        match field line "valid" with
        | some iv => if iv != b01 (specMeets dg required) then s!"viol:accept-{surface}:lz={Spec.Pow.lz dg} required={required}" else "ok"
        | none => s!"viol:malformed-{surface}"
      else
      match bytesField line "pre", bytesField line "dg", field line "valid" with
      | some ipre, some idg, some iv =>
        if ipre != pre then s!"viol:encoding-{surface}:expected preimage {hexB pre}"
        else if idg != Spec.sha256 ipre then s!"viol:digest-{surface}"
        else if iv != b01 (specMeets idg required) then s!"viol:accept-{surface}:lz={Spec.Pow.lz idg} required={required}"
        else "ok"
      | _, _, _ => s!"viol:malformed-{surface}"
  (out, verdict)

def nonceLine : Option Nat → String
  | some n => s!"nonce={n}"
  | none => "none"

/-- verdict for solver ops: whatever the implementation returns must meet the specification -/
def solverVerdict (surface : String) (enc : Nat → List UInt8) (required : Nat) (impl : Option String) : String :=
  match impl with
  | none => "ok"
  | some line =>
    if line == "none" then "ok" else
    match natField line "nonce" with
    | some n => if specMeets (sha (enc n)) required then "ok" else s!"viol:solver-{surface}:nonce {n} does not meet {required} bits"
    | none => s!"viol:malformed-{surface}"

def announceOf (t : List String) : Option AnnounceFields :=
  match t with
  | [c, p, ep, uri, sh, ttl] =>
    match bytesOfHex ep, bytesOfHex uri, bytesOfHex sh, ttl.toInt? with
    | some ep, some uri, some sh, some ttl => some ⟨idBytes c, idBytes p, ep, uri, sh, ttl⟩
    | _, _, _, _ => none
  | _ => none

def step (_ : Unit) (tok : List String) (_line : String) (impl : Option String) : Unit × String × String :=
  let bad : Unit × String × String := ((), "bad-op", "ok")
  -- an op the harness cannot perform without the repository's private helpers (VERIF_INTERNALS=0): unobserved
  if impl == some "skip" then ((), "skip", "ok") else
  match tok with
  | ["lz", dgHex, d] =>
    match bytesOfHex dgHex, d.toNat? with
    | some dg, some d =>
      let d := d % 256
      -- counters the harness could not reach (built with VERIF_INTERNALS=0) are printed as `?` and not judged
      let hidden (k : String) : Bool := (impl.bind (field · k)) == some "?"
      let l := Spec.Pow.lz dg
      let show' (k : String) (v : String) : String := if hidden k then "?" else v
      let out := s!"node={show' "node" (if dg.length == 32 then toString (clzNode dg) else "-")} store={show' "store" (toString (clzStore dg))} cli={show' "cli" (toString (clzCli dg))} meets={b01 (meetsDifficulty dg d)}"
      let expect := s!"node={show' "node" (if dg.length == 32 then toString l else "-")} store={show' "store" (toString l)} cli={show' "cli" (toString l)} meets={b01 (decide (d ≤ l))}"
      let verdict := match impl with
        | none => "ok"
        | some i => if i == expect then "ok" else s!"viol:counter:expected {expect}"
      ((), out, verdict)
    | _, _ => bad
  | "ann" :: rest =>
    match announceOf (rest.take 6), (rest.getD 6 "").toNat?, (rest.getD 7 "").toNat? with
    | some a, some nonce, some d =>
      if rest.length != 8 then bad else
      let d := d % 256
      let (o, v) := preDgValid "announce" (encAnnounce a nonce) (announcePowValid sha a nonce d) d impl
      ((), o, v)
    | _, _, _ => bad
  | "annnode" :: cfg :: ver :: rest =>
    match cfg.toNat?, ver.toNat?, announceOf (rest.take 6), (rest.getD 6 "").toNat? with
    | some cfg, some ver, some a, some nonce =>
      if rest.length != 7 then bad else
      let cfg := cfg % 256
      let ver := ver % 256
      let m := nodeVerifyAnnounce sha cfg ver a nonce
      let required := Spec.Pow.capped cfg
      let expect := if required == 0 then true else if ver < 3 then false else specMeets (sha (encAnnounce a nonce)) required
      let verdict := match impl with
        | none => "ok"
        | some i => if i == s!"valid={b01 expect}" then "ok" else "viol:accept-announce-node"
      ((), s!"valid={b01 m}", verdict)
    | _, _, _, _ => bad
  | "annsolve" :: rest =>
    match announceOf (rest.take 6), (rest.getD 6 "").toNat? with
    | some a, some d =>
      if rest.length != 7 then bad else
      let d := d % 256
      ((), nonceLine (computeAnnouncePow sha Mt64.firstDraw a d), solverVerdict "announce" (encAnnounce a) d impl)
    | _, _ => bad
  | "annsolvenode" :: cfg :: rest =>
    match cfg.toNat?, announceOf rest with
    | some cfg, some a =>
      let d := nodeAnnounceDifficulty (cfg % 256)
      ((), nonceLine (computeAnnouncePow sha Mt64.firstDraw a d),
        solverVerdict "announce-node" (encAnnounce a) (Spec.Pow.capped (cfg % 256)) impl)
    | _, _ => bad
  | ["hs", a, b, pub, nonce, d] =>
    match pub.toNat?, nonce.toNat?, d.toNat? with
    | some pub, some nonce, some d =>
      let h : HandshakeFields := ⟨idBytes a, idBytes b, pub % 4294967296⟩
      let (o, v) := preDgValid "handshake" (encHandshake h nonce) (handshakePowValid sha h nonce (d % 256)) (d % 256) impl
      ((), o, v)
    | _, _, _ => bad
  | ["hscli", a, b, pub, nonce, d] =>
    match pub.toNat?, nonce.toNat?, d.toNat? with
    | some pub, some nonce, some d =>
      let h : HandshakeFields := ⟨idBytes a, idBytes b, pub % 4294967296⟩
      -- the preimage the specification expects from the CLI is the node's
      let (o, v) := preDgValid "handshake-cli" (encHandshake h nonce) (transportPowValid sha h nonce (d % 256)) (d % 256) impl
      let o := if encTransportCli h nonce == encHandshake h nonce then o else "model-cli-preimage-differs"
      ((), o, v)
    | _, _, _ => bad
  | ["hsnode", cfg, init, resp, pub, nonce] =>
    match cfg.toNat?, pub.toNat?, nonce.toNat? with
    | some cfg, some pub, some nonce =>
      let cfg := cfg % 256
      let pub := pub % 4294967296
      let h : HandshakeFields := ⟨idBytes init, idBytes resp, pub⟩
      -- generator only sends acceptable public values here (1 < pub < p); C12 covers the rest
      let m := nodeVerifyHandshake sha cfg h nonce
      let expect := specMeets (sha (encHandshake h nonce)) (Spec.Pow.capped cfg)
      let verdict := match impl with
        | none => "ok"
        | some i => if i == s!"valid={b01 expect}" then "ok" else "viol:accept-handshake-node"
      ((), s!"valid={b01 m}", verdict)
    | _, _, _ => bad
  | ["hssolve", a, b, pub, d] =>
    match pub.toNat?, d.toNat? with
    | some pub, some d =>
      let h : HandshakeFields := ⟨idBytes a, idBytes b, pub % 4294967296⟩
      ((), nonceLine (computeHandshakePow sha Mt64.firstDraw h (d % 256)), solverVerdict "handshake" (encHandshake h) (d % 256) impl)
    | _, _ => bad
  | ["hsclisolve", a, b, pub, d] =>
    match pub.toNat?, d.toNat? with
    | some pub, some d =>
      let h : HandshakeFields := ⟨idBytes a, idBytes b, pub % 4294967296⟩
      ((), nonceLine (computeTransportPow sha Mt64.firstDraw h (d % 256)), solverVerdict "handshake-cli" (encHandshake h) (d % 256) impl)
    | _, _ => bad
  | ["store", chunk, size, hint, nonce, d] =>
    match size.toNat?, bytesOfHex hint, nonce.toNat?, d.toNat? with
    | some size, some hint, some nonce, some d =>
      let d := d % 256
      let s : StoreFields := ⟨idBytes chunk, size, hint⟩
      let (o, v) := preDgValid "store" (encStore s nonce) (storePowValid sha s nonce d) (Spec.Pow.capped d) impl
      ((), o, v)
    | _, _, _, _ => bad
  | ["storesolve", chunk, size, hint, d, maxA] =>
    match size.toNat?, bytesOfHex hint, d.toNat?, maxA.toNat? with
    | some size, some hint, some d, some maxA =>
      let d := d % 256
      let s : StoreFields := ⟨idBytes chunk, size, hint⟩
      ((), nonceLine (computeStorePow sha Mt64.seed Mt64.next s d maxA), solverVerdict "store" (encStore s) (Spec.Pow.capped d) impl)
    | _, _, _, _ => bad
  | ["tok", chunk, hash, ep, k, d] =>
    match bytesOfHex ep, k.toNat?, d.toNat? with
    | some ep, some k, some d =>
      let d := d % 256
      if ep.isEmpty || k > 5000 then bad else
      let t : TokenFields := ⟨idBytes chunk, idBytes hash, ep⟩
      let (o, v) := preDgValid "token" (encToken t k) (tokenValid sha t k d) d impl
      ((), o, v)
    | _, _, _ => bad
  | ["toksolve", chunk, hash, ep, d, maxA] =>
    match bytesOfHex ep, d.toNat?, maxA.toNat? with
    | some ep, some d, some maxA =>
      let d := d % 256
      let t : TokenFields := ⟨idBytes chunk, idBytes hash, ep⟩
      ((), nonceLine (solveToken sha t d maxA), solverVerdict "token" (encToken t) d impl)
    | _, _, _ => bad
  | ["hint", p] =>
    match bytesOfHex p with
    | some path =>
      let out := match sanitizeFilenameHint path with
        | some h => "some:" ++ hexB h
        | none => "none"
      ((), out, eqVerdict "hint" out impl)
    | none => bad
  | ["storecli", cfg, name, _content] =>
    match cfg.toNat?, bytesOfHex name with
    | some _, some name =>
      if name.isEmpty || name.contains 47 || name.contains 0 || name == [46] || name == [46, 46] then bad else
      -- the specification: a nonce solved by the CLI is accepted, whatever the file is called
      let out := "rc=0 err=-"
      let verdict := match impl with
        | none => "ok"
        | some i =>
          if field i "rc" != some "0" then s!"viol:cli-store-rejected:{(field i "err").getD "?"}"
          else "ok"
      ((), out, verdict)
    | _, _ => bad
  | _ => bad

def machine : Machine Unit := { init := (), step := step }

end EphVerif.DriverC19

def main (args : List String) : IO UInt32 := EphVerif.Proto.runMain EphVerif.DriverC19.machine args
