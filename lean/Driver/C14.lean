import EphVerif.Driver.Proto
import EphVerif.Model.Frames
import EphVerif.Spec.Frames
import EphVerif.Spec.Sha256

/-!
Driver for C14 (ops: see harness/transport_h.cpp).

Model column: `EphVerif.Frames` (the C++ as written, constants from Generated/C14.lean): `send` for
what goes on the wire, the `Reader` machine fed the wire bytes in the pieces the op names for what
the receiving handler gets.  Verdict column: the implementation's line judged against
`EphVerif.Spec.Frames` (literal 1 MiB, literal frame layout, RFC 8439) — not against the model.

Nonces are drawn by `std::random_device` in the implementation.  Where a nonce is observable (wire
capture at the raw peer) the implementation's nonce is passed to model and specification as a hint;
where it is not (A <-> B sessions, the handler only sees plaintext) the model uses an arbitrary
nonce — theorem `C14.stream` holds for every nonce.
-/
open EphVerif EphVerif.Proto

namespace EphVerif.DriverC14

abbrev Bytes := List UInt8

/-- `gen_payload(len, seed)` of harness/transport_h.cpp -/
def genBytes (n : Nat) (seed : UInt64) : Bytes :=
  let rec go : Nat → UInt64 → List UInt8 → List UInt8
    | 0, _, acc => acc.reverse
    | k + 1, x, acc =>
      let x' := x * 6364136223846793005 + 1442695040888963407
      go k x' ((x' >>> 56).toUInt8 :: acc)
  go n seed []

def hexNat (digits : Nat) (v : Nat) : String :=
  String.ofList ((List.range digits).reverse.map fun i => hexDigit ((v / 16 ^ i) % 16))

/-- canonical form of a byte string in output lines: `-` if empty, hex up to 32 bytes, else
`<len>:<first 8 bytes of sha256>` -/
def canon (b : Bytes) : String :=
  if b.isEmpty then "-"
  else if b.length ≤ 32 then hexOfBytes b
  else s!"{b.length}:{hexOfBytes ((Spec.sha256 b).take 8)}"

def fmtLog (items : List Bytes) : String :=
  s!"n={items.length} " ++ (if items.isEmpty then "-" else ",".intercalate (items.map canon))

/-- cut `s` into pieces of `k` bytes (`k = 0`: one piece) -/
def chunksOf (k : Nat) (s : Bytes) : List Bytes :=
  if k = 0 then [s] else
  let rec go (fuel : Nat) (s : Bytes) (acc : List Bytes) : List Bytes :=
    match fuel with
    | 0 => acc.reverse
    | fuel + 1 => if s.isEmpty then acc.reverse else go fuel (s.drop k) (s.take k :: acc)
  go (s.length + 1) s []

/-- one direction of the A <-> B session -/
structure Dir where
  /-- model of the receiving side's reader thread -/
  reader : Frames.Reader := Frames.Reader.init
  /-- deliveries already reported by an earlier `drain` -/
  printed : Nat := 0
  /-- specification: payloads that had to be accepted since the last `drain` -/
  expect : List Bytes := []
  /-- number of `send` calls so far (only used to vary the model's nonce) -/
  sends : Nat := 0
  /-- payloads of the last `csend`, per sender thread -/
  cexpect : List (List Bytes) := []

structure St where
  /-- the key of the handshake (stays the key of A's session with the raw peer) -/
  key : Bytes := List.replicate 32 0
  /-- the key currently registered for the A <-> B session at both ends (`rekey` replaces it) -/
  abKey : Bytes := List.replicate 32 0
  ab : Dir := {}
  ba : Dir := {}
  /-- A's reader for the raw peer: model (fed in the op's pieces) -/
  raw : Frames.Reader := Frames.Reader.init
  rawPrinted : Nat := 0
  /-- everything the raw peer has injected so far (for the specification's view) -/
  rawStream : Bytes := []
  rawSpecPrinted : Nat := 0
  /-- nonces seen on frames captured from the wire -/
  nonces : List Bytes := []

def nonceOf (k : Nat) : Bytes := (List.range 12).map fun i => UInt8.ofNat (k * 13 + i * 7 + 1)
def modelNonce (d : Dir) : Bytes := nonceOf d.sends

/-- payload `i` of sender thread `t` of a `csend` (`cpayload` in harness/transport_h.cpp) -/
def cpayload (len seed t i : Nat) : Bytes := genBytes len (UInt64.ofNat (seed * 1000003 + t * 1009 + i))

/-- index of the first element equal to `x` -/
def indexOf? (x : Bytes) (l : List Bytes) : Option Nat :=
  let rec go : List Bytes → Nat → Option Nat
    | [], _ => none
    | y :: ys, k => if y == x then some k else go ys (k + 1)
  go l 0

/-- arrivals classified by sender thread: `n=<k> t0=<indices in arrival order> … unknown=<u>` -/
def fmtByThread (expect : List (List Bytes)) (got : List Bytes) : String :=
  let classify (p : Bytes) : Option (Nat × Nat) :=
    (List.range expect.length).findSome? fun t => (indexOf? p (expect.getD t [])).map fun i => (t, i)
  let cls := got.map classify
  let seqs := (List.range expect.length).map fun t =>
    let idx := cls.filterMap fun c => match c with | some (t', i) => if t' == t then some (toString i) else none | none => none
    s!" t{t}=" ++ (if idx.isEmpty then "-" else ",".intercalate idx)
  let unknown := (cls.filter Option.isNone).length
  s!"n={got.length}" ++ String.join seqs ++ s!" unknown={unknown}"

/-- what the property demands of a `cdrain`: every payload of every thread once, each thread's in its order -/
def wantByThread (threads count : Nat) : String :=
  let seq := ",".intercalate ((List.range count).map toString)
  s!"n={threads * count}" ++ String.join ((List.range threads).map fun t => s!" t{t}=" ++ (if count == 0 then "-" else seq)) ++ " unknown=0"

def natArg (s : String) : Option Nat := s.toNat?

/-- one `send` in a direction: model wire bytes straight into the model reader (in two pieces, cut
in the middle of the header: how the stream is cut is irrelevant, theorem `C14.chunking_irrelevant`) -/
def doSend (key : Bytes) (d : Dir) (payload : Bytes) : Dir × Bool :=
  let nonce := modelNonce d
  match Frames.send key nonce payload with
  | none => ({ d with sends := d.sends + 1 }, false)
  | some w =>
    let r := Frames.feedChunks key d.reader [w.take 7, w.drop 7]
    ({ d with reader := r, sends := d.sends + 1 }, true)

def specNote (d : Dir) (payload : Bytes) : Dir :=
  if Spec.Frames.mayBeSent payload then { d with expect := d.expect ++ [payload] } else d

def sendVerdict (payload : Bytes) (impl : Option String) : String :=
  match impl with
  | none => "ok"
  | some i =>
    let want := if Spec.Frames.mayBeSent payload then "sent" else "refused"
    if i == want then "ok"
    else if Spec.Frames.mayBeSent payload then s!"viol:limit-send:payload of {payload.length} bytes was refused"
    else s!"viol:limit-send:payload of {payload.length} bytes was sent"

/-- length of the i-th payload of a burst -/
def burstLen (seed i maxLen : Nat) : Nat := ((seed + 1) * 2654435761 + i * 40503 + i * i * 7) % (maxLen + 1)

def parseCapture (tok : List String) : Option (Bytes × Bytes × String) :=
  match tok with
  | [n, l, c] =>
    if n.startsWith "nonce=" && l.startsWith "len=" && c.startsWith "ct=" then
      match bytesOfHex (n.drop 6).toString, bytesOfHex (l.drop 4).toString with
      | some nb, some lb => some (nb, lb, (c.drop 3).toString)
      | _, _ => none
    else none
  | _ => none

def fmtCapture (frame : Bytes) : String :=
  s!"nonce={hexOfBytes (frame.take 12)} len={hexOfBytes ((frame.drop 12).take 4)} ct={canon (frame.drop 16)}"

/-- SO_RCVTIMEO (ms) an accepted session is published with, as the code has it: 0 when every exit of the handshake read
restores it (regenerated flag), else the handshake timeout -/
def modelRcvTimeout : Nat :=
  if Gen.C14.acceptedSessionHasNoRecvTimeout then 0 else Gen.C14.kHandshakeTimeoutMs

/-- specification clause `idle-timeout`: an established session has no receive timeout — a peer may stay silent for any
length of time between two payloads and the next one is still delivered -/
def openVerdict (want : String) (impl : Option String) : String :=
  match impl with
  | none => "ok"
  | some i =>
    if i == want then "ok"
    else if i.startsWith "ok rcvto=" then "viol:idle-timeout:established session has a receive timeout, " ++ (i.drop 3).toString
    else "viol:open:" ++ i

def stepCore (st : St) (tok : List String) (_line : String) (impl : Option String) : St × String × String :=
  let pick (dir : String) : Option Dir := if dir == "ab" then some st.ab else if dir == "ba" then some st.ba else none
  let put (dir : String) (d : Dir) : St := if dir == "ab" then { st with ab := d } else { st with ba := d }
  match tok with
  | ["open", k] =>
    match bytesOfHex k with
    | some kb =>
      let model := s!"ok rcvto={modelRcvTimeout}/0"
      ({ key := kb, abKey := kb }, model, openVerdict "ok rcvto=0/0" impl)
    | none => (st, "bad-op", "ok")
  | ["rekey", k] =>
    -- register_peer_key on both ends while both readers are idle at a frame boundary: sender (`send` snapshots the key
    -- when it builds the frame) and receiver (`receive_loop` snapshots it after the frame has been read) switch at the
    -- same point of the byte stream; the model's readers simply get the new key with the next bytes fed
    match bytesOfHex k with
    | some kb =>
      if kb.length != 32 then (st, "bad-op", "ok") else
      ({ st with abKey := kb }, "ok", match impl with | some i => if i == "ok" then "ok" else "viol:rekey:" ++ i | none => "ok")
    | none => (st, "bad-op", "ok")
  | ["send", dir, len, seed] =>
    match pick dir, natArg len, natArg seed with
    | some d, some n, some s =>
      let payload := genBytes n (UInt64.ofNat s)
      let (d', ok) := doSend st.abKey d payload
      (put dir (specNote d' payload), if ok then "sent" else "refused", sendVerdict payload impl)
    | _, _, _ => (st, "bad-op", "ok")
  | ["burst", dir, count, seed, maxLen] =>
    match pick dir, natArg count, natArg seed, natArg maxLen with
    | some d, some c, some s, some m =>
      let (d', k) := (List.range c).foldl (fun (acc : Dir × Nat) i =>
        let payload := genBytes (burstLen s i m) (UInt64.ofNat (s * 1000003 + i))
        let (d1, ok) := doSend st.abKey acc.1 payload
        (specNote d1 payload, if ok then acc.2 + 1 else acc.2)) (d, 0)
      let specK := d'.expect.length - d.expect.length
      let verdict := match impl with
        | none => "ok"
        | some i => if i == s!"sent={specK}" then "ok" else s!"viol:limit-send:burst expected sent={specK}"
      (put dir d', s!"sent={k}", verdict)
    | _, _, _, _ => (st, "bad-op", "ok")
  | ["csend", dir, threads, count, len, seed, _sndbuf] =>
    match pick dir, natArg threads, natArg count, natArg len, natArg seed with
    | some d, some nT, some cnt, some n, some sd =>
      let payloads := (List.range nT).map fun t => (List.range cnt).map fun i => cpayload n sd t i
      -- every frame is taken by the kernel in three pieces: 13 bytes (inside the header), half of the rest, the rest
      let callsOf (t : Nat) (ps : List Bytes) : List Frames.SendCall :=
        (List.range ps.length).filterMap fun i =>
          let p := ps.getD i []
          let nonce := nonceOf (d.sends + t * cnt + i)
          (Frames.send st.abKey nonce p).map fun f =>
            let rest := f.drop 13
            { nonce := nonce, payload := p, pieces := [f.take 13, rest.take (rest.length / 2), rest.drop (rest.length / 2)] }
      let calls := (List.range nT).map fun t => callsOf t (payloads.getD t [])
      -- the threads are scheduled round-robin, one interaction with the socket or the lock at a time
      let sched := (List.range (4 * nT * cnt + 4)).flatMap fun _ => List.range nT
      let s := Frames.Senders.runAsCoded (Frames.Senders.init fun t => calls.getD t []) sched
      let r := Frames.feed st.abKey d.reader s.wire
      let sent := "sent=" ++ "/".intercalate (calls.map fun c => toString c.length)
      let want := "sent=" ++ "/".intercalate ((List.range nT).map fun _ => toString cnt)
      let verdict := match impl with
        | none => "ok"
        | some i => if i == want || n > Spec.Frames.maxPayload then "ok" else s!"viol:concurrent-delivery:a concurrent send was refused, expected {want}"
      (put dir { d with reader := r, sends := d.sends + nT * cnt, cexpect := payloads }, sent, verdict)
    | _, _, _, _, _ => (st, "bad-op", "ok")
  | ["cdrain", dir, _ms] =>
    match pick dir with
    | some d =>
      let fresh := d.reader.delivered.drop d.printed
      let model := (if d.reader.ended.isSome then "ended " else "") ++ fmtByThread d.cexpect fresh
      let want := wantByThread d.cexpect.length ((d.cexpect.getD 0 []).length)
      let verdict := match impl with
        | none => "ok"
        | some i => if i == want then "ok" else s!"viol:concurrent-delivery:expected {want.take 160}"
      (put dir { d with printed := d.reader.delivered.length, expect := [], cexpect := [] }, model, verdict)
    | none => (st, "bad-op", "ok")
  | ["drain", dir] =>
    match pick dir with
    | some d =>
      let fresh := d.reader.delivered.drop d.printed
      let model := (if d.reader.ended.isSome then "ended " else "") ++ fmtLog fresh
      let want := fmtLog d.expect
      let verdict := match impl with
        | none => "ok"
        | some i => if i == want then "ok" else s!"viol:delivery:expected {want.take 200}"
      (put dir { d with printed := d.reader.delivered.length, expect := [] }, model, verdict)
    | none => (st, "bad-op", "ok")
  | ["rawopen"] =>
    ({ st with raw := Frames.Reader.init, rawPrinted := 0, rawStream := [], rawSpecPrinted := 0 }, s!"ok rcvto={modelRcvTimeout}",
      openVerdict "ok rcvto=0" impl)
  | ["idle", _ms] => (st, "ok", "ok")
  | ["rawframe", nonce, declared, len, seed, chunk] =>
    match bytesOfHex nonce, natArg len, natArg seed, natArg chunk with
    | some nb, some n, some s, some c =>
      let payload := genBytes n (UInt64.ofNat s)
      let decl := if declared == "auto" then n else (natArg declared).getD n
      let bytes := nb ++ Spec.Frames.be32 decl ++ Spec.chacha20 st.key nb 0 payload
      ({ st with raw := Frames.feedChunks st.key st.raw (chunksOf c bytes), rawStream := st.rawStream ++ bytes }, "ok", "ok")
    | _, _, _, _ => (st, "bad-op", "ok")
  | ["rawbytes", hex, chunk] =>
    match bytesOfHex hex, natArg chunk with
    | some bytes, some c =>
      ({ st with raw := Frames.feedChunks st.key st.raw (chunksOf c bytes), rawStream := st.rawStream ++ bytes }, "ok", "ok")
    | _, _ => (st, "bad-op", "ok")
  | ["rawended", _ms] =>
    let model := if st.raw.ended.isSome then "ended" else "open"
    let v := Spec.Frames.view st.key st.rawStream
    let verdict := match impl with
      | none => "ok"
      | some i =>
        if v.endedOversized then
          (if i == "ended" then "ok" else "viol:limit-recv:a header announcing more than 1 MiB did not end the session")
        else (if i == "open" then "ok" else "viol:session-dropped:session ended although no header announced more than 1 MiB")
    (st, model, verdict)
  | ["rawclose"] =>
    let fresh := st.raw.delivered.drop st.rawPrinted
    let v := Spec.Frames.view st.key st.rawStream
    let want := fmtLog (v.delivered.drop st.rawSpecPrinted)
    let verdict := match impl with
      | none => "ok"
      | some i => if i == want then "ok" else s!"viol:delivery:expected {want.take 200}"
    ({ st with raw := Frames.close st.raw, rawPrinted := st.raw.delivered.length, rawSpecPrinted := v.delivered.length },
      fmtLog fresh, verdict)
  | ["rawrecv", len, seed] =>
    match natArg len, natArg seed with
    | some n, some s =>
      let payload := genBytes n (UInt64.ofNat s)
      let implTok := (impl.map tokens).getD []
      match parseCapture implTok with
      | some (nb, _, _) =>
        -- the implementation sent a frame: its nonce is the hint
        let model := match Frames.send st.key nb payload with
          | some w => fmtCapture w
          | none => "refused"
        let verdict :=
          if !Spec.Frames.mayBeSent payload then s!"viol:limit-send:payload of {n} bytes was sent"
          else if nb.length != 12 then "viol:wire:nonce is not 12 bytes"
          else if (impl.getD "") != fmtCapture (Spec.Frames.frame st.key nb payload) then
            "viol:wire:bytes on the wire are not nonce, big-endian length, RFC 8439 ciphertext (counter 0)"
          else if st.nonces.contains nb then "viol:nonce-reuse:" ++ hexOfBytes nb
          else "ok"
        ({ st with nonces := nb :: st.nonces }, model, verdict)
      | none =>
        let model := match Frames.send st.key (List.replicate 12 0) payload with
          | some _ => "nonce=? len=? ct=?"
          | none => "refused"
        let verdict := match impl with
          | none => "ok"
          | some i =>
            if i == "refused" then
              (if Spec.Frames.mayBeSent payload then s!"viol:limit-send:payload of {n} bytes was refused" else "ok")
            else "viol:wire:" ++ i.take 60
        -- without an implementation line print what the model can say without a nonce
        (st, (if impl.isNone then model else (if model == "refused" then "refused" else model)), verdict)
    | _, _ => (st, "bad-op", "ok")
  | _ => (st, "bad-op", "ok")

/-- a harness line `bad-op` (malformed op list, e.g. while shrinking) or a crash marker is never judged by
the monitor: the first shows up as a divergence, the second is reported as a crash by the framework -/
def step (st : St) (tok : List String) (line : String) (impl : Option String) : St × String × String :=
  let (st', out, verdict) := stepCore st tok line impl
  match impl with
  | some i => if i == "bad-op" || i.startsWith "crash:" then (st', out, "ok") else (st', out, verdict)
  | none => (st', out, verdict)

def machine : Machine St := { init := {}, step := step }

end EphVerif.DriverC14

def main (args : List String) : IO UInt32 := EphVerif.Proto.runMain EphVerif.DriverC14.machine args
