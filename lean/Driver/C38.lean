import EphVerif.Driver.Proto
import EphVerif.Model.UpdateJson
import EphVerif.Spec.JsonString

/-!
Driver for C38 (same ops as harness/logjson_h.cpp built with -DLOGJSON_C38):
  meta <hex>                                       parse_update_metadata on that document
  nest <pre> <open> <n> <mid> <close> <m> <post>   … on  pre open^n mid close^m post
Output: `err` | `ok version=… tag=… commit=… channel=… generated_at=… notes=… dl=…`.
Monitor: the implementation's line must be the model's (`C38_total`, `C38_strings` prove the
model's line is what the property demands): `viol:total` for an escaping exception,
`viol:strings` when both succeed with different field values, `viol:outcome` when one side
accepts and the other rejects.
-/
open EphVerif EphVerif.Proto EphVerif.UpdateJson

namespace EphVerif.DriverC38

def hx (b : List Nat) : String := hexOrDash (hexOfNats b)

def optHx : Option (List Nat) → String
  | some b => hx b
  | none => "none"

def renderDownload (d : Download) : String :=
  s!"{hx d.platform},{hx d.url},{hx d.arch},{hx d.format},{optHx d.sha256}"

def render : Res Metadata → String
  | .ok m =>
    s!"ok version={hx m.version} tag={hx m.tag} commit={hx m.commit} channel={hx m.channel} " ++
    s!"generated_at={hx m.generatedAt} notes={optHx m.notesUrl} dl=" ++ ";".intercalate (m.downloads.map renderDownload)
  | .err msg => if msg.isEmpty then "err:nomsg" else "err"
  | .oob => "oob"
  | .outOfFuel => "timeout"

def verdict (model : String) (impl : Option String) : String :=
  match impl with
  | none => "ok"
  | some i =>
    if i == model then "ok"
    else if i.startsWith "crash:" then "ok"     -- the framework reports the crash itself
    else if i.startsWith "throw:" then "viol:total:exception escaped parse_update_metadata"
    else if i.startsWith "ok " && model.startsWith "ok " then
      "viol:strings:a reported field is not the RFC 8259 decoding of its JSON string"
    else "viol:outcome:accept/reject differs from the specification"

def repeatBytes (b : List Nat) (n : Nat) : List Nat := (List.replicate n b).flatten

def run (doc : List Nat) (impl : Option String) : String × String :=
  let out := render (parseUpdateMetadata doc.toArray)
  (out, verdict out impl)

def step (st : Unit) (tok : List String) (_line : String) (impl : Option String) : Unit × String × String :=
  match tok with
  | ["meta", h] =>
    match natsOfHex h with
    | some doc => let (o, v) := run doc impl; (st, o, v)
    | none => (st, "bad-op", "ok")
  | ["nest", pre, opn, n, mid, cls, m, post] =>
    match natsOfHex pre, natsOfHex opn, n.toNat?, natsOfHex mid, natsOfHex cls, m.toNat?, natsOfHex post with
    | some pre, some opn, some n, some mid, some cls, some m, some post =>
      let (o, v) := run (pre ++ repeatBytes opn n ++ mid ++ repeatBytes cls m ++ post) impl
      (st, o, v)
    | _, _, _, _, _, _, _ => (st, "bad-op", "ok")
  | _ => (st, "bad-op", "ok")

def machine : Machine Unit := { init := (), step := step }

end EphVerif.DriverC38

def main (args : List String) : IO UInt32 := EphVerif.Proto.runMain EphVerif.DriverC38.machine args
