import EphVerif.Monitor.Control

/-- line-protocol driver for C28: the control-plane model + the C28 clauses of the monitor -/
def main (args : List String) : IO UInt32 :=
  EphVerif.Proto.runMain (EphVerif.ControlMonitor.machine .c28) args
