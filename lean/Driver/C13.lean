import EphVerif.Monitor.Message

/-- driver of C13: the codec machine shared by C13, C15, C16 (ops of harness/codec_h.cpp) -/
def main (args : List String) : IO UInt32 := EphVerif.Proto.runMain EphVerif.MessageMachine.machine args
