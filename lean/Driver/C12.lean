import EphVerif.Driver.Proto
import EphVerif.Model.KeyExchange
import EphVerif.Spec.KeyExchange
import EphVerif.Spec.Pow
import EphVerif.Spec.Sha256
import EphVerif.Spec.Hmac

/-!
Driver for C12.  Model = `EphVerif.Kex` with `Spec.sha256` / `Spec.hmacSha256`; the nonces of
`generate_handshake_work` are predicted with the `mt19937_64` stream of `Model/Pow.lean`.
Monitor clauses judged directly on the implementation's line:
  * `validate`     accepted ⇔ 1 < c < p
  * `key-mismatch` both sides accepted ⇒ the two 32-byte keys are equal
  * `accept`       a side accepts ⇔ the peer's public value is acceptable and its work meets
                   `min bits 24` leading zero bits of SHA-256 over the handshake preimage
  * `ident`        a node's scalar lies in [2, p−2] and its public value is `g^scalar mod p`
  * `seed-identity` the public key of a node configured with an identity seed is a function of the seed: equal for two
                   nodes with the same seed, equal to `computePublic (scalarOfSeed seed)` and to what the CLI derives
  * `key-stale`    (histories) after every accepted handshake the held key is the one derived from the
                   public keys of THAT handshake — also the n-th for a peer id (`C12.key_replaced`)
  * `modexp`, `public`  equal to `b^e mod m` / `g^a mod p` (through the model, proved equal: `modexp_spec`)
  * `dh`           both sides derive the same secret from each other's public value
  * `material-asymmetric` / `material`  the key material is the same in both orders (and is the sorted pair)
The exact key-derivation bytes (`secret`, `register`, key values) are compared model-vs-implementation
only (a divergence there breaks the correspondence, it is not by itself a violated clause).
-/

open EphVerif EphVerif.Proto EphVerif.Kex

namespace EphVerif.DriverC12

def sha := Spec.sha256
def hmac := Spec.hmacSha256

def hexB (bs : List UInt8) : String := hexOrDash (hexOfBytes bs)
def idBytes (tok : String) : List UInt8 := (id32 tok).map UInt8.ofNat
def b01 (b : Bool) : String := if b then "1" else "0"
def u32 (n : Nat) : Nat := n % 4294967296

def field (line key : String) : Option String :=
  (line.splitOn " ").findSome? fun item =>
    if item.startsWith (key ++ "=") then some ((item.drop (key.length + 1)).toString) else none

def natField (line key : String) : Option Nat := (field line key).bind String.toNat?

def keyStr : Option (List UInt8) → String
  | some k => hexB k
  | none => "-"

def nonceStr : Option Nat → String
  | some n => toString n
  | none => "none"

/-- `Node::generate_handshake_work` of a node `self` (configured `bits`) for `peer` -/
def handshakeWork (selfId : List UInt8) (selfPub bits : Nat) (peer : List UInt8) : Option Nat :=
  Pow.computeHandshakePow sha Pow.Mt64.firstDraw ⟨selfId, peer, selfPub⟩ (Pow.nodeHandshakeDifficulty bits)

/-- the specification's acceptance condition for a handshake received by `selfId` -/
def specAccepts (selfId : List UInt8) (bits : Nat) (peer : List UInt8) (pub nonce : Nat) : Bool :=
  decide (1 < pub ∧ pub < Spec.Kex.p) &&
  decide (Spec.Pow.capped bits ≤ Spec.Pow.lz (sha (Pow.encHandshake ⟨peer, selfId, pub⟩ nonce)))

/-- driver state for the history ops: named nodes (model state + id token) and a logical clock.
    The harness runs in real time with cooldowns of 0 s ("always outside") or hours ("always inside");
    the logical clock advances 1 ns per op, which orders the same way. -/
structure St where
  nodes : List (String × NodeState) := []
  tick : Int := 0
deriving Inhabited

def St.find (st : St) (name : String) : Option NodeState := (st.nodes.find? (·.1 == name)).map (·.2)
def St.set (st : St) (name : String) (n : NodeState) : St :=
  { st with nodes := (name, n) :: st.nodes.filter (·.1 != name) }

def stepHistory (st : St) (tok : List String) (impl : Option String) : Option (St × String × String) :=
  let st := { st with tick := st.tick + 1 }
  match tok with
  | ["node", name, id, scalar, bits, cooldown] =>
    match scalar.toNat?, bits.toNat?, cooldown.toInt? with
    | some s, some b, some cd =>
      let n := NodeState.fresh ⟨idBytes id, u32 s⟩ (b % 256) (cd * 1000000000)
      some (st.set name n, s!"pub={n.self.pub}", "ok")
    | _, _, _ => none
  | ["mutual", x, y] =>
    match st.find x, st.find y with
    | some X, some Y =>
      if x == y then none else
      let nY := handshakeWork Y.self.peerId Y.self.pub Y.bits X.self.peerId
      let nX := handshakeWork X.self.peerId X.self.pub X.bits Y.self.peerId
      let rX := match nY with
        | some n => performHandshakeSt sha hmac X st.tick Y.self.peerId Y.self.pub n
        | none => (X, false)
      let rY := match nX with
        | some n => performHandshakeSt sha hmac Y st.tick X.self.peerId X.self.pub n
        | none => (Y, false)
      let kX := rX.1.sessionKeyOf Y.self.peerId
      let kY := rY.1.sessionKeyOf X.self.peerId
      let out := s!"pX={X.self.pub} pY={Y.self.pub} nY={nonceStr nY} nX={nonceStr nX} okX={b01 rX.2} okY={b01 rY.2} kX={keyStr kX} kY={keyStr kY}"
      -- the key the property demands: derived from the CURRENT two public keys
      let current := hexB (sessionKey sha hmac X.self.scalar X.self.pub Y.self.pub)
      let verdict := match impl with
        | none => "ok"
        | some i =>
          match field i "okX", field i "okY", field i "kX", field i "kY" with
          | some okX, some okY, some ikX, some ikY =>
            if okX == "1" && okY == "1" && ikX != ikY then "viol:key-mismatch"
            else if okX == "1" && ikX != current then "viol:key-stale:X does not hold the key derived from the current public keys"
            else if okY == "1" && ikY != current then "viol:key-stale:Y does not hold the key derived from the current public keys"
            else if okX != b01 rX.2 || okY != b01 rY.2 then "viol:accept"
            else "ok"
          | _, _, _, _ => "viol:malformed"
      some ((st.set x rX.1).set y rY.1, out, verdict)
    | _, _ => none
  | ["hs", x, peer, pub, nonce] =>
    match st.find x, pub.toNat?, nonce.toNat? with
    | some X, some pub, some nonce =>
      let pub := u32 pub
      let r := performHandshakeSt sha hmac X st.tick (idBytes peer) pub nonce
      let k := r.1.sessionKeyOf (idBytes peer)
      let out := s!"ok={b01 r.2} k={keyStr k}"
      let verdict := match impl with
        | none => "ok"
        | some i =>
          if field i "ok" != some (b01 r.2) then "viol:accept"
          else if r.2 && field i "k" != some (hexB (sessionKey sha hmac X.self.scalar X.self.pub pub)) then
            "viol:key-stale:the held key is not the one derived from the handshake just accepted"
          else "ok"
      some (st.set x r.1, out, verdict)
    | _, _, _ => none
  | ["key", x, peer] =>
    match st.find x with
    | some X => some (st, s!"k={keyStr (X.sessionKeyOf (idBytes peer))}", "ok")
    | none => none
  | _ => none

def stepPure (tok : List String) (impl : Option String) : Unit × String × String :=
  let bad : Unit × String × String := ((), "bad-op", "ok")
  match tok with
  | ["modexp", b, e, m] =>
    match b.toNat?, e.toNat?, m.toNat? with
    | some b, some e, some m =>
      let m := u32 m
      if m == 0 then bad else
      let out := toString (modexp (b % 18446744073709551616) (u32 e) m)
      ((), out, eqVerdict "modexp" out impl)
    | _, _, _ => bad
  | ["pub", s] =>
    match s.toNat? with
    | some s => let out := toString (computePublic (u32 s)); ((), out, eqVerdict "public" out impl)
    | none => bad
  | ["validate", c] =>
    match c.toNat? with
    | some c =>
      let c := u32 c
      let expect := b01 (decide (1 < c ∧ c < Spec.Kex.p))
      let verdict := match impl with
        | none => "ok"
        | some i => if i == expect then "ok" else "viol:validate"
      ((), b01 (validatePublic c), verdict)
    | none => bad
  | ["secret", s, r] =>
    match s.toNat?, r.toNat? with
    | some s, some r => let out := hexB (deriveSharedSecret sha (u32 s) (u32 r)); ((), out, "ok")
    | _, _ => bad
  | ["material", a, b] =>
    match a.toNat?, b.toNat? with
    | some a, some b =>
      let out := s!"ab={hexB (handshakeMaterial (u32 a) (u32 b))} ba={hexB (handshakeMaterial (u32 b) (u32 a))}"
      let verdict := match impl with
        | none => "ok"
        | some i =>
          if field i "ab" != field i "ba" then "viol:material-asymmetric"
          else if i != out then "viol:material" else "ok"
      ((), out, verdict)
    | _, _ => bad
  | ["dh", a, b] =>
    match a.toNat?, b.toNat? with
    | some a, some b =>
      let a := u32 a; let b := u32 b
      let pa := computePublic a; let pb := computePublic b
      let out := s!"pA={pa} pB={pb} sA={hexB (deriveSharedSecret sha a pb)} sB={hexB (deriveSharedSecret sha b pa)}"
      let verdict := match impl with
        | none => "ok"
        | some i => if field i "sA" != field i "sB" || (field i "sA").isNone then "viol:dh" else "ok"
      ((), out, verdict)
    | _, _ => bad
  | ["register", secret, material] =>
    match bytesOfHex secret, bytesOfHex material with
    | some k, some m =>
      if k.length != 32 then bad else
      let out := hexB (hmac k m); ((), out, "ok")
    | _, _ => bad
  | ["ident", seed] =>
    match seed.toNat? with
    | none => bad
    | some seed =>
      -- the identity of a seeded node is a function of the seed: the scalar the code's generator draws from it
      let s := scalarOfSeed (u32 seed)
      let p := computePublic s
      let cliShown := if (impl.bind (field · "cli")) == some "?" then "?" else toString p
      let out := s!"scalar={s} pub={p} again={p} cli={cliShown}"
      let verdict := match impl with
        | none => "ok"
        | some i =>
          match natField i "scalar", natField i "pub", natField i "again" with
          | some is, some ip, some ia =>
            if !(decide (2 ≤ is ∧ is ≤ Spec.Kex.p - 2)) then "viol:ident:scalar outside [2, p-2]"
            else if computePublic is != ip then "viol:ident:public is not g^scalar mod p"
            else if ia != ip then "viol:seed-identity:two nodes with the same identity seed have different public keys"
            else if ip != p then s!"viol:seed-identity:public key is not the one derived from the seed (expected {p})"
            else if field i "cli" != some "?" && natField i "cli" != some ip then
              "viol:seed-identity:the CLI derives another public key from the same seed"
            else "ok"
          | _, _, _ => "viol:ident:malformed"
      ((), out, verdict)
  | ["hsk", sA, idA, bitsA, sB, idB, bitsB] =>
    match sA.toNat?, bitsA.toNat?, sB.toNat?, bitsB.toNat? with
    | some sA, some bitsA, some sB, some bitsB =>
      let sA := u32 sA; let sB := u32 sB; let bitsA := bitsA % 256; let bitsB := bitsB % 256
      let A : Identity := ⟨idBytes idA, sA⟩
      let B : Identity := ⟨idBytes idB, sB⟩
      let nB := handshakeWork B.peerId B.pub bitsB A.peerId
      let nA := handshakeWork A.peerId A.pub bitsA B.peerId
      let kA := nB.bind fun n => performHandshake sha hmac A bitsA B.peerId B.pub n
      let kB := nA.bind fun n => performHandshake sha hmac B bitsB A.peerId A.pub n
      let out := s!"pA={A.pub} pB={B.pub} nB={nonceStr nB} nA={nonceStr nA} okA={b01 kA.isSome} okB={b01 kB.isSome} kA={keyStr kA} kB={keyStr kB}"
      let verdict := match impl with
        | none => "ok"
        | some i =>
          match field i "okA", field i "okB", field i "kA", field i "kB" with
          | some okA, some okB, some ikA, some ikB =>
            -- acceptance judged on the nonces the implementation actually produced
            let expA := match natField i "nB" with
              | some n => specAccepts A.peerId bitsA B.peerId B.pub n
              | none => false
            let expB := match natField i "nA" with
              | some n => specAccepts B.peerId bitsB A.peerId A.pub n
              | none => false
            if okA != b01 expA || okB != b01 expB then "viol:accept"
            else if okA == "1" && okB == "1" && (ikA != ikB || ikA.length != 64) then "viol:key-mismatch"
            else if (okA == "0" && ikA != "-") || (okB == "0" && ikB != "-") then "viol:key-after-refusal"
            else "ok"
          | _, _, _, _ => "viol:malformed"
      ((), out, verdict)
    | _, _, _, _ => bad
  | ["hskpub", sA, idA, bitsA, peer, pub, nonce] =>
    match sA.toNat?, bitsA.toNat?, pub.toNat?, nonce.toNat? with
    | some sA, some bitsA, some pub, some nonce =>
      let A : Identity := ⟨idBytes idA, u32 sA⟩
      let bitsA := bitsA % 256
      let pub := u32 pub
      let k := performHandshake sha hmac A bitsA (idBytes peer) pub nonce
      let out := s!"ok={b01 k.isSome} k={keyStr k}"
      let verdict := match impl with
        | none => "ok"
        | some i =>
          let exp := specAccepts A.peerId bitsA (idBytes peer) pub nonce
          if field i "ok" != some (b01 exp) then "viol:accept"
          else if exp && ((field i "k").getD "").length != 64 then "viol:key-length" else "ok"
      ((), out, verdict)
    | _, _, _, _ => bad
  | _ => bad

def step (st : St) (tok : List String) (_line : String) (impl : Option String) : St × String × String :=
  -- an op the harness cannot perform without the repository's private helpers (VERIF_INTERNALS=0): unobserved
  if impl == some "skip" then (st, "skip", "ok") else
  match tok with
  | op :: _ =>
    if op == "node" || op == "mutual" || op == "hs" || op == "key" then
      match stepHistory st tok impl with
      | some r => r
      | none => (st, "bad-op", "ok")
    else
      let (_, o, v) := stepPure tok impl
      (st, o, v)
  | [] => (st, "bad-op", "ok")

def machine : Machine St := { init := {}, step := step }

end EphVerif.DriverC12

def main (args : List String) : IO UInt32 := EphVerif.Proto.runMain EphVerif.DriverC12.machine args
