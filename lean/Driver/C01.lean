import EphVerif.Monitor.ChunkStore

/-- C01 driver: ChunkStore model + StoreSpec monitor, no write tracing. -/
def main (args : List String) : IO UInt32 :=
  EphVerif.Proto.runMain (EphVerif.StoreMonitor.machine false) args
