import EphVerif.Driver.Proto
import EphVerif.Model.Escape
import EphVerif.Model.Message
import EphVerif.Model.Manifest
import EphVerif.Spec.Hmac
import EphVerif.Spec.Escape

/-!
Driver for C35 (no remote input can crash the node or the daemon).

For every op of `harness/remote_h.cpp` the driver

1. decodes the delivered bytes with the Lean models of the codecs (`Message.decodeSigned` with the
   specification's HMAC, `Manifest.decodeManifest`; control requests with a transcription of
   `parse_request`) and computes the *facts* of the delivery: which throwing primitives are
   executed and throw (duplicate / zero shard index among the first `threshold` shares reaching
   `Shamir::combine`, an undecodable manifest reaching `decode_manifest`, an empty `OUT`, an
   unwritable destination).  State the facts depend on (which manifest the node has cached for a
   chunk, whether it holds the chunk) is taken from the harness's observation *before* the op as
   a hint; a cached-manifest hint is validated against the manifests this case has offered;
2. evaluates the call tree regenerated from the source (`Generated/C35.lean`) on those facts:
   `escFn` at the boundary the op enters (reader thread, accept threads, tick) — the model's
   line is `ok` or `escape:<class>`;
3. judges the implementation's line with the specification (`EscapeSpec.judge`): any escape or
   crash is a violation; a CHUNK whose key cannot be reconstructed must not be acknowledged as
   accepted.
-/
open EphVerif EphVerif.Proto EphVerif.Escape EphVerif.Gen.C35

namespace EphVerif.DriverC35

abbrev Bytes := List UInt8

structure St where
  nowNs : Int                                   -- steady clock of the harness
  peers : List (String × Bytes)                 -- peer name ↦ session key
  offered : List (Bytes × Nat × List Nat)       -- chunk id ↦ (threshold, shard indices) of every manifest seen
  strings : List Bytes := []                    -- endpoint strings a peer has supplied (announce endpoints, manifest hint endpoints)

def vclockStart : Int := 1000000000000
def wallOffset : Int := 1700000000000000000
def minTtlSeconds : Int := 30
def maxLine : Nat := 16384
def streamCap : Nat := 1048576

def init : St := { nowNs := vclockStart, peers := [], offered := [], strings := [] }

/-! ### site names (as written by the extractor) -/
def siteRecvCombine := "Node::receive_chunk>crypto::Shamir::combine#0:invalid_argument"
def siteFetchCombine := "Node::fetch_chunk>crypto::Shamir::combine#0:invalid_argument"
def siteAnnounceDecode := "Node::handle_announce>protocol::decode_manifest#0:invalid_argument"
def siteFetchDecode := "daemon::ControlServer::Impl::handle_fetch>protocol::decode_manifest#0:invalid_argument"
def siteFetchAbsolute := "daemon::ControlServer::Impl::handle_fetch>std::filesystem::absolute#0:filesystem_error"
def siteWriteFs := "daemon::ControlServer::Impl::handle_fetch>daemon::write_file_bytes#0:filesystem_error"
def siteWriteRt := "daemon::ControlServer::Impl::handle_fetch>daemon::write_file_bytes#0:runtime_error"
def siteNodeStoulRange := "parse_endpoint>std::stoul#0:out_of_range"
def siteNodeStoulInvalid := "parse_endpoint>std::stoul#0:invalid_argument"
def siteRelayStoulRange := "network::parse_endpoint>std::stoul#0:out_of_range"
def siteRelayStoulInvalid := "network::parse_endpoint>std::stoul#0:invalid_argument"

/-- what `std::stoul(text)` (base 10, `unsigned long` = 64 bits) does: leading white space and one sign are
    skipped; no digit ⇒ `invalid_argument`; a magnitude above 2^64−1 ⇒ `out_of_range` (also with a minus sign) -/
inductive Stoul where | value | invalid | range
deriving DecidableEq

def stoulClass (text : Bytes) : Stoul :=
  let isSpace := fun (b : UInt8) => b == 32 || (9 ≤ b.toNat && b.toNat ≤ 13)
  let t := text.dropWhile isSpace
  let t := match t with
    | b :: rest => if b == 43 || b == 45 then rest else t
    | [] => t
  let digits := t.takeWhile fun b => 48 ≤ b.toNat && b.toNat ≤ 57
  if digits.isEmpty then .invalid
  else if digits.foldl (fun acc b => acc * 10 + (b.toNat - 48)) 0 > 18446744073709551615 then .range
  else .value

/-- `parse_endpoint` of Node.cpp: split at the *last* ':'; both parts non-empty; then `stoul(port)` -/
def nodeEndpointSites (e : Bytes) : List String :=
  if e.isEmpty || !e.contains 58 then [] else
  let port := (e.reverse.takeWhile (· != 58)).reverse
  let host := (e.reverse.dropWhile (· != 58)).drop 1
  if host.isEmpty || port.isEmpty then [] else
  match stoulClass port with
  | .range => [siteNodeStoulRange]
  | .invalid => [siteNodeStoulInvalid]
  | .value => []

/-- `parse_relay_endpoint` / `parse_endpoint` of RelayClient.cpp: cut at '?', split at the *first* ':' -/
def relayEndpointSites (e : Bytes) : List String :=
  let addr := e.takeWhile (· != 63)
  if !addr.contains 58 then [] else
  let host := addr.takeWhile (· != 58)
  let port := (addr.dropWhile (· != 58)).drop 1
  if host.isEmpty || port.isEmpty then [] else
  match stoulClass port with
  | .range => [siteRelayStoulRange]
  | .invalid => [siteRelayStoulInvalid]
  | .value => []

/-- the specification's verdict on the implementation's line, naming the boundary the delivery entered:
    `viol:escape-<boundary>:<class>` -/
def judgeAt (boundary : String) (impl : Option String) : String :=
  match impl with
  | none => "ok"
  | some l =>
    let v := EscapeSpec.judge l
    if v.startsWith "viol:escape:" then
      "viol:escape-" ++ boundary ++ ":" ++ ((((l.splitOn " ").headD "").splitOn ":").getD 1 "?")
    else v

/-- the model's line for a delivery entering at `boundary` with the given fired sites -/
def predict (boundary : String) (fired : List String) : String :=
  match rootByName boundary with
  | none => "no-such-boundary:" ++ boundary
  | some r =>
    match outcome fns (factsOfNames fired) driverFuel r with
    | .survives => "ok"
    | .terminate e => "escape:" ++ excName e

/-- `validate_shards` -/
def validateShards (thr : Nat) (idx : List Nat) : Bool := decide (0 < thr) && decide (thr ≤ idx.length)

/-- `manifest_ttl(...).has_value()` for the harness's configuration (min 30 s; the upper bound clamps) -/
def ttlOk (st : St) (expiresNs : Int) : Bool :=
  let nowWall := st.nowNs + wallOffset
  decide (nowWall < expiresNs) && decide (minTtlSeconds ≤ Int.tdiv (expiresNs - nowWall) 1000000000)

def field (line key : String) : Option String :=
  ((line.splitOn " ").find? fun t => t.startsWith (key ++ "=")).map fun t => (t.drop (key.length + 1)).toString

/-- the part of the implementation's line the model does not predict (hints and observations) -/
def echoTail (impl : Option String) : String :=
  match impl with
  | none => ""
  | some l =>
    match l.splitOn " " with
    | _ :: rest => if rest.isEmpty then "" else " " ++ " ".intercalate rest
    | [] => ""

def idxOfShards (m : Manifest.Manifest) : List Nat := m.shards.map fun s => s.index.toNat

/-- parse `thr:i1.i2.i3:ttl` -/
def parseCm (s : String) : Option (Nat × List Nat × Bool) :=
  match s.splitOn ":" with
  | [t, is, ttl] =>
    match t.toNat? with
    | none => none
    | some thr =>
      let idx := if is == "-" then some [] else (is.splitOn ".").mapM String.toNat?
      idx.map fun ix => (thr, ix, ttl == "1")
  | _ => none

/-! ### control requests: `parse_request` -/

def upperByte (b : UInt8) : UInt8 := if 97 ≤ b.toNat ∧ b.toNat ≤ 122 then UInt8.ofNat (b.toNat - 32) else b
def upper (bs : Bytes) : Bytes := bs.map upperByte
def ascii (s : String) : Bytes := s.toUTF8.toList

structure Req where
  fields : List (Bytes × Bytes) := []
  ok : Bool := false          -- parse succeeded (a command may run)

def setField (fs : List (Bytes × Bytes)) (k v : Bytes) : List (Bytes × Bytes) :=
  (k, v) :: fs.filter fun e => e.1 != k

def splitColon (line : Bytes) : Option (Bytes × Bytes) :=
  match line.span (· != 58) with
  | (_, []) => none
  | (k, _ :: v) => some (k, v)

def parseDec (bs : Bytes) : Option Nat :=
  if bs.isEmpty then none
  else if bs.all (fun b => 48 ≤ b.toNat ∧ b.toNat ≤ 57) then
    let v := bs.foldl (fun acc b => acc * 10 + (b.toNat - 48)) 0
    if v < 18446744073709551616 then some v else none
  else none

/-- header lines up to the first empty line; `none` when the connection ends (or a line exceeds
    the limit) before that — the loop `while (recv_line(...))` then simply stops -/
partial def headerLines (rest : Bytes) (cur : Bytes) (count : Nat) (acc : List Bytes) : List Bytes × Bytes × Bool :=
  match rest with
  | [] => (acc.reverse, [], false)
  | b :: tl =>
    if b == 10 then
      if cur.isEmpty then (acc.reverse, tl, true) else headerLines tl [] 0 (cur.reverse :: acc)
    else if b == 13 then headerLines tl cur count acc
    else if count + 1 > maxLine then (acc.reverse, [], false)
    else headerLines tl (b :: cur) (count + 1) acc

def parseRequest (raw : Bytes) : Req :=
  let (lines, body, _) := headerLines raw [] 0 []
  if lines.isEmpty then {} else
  let rec go (ls : List Bytes) (fs : List (Bytes × Bytes)) (plen : Option Nat) : Option (List (Bytes × Bytes) × Option Nat) :=
    match ls with
    | [] => some (fs, plen)
    | l :: rest =>
      match splitColon l with
      | none => none
      | some (k, v) =>
        let key := upper k
        if key == ascii "PAYLOAD-LENGTH" then
          match parseDec v with
          | none => none
          | some n => if n > streamCap then none else go rest (setField fs key v) (some n)
        else go rest (setField fs key v) plen
  match go lines [] none with
  | none => {}
  | some (fs, plen) =>
    let need := plen.getD 0
    if need > body.length then {} else { fields := fs, ok := true }

def getField (r : Req) (k : String) : Option Bytes := (r.fields.find? fun e => e.1 == ascii k).map (·.2)

def startsWithBytes (p s : Bytes) : Bool := s.take p.length == p

/-- path components (split at '/') -/
def components (p : Bytes) : List Bytes :=
  let (cur, acc) := p.foldl (fun (st : Bytes × List Bytes) b => if b == 47 then ([], st.1.reverse :: st.2) else (b :: st.1, st.2)) ([], [])
  (cur.reverse :: acc).reverse

/-! ### one op -/

def recordOffer (st : St) (m : Manifest.Manifest) : St :=
  { st with offered := (m.chunkId, m.threshold.toNat, idxOfShards m) :: st.offered,
            strings := m.discovery.map (·.endpoint) ++ st.strings }

def stepFrame (st : St) (peer : String) (plainHex : String) (impl : Option String) : St × String × String :=
  match st.peers.lookup peer, bytesOfHex plainHex with
  | some key, some plain =>
    let tail := echoTail impl
    let judge := judgeAt "reader-thread" impl
    match Message.decodeSigned Spec.hmacSha256 plain key with
    | .ok msg =>
      match msg.payload with
      | .announce a =>
        if msg.type != 1 then (st, predict "reader-thread" [] ++ tail, judge) else
        let st := { st with strings := a.endpoint :: st.strings }
        let sender : Bytes := (id32 peer).map UInt8.ofNat
        match Manifest.decodeManifest a.manifestUri with
        | .ok m => (recordOffer st m, predict "reader-thread" [] ++ tail, judge)
        | .invalidArg =>
          let fired := if a.peerId == sender && !a.manifestUri.isEmpty then [siteAnnounceDecode] else []
          (st, predict "reader-thread" fired ++ tail, judge)
        | _ => (st, "model-decoder-not-total" ++ tail, judge)
      | .chunk cid _ _ =>
        if msg.type != 3 then (st, predict "reader-thread" [] ++ tail, judge) else
        let hint := (impl.bind (field · "cm")).getD "-"
        match parseCm hint with
        | none => (st, predict "reader-thread" [] ++ tail, judge)
        | some (thr, idx, ttl) =>
          let known := st.offered.any fun o => o.1 == cid && o.2.1 == thr && o.2.2 == idx
          if !known then (st, "hint-not-among-offered-manifests" ++ tail, judge) else
          let reaches := validateShards thr idx && ttl
          let throws := reaches && combineThrows idx thr
          let fired := if throws then [siteRecvCombine] else []
          -- a chunk whose key cannot be reconstructed must be refused, not accepted
          let replies := (impl.bind (field · "r")).getD "-"
          let judge' := if judge == "ok" && throws && (replies.splitOn ",").contains "ack:1"
                        then "viol:accepted-unreconstructable-chunk" else judge
          (st, predict "reader-thread" fired ++ tail, judge')
      | _ => (st, predict "reader-thread" [] ++ tail, judge)
    | .reject => (st, predict "reader-thread" [] ++ tail, judge)
    | .oob => (st, "model-decoder-oob" ++ tail, judge)
  | _, _ => (st, "bad-op", "ok")

def stepCtl (st : St) (rawHex : String) (impl : Option String) : St × String × String :=
  match bytesOfHex rawHex with
  | none => (st, "bad-op", "ok")
  | some raw =>
    let tail := echoTail impl
    if impl.any (·.startsWith "skip:") then (st, (impl.getD ""), "ok") else
    let judge := judgeAt "control-accept-thread" impl
    let req := parseRequest raw
    let cmd := (getField req "COMMAND").map upper
    if !req.ok || cmd != some (ascii "FETCH") then (st, predict "control-accept-thread" [] ++ tail, judge) else
    match getField req "MANIFEST" with
    | none => (st, predict "control-accept-thread" [] ++ tail, judge)
    | some uri =>
      match Manifest.decodeManifest uri with
      | .invalidArg => (st, predict "control-accept-thread" [siteFetchDecode] ++ tail, judge)
      | .ok m =>
        let st := recordOffer st m
        let out := getField req "OUT"
        let streamV := (getField req "STREAM").map upper
        let stream := streamV == some (ascii "CLIENT") || streamV == some (ascii "1") ||
                      streamV == some (ascii "TRUE") || streamV == some (ascii "YES")
        if out == some [] then (st, predict "control-accept-thread" [siteFetchAbsolute] ++ tail, judge) else
        if !stream && out.isNone then (st, predict "control-accept-thread" [] ++ tail, judge) else
        let thr := m.threshold.toNat
        let idx := idxOfShards m
        if !(validateShards thr idx && ttlOk st m.expiresNs) then (st, predict "control-accept-thread" [] ++ tail, judge) else
        let held := (impl.bind (field · "held")) == some "1"
        if !held then (st, predict "control-accept-thread" [] ++ tail, judge) else
        if combineThrows idx thr then (st, predict "control-accept-thread" [siteFetchCombine] ++ tail, judge) else
        if stream then (st, predict "control-accept-thread" [] ++ tail, judge) else
        let o := out.getD []
        let fired :=
          if startsWithBytes (ascii "/proc/") o || startsWithBytes (ascii "/dev/null/") o then [siteWriteFs]
          else if o == ascii "." || (components o).any (fun comp => comp.length > 255) then [siteWriteRt] else []
        (st, predict "control-accept-thread" fired ++ tail, judge)
      | _ => (st, "model-decoder-not-total" ++ tail, judge)

def step (st : St) (tok : List String) (_line : String) (impl : Option String) : St × String × String :=
  let judge := (impl.map EscapeSpec.judge).getD "ok"
  match tok with
  | "cfg" :: _ => ({ init with nowNs := st.nowNs }, "ok", judge)
  | ["adv", n] =>
    match n.toInt? with
    | some d => ({ st with nowNs := st.nowNs + d }, "ok", judge)
    | none => (st, "bad-op", "ok")
  | ["peer", name, keyHex] =>
    match bytesOfHex keyHex with
    | some k => if k.length == 32 then ({ st with peers := (name, k) :: st.peers.filter (·.1 != name) }, "ok", judge)
                else (st, "bad-op:key", "ok")
    | none => (st, "bad-op:key", "ok")
  | ["frame", peer, plain] => stepFrame st peer plain impl
  | ["frame", peer, plain, _raw] => stepFrame st peer plain impl
  | ["stream", peer, _raw] =>
    if (st.peers.lookup peer).isSome then (st, predict "reader-thread" [] ++ echoTail impl, judgeAt "reader-thread" impl)
    else (st, "bad-op:unknown-peer", "ok")
  | ["hs", _raw] => (st, predict "transport-accept-thread" [] ++ echoTail impl, judgeAt "transport-accept-thread" impl)
  | ["ctl", raw] => stepCtl st raw impl
  | ["tick"] =>
    -- the fetch retries of this tick dial what peers announced: every due fetch without a live session parses its
    -- announced endpoint (Node's parse_endpoint) and, when a RelayClient exists, the relay hints of its manifest
    let due := (impl.bind (field · "due")).getD "-"
    let relay := (impl.bind (field · "relay")) == some "1"
    let entries := if due == "-" then [] else due.splitOn ","
    let parsed := entries.map fun ent =>
      match ent.splitOn ":" with
      | [_, ep, hints] =>
        let e := (bytesOfHex ep).getD []
        let hs := if hints == "-" then [] else (hints.splitOn "+").map fun h => (bytesOfHex h).getD []
        some (e, hs)
      | _ => none
    if parsed.any (·.isNone) then (st, "bad-due-hint" ++ echoTail impl, judgeAt "main-loop-tick" impl) else
    let items := parsed.filterMap id
    let known := items.all fun (e, hs) => (e.isEmpty || st.strings.contains e) && hs.all fun h => h.isEmpty || st.strings.contains h
    if !known then (st, "hint-not-among-offered-endpoints" ++ echoTail impl, judgeAt "main-loop-tick" impl) else
    let fired := items.flatMap fun (e, hs) =>
      let own := nodeEndpointSites e
      -- an endpoint that parses is dialled (and refused); only then, or without one, the relay hints are tried
      own ++ (if relay then hs.flatMap relayEndpointSites else [])
    (st, predict "main-loop-tick" fired ++ echoTail impl, judgeAt "main-loop-tick" impl)
  | ["rt", "stall-reads"] =>
    -- the control read sites only (witness of the round-2 seeded change)
    let c := fun (site : Site) => if servedBehind (controlBounds 1) site then "OK_PING" else "timeout"
    let tmo := (impl.bind (field · "ctl-timeout")).getD "?"
    let model := s!"ok ctl-timeout={tmo} ctl-second={c .header} ctl-hdr1={c .header} ctl-hdrpart={c .header} " ++
      s!"ctl-pay0={c .payload} ctl-payhalf={c .payload} ctl-paym1={c .payload} ctl-after=OK_PING"
    let verdict := match impl with
      | none => "ok"
      | some l =>
        if !l.startsWith "ok" then EscapeSpec.judge l
        else if (field l "ctl-after") != some "OK_PING" then
          "viol:stops-serving-after-release:an accept loop does not recover after the stalling client left"
        else match ["ctl-second", "ctl-hdr1", "ctl-hdrpart", "ctl-pay0", "ctl-payhalf", "ctl-paym1"].find? (fun k => (field l k) != some "OK_PING") with
          | some k => s!"viol:stops-serving-control:a control client that stalls while being read ({k}) keeps the control accept thread from the next client"
          | none => "ok"
    (st, model, verdict)
  | ["rt", "stall"] =>
    -- a client that stalls at each blocking step of each accept loop, ahead of a well-behaved one; the expectation
    -- follows the timeout / retry flags regenerated from the source (`Escape.servedBehind`)
    let c := fun (site : Site) => if servedBehind (controlBounds 1) site then "OK_PING" else "timeout"
    let t := fun (site : Site) => if servedBehind (transportBounds 1) site then "acked" else "timeout"
    let tmo := (impl.bind (field · "ctl-timeout")).getD "?"
    let model := s!"ok ctl-timeout={tmo} ctl-second={c .header} ctl-hdr1={c .header} ctl-hdrpart={c .header} " ++
      s!"ctl-pay0={c .payload} ctl-payhalf={c .payload} ctl-paym1={c .payload} ctl-wstall={c .write} ctl-after=OK_PING " ++
      s!"tr-second={t .header} tr-pay={t .payload} tr-after=acked"
    let ctlReads := ["ctl-second", "ctl-hdr1", "ctl-hdrpart", "ctl-pay0", "ctl-payhalf", "ctl-paym1"]
    let verdict := match impl with
      | none => "ok"
      | some l =>
        if !l.startsWith "ok" then EscapeSpec.judge l
        else if (field l "tr-second") != some "acked" || (field l "tr-pay") != some "acked" then
          "viol:stops-serving-transport:an inbound connection that stalls in its handshake keeps the transport accept thread from the next peer"
        else if (field l "ctl-after") != some "OK_PING" || (field l "tr-after") != some "acked" then
          "viol:stops-serving-after-release:an accept loop does not recover after the stalling client left"
        else match ctlReads.find? (fun k => (field l k) != some "OK_PING") with
          | some k => s!"viol:stops-serving-control:a control client that stalls while being read ({k}) keeps the control accept thread from the next client"
          | none =>
            if (field l "ctl-wstall") != some "OK_PING" then
              "viol:stops-serving-control:a control client that never reads its answer keeps the control accept thread from the next client"
            else "ok"
    (st, model, verdict)
  | ["rt", _] =>
    -- real threads: the process survived iff the line is there at all; every probe must have been answered
    let verdict := match impl with
      | none => "ok"
      | some l =>
        if !l.startsWith "ok" then EscapeSpec.judge l
        else if (field l "ping") != some "OK_PING" then "viol:stops-serving:control plane does not answer after the attack"
        else if (field l "link2") != some "1" then "viol:stops-serving:transport does not accept a second peer after the attack"
        else if (field l "fetch-good") != some "OK_FETCH" then "viol:stops-serving:held chunk no longer served"
        else "ok"
    (st, "ok" ++ echoTail impl, verdict)
  | _ => (st, "bad-op", "ok")

def machine : Machine St := { init := init, step := step }

end EphVerif.DriverC35

def main (args : List String) : IO UInt32 := EphVerif.Proto.runMain EphVerif.DriverC35.machine args
