import EphVerif.Driver.Proto
import EphVerif.Generated.C23
import EphVerif.Model.Uploads
import EphVerif.Spec.Uploads

open EphVerif EphVerif.Proto

namespace EphVerif.DriverC23
open EphVerif.Uploads

def second : Int := 1000000000
def vclockStart : Int := 1000000000000

/-- raw configuration in the units of `Config` (seconds, counts) -/
structure RawCfg where
  maxParallel : Nat := Gen.C23.cfg_upload_max_parallel_transfers
  maxPerPeer : Nat := Gen.C23.cfg_upload_max_transfers_per_peer
  reconsider : Int := Gen.C23.cfg_upload_reconsider_interval
  timeout : Int := Gen.C23.cfg_upload_transfer_timeout

def RawCfg.toCfg (r : RawCfg) : Cfg := ⟨r.maxParallel, r.maxPerPeer, r.reconsider * second, r.timeout * second⟩

structure St where
  raw : RawCfg := {}
  started : Bool := false          -- the node exists (configuration is frozen)
  now : Int := vclockStart
  keys : List String := []         -- peers with a registered shared secret
  links : List String := []        -- peers with a planted transport session
  store : List (String × Int) := []  -- chunk ↦ steady-clock expiry of the stored record (= manifest expiry)
  peers : List String := []        -- every peer name seen (to print the counter map)
  model : State := State.init vclockStart
  ledger : C23Spec.Ledger := []    -- the specification's ledger, driven by the implementation's frames

def minTtl : Int := Gen.C23.cfg_min_manifest_ttl
def maxTtl : Int := Gen.C23.cfg_max_manifest_ttl
def defaultTtl : Int := Gen.C23.cfg_default_chunk_ttl

/-- `clamp_chunk_ttl(ttl > 0 ? ttl : default, min, max)` of `store_chunk` -/
def storeTtl (ttl : Int) : Int :=
  let e := if ttl > 0 then ttl else defaultTtl
  let e := if e < minTtl then minTtl else e
  let e := if e > maxTtl then maxTtl else e
  if e ≤ 0 then 1 else e

def lookup (l : List (String × Int)) (c : String) : Option Int := (l.find? fun x => x.1 == c).map (·.2)

/-- record live (`now < expires_at`) -/
def held (st : St) (c : String) : Bool :=
  match lookup st.store c with
  | some e => decide (st.now < e)
  | none => false

/-- record live and `manifest_ttl` has a value: whole seconds left ≥ min_manifest_ttl (and > 0) -/
def servable (st : St) (c : String) : Bool :=
  match lookup st.store c with
  | some e => decide (st.now < e) && decide ((e - st.now) / second ≥ minTtl) && decide ((e - st.now) / second > 0)
  | none => false

def envOf (st : St) : Env :=
  { hasKey := fun p => st.keys.contains p, linkUp := fun p => st.links.contains p, servable := servable st }

def sortStrs (l : List String) : List String := l.mergeSort (fun a b => a ≤ b)

def joinOrDash (l : List String) : String := if l.isEmpty then "-" else ";".intercalate l

def frameStr : Frame → String × String
  | .chunk p c => (p, s!"{p}>chunk:{c}")
  | .nack p c => (p, s!"{p}>nack:{c}")

/-- frames grouped by peer name (stable), as the harness reads them socket by socket -/
def fmtFrames (fr : List Frame) : String :=
  let items := (fr.map frameStr).mergeSort (fun a b => a.1 ≤ b.1)
  if items.isEmpty then "-" else ",".intercalate (items.map (·.2))

def fmtState (st : St) : String :=
  let m := st.model
  let act := sortStrs (m.active.map fun a => s!"{a.peer}:{a.chunk}:{st.now - a.started}")
  let pp := sortStrs ((st.peers.eraseDups.filter fun p => m.perPeer p > 0).map fun p => s!"{p}:{m.perPeer p}")
  let q := m.queue.map fun r => s!"{r.peer}:{r.chunk}"
  let heldL := sortStrs ((st.store.map (·.1)).eraseDups.filter (held st))
  s!"act={joinOrDash act} pp={joinOrDash pp} q={joinOrDash q} done={m.completed} rot={st.now - m.lastRotation} held={joinOrDash heldL}"

def modelLine (st : St) (fr : List Frame) : String := fmtFrames fr ++ " | " ++ fmtState st

/-! ### Reading the implementation's line -/

structure Obs where
  frames : List String            -- `p>kind:chunk[:flag]`
  act : List (String × String × Int)   -- peer, chunk, age
  pp : List (String × Nat)

def field (fields : List String) (key : String) : Option String :=
  (fields.find? fun f => f.startsWith (key ++ "=")).map fun f => (f.drop (key.length + 1)).toString

def items (s : String) (sep : String) : List String := if s == "-" then [] else s.splitOn sep

def parseObs (line : String) : Option Obs :=
  match line.splitOn " | " with
  | [fr, stt] =>
    let fields := stt.splitOn " "
    match field fields "act", field fields "pp" with
    | some a, some p =>
      let act := (items a ";").filterMap fun it =>
        match it.splitOn ":" with
        | [pe, ch, age] => age.toInt?.map fun g => (pe, ch, g)
        | _ => none
      let pp := (items p ";").filterMap fun it =>
        match it.splitOn ":" with
        | [pe, n] => n.toNat?.map fun k => (pe, k)
        | _ => none
      some ⟨items fr ",", act, pp⟩
    | _, _ => none
  | _ => none

/-- chunk frames `p>chunk:c` of the implementation, in order -/
def sentOfObs (o : Obs) : List (String × String) :=
  o.frames.filterMap fun f =>
    match f.splitOn ">" with
    | [p, rest] =>
      match rest.splitOn ":" with
      | ["chunk", c] => some (p, c)
      | _ => none
    | _ => none

/-- The monitor: the specification judging what the implementation shows after a step. -/
def judge (st : St) (cfg : Cfg) (acked : Option (String × String)) (scheduled : Bool)
    (nackWanted : Option (String × String)) (impl : Option String) : C23Spec.Ledger × String :=
  match impl with
  | none => (st.ledger, "ok")
  | some line =>
    match parseObs line with
    | none => (st.ledger, if line.startsWith "crash" then "ok" else "viol:unreadable")
    | some o =>
      let L := C23Spec.advance cfg.timeout st.now st.ledger acked scheduled (sentOfObs o)
      let slots : String → Nat := fun p => ((o.pp.find? fun x => x.1 == p).map (·.2)).getD 0
      let peers := (st.peers ++ o.pp.map (·.1) ++ L.map (·.peer)).eraseDups
      let want := sortStrs (L.map fun x => s!"{x.peer}:{x.chunk}:{st.now - x.started}")
      let got := sortStrs (o.act.map fun (p, c, g) => s!"{p}:{c}:{g}")
      let v :=
        match nackWanted with
        | some (p, c) =>
          if o.frames.contains s!"{p}>nack:{c}" then none else some s!"viol:nack:no negative acknowledgement for {c} to {p}"
        | none => none
      let v := v.orElse fun _ =>
        if !C23Spec.limitGlobal cfg.maxParallel L then some s!"viol:limit-global:{L.length} running uploads, limit {cfg.maxParallel}" else none
      let v := v.orElse fun _ =>
        if !C23Spec.limitPeer cfg.maxPerPeer L peers then some s!"viol:limit-peer:a peer runs more than {cfg.maxPerPeer} uploads" else none
      let v := v.orElse fun _ =>
        match C23Spec.slotMismatch L slots peers with
        | some (p, true) => some s!"viol:release:{p} has no running upload but {slots p} slot(s) in use"
        | some (p, false) => some s!"viol:slot-count:{p} runs {C23Spec.running L p} upload(s) but {slots p} slot(s) in use"
        | none => none
      let v := v.orElse fun _ =>
        if got != want then some s!"viol:ledger:running uploads expected {joinOrDash want}" else none
      (L, v.getD "ok")

def noteNames (st : St) (ps : List String) : St := { st with peers := st.peers ++ ps.filter fun p => !st.peers.contains p }

def startNode (st : St) : St :=
  if st.started then st else { st with started := true, model := State.init st.now }

def step (st : St) (tok : List String) (_line : String) (impl : Option String) : St × String × String :=
  match tok with
  | ["cfg", f, v] =>
    if st.started then (st, "bad-op", "ok") else
    match v.toInt? with
    | none => (st, "bad-op", "ok")
    | some n =>
      let r := st.raw
      let r' : Option RawCfg :=
        if f == "upload_max_parallel_transfers" then some { r with maxParallel := (n % 65536).toNat }
        else if f == "upload_max_transfers_per_peer" then some { r with maxPerPeer := (n % 65536).toNat }
        else if f == "upload_reconsider_interval" then some { r with reconsider := n }
        else if f == "upload_transfer_timeout" then some { r with timeout := n }
        else if f.startsWith "fetch_" then some r
        else none
      match r' with
      | some r' => ({ st with raw := r' }, "ok", "ok")
      | none => (st, "bad-op", "ok")
  | ["adv", n] =>
    match n.toInt? with
    | some d => ({ st with now := st.now + d }, "ok", "ok")
    | none => (st, "bad-op", "ok")
  | ["key", p] =>
    let st := noteNames (startNode st) [p]
    let st := { st with keys := if st.keys.contains p then st.keys else p :: st.keys }
    let (L, v) := judge st st.raw.toCfg none false none impl
    ({ st with ledger := L }, modelLine st [], v)
  | ["link", p] =>
    let st := noteNames (startNode st) [p]
    let st := { st with links := if st.links.contains p then st.links else p :: st.links }
    let (L, v) := judge st st.raw.toCfg none false none impl
    ({ st with ledger := L }, modelLine st [], v)
  | ["unlink", p] =>
    let st := noteNames (startNode st) [p]
    let st := { st with links := st.links.filter (· != p) }
    let (L, v) := judge st st.raw.toCfg none false none impl
    ({ st with ledger := L }, modelLine st [], v)
  | ["have", c, ttl] =>
    match ttl.toInt? with
    | none => (st, "bad-op", "ok")
    | some t =>
      let st := startNode st
      let st := { st with store := (c, st.now + storeTtl t * second) :: st.store.filter (·.1 != c) }
      let (L, v) := judge st st.raw.toCfg none false none impl
      ({ st with ledger := L }, modelLine st [], v)
  | ["req", p, c] =>
    let st := noteNames (startNode st) [p]
    let cfg := st.raw.toCfg
    let env := envOf st
    let (m, fr) := handleRequest cfg env st.now st.model p c
    let scheduled := env.hasKey p && env.servable c
    let nackWanted := if C23Spec.nackDue (sendOk env p) (env.servable c) then some (p, c) else none
    let st' := { st with model := m }
    let (L, v) := judge st cfg none scheduled nackWanted impl
    ({ st' with ledger := L }, modelLine st' fr, v)
  | ["ack", p, c, _flag] =>
    let st := noteNames (startNode st) [p]
    let cfg := st.raw.toCfg
    let (m, fr) := handleAck cfg (envOf st) st.now st.model p c
    let st' := { st with model := m }
    let (L, v) := judge st cfg (some (p, c)) true none impl
    ({ st' with ledger := L }, modelLine st' fr, v)
  | ["tick"] =>
    let st := startNode st
    let cfg := st.raw.toCfg
    let (m, fr) := process cfg (envOf st) st.now st.model
    let st' := { st with model := m }
    let (L, v) := judge st cfg none true none impl
    ({ st' with ledger := L }, modelLine st' fr, v)
  | _ => (st, "bad-op", "ok")

def machine : Machine St := { init := {}, step := step }

end EphVerif.DriverC23

def main (args : List String) : IO UInt32 := EphVerif.Proto.runMain EphVerif.DriverC23.machine args
