import EphVerif.Monitor.Control

/-- line-protocol driver for C29: the control-plane model + the C29 clauses of the monitor -/
def main (args : List String) : IO UInt32 :=
  EphVerif.Proto.runMain (EphVerif.ControlMonitor.machine .c29) args
