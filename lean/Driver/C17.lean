import EphVerif.Driver.Proto
import EphVerif.Monitor.Manifest

/-!
Driver for C17 (manifest round trip / refusal).  Ops:
  enc <fields>  model: `encodeManifest`;            monitor: refused iff not `Encodable`
  rt  <fields>  model: `decodeManifest ∘ encodeManifest`; monitor: `normalise` / refusal (Spec only)
  dec <bs>      model: `decodeManifest`;            monitor: C18's acceptable-outcome test
-/
open EphVerif EphVerif.Proto EphVerif.Manifest EphVerif.Manifest.Wire

namespace EphVerif.DriverC17

def step (_ : Unit) (tok : List String) (_line : String) (impl : Option String) : Unit × String × String :=
  match tok with
  | "enc" :: rest =>
    match parseManifest rest with
    | none => ((), "bad-op", "ok")
    | some m => ((), fmtEncode (encodeManifest m), (impl.map (monitorEncode m)).getD "ok")
  | "rt" :: rest =>
    match parseManifest rest with
    | none => ((), "bad-op", "ok")
    | some m => ((), fmtRoundTrip m, (impl.map (monitorRoundTrip m)).getD "ok")
  | ["dec", u] =>
    match parseBs u with
    | none => ((), "bad-op", "ok")
    | some uri => ((), fmtDecode (decodeManifest uri), (impl.map monitorDecode).getD "ok")
  | _ => ((), "bad-op", "ok")

def machine : Machine Unit := { init := (), step := step }

end EphVerif.DriverC17

def main (args : List String) : IO UInt32 := EphVerif.Proto.runMain EphVerif.DriverC17.machine args
