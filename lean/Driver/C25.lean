import EphVerif.Monitor.Relay

/-- C25 driver: relay model + the C25 clauses of the relay specification as monitor. -/
def main (args : List String) : IO UInt32 :=
  EphVerif.Proto.runMain (EphVerif.RelayMon.machine .c25) args
