import EphVerif.Driver.Proto
import EphVerif.Model.Advertise
import EphVerif.Spec.Advertise

open EphVerif EphVerif.Proto EphVerif.Adv

namespace EphVerif.DriverC34

/-- a host token of the line protocol: its text (as the implementation receives it) and, for numeric tokens, the
numeric address the specification judges (`inl` IPv4, `inr` IPv6) -/
structure HostTok where
  text : Str
  num : Option (Sum Nat Nat)

def groupsOf (bs : List Nat) : List Nat :=
  match bs with
  | a :: b :: rest => (a * 256 + b) :: groupsOf rest
  | _ => []

def num6 (g : List Nat) : Nat := g.foldl (fun acc x => acc * 65536 + x) 0

def hostTok (t : String) : Option HostTok :=
  if t == "-" then some ⟨[], none⟩
  else if t.startsWith "t:" then some ⟨(t.drop 2).toString.toList, none⟩
  else if t.startsWith "4:" then
    match natsOfHex (t.drop 2).toString with
    | some [a, b, c, d] => some ⟨fmt4 a b c d, some (.inl (AdvSpec.ip4 a b c d))⟩
    | _ => none
  else if t.startsWith "6:" then
    match natsOfHex (t.drop 2).toString with
    | some bs => if bs.length == 16 then
        let g := groupsOf bs
        some ⟨fmt6 g, some (.inr (num6 g))⟩ else none
    | none => none
  else none

def nonRoutable (n : Sum Nat Nat) : Bool :=
  match n with
  | .inl x => decide (AdvSpec.nonRoutable4 x)
  | .inr x => decide (AdvSpec.nonRoutable6 x)

def str (s : Str) : String := String.ofList s
def untok (s : Str) : String := if s.isEmpty then "-" else str s
def bit (b : Bool) : String := if b then "1" else "0"

def fmtCands (cs : List Cand) : String :=
  if cs.isEmpty then "-" else ",".intercalate (cs.map fun c => s!"{str c.via}|{untok c.host}|{c.port}")

def fmtAdv (es : List Ep) : String :=
  if es.isEmpty then "-" else ",".intercalate (es.map fun e => s!"{bit e.manual}|{untok e.host}|{e.port}|{untok e.source}")

def fmtHints (hs : List Hint) : String :=
  if hs.isEmpty then "-" else ",".intercalate (hs.map fun h => s!"{str h.scheme}|{untok h.host}|{h.port}")

/-- `key=value` fields of an implementation line -/
def field (line : String) (key : String) : Option String :=
  (line.splitOn " ").findSome? fun f => if f.startsWith (key ++ "=") then some (f.drop (key.length + 1)).toString else none

def items (v : String) : List (List String) := if v == "-" then [] else (v.splitOn ",").map (·.splitOn "|")

/-- hosts of candidates in an implementation line -/
def implCandHosts (line : String) : List String := (items ((field line "cand").getD "-")).filterMap (·[1]?)
/-- hosts of non-manual advertised endpoints -/
def implAutoAdv (line : String) : List String :=
  (items ((field line "adv").getD "-")).filterMap fun f => if f[0]? == some "0" then f[1]? else none
/-- hosts of non-manual (`transport`) manifest hints -/
def implAutoHints (line : String) : List String :=
  (items ((field line "hints").getD "-")).filterMap fun f => if f[0]? == some "transport" then f[1]? else none

/-- numeric inputs whose canonical text must not be published when private advertising is not allowed -/
def forbidden (nums : List HostTok) : List String :=
  nums.filterMap fun h => match h.num with
    | some n => if nonRoutable n then some (str h.text) else none
    | none => if decide (AdvSpec.loopbackName h.text) then some (str h.text) else none   -- `localhost` in any case

def echoTok (echo : String) : HostTok :=
  -- the fallback echo address is 198.51.100.N: numeric by construction
  match (echo.splitOn ".").map String.toNat? with
  | [some a, some b, some c, some d] => ⟨echo.toList, some (.inl (AdvSpec.ip4 a b c d))⟩
  | _ => ⟨echo.toList, none⟩

def parseMode (s : String) : Option Mode :=
  if s == "on" then some .on else if s == "warn" then some .warn else if s == "off" then some .off else none

def parseEps (s : String) : Option (List Ep) :=
  if s == "-" then some [] else
  (s.splitOn ";").mapM fun item =>
    match item.splitOn "|" with
    | [h, p, m] => do
      let ht ← hostTok h
      let port ← p.toNat?
      pure ⟨ht.text, port, m == "1", if m == "1" then "manual".toList else "stale".toList⟩
    | _ => none

def classifyVerdict (clause : String) (num : Sum Nat Nat) (impl : Option String) : String :=
  match impl with
  | none => "ok"
  | some i =>
    match i.splitOn " " with
    | [_, c] => if nonRoutable num && c == "0" then s!"viol:{clause}:non-routable address classified routable" else "ok"
    | _ => "ok"

def step (_ : Unit) (tok : List String) (_line : String) (impl : Option String) : Unit × String × String :=
  match tok with
  | ["cls", h] =>
    match hostTok h with
    | some ht =>
      let v := match ht.num, impl with
        | some n, some i => if nonRoutable n && i == "0" then "viol:classify:non-routable address classified routable" else "ok"
        | none, some i =>
          if decide (AdvSpec.loopbackName ht.text) && i == "0" then
            "viol:classify-name:a spelling of localhost (loopback) classified routable" else "ok"
        | _, _ => "ok"
      ((), bit (isPrivHost ht.text), v)
    | none => ((), "throw:invalid_argument", "ok")
  | ["p4", h] =>
    match hostTok h with
    | some ht =>
      match v4OfList (parseIpv4 ht.text) with
      | some (a, b, c, d) => ((), hexOfNats [a, b, c, d], "ok")
      | none => ((), "none", "ok")
    | none => ((), "throw:invalid_argument", "ok")
  | ["c4", hex] =>
    match natsOfHex hex with
    | some [a, b, c, d] =>
      let t := fmt4 a b c d
      ((), s!"{str t} {bit (isPrivHost t)}", classifyVerdict "classify-v4" (.inl (AdvSpec.ip4 a b c d)) impl)
    | _ => ((), "bad-op", "ok")
  | ["c6", hex] =>
    match natsOfHex hex with
    | some bs =>
      if bs.length != 16 then ((), "bad-op", "ok") else
      let g := groupsOf bs
      let t := fmt6 g
      ((), s!"{str t} {bit (isPrivHost t)}", classifyVerdict "classify-v6" (.inr (num6 g)) impl)
    | none => ((), "bad-op", "ok")
  | ["bt", priv, stunOk, ext, extPort, ch, tport] =>
    match hostTok ext, hostTok ch, extPort.toNat?, tport.toNat? with
    | some e, some c, some ep, some tp =>
      let echo := (impl.bind (field · "echo")).getD "198.51.100.20"
      let cfg : Cfg := ⟨.on, priv == "1", c.text, 47777, none, none, []⟩
      let (cands, conflict) := build cfg echo.toList tp ⟨e.text, ep, stunOk == "1"⟩
      let out := s!"echo={echo} cand={fmtCands cands} conflict={bit conflict}"
      let v := match impl with
        | none => "ok"
        | some i =>
          if priv == "0" && (implCandHosts i).any (fun h => (forbidden [e, c, echoTok echo]).contains h) then
            "viol:candidate-nonroutable:a non-routable address became a candidate although private advertising is not allowed"
          else "ok"
      ((), out, v)
    | _, _, _, _ => ((), "throw:invalid_argument", "ok")
  | ["node", mode, priv, stun, ch, advH, advP, eps] =>
    let stunTok : Option (Option HostTok) :=
      if stun == "fail" || stun == "off" then some none else (hostTok stun).map some
    match parseMode mode, stunTok, hostTok ch, parseEps eps with
    | some m, some st, some c, some es =>
      let advHost : Option Str := if advH == "-" then none else (hostTok advH).map (·.text)
      let advPort : Option Nat := if advP == "-" then none else advP.toNat?
      let tp := ((impl.bind (field · "tp")).bind String.toNat?).getD 40000
      let echo := (impl.bind (field · "echo")).getD "198.51.100.20"
      let cfg : Cfg := ⟨m, priv == "1", c.text, 47777, advHost, advPort, es⟩
      let n := startTransport cfg (stun != "off") (st.map (·.text)) echo.toList tp
      let out := s!"tp={tp} echo={echo} cand={fmtCands n.cands} conflict={bit n.conflict} adv={fmtAdv n.endpoints} hints={fmtHints (hints n)}"
      let v := match impl with
        | none => "ok"
        | some i =>
          let published := implAutoAdv i ++ implAutoHints i
          let nums := (match st with | some s => [s] | none => []) ++ [c, echoTok echo]
          if m == .off && !published.isEmpty then
            s!"viol:published-when-off:auto-advertise is off but {published.head!} is published as an automatic endpoint"
          else if m == .warn && field i "conflict" == some "1" && !published.isEmpty then
            s!"viol:published-conflict-in-warn:warn mode with conflicting candidates but {published.head!} is published"
          else if priv == "0" && published.any (fun h => (forbidden nums).contains h) then
            s!"viol:published-nonroutable:{(published.filter fun h => (forbidden nums).contains h).head!} is published although private advertising is not allowed"
          else "ok"
      ((), out, v)
    | _, _, _, _ => ((), "throw:invalid_argument", "ok")
  | _ => ((), "bad-op", "ok")

def machine : Machine Unit := { init := (), step := step }

end EphVerif.DriverC34

def main (args : List String) : IO UInt32 := EphVerif.Proto.runMain EphVerif.DriverC34.machine args
