import EphVerif.Driver.Proto
import EphVerif.Model.Hmac
import EphVerif.Spec.Hmac

/-!
Driver for C08.  Ops (one output line each):
  sha <msg> <splits>          digest of <msg> fed to the streaming hasher in pieces cut at <splits>
  hmac <key> <data>           tag
  verify <key> <data> <tag>   true | false
<msg>/<key>/<data>/<tag>: lowercase hex, `-` for empty, or `<len>:<seed>` (LCG pattern, same
expansion as harness/crypto_sha_h.cpp); <splits>: `-` or ascending comma-separated offsets.
Model column: `Model.Sha256` / `Model.Hmac` (the transcription of the C++).
Verdict column: the *specification* (`Spec.sha256`, `Spec.hmacSha256`) judging the implementation's line.
-/
open EphVerif EphVerif.Proto

namespace EphVerif.DriverC08

/-- `x ← x·1664525 + 1013904223 (mod 2^32)`, byte = top 8 bits -/
def patternAux : Nat → UInt32 → List UInt8 → List UInt8
  | 0, _, acc => acc.reverse
  | n + 1, x, acc =>
    let x' := x * 1664525 + 1013904223
    patternAux n x' ((x' >>> 24).toUInt8 :: acc)

def pattern (n seed : Nat) : List UInt8 := patternAux n (UInt32.ofNat seed) []

def parseBytes (tok : String) : Option (List UInt8) :=
  match tok.splitOn ":" with
  | [l, s] =>
    match l.toNat?, s.toNat? with
    | some n, some seed => some (pattern n seed)
    | _, _ => none
  | _ => bytesOfHex tok

def parseSplits (tok : String) : Option (List Nat) :=
  if tok == "-" then some [] else (tok.splitOn ",").mapM (·.toNat?)

/-- pieces `data[0:p1], data[p1:p2], …, data[pk:]` (each point clamped to `[previous, length]`) -/
def pieces (data : List UInt8) (pos : Nat) : List Nat → List (List UInt8)
  | [] => [data]
  | p :: ps =>
    let k := (max p pos) - pos
    data.take k :: pieces (data.drop k) (pos + min k data.length) ps

def hexOut (bs : List UInt8) : String := hexOrDash (hexOfBytes bs)

def step (_ : Unit) (tok : List String) (_line : String) (impl : Option String) : Unit × String × String :=
  if (impl.getD "").startsWith "crash:" then ((), "-", "viol:crash:the implementation did not return") else
  match tok with
  | ["sha", m, sp] =>
    match parseBytes m, parseSplits sp with
    | some msg, some pts =>
      let model := hexOut (Model.Sha256.finalize ((pieces msg 0 pts).foldl Model.Sha256.update Model.Sha256.init))
      let verdict := match impl with
        | none => "ok"
        | some i =>
          let want := hexOut (Spec.sha256 msg)
          if i == want then "ok" else s!"viol:sha-digest:FIPS 180-4 value is {want}"
      ((), model, verdict)
    | _, _ => ((), "bad-op", "ok")
  | ["hmac", k, d] =>
    match parseBytes k, parseBytes d with
    | some key, some data =>
      let model := hexOut (Model.Hmac.compute key data)
      let verdict := match impl with
        | none => "ok"
        | some i =>
          let want := hexOut (Spec.hmacSha256 key data)
          if i == want then "ok" else s!"viol:hmac-tag:RFC 2104 value is {want}"
      ((), model, verdict)
    | _, _ => ((), "bad-op", "ok")
  | ["verify", k, d, t] =>
    match parseBytes k, parseBytes d, parseBytes t with
    | some key, some data, some tag =>
      let model := toString (Model.Hmac.verify key data tag)
      let verdict := match impl with
        | none => "ok"
        | some i =>
          let want := decide (tag.length = 32) && tag == Spec.hmacSha256 key data
          if i == toString want then "ok"
          else if want then "viol:verify-rejects-correct-tag"
          else if tag.length == 32 then "viol:verify-accepts-wrong-tag"
          else s!"viol:verify-accepts-wrong-length:{tag.length}"
      ((), model, verdict)
    | _, _, _ => ((), "bad-op", "ok")
  | _ => ((), "bad-op", "ok")

def machine : Machine Unit := { init := (), step := step }

end EphVerif.DriverC08

def main (args : List String) : IO UInt32 := EphVerif.Proto.runMain EphVerif.DriverC08.machine args
