import EphVerif.Driver.Proto
import EphVerif.Model.Announce
import EphVerif.Spec.Announce

open EphVerif EphVerif.Proto

namespace EphVerif.DriverC21
open EphVerif.Announce

def vclockStart : Int := 1000000000000

def kvInt (toks : List String) (key : String) (dflt : Int) : Int :=
  match toks.find? (fun t => t.startsWith (key ++ "=")) with
  | some t => ((t.drop (key.length + 1)).toString.toInt?).getD dflt
  | none => dflt

def kvStr (toks : List String) (key : String) (dflt : String) : String :=
  match toks.find? (fun t => t.startsWith (key ++ "=")) with
  | some t => (t.drop (key.length + 1)).toString
  | none => dflt

/-- what `size_t` / `uint8_t` casts in the harness do to the raw numbers -/
def rawOf (toks : List String) : RawCfg :=
  { minInterval := kvInt toks "mi" 15, burstWindow := kvInt toks "bw" 120,
    burstLimit := (kvInt toks "bl" 4).toNat, powDifficulty := (kvInt toks "diff" 2).toNat % 256 }

def cfgLine (toks : List String) : String :=
  let c := sanitize (rawOf toks)
  let hd := (kvInt toks "hdiff" 2).toNat % 256
  s!"mi={c.minInterval} bw={c.burstWindow} bl={c.burstLimit} diff={c.powDifficulty} cd={kvInt toks "cd" 5} hdiff={if hd > 24 then 24 else hd}"

structure St where
  cfg : Cfg
  m : State
  spec : C21Spec.S
  lastRep : String → Int
  held : List String := []

def initSt : St := { cfg := sanitize (rawOf []), m := init vclockStart, spec := {}, lastRep := fun _ => 0 }

def b (x : Bool) : String := if x then "1" else "0"

/-- the assigned shard indices the announce carries: explicit `as=` list, else `1` (unless `n`) and `99` (if `A`) -/
def assignedOf (flags : String) (asTok : Option String) : List Nat :=
  let has (ch : Char) : Bool := flags.toList.contains ch
  match asTok with
  | some t =>
    let l := (t.drop 3).toString
    if l == "-" then [] else (l.splitOn ",").filterMap (·.toNat?)
  | none => (if has 'n' then [] else [1]) ++ (if has 'A' then [99] else [])

/-- the share indices the harness's manifest carries -/
def carriedOf (flags : String) : List Nat := if flags.toList.contains 'T' then [1, 2] else [1, 2, 3]

/-- "includes every assigned shard", from the two index lists -/
def assignedSubset (flags : String) (asTok : Option String) : Bool :=
  (assignedOf flags asTok).all fun i => (carriedOf flags).contains i

def annOf (cfg : Cfg) (now : Int) (p c mt flags ver : String) (asTok : Option String := none) : Ann :=
  let has (ch : Char) : Bool := flags.toList.contains ch
  let dec := !has 'E' && !has 'G'
  { peer := p, chunk := c, man := s!"{c}:{mt}:{flags}:{now}",
    senderMatch := !has 'S', uriNonEmpty := !has 'E',
    powOk := cfg.powDifficulty == 0 || !has 'W',
    version := ver.toNat?.getD 0,
    decodable := dec, idMatch := dec && !has 'I', thresholdMet := dec && !has 'T',
    unexpired := dec && !has 'X' && !has 'x', assignedOk := dec && assignedSubset flags asTok,
    hasEndpoint := !has 'e', hasAssigned := !(assignedOf flags asTok).isEmpty }

def factBits (a : Ann) : String :=
  b a.senderMatch ++ b a.uriNonEmpty ++ b a.powOk ++ b a.decodable ++ b a.idMatch ++ b a.thresholdMet ++ b a.unexpired ++ b a.assignedOk

def step (st : St) (tok : List String) (_line : String) (impl : Option String) : St × String × String :=
  match tok with
  | "cfg" :: rest =>
    ({ initSt with cfg := sanitize (rawOf rest) }, cfgLine rest, "ok")
  | ["adv", n] =>
    match n.toNat? with
    | some d => ({ st with m := (Announce.step st.cfg st.m (.adv d)).1 }, "ok", "ok")
    | none => (st, "bad-op", "ok")
  | ["hold", c] => ({ st with held := c :: st.held }, "ok", "ok")
  | "ann" :: p :: c :: mt :: flags :: ver :: more =>
    let asTok : Option String := more.head?.filter (·.startsWith "as=")
    let now := st.m.now
    let itoks0 := (impl.getD "").splitOn " "
    -- a held chunk may have expired meanwhile: for held chunks the implementation's answer is taken as a hint
    let kr := if st.held.contains c then kvStr itoks0 "kr" "0" == "1" else true
    let a := { annOf st.cfg now p c mt flags ver asTok with keepsReadable := kr }
    let r := announce st.cfg st.m a
    let ps := r.1.peers p
    let itoks := (impl.getD "").splitOn " "
    let accepted := r.2 == .accepted
    let lk := match ps.lock with | some u => toString (u - now) | none => "-"
    let mc := if accepted && kr then "1" else kvStr itoks "mc" "0"
    let pc := if accepted && a.hasEndpoint then "1" else kvStr itoks "pc" "0"
    -- whether the scheduled fetch is still pending after the immediate dispatch attempt depends on the
    -- fetch retry budget (C24), so it is echoed, not predicted; `chg` records that it was touched
    let pf := kvStr itoks "pf" "0"
    let ks := if accepted && kr then "3" else kvStr itoks "ks" "0"
    let chg := if accepted then kvStr itoks "chg" "1111" else "0000"
    let out := s!"f={factBits a} rep={ps.rep} h={ps.hist.length} fl={ps.fails.length} lk={lk} mc={mc} pc={pc} pf={pf} ks={ks} chg={chg} kr={b kr}"
    -- monitor: the specification judging what the implementation did
    let implOk := match impl with | some il => il.startsWith "f=" | none => false
    let (spec', verdict, rep') := match implOk with
      | false => (st.spec, "ok", st.lastRep p)     -- no line / crash line: reported by the framework
      | true =>
        let f := kvStr itoks "f" ""
        let implRep := kvInt itoks "rep" 0
        let changed := kvStr itoks "chg" "0000" != "0000" || decide (implRep > st.lastRep p)
        -- "includes every assigned shard" is decided here, from the announce's index lists and the manifest's
        -- share indices; the other facts are the harness's measurements with the real validators
        let admissible := (f.take 7).toString == "1111111" && assignedSubset flags asTok &&
          (st.cfg.powDifficulty == 0 || decide ((ver.toNat?.getD 0) ≥ 3))
        let th : C21Spec.Throttle := { minInterval := st.cfg.minInterval, window := st.cfg.burstWindow, burst := st.cfg.burstLimit }
        let (s', v) := C21Spec.observe th st.spec now p admissible changed
        (s', (match v with | some cl => s!"viol:{cl}:peer {p} at {now - vclockStart}" | none => "ok"), implRep)
    ({ st with m := r.1, spec := spec', lastRep := fun q => if q = p then rep' else st.lastRep q }, out, verdict)
  | _ => (st, "bad-op", "ok")

def machine : Machine St := { init := initSt, step := step }

end EphVerif.DriverC21

def main (args : List String) : IO UInt32 := EphVerif.Proto.runMain EphVerif.DriverC21.machine args
