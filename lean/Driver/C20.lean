import EphVerif.Driver.Proto
import EphVerif.Model.Announce
import EphVerif.Model.Handshake
import EphVerif.Spec.Handshake

open EphVerif EphVerif.Proto

namespace EphVerif.DriverC20
open EphVerif.Handshake

def vclockStart : Int := 1000000000000

def kvInt (toks : List String) (key : String) (dflt : Int) : Int :=
  match toks.find? (fun t => t.startsWith (key ++ "=")) with
  | some t => ((t.drop (key.length + 1)).toString.toInt?).getD dflt
  | none => dflt

def kvStr (toks : List String) (key : String) (dflt : String) : String :=
  match toks.find? (fun t => t.startsWith (key ++ "=")) with
  | some t => (t.drop (key.length + 1)).toString
  | none => dflt

def hdiffOf (toks : List String) : Nat :=
  let hd := (kvInt toks "hdiff" 2).toNat % 256
  if hd > Gen.C20.kMaxHandshakePowDifficulty then Gen.C20.kMaxHandshakePowDifficulty else hd

def cfgLine (toks : List String) : String :=
  let c := Announce.sanitize { minInterval := kvInt toks "mi" 15, burstWindow := kvInt toks "bw" 120,
                               burstLimit := (kvInt toks "bl" 4).toNat, powDifficulty := (kvInt toks "diff" 2).toNat % 256 }
  s!"mi={c.minInterval} bw={c.burstWindow} bl={c.burstLimit} diff={c.powDifficulty} cd={kvInt toks "cd" 5} hdiff={hdiffOf toks}"

/-- nonce tokens of the harness: g g2 are valid nonces, b b2 o invalid ones (all valid at difficulty 0) -/
def nonceCode (tok : String) : Nat :=
  match tok with
  | "g" => 0 | "g2" => 1 | "b" => 2 | "b2" => 3 | _ => 4

/-- nonce code of the start-up handshake with a pinned bootstrap identity (the real solver's nonce: valid; equal to
    `g` only at difficulty 0, where the solver returns 0) -/
def bootNonce (toks : List String) : Nat := if hdiffOf toks == 0 then 0 else 99

def envOf (toks : List String) : Env :=
  let hd := hdiffOf toks
  { cooldown := kvInt toks "cd" 5, powValid := fun _ _ n => hd == 0 || decide (n < 2) || n == 99 }

/-- `bs=<peer>:<pub|->,...` : pinned bootstrap identities, in configuration order -/
def pinnedOf (toks : List String) : List (String × Nat) :=
  match toks.find? (fun t => t.startsWith "bs=") with
  | none => []
  | some t =>
    ((t.drop 3).toString.splitOn ",").filterMap fun ent =>
      match ent.splitOn ":" with
      | [p, k] => k.toNat?.map fun pub => (p, pub)
      | _ => none

/-- `attempt_bootstrap_handshakes` in the constructor: one `perform_handshake` per pinned identity -/
def bootState (toks : List String) : State :=
  (pinnedOf toks).foldl (fun m (p, pub) => (perform (envOf toks) m p pub (bootNonce toks)).1) (init vclockStart)

structure St where
  env : Env
  m : State
  seen : String → C20Spec.Seen

def initSt : St := { env := envOf [], m := init vclockStart, seen := fun _ => {} }

def b (x : Bool) : String := if x then "1" else "0"
def keyTok (k : Option Nat) : String := match k with | some v => toString v | none => "-"

def step (st : St) (tok : List String) (_line : String) (impl : Option String) : St × String × String :=
  match tok with
  | "cfg" :: rest =>
    let m0 := bootState rest
    -- what the start-up handshakes left behind is the baseline the observer compares rejections with
    let seen0 : String → C20Spec.Seen := fun q =>
      let ps := m0.peers q
      { key := keyTok ps.sess, sessionKey := keyTok ps.smKey, rep := ps.rep }
    ({ initSt with env := envOf rest, m := m0, seen := seen0 }, cfgLine rest, "ok")
  | ["adv", n] =>
    match n.toNat? with
    | some d => ({ st with m := (Handshake.step st.env st.m (.adv d)).1 }, "ok", "ok")
    | none => (st, "bad-op", "ok")
  | op :: p :: pubS :: ntok :: rest =>
    let kind? : Option Kind := match op, rest with
      | "hs", [] => some .direct
      | "th", [_] => some .transport
      | "sock", [] => some .socket
      | _, _ => none
    match kind?, pubS.toNat? with
    | some kind, some pub =>
      let nonce := nonceCode ntok
      let (m1, out) : State × String := match kind with
        | .direct =>
          let r := perform st.env st.m p pub nonce
          (r.1, s!"r={b r.2}")
        | .transport =>
          let r := transport st.env st.m p pub nonce
          (r.1, s!"r={b r.2.isSome}")
        | .socket =>
          let r := pending st.env st.m p pub nonce
          (r.1, s!"r={b r.2.isSome}")
      let ps := m1.peers p
      let ls := match ps.hrec with | some r => b r.success | none => "-"
      let accepted := out == "r=1"
      let pvTok := if keyValid pub then b (st.env.powValid p pub nonce) else "-"
      let core := s!"{out} kv={b (keyValid pub)} pv={pvTok} sk={keyTok ps.sess} sm={keyTok ps.smKey} rep={ps.rep} ls={ls}"
      let line := match kind with
        | .direct => core
        | .transport => core ++ s!" ak={if accepted then keyTok ps.sess else "-"} ack={b accepted}"
        | .socket => core ++ s!" ack={b accepted} conn={b ps.conn}"
      -- the harness closes its end of the socket after looking: the session goes away
      let m2 := match kind with
        | .socket => (Handshake.step st.env m1 (.drop p)).1
        | _ => m1
      let (seen', verdict) := match impl.filter (·.startsWith "r=") with
        | none => (st.seen, "ok")                 -- no line / crash line: reported by the framework
        | some il =>
          let it := il.splitOn " "
          let after : C20Spec.Seen := { key := kvStr it "sk" "-", sessionKey := kvStr it "sm" "-", rep := kvInt it "rep" 0 }
          let acc := kvStr it "r" "0" == "1" || kvStr it "ack" "0" == "1" || kvStr it "conn" "0" == "1"
          -- key validity by the specification's own definition; nonce validity as measured by the real validator
          let v := C20Spec.judge (st.seen p) after acc (C20Spec.keyValid pub) (kvStr it "pv" "0" == "1")
          ((fun q => if q = p then after else st.seen q),
           match v with | some cl => s!"viol:{cl}:peer {p} key {pub} nonce {ntok}" | none => "ok")
      ({ st with m := m2, seen := seen' }, line, verdict)
    | _, _ => (st, "bad-op", "ok")
  | _ => (st, "bad-op", "ok")

def machine : Machine St := { init := initSt, step := step }

end EphVerif.DriverC20

def main (args : List String) : IO UInt32 := EphVerif.Proto.runMain EphVerif.DriverC20.machine args
