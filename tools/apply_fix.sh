#!/bin/sh
# Coordinator tool: apply fixes/<name>.patch to /repo, run the unedited test suite, commit as one `fix:` commit.
set -e
NAME=$1
cd /repo
git diff --quiet || { echo "repo has uncommitted changes"; exit 2; }
git apply --3way /verif/fixes/$NAME.patch || git apply /verif/fixes/$NAME.patch
git reset -q
if ! VERIF_JOBS=${VERIF_JOBS:-8} /verif/tools/run_repo_tests.sh > /tmp/apply_fix_$NAME.log 2>&1; then
  tail -20 /tmp/apply_fix_$NAME.log; echo "TESTS FAILED for $NAME; reverting"; git checkout -- .; exit 1
fi
tail -2 /tmp/apply_fix_$NAME.log
git add -u
git commit -q -F /verif/fixes/$NAME.msg
echo "$NAME -> $(git rev-parse --short HEAD)"
