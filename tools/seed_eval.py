#!/usr/bin/env python3
"""Coordinator tool: confirm an independently written property-breaking change (seeded mutant)
and run the property's check against it.

  tools/seed_eval.py <ID> [<src dir, default /tmp/seed-out/<ID>>]

Steps, all in the scratch worktree /tmp/wt-seed (created at /repo's HEAD, with its own _build):
  1 demo on the clean tree must PASS      2 apply patch; build; 46 tests must pass
  3 demo on the patched tree must FAIL    4 VERIF_REPO=/tmp/wt-seed ./check.py <ID> (expect VIOLATION)
  5 revert. Results -> /verif/seeded/<ID>/{patch.diff, demo.*, BUILD.txt, meta.json}."""
import json, os, re, shutil, subprocess, sys, time
from pathlib import Path

VERIF = Path(__file__).resolve().parent.parent
WT = Path(os.environ.get("SEED_WT", "/tmp/wt-seed"))


def sh(cmd, **kw):
    return subprocess.run(cmd, shell=True, capture_output=True, text=True, errors="replace", **kw)


def ensure_wt():
    head = sh("git -C /repo rev-parse HEAD").stdout.strip()
    if not (WT / ".git").exists():
        sh(f"git -C /repo worktree add --detach {WT} HEAD")
    sh(f"git -C {WT} reset -q --hard && git -C {WT} checkout -q --detach {head}")
    if not (WT / "_build" / "build.ninja").exists():
        sh(f"cmake -G Ninja -S {WT} -B {WT}/_build -DCMAKE_BUILD_TYPE=RelWithDebInfo")
    return head


def build_and_test():
    env = dict(os.environ, VERIF_REPO=str(WT), VERIF_REPO_BUILD=str(WT / "_build"), VERIF_JOBS="8")
    r = subprocess.run([str(VERIF / "tools/run_repo_tests.sh")], capture_output=True, text=True, env=env)
    return r.returncode == 0, (r.stdout + r.stderr)[-400:]


def run_demo(src: Path, pid: str):
    """Build and run the seeder's demonstration against the scratch worktree. BUILD.txt files are
    free-form, so the compile commands (g++/clang++ lines, possibly commented or indented, with
    backslash continuations) are extracted and run with every tree/build variable bound to WT."""
    b = src / "BUILD.txt"
    text = b.read_text() if b.exists() else ""
    text = re.sub(r"/tmp/seed-(?:base|clean|orig\w*|" + pid + r"\w*)", str(WT), text)
    text = text.replace(f"/tmp/seed-out/{pid}", str(src))
    lines, cur = [], ""
    for raw in text.splitlines():
        l = raw.strip()
        l = re.sub(r"^#+\s*", "", l)
        l = re.sub(r"^\$\s+", "", l)
        if cur:
            cur += " " + l.rstrip("\\").strip()
        else:
            cur = l.rstrip("\\").strip()
        if not l.endswith("\\"):
            lines.append(cur)
            cur = ""
    if cur:
        lines.append(cur)
    env_vars = {v: str(WT) for v in ("SRC", "TREE", "T", "REPO", "ROOT", "SRC_TREE", "SOURCE", "SRCDIR", "R")}
    env_vars.update({v: str(WT / "_build") for v in ("BUILD", "B", "BLD", "BUILD_DIR", "BDIR")})
    env_vars["OUT"] = str(src)
    pre = "".join(f"{k}={v}\n" for k, v in env_vars.items())
    cmds = [l for l in lines if re.match(r"^(g\+\+|clang\+\+|c\+\+)\s", l)]
    work = Path(f"/tmp/seed-demo-{pid}")
    work.mkdir(exist_ok=True)
    out_all = ""
    if (src / "demo.sh").exists():
        r = sh(f"cd {src} && bash demo.sh {WT} {work}/w", timeout=5400)
        out_all = r.stdout + r.stderr
        rc = r.returncode
    else:
        exes = []
        rc = 0
        for c in cmds:
            c = c.split(";")[0]
            m = re.search(r"-o\s+(\S+)", c)
            exe = m.group(1) if m else "a.out"
            (work / "build.sh").write_text(pre + c + "\n")
            r = sh(f"cd {src} && bash {work}/build.sh", timeout=3600)
            out_all += r.stdout + r.stderr
            if r.returncode != 0:
                return "BUILD-ERROR", out_all[-600:]
            exes.append(exe)
        if not exes:
            return "NO-COMMANDS", text[:200]
        (work / "run.sh").write_text(pre + f"{exes[-1] if exes[-1].startswith('/') or exes[-1].startswith('$') else './' + exes[-1]}\n")
        r = sh(f"cd {src} && bash {work}/run.sh", timeout=3600)
        if "usage:" in (r.stdout + r.stderr).lower() and "eph" in (r.stdout + r.stderr):
            # the demonstration drives the built CLI binary: pass it
            (work / "run.sh").write_text((work / "run.sh").read_text().rstrip("\n") + f" {WT}/_build/eph\n")
            r = sh(f"cd {src} && bash {work}/run.sh", timeout=3600)
        out_all += r.stdout + r.stderr
        rc = r.returncode
    tail = out_all[-600:]
    if rc == 0 and "FAIL" not in out_all.replace("FAILED to", ""):
        return "PASS", tail
    return "FAIL", tail


def demo_only(pid):
    dest = VERIF / "seeded" / pid
    ensure_wt()
    meta = json.loads((dest / "meta.json").read_text())
    rec = meta.setdefault("coordinator_confirmation", {})
    rec["demo_clean"], _ = run_demo(dest, pid)
    ap = sh(f"git -C {WT} apply {dest}/patch.diff")
    if ap.returncode == 0:
        sh(f"cmake --build {WT}/_build -j8 --target ephemeralnet_core eph")
        rec["demo_patched"], rec["demo_tail"] = run_demo(dest, pid)
    sh(f"git -C {WT} checkout -q -- .")
    sh(f"cmake --build {WT}/_build -j8 --target ephemeralnet_core eph")
    (dest / "meta.json").write_text(json.dumps(meta, indent=1) + "\n")
    print(pid, rec.get("demo_clean"), rec.get("demo_patched"), (rec.get("demo_tail") or "")[-200:].replace("\n", " | "))


def main():
    if sys.argv[1] == "--demo-only":
        for pid in sys.argv[2:]:
            demo_only(pid)
        return
    pid = sys.argv[1]
    src = Path(sys.argv[2] if len(sys.argv) > 2 else (f"/tmp/seed-out/{pid}" if Path(f"/tmp/seed-out/{pid}").exists() else str(VERIF / "seeded" / pid)))
    tag = sys.argv[3] if len(sys.argv) > 3 else ""
    dest = VERIF / "seeded" / (pid + tag)
    dest.mkdir(parents=True, exist_ok=True)
    old_history = []
    if (dest / "meta.json").exists():
        try:
            old = json.loads((dest / "meta.json").read_text())
            old_history = old.get("history", [])
            if old.get("coordinator_confirmation"):
                old_history = old_history + [{"earlier_evaluation": {k: old["coordinator_confirmation"].get(k) for k in ("evaluated_at", "repo_head", "check_exit", "caught", "check_lines")}}]
        except Exception:
            pass
    for f in ([] if src.resolve() == dest.resolve() else src.iterdir()):
        if f.is_file() and f.suffix in (".diff", ".cpp", ".sh", ".txt", ".json", ".hpp", ".py") and f.stat().st_size < 200000:
            shutil.copy(f, dest / f.name)
    src = dest
    head = ensure_wt()
    rec = {"repo_head": head, "evaluated_at": time.strftime("%Y-%m-%d %H:%M:%S")}
    build_and_test()                       # make sure the clean tree's library is built
    rec["demo_clean"], tail = run_demo(src, pid)
    ap = sh(f"git -C {WT} apply {src}/patch.diff")
    if ap.returncode != 0:
        ap = sh(f"git -C {WT} apply --3way {src}/patch.diff")
        if ap.returncode != 0:
            sh(f"git -C {WT} reset -q --hard")
    rec["patch_applies"] = ap.returncode == 0
    if rec["patch_applies"]:
        rec["tests_pass_with_patch"], rec["tests_tail"] = build_and_test()
        rec["demo_patched"], rec["demo_tail"] = run_demo(src, pid)
        env = dict(os.environ, VERIF_REPO=str(WT), VERIF_JOBS="8")
        evf = VERIF / "evidence" / f"{pid}.json"
        ev_backup = evf.read_bytes() if evf.exists() else None
        t0 = time.time()
        r = subprocess.run([str(VERIF / "check.py"), pid], capture_output=True, text=True, env=env, cwd=VERIF)
        rec["check_exit"] = r.returncode
        rec["check_lines"] = [l for l in r.stdout.splitlines() if l.startswith(("VIOLATION", "KNOWN-FINDING"))]
        rec["check_wall_s"] = round(time.time() - t0)
        rec["caught"] = r.returncode == 1 and any(l.startswith("VIOLATION") for l in rec["check_lines"])
        if ev_backup is not None:
            evf.write_bytes(ev_backup)      # the committed evidence describes /repo, not the mutant
        for l in rec["check_lines"]:
            m = re.search(r"replay=(\S+)", l)
            if m and Path(m.group(1)).exists():
                try:
                    d = json.loads(Path(m.group(1)).read_text())
                    rec.setdefault("replays", []).append({k: d.get(k) for k in ("signature", "kind", "monitor", "ops")})
                except Exception:
                    pass
    sh(f"git -C {WT} checkout -q -- .")
    # restore Generated/<pid>.lean for /repo (the mutant run may have rewritten it)
    subprocess.run([str(VERIF / "check.py"), pid, "--extract"], capture_output=True, text=True, cwd=VERIF)
    meta_f = dest / "meta.json"
    meta = json.loads(meta_f.read_text()) if meta_f.exists() else {"property": pid}
    meta["coordinator_confirmation"] = rec
    if old_history:
        meta["history"] = old_history
    meta_f.write_text(json.dumps(meta, indent=1) + "\n")
    print(pid, json.dumps({k: rec.get(k) for k in ("demo_clean", "patch_applies", "tests_pass_with_patch", "demo_patched", "check_exit", "caught", "check_lines")}))


if __name__ == "__main__":
    main()
