#!/bin/sh
# Build the repository (guard off: no verification define exists in the source) and run its
# pinned test suite. One test target (cli_fetch_dir) does not compile at the pinned commit and
# is not part of the 46-test baseline, hence `-k 0` and the exclusion below.
# Exit status: 0 iff every one of the 46 baseline tests passed.
REPO=${VERIF_REPO:-/repo}
B=${VERIF_REPO_BUILD:-$REPO/_build}
[ -f "$B/build.ninja" ] || cmake -G Ninja -S "$REPO" -B "$B" -DCMAKE_BUILD_TYPE=RelWithDebInfo >/dev/null
cmake --build "$B" -j"${VERIF_JOBS:-16}" -- -k 0 2>&1 | tail -3
LOG=$(mktemp)
ctest --test-dir "$B" -j8 --timeout 900 -E 'EphemeralNet.CLIFetchDir' >"$LOG" 2>&1
RC=$?
# CLI/integration tests bind fixed ports and have timing assumptions: when other builds or test
# runs share the machine they can fail spuriously. Re-run only the failed ones, up to 3 times.
TRY=0
while [ "$RC" -ne 0 ] && [ "$TRY" -lt 3 ]; do
  TRY=$((TRY+1)); sleep 3
  ctest --test-dir "$B" --rerun-failed --timeout 900 -E 'EphemeralNet.CLIFetchDir' >"$LOG.r" 2>&1
  RC=$?
  if [ "$RC" -eq 0 ]; then F=$(grep -c ' Passed ' "$LOG.r"); echo "re-run $TRY: $F previously failing test(s) passed"; fi
done
[ "$RC" -eq 0 ] && [ -f "$LOG.r" ] && { N0=$(grep -c ' Passed ' "$LOG"); N1=$(grep -c ' Passed ' "$LOG.r"); echo "passed=$((N0+N1)) rc=0 (after re-run)"; rm -f "$LOG" "$LOG.r"; [ $((N0+N1)) -ge 46 ]; exit $?; }
tail -8 "$LOG"
N=$(grep -c ' Passed ' "$LOG")
rm -f "$LOG"
echo "passed=$N rc=$RC"
[ "$RC" -eq 0 ] && [ "$N" -ge 46 ]
