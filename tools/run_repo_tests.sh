#!/bin/sh
# Build the repository (guard off: no verification define exists in the source) and run its
# pinned test suite. One test target (cli_fetch_dir) does not compile at the pinned commit and
# is not part of the 46-test baseline, hence `-k 0` and the exclusion below.
REPO=${VERIF_REPO:-/repo}
B=${VERIF_REPO_BUILD:-$REPO/_build}
[ -f "$B/build.ninja" ] || cmake -G Ninja -S "$REPO" -B "$B" -DCMAKE_BUILD_TYPE=RelWithDebInfo >/dev/null
cmake --build "$B" -j16 -- -k 0 2>&1 | tail -3
ctest --test-dir "$B" -j8 --timeout 900 -E 'EphemeralNet.CLIFetchDir' 2>&1 | tail -8
