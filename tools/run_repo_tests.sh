#!/bin/sh
# Build the repository (guard off: no verification define exists in the source) and run its
# pinned test suite. One test target (cli_fetch_dir) does not compile at the pinned commit and
# is not part of the 46-test baseline, hence `-k 0` and the exclusion below.
# Exit status: 0 iff every one of the 46 baseline tests passed.
REPO=${VERIF_REPO:-/repo}
B=${VERIF_REPO_BUILD:-$REPO/_build}
[ -f "$B/build.ninja" ] || cmake -G Ninja -S "$REPO" -B "$B" -DCMAKE_BUILD_TYPE=RelWithDebInfo >/dev/null
cmake --build "$B" -j"${VERIF_JOBS:-16}" -- -k 0 2>&1 | tail -3
LOG=$(mktemp)
ctest --test-dir "$B" -j8 --timeout 900 -E 'EphemeralNet.CLIFetchDir' >"$LOG" 2>&1
RC=$?
tail -8 "$LOG"
N=$(grep -c ' Passed ' "$LOG")
rm -f "$LOG"
echo "passed=$N rc=$RC"
[ "$RC" -eq 0 ] && [ "$N" -ge 46 ]
