#!/usr/bin/env python3
"""Regenerate the 'As built' status table in DESIGN.md (between the AS-BUILT markers) from
props/*.py, evidence/*.json, known_findings.json and seeded/*/meta.json."""
import importlib, json, re, sys
from pathlib import Path
HERE = Path(__file__).resolve().parent.parent
sys.path.insert(0, str(HERE)); sys.path.insert(0, str(HERE / "tools"))

props = [json.loads(l) for l in (HERE / "properties.jsonl").read_text().splitlines() if l.strip()]
kf = json.loads((HERE / "known_findings.json").read_text())["findings"] if (HERE / "known_findings.json").exists() else []
rows = []
for p in props:
    pid = p["id"]
    ready = False
    try:
        mod = importlib.import_module(f"props.{pid}")
        ready = bool(getattr(mod, "READY", False))
    except Exception:
        pass
    ev = {}
    f = HERE / "evidence" / f"{pid}.json"
    if f.exists():
        try:
            ev = json.loads(f.read_text())
        except Exception:
            pass
    cov = ev.get("coverage", {})
    fixed = [e for e in kf if e["property"] == pid and e.get("status") == "fixed"]
    known = [e for e in kf if e["property"] == pid and e.get("status") == "known"]
    def seed_cell(d):
        sm = HERE / "seeded" / d / "meta.json"
        if not sm.exists():
            return ""
        try:
            mj = json.loads(sm.read_text())
            c = mj.get("coordinator_confirmation", {})
            if not c:
                return ""
            sigs = ",".join(sorted({r.get("signature", "?") for r in c.get("replays", [])})) or ("no-failing-input-found" if c.get("check_exit") == 1 else "")
            cell = ("caught: " + sigs) if c.get("caught") else ("MISSED" if c.get("patch_applies") else "patch n/a")
            missed_before = any(("MISSED" in json.dumps(h)) or (isinstance(h, dict) and h.get("earlier_evaluation", {}).get("caught") is False) for h in mj.get("history", []))
            if missed_before and c.get("caught"):
                cell = "missed, check strengthened, now " + cell
            return cell
        except Exception:
            return ""
    seed = seed_cell(pid)
    seed2 = seed_cell(pid + "-r2")
    seed3 = seed_cell(pid + "-r3")
    seed4 = seed_cell(pid + "-r4")
    seed5 = seed_cell(pid + "-r5")
    rows.append(f"| {pid} | {'claimed' if ready else 'not claimed'} | {cov.get('discharged', '-')}/{cov.get('obligations', '-')} | "
                f"{cov.get('evaluations', '-')} | {' '.join(e.get('commit', '?') for e in fixed) or '-'} | "
                f"{len(known) or '-'} | {seed or '-'} | {seed2 or '-'} | {seed3 or '-'} | {seed4 or '-'} | {seed5 or '-'} | notes/{pid}.md |")
table = ("| id | status | obligations (last run) | cases (last run) | `fix:` commits in /repo | known findings | seeded change, round 1 | seeded change, round 2 | seeded change, round 3 | seeded change, round 4 | seeded change, round 5 | details |\n"
         "|----|--------|------------------------|------------------|--------------------------|----------------|-----------------------|-----------------------|-----------------------|-----------------------|-----------------------|---------|\n" + "\n".join(rows))
# composition (soft) modules: state in the last run of their host check
comp = []
for p in props:
    f = HERE / "evidence" / f"{p['id']}.json"
    try:
        cov = json.loads(f.read_text()).get("coverage", {})
    except Exception:
        continue
    for m in cov.get("composition_modules", []):
        comp.append(f"`{m}` (hosted by {p['id']}): builds, audited, counted")
    for m in cov.get("soft_modules_failed", []):
        comp.append(f"`{m}` (hosted by {p['id']}): **did not build in the last run — its theorems are currently unchecked** (a note, not an alarm; see notes/System.md)")
if comp:
    table += "\n\nComposition modules in the last run: " + "; ".join(comp) + "."
d = (HERE / "DESIGN.md").read_text()
a, b = "<!-- AS-BUILT:BEGIN -->", "<!-- AS-BUILT:END -->"
if a in d:
    d = d[:d.index(a) + len(a)] + "\n" + table + "\n" + d[d.index(b):]
    (HERE / "DESIGN.md").write_text(d)

def block(d, name, body):
    a, b = f"<!-- {name}:BEGIN -->", f"<!-- {name}:END -->"
    if a in d:
        d = d[:d.index(a) + len(a)] + "\n" + body + "\n" + d[d.index(b):]
    return d

# findings
fl = ["| property | id | status | commit | signature | what failed |", "|---|---|---|---|---|---|"]
for e in kf:
    if e["property"] == "C36" and e.get("status") == "known":
        continue
    what = " ".join(str(e.get("what", "")).split())[:260].replace("|", "/")
    fl.append(f"| {e['property']} | {e.get('id','')} | {e.get('status')} | {e.get('commit','-') or '-'} | `{e.get('signature','')}` | {what} |")
c36 = [e for e in kf if e["property"] == "C36" and e.get("status") == "known"]
if c36:
    locs = {}
    for e in c36:
        m = re.match(r"race:([^:]+(?:::[^:]+)*?):(\w+x\w+)$", e.get("signature", ""))
        key = e.get("signature", "").rsplit(":", 1)[0]
        locs.setdefault(key, []).append(e.get("signature", "").rsplit(":", 1)[-1])
    for k, v in sorted(locs.items()):
        fl.append(f"| C36 | ({len(v)} pairs) | known | - | `{k}:<roles>` | lock-less conflicting accesses, role pairs: {', '.join(sorted(v))} |")
# false alarms from notes
fa = []
for pth in sorted((HERE / "notes").glob("C*.md")):
    lines = pth.read_text().splitlines()
    i = 0
    while i < len(lines):
        if lines[i].startswith("#") and "alse alarm" in lines[i]:
            j = i + 1
            body = []
            while j < len(lines) and not lines[j].startswith("#"):
                body.append(lines[j]); j += 1
            text = "\n".join(l for l in body).strip()
            if text:
                fa.append(f"**{pth.stem}** ({lines[i].lstrip('# ').strip()}):\n\n{text}\n")
            i = j
        else:
            i += 1
d = (HERE / "DESIGN.md").read_text()
d = block(d, "FINDINGS", "\n".join(fl))
d = block(d, "FALSE-ALARMS", "\n".join(fa))
(HERE / "DESIGN.md").write_text(d)
print(table)
