#!/usr/bin/env python3
"""Regenerate the 'As built' status table in DESIGN.md (between the AS-BUILT markers) from
props/*.py, evidence/*.json, known_findings.json and seeded/*/meta.json."""
import importlib, json, re, sys
from pathlib import Path
HERE = Path(__file__).resolve().parent.parent
sys.path.insert(0, str(HERE)); sys.path.insert(0, str(HERE / "tools"))

props = [json.loads(l) for l in (HERE / "properties.jsonl").read_text().splitlines() if l.strip()]
kf = json.loads((HERE / "known_findings.json").read_text())["findings"] if (HERE / "known_findings.json").exists() else []
rows = []
for p in props:
    pid = p["id"]
    ready = False
    try:
        mod = importlib.import_module(f"props.{pid}")
        ready = bool(getattr(mod, "READY", False))
    except Exception:
        pass
    ev = {}
    f = HERE / "evidence" / f"{pid}.json"
    if f.exists():
        try:
            ev = json.loads(f.read_text())
        except Exception:
            pass
    cov = ev.get("coverage", {})
    fixed = [e for e in kf if e["property"] == pid and e.get("status") == "fixed"]
    known = [e for e in kf if e["property"] == pid and e.get("status") == "known"]
    seed = ""
    sm = HERE / "seeded" / pid / "meta.json"
    if sm.exists():
        try:
            c = json.loads(sm.read_text()).get("coordinator_confirmation", {})
            if c:
                sigs = ",".join(sorted({r.get("signature", "?") for r in c.get("replays", [])})) or ("no-failing-input-found" if c.get("check_exit") == 1 else "")
                seed = ("caught: " + sigs) if c.get("caught") else ("MISSED" if c.get("patch_applies") else "patch n/a")
        except Exception:
            pass
    rows.append(f"| {pid} | {'claimed' if ready else 'not claimed'} | {cov.get('discharged', '-')}/{cov.get('obligations', '-')} | "
                f"{cov.get('evaluations', '-')} | {' '.join(e.get('commit', '?') for e in fixed) or '-'} | "
                f"{len(known) or '-'} | {seed or '-'} | notes/{pid}.md |")
table = ("| id | status | obligations (last run) | cases (last run) | `fix:` commits in /repo | known findings | independent seeded change | details |\n"
         "|----|--------|------------------------|------------------|--------------------------|----------------|---------------------------|---------|\n" + "\n".join(rows))
d = (HERE / "DESIGN.md").read_text()
a, b = "<!-- AS-BUILT:BEGIN -->", "<!-- AS-BUILT:END -->"
if a in d:
    d = d[:d.index(a) + len(a)] + "\n" + table + "\n" + d[d.index(b):]
    (HERE / "DESIGN.md").write_text(d)
print(table)
