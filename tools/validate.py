#!/usr/bin/env python3-vt
"""Validate MANIFEST.json and evidence/*.json against the schemas in /root/.vp (run with python3-vt)."""
import json, sys, glob
from pathlib import Path
import jsonschema
HERE = Path(__file__).resolve().parent.parent
ms = json.load(open('/root/.vp/MANIFEST.schema.json')); es = json.load(open('/root/.vp/EVIDENCE.schema.json'))
jsonschema.validate(json.load(open(HERE / 'MANIFEST.json')), ms)
bad = 0
for f in sorted(glob.glob(str(HERE / 'evidence' / '*.json'))):
    try:
        jsonschema.validate(json.load(open(f)), es)
    except Exception as ex:
        bad += 1; print(f, 'INVALID', str(ex)[:300])
print('manifest ok;', 'evidence invalid:', bad)
sys.exit(1 if bad else 0)
