#!/usr/bin/env python3
"""Coordinator tool: run the checks against a behaviour-preserving refactoring of /repo.

  tools/refactor_eval.py <name> [<src dir, default /tmp/refactor-out/<name>>]

Applies <src>/patch.diff in the scratch worktree /tmp/wt-refac (at /repo's HEAD), runs every check
whose property is anchored in a touched file (plus the checks whose harness compiles it), and
records which of them raised an alarm. An alarm here is a false alarm by construction (the change
preserves behaviour); `no-failing-input-found` alarms are the expected cost of a broken tie, a
VIOLATION with a concrete replay would mean a wrong monitor. Results ->
/verif/seeded/refactors/<name>/{patch.diff, meta.json}."""
import json, os, re, shutil, subprocess, sys, time
from pathlib import Path

VERIF = Path(__file__).resolve().parent.parent
WT = Path(os.environ.get("REFAC_WT", "/tmp/wt-refac"))
EXTRA = {  # files compiled/read by checks beyond their anchors
    "src/core/Node.cpp": ["C01", "C02", "C03", "C05", "C11", "C12", "C19", "C20", "C21", "C23", "C24", "C31", "C34", "C35", "C36", "C39"],
    "src/network/SessionManager.cpp": ["C14", "C20", "C35", "C36"],
    "src/daemon/ControlServer.cpp": ["C02", "C27", "C28", "C29", "C35", "C36"],
    "src/daemon/ControlClient.cpp": ["C29"],
    "src/network/KeyManager.cpp": ["C12", "C36", "C39"],
    "src/network/KeyExchange.cpp": ["C12", "C20"],
    "src/crypto/Sha256.cpp": ["C08", "C19"],
    "src/crypto/Shamir.cpp": ["C10", "C11", "C35"],
    "src/crypto/ChaCha20.cpp": ["C09", "C11", "C14"],
    "src/core/ChunkStore.cpp": ["C01", "C04", "C05"],
    "src/dht/KademliaTable.cpp": ["C05", "C06", "C07", "C22"],
    "src/protocol/Message.cpp": ["C13", "C15", "C16", "C35"],
    "src/protocol/Manifest.cpp": ["C17", "C18", "C35"],
}


def sh(cmd, **kw):
    return subprocess.run(cmd, shell=True, capture_output=True, text=True, **kw)


def main():
    name = sys.argv[1]
    only = None
    for a in sys.argv[2:]:
        if a.startswith("--only="):
            only = a.split("=", 1)[1].split(",")
    rest = [a for a in sys.argv[2:] if not a.startswith("--only=")]
    src = Path(rest[0] if rest else (f"/tmp/refactor-out/{name}" if Path(f"/tmp/refactor-out/{name}").exists() else str(VERIF / "seeded" / "refactors" / name)))
    dest = VERIF / "seeded" / "refactors" / name
    dest.mkdir(parents=True, exist_ok=True)
    for f in ([] if src.resolve() == dest.resolve() else src.iterdir()):
        if f.is_file() and f.stat().st_size < 300000:
            shutil.copy(f, dest / f.name)
    head = sh("git -C /repo rev-parse HEAD").stdout.strip()
    if not (WT / ".git").exists():
        sh(f"git -C /repo worktree add --detach {WT} HEAD")
    sh(f"git -C {WT} reset -q --hard && git -C {WT} checkout -q --detach {head}")
    ap = sh(f"git -C {WT} apply {dest}/patch.diff")
    if ap.returncode != 0:
        ap = sh(f"git -C {WT} apply --3way {dest}/patch.diff")
        if ap.returncode != 0:
            sh(f"git -C {WT} reset -q --hard")
    rec = {"repo_head": head, "evaluated_at": time.strftime("%Y-%m-%d %H:%M:%S"), "patch_applies": ap.returncode == 0, "checks": {}}
    if ap.returncode == 0:
        touched = re.findall(r"^\+\+\+ b/(\S+)", (dest / "patch.diff").read_text(), flags=re.M)
        props = []
        anchors = {}
        for l in (VERIF / "properties.jsonl").read_text().splitlines():
            p = json.loads(l)
            anchors[p["id"]] = p["anchors"]["files"]
        for pid, files in anchors.items():
            if any(t in files for t in touched):
                props.append(pid)
        for t in touched:
            props += EXTRA.get(t, [])
        props = sorted(set(props))
        if only:
            props = [p for p in props if p in only]
        rec["touched"] = touched
        for pid in props:
            evf = VERIF / "evidence" / f"{pid}.json"
            backup = evf.read_bytes() if evf.exists() else None
            t0 = time.time()
            r = subprocess.run([str(VERIF / "check.py"), pid], capture_output=True, text=True, cwd=VERIF,
                               env=dict(os.environ, VERIF_REPO=str(WT), VERIF_JOBS="8"))
            lines = [l for l in r.stdout.splitlines() if l.startswith("VIOLATION")]
            notes = ""
            if evf.exists():
                try:
                    notes = " | ".join(json.loads(evf.read_text()).get("notes", []))[:600]
                except Exception:
                    pass
            rec["checks"][pid] = {"exit": r.returncode, "violations": lines, "wall_s": round(time.time() - t0), "notes": notes if r.returncode else ""}
            if backup is not None:
                evf.write_bytes(backup)
            subprocess.run([str(VERIF / "check.py"), pid, "--extract"], capture_output=True, text=True, cwd=VERIF)
    sh(f"git -C {WT} reset -q --hard")
    meta_f = dest / "meta.json"
    meta = json.loads(meta_f.read_text()) if meta_f.exists() else {}
    if only and "coordinator_evaluation" in meta:
        old = meta["coordinator_evaluation"]
        old.setdefault("rechecks", []).append(rec)
        for k, v in rec["checks"].items():
            old["checks"][k] = v
        rec = old
    meta["coordinator_evaluation"] = rec
    meta_f.write_text(json.dumps(meta, indent=1) + "\n")
    print(name, {k: (v["exit"], [re.sub(r".*replay=\S+/", "", x) for x in v["violations"]]) for k, v in rec["checks"].items()})


if __name__ == "__main__":
    main()
