#!/usr/bin/env python3
"""Coordinator tool: fill the `commit` of fixed entries in known_findings.d/*.json from /repo's log
(matching the subject line of fixes/<name>.msg named in the entry's text) and add the canonical
line `fixed: property=<id> <commit> <what failed>`."""
import json, re, subprocess
from pathlib import Path
HERE = Path(__file__).resolve().parent.parent
log = subprocess.run(["git", "-C", "/repo", "log", "--format=%h\t%s"], capture_output=True, text=True).stdout.splitlines()
by_subject = {l.split("\t", 1)[1]: l.split("\t", 1)[0] for l in log if "\t" in l}
subj_of = {}
for m in (HERE / "fixes").glob("*.msg"):
    subj_of[m.stem] = m.read_text().splitlines()[0].strip()
for f in sorted((HERE / "known_findings.d").glob("*.json")):
    data = json.loads(f.read_text())
    changed = False
    for e in data:
        if e.get("status") != "fixed":
            continue
        if not e.get("commit"):
            names = re.findall(r"fixes/([\w.-]+?)\.(?:patch|msg)", json.dumps(e))
            names += [e.get("fix", ""), e.get("patch", "")]
            for n in names:
                n = Path(n).stem if n else ""
                c = by_subject.get(subj_of.get(n, "\0"))
                if c:
                    e["commit"] = c
                    changed = True
                    break
        if e.get("commit"):
            line = f"fixed: property={e['property']} {e['commit']} {e.get('what', '')[:200]}"
            if e.get("line") != line:
                e["line"] = line
                changed = True
        else:
            print("no commit yet:", e["property"], e.get("id"))
    if changed:
        f.write_text(json.dumps(data, indent=1) + "\n")
