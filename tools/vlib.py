#!/usr/bin/env python3
"""Shared machinery for the EphemeralNet Lean-4 verification checks.

Every check (props/Cxx.py) is built out of the helpers here:

  * Ctx            -- one run of one property: paths, seed, tier, evidence, verdicts
  * build_harness  -- compile a C++ harness against /repo's working tree (ASan+UBSan,
                      -fno-access-control, content-hash keyed cache under .build/)
  * extract        -- (T) regenerate lean/EphVerif/Generated/Cxx.lean from the source
  * lake_build / audit_axioms / banned_scan -- proof obligations
  * run_pair       -- (H) run harness and Lean driver on the same cases, diff, monitor
  * shrink         -- ddmin on the op list of a failing case
  * standard_check -- the usual pipeline glued together

Line protocol (see DESIGN.md section 9): an input file is a list of lines; a line
`case <id>` starts a fresh case (state reset); every other line is one operation.
Harness and driver print exactly one output line per input line (`case <id>` is echoed).
The driver is invoked as `drv ops_file [impl_out_file]`; with the second argument every
output line is `<model_out> ## <verdict>` where verdict is `ok` or `viol:<clause>[:detail]`
and is the Lean monitor's judgement of the *implementation's* output line against the
property's specification.
"""
from __future__ import annotations

import concurrent.futures as cf
import hashlib
import json
import os
import random
import re
import shutil
import signal
import subprocess
import sys
import tempfile
import time
import uuid
from dataclasses import dataclass, field
from pathlib import Path
from typing import Callable, Iterable, Optional

VERIF = Path(__file__).resolve().parent.parent
REPO = Path(os.environ.get("VERIF_REPO", "/repo")).resolve()
BUILD = Path(os.environ.get("VERIF_BUILD", str(VERIF / ".build")))
LEAN = VERIF / "lean"
NPROC = int(os.environ.get("VERIF_JOBS", str(os.cpu_count() or 4)))

ALLOWED_AXIOMS = {"propext", "Classical.choice", "Quot.sound"}
BANNED = re.compile(r"\b(sorry|admit|native_decide|bv_decide|implemented_by)\b|^\s*axiom\s|unsafe\s|maxHeartbeats\s+0\b")

CXX = os.environ.get("VERIF_CXX", "g++")
BASE_FLAGS = ["-std=c++20", "-O1", "-g", "-fno-access-control", "-fno-omit-frame-pointer",
              "-fsanitize=address,undefined", "-fno-sanitize-recover=all",
              "-D_FILE_OFFSET_BITS=64", "-DEPHEMERALNET_VERIF=1", "-w"]
TSAN_FLAGS = ["-std=c++20", "-O1", "-g", "-fno-access-control", "-fsanitize=thread",
              "-D_FILE_OFFSET_BITS=64", "-DEPHEMERALNET_VERIF=1", "-w"]
PLAIN_FLAGS = ["-std=c++20", "-O1", "-g", "-fno-access-control",
               "-D_FILE_OFFSET_BITS=64", "-DEPHEMERALNET_VERIF=1", "-w"]

ALL_CORE_SOURCES = [
    "src/core/Node.cpp", "src/core/ChunkStore.cpp", "src/core/Types.cpp", "src/core/UpdateCheck.cpp",
    "src/dht/KademliaTable.cpp", "src/network/SessionManager.cpp", "src/network/KeyManager.cpp",
    "src/network/KeyExchange.cpp", "src/network/ReputationManager.cpp", "src/network/RelayClient.cpp",
    "src/crypto/ChaCha20.cpp", "src/crypto/CryptoManager.cpp", "src/crypto/Sha256.cpp",
    "src/crypto/HmacSha256.cpp", "src/crypto/Shamir.cpp", "src/security/StoreProof.cpp",
    "src/network/NatTraversal.cpp", "src/network/AdvertiseDiscovery.cpp", "src/core/SwarmCoordinator.cpp",
    "src/protocol/Manifest.cpp", "src/protocol/Message.cpp", "src/bootstrap/TokenChallenge.cpp",
    "src/libephemeralnet.cpp",
]


def sha(*parts: bytes | str) -> str:
    h = hashlib.sha256()
    for p in parts:
        if isinstance(p, str):
            p = p.encode()
        h.update(p)
        h.update(b"\0")
    return h.hexdigest()


def log(msg: str) -> None:
    print(f"[verif] {msg}", file=sys.stderr, flush=True)


def atomic_write(path: Path, data: bytes | str) -> None:
    path.parent.mkdir(parents=True, exist_ok=True)
    mode = "wb" if isinstance(data, bytes) else "w"
    fd, tmp = tempfile.mkstemp(dir=str(path.parent), prefix=".tmp.")
    with os.fdopen(fd, mode) as f:
        f.write(data)
    os.replace(tmp, path)


def write_if_changed(path: Path, text: str) -> bool:
    if path.exists() and path.read_text() == text:
        return False
    atomic_write(path, text)
    return True


# --------------------------------------------------------------------------------------
# Harness builds
# --------------------------------------------------------------------------------------

_tree_hash_cache: dict[str, str] = {}


def tree_hash(rel: str) -> str:
    """sha256 over all files below REPO/rel (sorted)."""
    if rel in _tree_hash_cache:
        return _tree_hash_cache[rel]
    h = hashlib.sha256()
    root = REPO / rel
    for p in sorted(root.rglob("*")):
        if p.is_file():
            h.update(str(p.relative_to(root)).encode())
            h.update(p.read_bytes())
    _tree_hash_cache[rel] = h.hexdigest()
    return _tree_hash_cache[rel]


class BuildError(Exception):
    def __init__(self, what: str, output: str):
        super().__init__(what)
        self.what = what
        self.output = output


def _compile_obj(src: Path, flags: list[str], key_extra: str) -> Path:
    key = sha(CXX, " ".join(flags), src.read_bytes(), key_extra)[:32]
    obj = BUILD / "obj" / f"{src.stem}-{key}.o"
    if obj.exists():
        return obj
    obj.parent.mkdir(parents=True, exist_ok=True)
    tmp = obj.with_suffix(f".{os.getpid()}.{uuid.uuid4().hex[:8]}.tmp.o")
    cmd = [CXX, *flags, "-c", str(src), "-o", str(tmp)]
    r = subprocess.run(cmd, capture_output=True, text=True)
    if r.returncode != 0:
        raise BuildError(f"compile {src}", r.stdout + r.stderr)
    os.replace(tmp, obj)
    return obj


def build_harness(name: str, main: str, repo_sources: Iterable[str] = (), *, includes_repo_cpp: bool = True,
                  extra_sources: Iterable[str] = (), flags: Optional[list[str]] = None,
                  libs: Iterable[str] = ("-lpthread",), vclock: bool = False, defines: Iterable[str] = ()) -> Path:
    """Build /verif/harness/<main> together with the listed /repo sources.

    The result is cached by content hash of everything that can influence it (the repo's
    include/ tree; each repo source; for the harness main, the whole src/ tree when it
    #includes repo .cpp files)."""
    flags = list(flags if flags is not None else BASE_FLAGS)
    flags += [f"-I{REPO}/include", f"-I{REPO}/src", f"-I{REPO}", f"-I{VERIF}/harness", *defines]
    inc_hash = tree_hash("include")
    jobs: list[tuple[Path, str]] = []
    for s in repo_sources:
        jobs.append((REPO / s, inc_hash))
    common = VERIF / "harness" / "common"
    common_hash = sha(*[p.read_bytes() for p in sorted(common.glob("*")) if p.is_file()])
    main_extra = inc_hash + common_hash + (tree_hash("src") if includes_repo_cpp else "")
    jobs.append((VERIF / main, main_extra))
    for s in extra_sources:
        jobs.append((VERIF / s, inc_hash + common_hash))
    if vclock:
        jobs.append((common / "vclock.cpp", ""))
    with cf.ThreadPoolExecutor(max_workers=NPROC) as ex:
        objs = list(ex.map(lambda j: _compile_obj(j[0], flags, j[1]), jobs))
    key = sha(*[o.name for o in objs], " ".join(flags), " ".join(libs))[:24]
    exe = BUILD / "bin" / f"{name}-{key}"
    if exe.exists():
        return exe
    exe.parent.mkdir(parents=True, exist_ok=True)
    tmp = exe.with_suffix(f".{os.getpid()}.{uuid.uuid4().hex[:8]}.tmp")
    sanit = [f for f in flags if f.startswith("-fsanitize") or f.startswith("-fno-sanitize")]
    r = subprocess.run([CXX, *sanit, "-o", str(tmp), *map(str, objs), *libs], capture_output=True, text=True)
    if r.returncode != 0:
        raise BuildError(f"link {name}", r.stdout + r.stderr)
    os.replace(tmp, exe)
    return exe


def build_harness_with_fallback(build: Callable[[list[str]], Path], notes: Optional[list[str]] = None) -> tuple[Path, bool]:
    """Harnesses that reach anonymous-namespace functions by name (`#include` of a repo .cpp) stop
    compiling when such a helper is renamed or inlined -- a harmless change. `build(defines)` is
    tried with -DVERIF_INTERNALS=1 first; if that fails ONLY because a name is no longer declared
    (or a signature no longer matches), it is retried with -DVERIF_INTERNALS=0, in which the harness
    compiles its public-API operations only. Returns (binary, internals_available); the plugin drops
    the internal-only ops from its generator and reports the gap in the evidence notes."""
    try:
        return build(["-DVERIF_INTERNALS=1"]), True
    except BuildError as ex:
        txt = ex.output
        harmless = ("was not declared in this scope" in txt or "has not been declared" in txt or "no matching function for call" in txt
                    or "has no member named" in txt or "is not a member of" in txt)
        if not harmless:
            raise
        exe = build(["-DVERIF_INTERNALS=0"])
        if notes is not None:
            notes.append("harness internals unavailable (a private helper the harness calls by name is gone): "
                         "public-API operations only; " + txt.strip().splitlines()[0][:200])
        return exe, False


# --------------------------------------------------------------------------------------
# (T) extraction
# --------------------------------------------------------------------------------------

@dataclass
class Const:
    """A numeric constant transcribed from the source by regular expression.

    `pattern` must have one capture group holding a C++ integer literal or simple
    constant expression (digits, 0x.., u/ull suffixes, * + - << ( ) and chrono wrappers
    seconds(..), minutes(..), hours(..))."""
    name: str
    file: str
    pattern: str
    default: Optional[int] = None
    doc: str = ""


def _strip_comments(text: str) -> str:
    """Remove // and /* */ comments from C++ source, leaving string and character literals intact
    (so "eph://" does not swallow the rest of its line)."""
    out = []
    i, n = 0, len(text)
    while i < n:
        c = text[i]
        if c == "'" and i > 0 and text[i - 1].isalnum():
            out.append(c)          # digit separator (1'000), not a character literal
            i += 1
        elif c == '"' or c == "'":
            j = i + 1
            while j < n and text[j] != c:
                j += 2 if text[j] == "\\" else 1
            out.append(text[i:j + 1])
            i = j + 1
        elif text.startswith("//", i):
            j = text.find("\n", i)
            i = n if j < 0 else j
            out.append(" ")
        elif text.startswith("/*", i):
            j = text.find("*/", i + 2)
            i = n if j < 0 else j + 2
            out.append(" ")
        else:
            out.append(c)
            i += 1
    return "".join(out)


def eval_cxx_int(expr: str) -> int:
    e = expr.strip()
    e = re.sub(r"std::chrono::", "", e)
    e = re.sub(r"\bhours\s*\(([^()]*)\)", r"((\1)*3600)", e)
    e = re.sub(r"\bminutes\s*\(([^()]*)\)", r"((\1)*60)", e)
    e = re.sub(r"\bseconds\s*\(([^()]*)\)", r"(\1)", e)
    e = re.sub(r"\bmilliseconds\s*\(([^()]*)\)", r"(\1)", e)
    e = re.sub(r"(?<=[0-9a-fA-F])(ull|ULL|ul|UL|u|U|ll|LL|l|L|zu|uz)\b", "", e)
    e = e.replace("'", "")
    e = re.sub(r"static_cast<[^>]*>", "", e)
    e = re.sub(r"std::(size_t|uint\d+_t|int\d+_t)\s*\{([^{}]*)\}", r"(\2)", e)
    if not re.fullmatch(r"[0-9a-fA-FxX\s+\-*/()<>]+", e):
        raise ValueError(f"not a constant expression: {expr!r}")
    return int(eval(e.replace("/", "//"), {"__builtins__": {}}, {}))


def extract_consts(consts: list[Const]) -> tuple[dict[str, int], list[str]]:
    vals: dict[str, int] = {}
    gaps: list[str] = []
    cache: dict[str, str] = {}
    for c in consts:
        try:
            if c.file not in cache:
                cache[c.file] = _strip_comments((REPO / c.file).read_text(errors="replace"))
            m = re.search(c.pattern, cache[c.file], flags=re.S)
            if not m:
                raise ValueError("pattern not found")
            vals[c.name] = eval_cxx_int(m.group(1))
        except Exception as ex:  # translator gap: never an alarm on its own
            gaps.append(f"{c.name} ({c.file}): {ex}")
            if c.default is not None:
                vals[c.name] = c.default
    return vals, gaps


def write_generated(pid: str, body: str) -> bool:
    """Write lean/EphVerif/Generated/<pid>.lean (only if content changed)."""
    header = ("-- GENERATED by tools (extract) from the working tree of the repository. Do not edit.\n"
              f"namespace EphVerif.Gen.{pid}\n\n")
    text = header + body.rstrip() + f"\n\nend EphVerif.Gen.{pid}\n"
    return write_if_changed(LEAN / "EphVerif" / "Generated" / f"{pid}.lean", text)


def restore_generated() -> list[str]:
    """Restore lean/EphVerif/Generated/*.lean files that differ from the committed version
    (used only for the translator-gap fallback). Returns the names restored."""
    try:
        r = subprocess.run(["git", "-C", str(VERIF), "status", "--porcelain", "--", "lean/EphVerif/Generated"],
                           capture_output=True, text=True, timeout=60)
        names = [l[3:].strip() for l in r.stdout.splitlines() if l[:2].strip() in ("M", "MM", "AM")]
        out = []
        for n in names:
            g = subprocess.run(["git", "-C", str(VERIF), "show", f"HEAD:{n}"], capture_output=True, text=True, timeout=60)
            if g.returncode == 0:
                atomic_write(VERIF / n, g.stdout)
                out.append(Path(n).name)
        return out
    except Exception:
        return []


def lean_consts(vals: dict[str, int], ty: str = "Nat") -> str:
    out = []
    for k, v in vals.items():
        if v < 0:
            out.append(f"def {k} : Int := {v}")
        else:
            out.append(f"def {k} : {ty} := {v}")
    return "\n".join(out)


# --------------------------------------------------------------------------------------
# Lean side
# --------------------------------------------------------------------------------------

def lake(args: list[str], timeout: int = 7200) -> subprocess.CompletedProcess:
    """Run lake in the Lean project. Builds from concurrent check runs are serialised with a file
    lock (two `lake build`s racing on the same module have been seen to delete each other's .olean)."""
    import fcntl
    env = dict(os.environ)
    BUILD.mkdir(parents=True, exist_ok=True)
    with open(BUILD / "lake.lock", "w") as lk:
        fcntl.flock(lk, fcntl.LOCK_EX)
        try:
            return subprocess.run(["lake", *args], cwd=LEAN, capture_output=True, text=True, timeout=timeout, env=env)
        finally:
            fcntl.flock(lk, fcntl.LOCK_UN)


def lake_build(targets: list[str], timeout: int = 7200) -> tuple[bool, str]:
    r = lake(["build", *targets], timeout=timeout)
    return r.returncode == 0, r.stdout + r.stderr


def module_path(mod: str) -> Path:
    return LEAN / (mod.replace(".", "/") + ".lean")


def import_closure(mods: list[str]) -> list[str]:
    seen: list[str] = []
    todo = list(mods)
    while todo:
        m = todo.pop()
        if m in seen:
            continue
        p = module_path(m)
        if not p.exists():
            continue
        seen.append(m)
        for line in p.read_text().splitlines():
            mm = re.match(r"\s*(?:public\s+)?import\s+([\w.]+)", line)
            if mm and (mm.group(1).startswith("EphVerif") or mm.group(1).startswith("Driver")):
                todo.append(mm.group(1))
    return seen


def _strip_lean_comments(text: str) -> str:
    # nested block comments
    out = []
    depth = 0
    i = 0
    while i < len(text):
        if text.startswith("/-", i):
            depth += 1
            i += 2
            continue
        if depth and text.startswith("-/", i):
            depth -= 1
            i += 2
            continue
        if depth == 0:
            if text.startswith("--", i):
                j = text.find("\n", i)
                i = len(text) if j < 0 else j
                continue
            out.append(text[i])
        elif text[i] == "\n":
            out.append("\n")
        i += 1
    return "".join(out)


def banned_scan(mods: list[str]) -> list[str]:
    hits = []
    for m in import_closure(mods):
        txt = _strip_lean_comments(module_path(m).read_text())
        # string literals may mention words; drop them
        txt = re.sub(r'"(?:\\.|[^"\\])*"', '""', txt)
        for n, line in enumerate(txt.splitlines(), 1):
            if BANNED.search(line):
                hits.append(f"{m}:{n}: {line.strip()[:120]}")
    return hits


def theorems_in(mod: str) -> list[str]:
    """Fully-qualified names of `theorem` declarations in a module (namespace-aware, simple)."""
    p = module_path(mod)
    if not p.exists():
        return []
    txt = _strip_lean_comments(p.read_text())
    ns: list[str] = []
    out = []
    for line in txt.splitlines():
        m = re.match(r"\s*namespace\s+([\w.]+)", line)
        if m:
            ns.append(m.group(1))
            continue
        m = re.match(r"\s*end\s+([\w.]+)\s*$", line)
        if m and ns and ns[-1] == m.group(1):
            ns.pop()
            continue
        m = re.match(r"\s*(?:@\[[^\]]*\]\s*)?(?:private\s+|protected\s+)?theorem\s+([\w.'!?]+)", line)
        if m:
            out.append(".".join(ns + [m.group(1)]))
    return out


def audit_axioms(mods: list[str], theorems: list[str]) -> tuple[dict[str, list[str]], str]:
    """Run `#print axioms` for each theorem. Returns {theorem: [axioms]} and raw output."""
    src = "".join(f"import {m}\n" for m in mods) + "".join(f"#print axioms {t}\n" for t in theorems)
    d = BUILD / "audit"
    d.mkdir(parents=True, exist_ok=True)
    f = d / f"audit-{os.getpid()}-{abs(hash(tuple(theorems))) % 10**8}.lean"
    f.write_text(src)
    try:
        r = subprocess.run(["lake", "env", "lean", str(f)], cwd=LEAN, capture_output=True, text=True, timeout=1800)
    finally:
        try:
            f.unlink()
        except OSError:
            pass
    out = r.stdout + r.stderr
    res: dict[str, list[str]] = {}
    flat = re.sub(r"\n\s+", " ", out)
    for line in flat.splitlines():
        m = re.match(r"'(.+)' depends on axioms: \[(.*)\]", line)
        if m:
            res[m.group(1)] = [a.strip() for a in m.group(2).split(",") if a.strip()]
            continue
        m = re.match(r"'(.+)' does not depend on any axioms", line)
        if m:
            res[m.group(1)] = []
    return res, out


def failing_theorems(build_log: str, mods: list[str]) -> list[str]:
    """Map `error: path:line:col` entries of a lake log to enclosing theorem names."""
    bad: list[str] = []
    for m in re.finditer(r"error: ([^\s:]+\.lean):(\d+):(\d+)", build_log):
        path, line = m.group(1), int(m.group(2))
        p = (LEAN / path) if not os.path.isabs(path) else Path(path)
        if not p.exists():
            continue
        lines = p.read_text().splitlines()
        name = None
        for i in range(min(line, len(lines)) - 1, -1, -1):
            mm = re.match(r"\s*(?:@\[[^\]]*\]\s*)?(?:private\s+|protected\s+)?(theorem|lemma|def|example|instance|abbrev)\s+([\w.'!?]*)", lines[i])
            if mm:
                name = f"{p.relative_to(LEAN)}:{mm.group(1)} {mm.group(2)}".strip()
                break
        bad.append(name or f"{path}:{line}")
    seen = []
    for b in bad:
        if b not in seen:
            seen.append(b)
    return seen


# --------------------------------------------------------------------------------------
# Cases, running, diffing
# --------------------------------------------------------------------------------------

@dataclass
class Case:
    ops: list[str]
    tag: str = ""           # generator stream / shape label for the histogram
    cid: str = ""

    def digest(self) -> str:
        return sha("\n".join(self.ops))[:16]


@dataclass
class CaseResult:
    case: Case
    impl: list[str]
    model: list[str]
    verdicts: list[str]
    crashed: Optional[str] = None       # sanitizer / signal summary when the harness died here

    @property
    def viols(self) -> list[tuple[int, str]]:
        return [(i, v) for i, v in enumerate(self.verdicts) if v.startswith("viol")]

    @property
    def diverges(self) -> list[int]:
        return [i for i, (a, b) in enumerate(zip(self.impl, self.model)) if a != b]


def _write_cases(path: Path, cases: list[Case]) -> None:
    with open(path, "w") as f:
        for c in cases:
            f.write(f"case {c.cid}\n")
            for op in c.ops:
                assert "\n" not in op
                f.write(op + "\n")


def _split_outputs(text: str) -> dict[str, list[str]]:
    res: dict[str, list[str]] = {}
    cur: Optional[list[str]] = None
    for line in text.splitlines():
        if line.startswith("case "):
            cur = []
            res[line[5:].strip()] = cur
        elif cur is not None:
            cur.append(line)
    return res


def _sanitizer_summary(stderr: str, rc: int) -> str:
    m = re.search(r"SUMMARY: (\w+Sanitizer): ([\w-]+)[^\n]* in ([\w:~<>]+)", stderr)
    if m:
        return f"{m.group(1)}:{m.group(2)}:{m.group(3)}"
    m = re.search(r"SUMMARY: (\w+Sanitizer): ([\w-]+)", stderr)
    if m:
        return f"{m.group(1)}:{m.group(2)}"
    m = re.search(r"runtime error: ([^\n]{0,80})", stderr)
    if m:
        return "ubsan:" + re.sub(r"[^\w]+", "-", m.group(1))[:60]
    m = re.search(r"terminate called after throwing an instance of '([^']+)'", stderr)
    if m:
        return "terminate:" + m.group(1)
    if "terminate called" in stderr:
        return "terminate"
    if rc < 0:
        try:
            return "signal:" + signal.Signals(-rc).name
        except ValueError:
            return f"signal:{-rc}"
    return f"exit:{rc}"


def run_harness(exe: Path, cases: list[Case], workdir: Path, *, timeout: float = 600.0, args: list[str] = (),
                env_extra: Optional[dict] = None, per_case_timeout: float = 20.0) -> dict[str, tuple[list[str], Optional[str]]]:
    """Run the harness on a list of cases. Survives crashes: the case that killed the
    process is recorded as crashed (with a summary) and the remaining cases are re-run."""
    results: dict[str, tuple[list[str], Optional[str]]] = {}
    pending = list(cases)
    rnd = 0
    env = dict(os.environ)
    env.setdefault("ASAN_OPTIONS", "detect_leaks=0:abort_on_error=0:allocator_may_return_null=1:detect_stack_use_after_return=0")
    env.setdefault("UBSAN_OPTIONS", "print_stacktrace=1:halt_on_error=1")
    if env_extra:
        env.update(env_extra)
    while pending:
        rnd += 1
        f = workdir / f"ops-{os.getpid()}-{id(cases)}-{rnd}.txt"
        _write_cases(f, pending)
        try:
            r = subprocess.run([str(exe), str(f), *args], capture_output=True, text=True, errors="replace",
                               timeout=max(timeout, per_case_timeout), env=env, cwd=str(workdir))
            rc, out, err = r.returncode, r.stdout, r.stderr
            timed_out = False
        except subprocess.TimeoutExpired as ex:
            rc = -9
            out = (ex.stdout or b"").decode(errors="replace") if isinstance(ex.stdout, (bytes, type(None))) else ex.stdout
            err = (ex.stderr or b"").decode(errors="replace") if isinstance(ex.stderr, (bytes, type(None))) else ex.stderr
            timed_out = True
        finally:
            try:
                f.unlink()
            except OSError:
                pass
        outs = _split_outputs(out or "")
        done_ids = list(outs.keys())
        if rc == 0 and not timed_out:
            for c in pending:
                results[c.cid] = (outs.get(c.cid, []), None)
            break
        # crashed or timed out: everything before the last echoed case is complete
        idx = {c.cid: i for i, c in enumerate(pending)}
        last = done_ids[-1] if done_ids else pending[0].cid
        li = idx.get(last, 0)
        for c in pending[:li]:
            results[c.cid] = (outs.get(c.cid, []), None)
        summary = "timeout" if timed_out else _sanitizer_summary(err or "", rc)
        partial = outs.get(last, [])
        if timed_out and len(pending) > 1 and li == 0 and not partial and timeout > per_case_timeout * 2:
            # whole batch too slow rather than one case hanging: halve it
            mid = len(pending) // 2
            a = run_harness(exe, pending[:mid], workdir, timeout=timeout, args=list(args), env_extra=env_extra, per_case_timeout=per_case_timeout)
            b = run_harness(exe, pending[mid:], workdir, timeout=timeout, args=list(args), env_extra=env_extra, per_case_timeout=per_case_timeout)
            results.update(a)
            results.update(b)
            break
        results[last] = (partial, summary + "\n" + (err or "")[-3000:])
        pending = pending[li + 1:]
    return results


def run_driver(drv: Path, cases: list[Case], impl: Optional[dict[str, list[str]]], workdir: Path,
               timeout: float = 1800.0) -> dict[str, list[str]]:
    f = workdir / f"dops-{os.getpid()}-{id(cases)}.txt"
    _write_cases(f, cases)
    argv = [str(drv), str(f)]
    g = None
    if impl is not None:
        g = workdir / f"dimpl-{os.getpid()}-{id(cases)}.txt"
        with open(g, "w") as fh:
            for c in cases:
                fh.write(f"case {c.cid}\n")
                lines = impl.get(c.cid, [])
                for i in range(len(c.ops)):
                    fh.write((lines[i] if i < len(lines) else "<missing>") + "\n")
        argv.append(str(g))
    try:
        r = subprocess.run(argv, capture_output=True, text=True, errors="replace", timeout=timeout)
    finally:
        for p in (f, g):
            if p is not None:
                try:
                    p.unlink()
                except OSError:
                    pass
    if r.returncode != 0:
        raise BuildError("driver run failed", (r.stdout or "")[-2000:] + (r.stderr or "")[-2000:])
    return _split_outputs(r.stdout)


def run_pair(harness: Path, drv: Path, cases: list[Case], workdir: Path, *, shards: Optional[int] = None,
             harness_args: list[str] = (), env_extra: Optional[dict] = None, timeout: float = 900.0,
             per_case_timeout: float = 20.0) -> list[CaseResult]:
    """Run implementation and model on the same cases (sharded over the cores)."""
    for i, c in enumerate(cases):
        if not c.cid:
            c.cid = f"k{i}"
    shards = shards or min(NPROC, max(1, len(cases) // 8))
    chunks = [cases[i::shards] for i in range(shards)]
    chunks = [c for c in chunks if c]

    def one(chunk: list[Case]) -> list[CaseResult]:
        h = run_harness(harness, chunk, workdir, timeout=timeout, args=list(harness_args), env_extra=env_extra,
                        per_case_timeout=per_case_timeout)
        impl = {}
        for c in chunk:
            lines, crashed = h.get(c.cid, ([], "not-run"))
            lines = list(lines)
            if crashed:
                tagline = "crash:" + crashed.split("\n", 1)[0]
                while len(lines) < len(c.ops):
                    lines.append(tagline)
            impl[c.cid] = lines
        d = run_driver(drv, chunk, impl, workdir)
        out = []
        for c in chunk:
            model, verd = [], []
            for ln in d.get(c.cid, []):
                if " ## " in ln:
                    a, b = ln.rsplit(" ## ", 1)
                else:
                    a, b = ln, "ok"
                model.append(a)
                verd.append(b)
            while len(model) < len(c.ops):
                model.append("<missing>")
                verd.append("ok")
            crashed = h.get(c.cid, ([], None))[1]
            out.append(CaseResult(c, impl[c.cid], model, verd, crashed))
        return out

    with cf.ThreadPoolExecutor(max_workers=len(chunks) or 1) as ex:
        parts = list(ex.map(one, chunks))
    by_id = {r.case.cid: r for part in parts for r in part}
    return [by_id[c.cid] for c in cases]


def default_signature(res: CaseResult) -> str:
    """violated clause (first `viol:<clause>` without the detail part) or crash summary."""
    if res.viols:
        parts = res.viols[0][1].split(":")
        return ":".join(parts[1:2]) if len(parts) > 1 else "viol"
    if res.crashed:
        return "crash:" + res.crashed.split("\n", 1)[0]
    return "diverge"


def shrink(harness: Path, drv: Path, case: Case, workdir: Path, sig: str,
           signature: Callable[[CaseResult], str] = default_signature, *, harness_args: list[str] = (),
           env_extra: Optional[dict] = None, budget_s: float = 60.0, keep_prefix: int = 0) -> Case:
    """ddmin over the op list preserving the violation signature."""
    t0 = time.time()

    def bad(ops: list[str]) -> bool:
        c = Case(ops=ops, tag=case.tag, cid="s")
        try:
            r = run_pair(harness, drv, [c], workdir, shards=1, harness_args=harness_args, env_extra=env_extra)[0]
        except BuildError:
            return False
        return (bool(r.viols) or bool(r.crashed)) and signature(r) == sig

    ops = list(case.ops)
    n = 2
    while len(ops) - keep_prefix >= 2 and time.time() - t0 < budget_s:
        body = ops[keep_prefix:]
        size = max(1, len(body) // n)
        removed = False
        for i in range(0, len(body), size):
            cand = ops[:keep_prefix] + body[:i] + body[i + size:]
            if len(cand) < len(ops) and bad(cand):
                ops = cand
                n = max(n - 1, 2)
                removed = True
                break
            if time.time() - t0 > budget_s:
                break
        if not removed:
            if size == 1:
                break
            n = min(len(body), n * 2)
    return Case(ops=ops, tag=case.tag + "/shrunk", cid=case.cid)


# --------------------------------------------------------------------------------------
# Known findings, evidence, verdict
# --------------------------------------------------------------------------------------

def load_known(pid: str) -> list[dict]:
    p = VERIF / "known_findings.json"
    if not p.exists():
        return []
    data = json.loads(p.read_text())
    return [e for e in data.get("findings", []) if e.get("property") == pid]


class Ctx:
    def __init__(self, pid: str, tier: str, seed: int):
        self.pid = pid
        self.tier = tier
        self.seed = seed
        self.rng = random.Random(f"{pid}:{seed}")
        self.t0 = time.time()
        self.work = BUILD / "tmp" / f"{pid}-{os.getpid()}"
        self.work.mkdir(parents=True, exist_ok=True)
        self.coverage: dict = {"obligations": 0, "discharged": 0, "checker_cmd": "", "trusted_base": [],
                               "evaluations": 0, "distinct_nontrivial": 0, "traces_validated_against_impl": 0,
                               "rule": "", "samples": [], "histogram": {}}
        self.assumptions: list[str] = []
        self.violations: list[dict] = []
        self.known_hits: dict[str, str] = {}
        self.notes: list[str] = []
        self._nontrivial: set[str] = set()
        self._seen: set[str] = set()
        self.known = load_known(pid)

    # ---- bookkeeping --------------------------------------------------------------
    def hist(self, key: str, n: int = 1) -> None:
        h = self.coverage["histogram"]
        h[key] = h.get(key, 0) + n

    def count_case(self, case: Case, nontrivial: bool) -> None:
        self.coverage["evaluations"] += 1
        d = case.digest()
        if d not in self._seen:
            self._seen.add(d)
            if nontrivial:
                self._nontrivial.add(d)
        self.coverage["distinct_nontrivial"] = len(self._nontrivial)

    def sample(self, obj, limit: int = 6) -> None:
        if len(self.coverage["samples"]) < limit:
            self.coverage["samples"].append(obj)

    # ---- verdicts -----------------------------------------------------------------
    def match_known(self, sig: str) -> Optional[dict]:
        for e in self.known:
            if e.get("status") == "known" and e.get("signature") == sig:
                return e
        return None

    def report(self, sig: str, kind: str, payload: dict, *, found_input: bool) -> None:
        """Record a violation (or a known finding). kind: failing-input | broken-obligation |
        broken-correspondence."""
        k = self.match_known(sig) if found_input else None
        if k is not None:
            if sig not in self.known_hits:
                self.known_hits[sig] = k.get("what", sig)
            return
        if any(v["signature"] == sig for v in self.violations):
            return
        safe = re.sub(r"[^\w.-]+", "_", sig)[:80]
        path = VERIF / "replays" / f"{self.pid}-{safe}.json"
        doc = {"property": self.pid, "signature": sig, "seed": self.seed, "tier": self.tier, "kind": kind,
               "how_to_run": f"./check.py {self.pid} --replay {path.relative_to(VERIF)}", **payload}
        atomic_write(path, json.dumps(doc, indent=1))
        self.violations.append({"signature": sig, "path": str(path), "found_input": found_input, "kind": kind})

    def finish(self, level: str = "proof") -> int:
        for sig, what in self.known_hits.items():
            print(f"KNOWN-FINDING: property={self.pid} {sig}: {what}")
        for v in self.violations:
            tail = "" if v["found_input"] else " no-failing-input-found"
            print(f"VIOLATION property={self.pid} replay={v['path']}{tail}")
        cov = self.coverage
        if not cov["samples"]:
            cov["samples"] = ["(no cases run)"]
        ev = {"property_id": self.pid, "tier": self.tier, "seed": self.seed, "level": level, "coverage": cov,
              "assumptions": self.assumptions, "wall_s": round(time.time() - self.t0, 2),
              "violations": len(self.violations), "known_findings_hit": sorted(self.known_hits),
              "notes": self.notes, "repo": str(REPO)}
        atomic_write(VERIF / "evidence" / f"{self.pid}.json", json.dumps(ev, indent=1))
        shutil.rmtree(self.work, ignore_errors=True)
        print(f"[verif] {self.pid} {self.tier}: obligations {cov['discharged']}/{cov['obligations']}, "
              f"{cov['evaluations']} cases ({cov['distinct_nontrivial']} distinct non-trivial), "
              f"{len(self.violations)} violation(s), {len(self.known_hits)} known finding(s), "
              f"{ev['wall_s']} s", file=sys.stderr)
        return 1 if self.violations else 0


# --------------------------------------------------------------------------------------
# The standard pipeline
# --------------------------------------------------------------------------------------

@dataclass
class Spec:
    pid: str
    proof_modules: list[str]                       # EphVerif.Proofs.Cxx ...
    driver: str                                    # lean_exe name
    harness: Callable[[], Path]                    # builds (cached) and returns the harness binary
    generate: Callable[["Ctx", int], list[Case]]   # (ctx, budget) -> cases
    budget: dict = field(default_factory=lambda: {"quick": 400, "thorough": 8000})
    extract: Optional[Callable[[], list[str]]] = None     # writes Generated/, returns translator gaps
    nontrivial: Callable[[CaseResult], bool] = lambda r: True
    signature: Callable[[CaseResult], str] = default_signature
    rule: str = ""
    trusted_base: list[str] = field(default_factory=list)
    assumptions: list[str] = field(default_factory=list)
    extra_theorems: list[str] = field(default_factory=list)   # audited in addition to those in proof_modules
    # Composition modules that import OTHER properties' proofs (Proofs/System*.lean). They are built,
    # audited and counted when they build; when they do not (another property's proof is broken by
    # the change under test) that is noted, not reported as a violation of THIS property.
    soft_proof_modules: list[str] = field(default_factory=list)
    harness_args: list[str] = field(default_factory=list)
    env_extra: Optional[dict] = None
    divergence_is_violation: bool = False          # pure functions whose every output the property fixes
    search_budget: dict = field(default_factory=lambda: {"quick": 2000, "thorough": 20000})
    leanchecker: bool = True
    per_case_timeout: float = 20.0
    post: Optional[Callable[["Ctx", list[CaseResult]], None]] = None
    batch: int = 2000


TRUSTED_COMMON = [
    "Lean 4.33.0 kernel (leanchecker re-check of the proof modules in the thorough tier)",
    "axioms allowed: propext, Classical.choice, Quot.sound (audited with #print axioms on every run); no native_decide, bv_decide, sorry, own axioms",
    "C++ -> Lean model transcription, validated only by the differential correspondence run (harness in-process on the real code vs compiled Lean driver)",
    "tools/vlib.py orchestration, the harness's canonicalisation of outputs, g++ 12 / libstdc++ / ASan+UBSan",
]


def corpus_cases(pid: str) -> list[Case]:
    d = VERIF / "corpus" / pid
    out = []
    if d.is_dir():
        for p in sorted(d.glob("*.ops")):
            ops = [l for l in p.read_text().splitlines() if l.strip() and not l.startswith("#")]
            out.append(Case(ops=ops, tag="corpus/" + p.stem, cid="corpus_" + re.sub(r"\W", "_", p.stem)))
    return out


def proof_obligations(ctx: Ctx, spec: Spec) -> tuple[bool, list[str]]:
    """Build the proof modules, audit axioms, scan for banned constructs.
    Returns (all discharged?, list of broken obligation names)."""
    broken: list[str] = []
    gaps: list[str] = []
    if spec.extract:
        try:
            gaps = spec.extract() or []
        except Exception as ex:  # pragma: no cover
            gaps = [f"extractor failed: {ex}"]
    if gaps:
        ctx.notes.append("translator gaps (not alarms): " + "; ".join(gaps))
    thms = []
    for m in spec.proof_modules:
        thms += [t for t in theorems_in(m)]
    thms += spec.extra_theorems
    ctx.coverage["obligations"] = len(thms)
    ctx.coverage["checker_cmd"] = f"cd lean && lake build {' '.join(spec.proof_modules)} && lake env lean <#print axioms audit>"
    ok, out = lake_build(spec.proof_modules)
    if not ok and gaps:
        # A translator gap must never be an alarm by itself (DESIGN section 1): the extractor could not
        # re-read part of the source (renamed helper, reshaped loop), so what it emitted for those items
        # is a guess. Fall back to the last successfully extracted definitions (the committed
        # Generated/*.lean) and re-check the proofs against those; the differential run below then
        # decides whether the code still behaves as the model says.
        restored = restore_generated()
        if restored:
            ok2, out2 = lake_build(spec.proof_modules)
            ctx.notes.append(f"translator gap: proofs re-checked against the last extracted definitions ({', '.join(restored)}) -> "
                             + ("hold" if ok2 else "still broken"))
            ctx.coverage["translator_gap_fallback"] = restored
            if ok2:
                ok, out = ok2, out2
    if not ok:
        bad = failing_theorems(out, spec.proof_modules)
        broken += bad or ["lake build failed: " + out[-400:]]
        ctx.notes.append("lake build log tail: " + out[-1500:])
    hits = banned_scan(spec.proof_modules + ["Driver." + spec.pid])
    if hits:
        broken += [f"banned construct: {h}" for h in hits]
    if ok:
        ax, raw = audit_axioms(spec.proof_modules, thms)
        for t in thms:
            if t not in ax:
                broken.append(f"axiom audit: no result for {t}")
            else:
                extra = [a for a in ax[t] if a not in ALLOWED_AXIOMS]
                if extra:
                    broken.append(f"axiom audit: {t} depends on {extra}")
        ctx.coverage["axioms_used"] = sorted({a for v in ax.values() for a in v})
        if ctx.tier == "thorough" and spec.leanchecker:
            for m in spec.proof_modules:
                r = subprocess.run(["lake", "env", "leanchecker", m], cwd=LEAN, capture_output=True, text=True)
                ctx.notes.append(f"leanchecker {m}: rc={r.returncode}")
                if r.returncode != 0:
                    broken.append(f"leanchecker rejected {m}: {(r.stdout + r.stderr)[-300:]}")
        n_bad_thm = len({b for b in broken})
        ctx.coverage["discharged"] = max(0, len(thms) - n_bad_thm) if broken else len(thms)
    else:
        ctx.coverage["discharged"] = 0
    ctx.coverage["theorems"] = thms
    # soft (composition) modules --------------------------------------------------------------
    for m in getattr(spec, "soft_proof_modules", []):
        ok_s, out_s = lake_build([m])
        sthms = theorems_in(m)
        if not ok_s:
            ctx.notes.append(f"composition module {m} does not build (it imports other properties' proofs; "
                             f"not counted, not an alarm for {spec.pid}): " + "; ".join(failing_theorems(out_s, [m]))[:600])
            ctx.coverage.setdefault("soft_modules_failed", []).append(m)
            continue
        hits_s = banned_scan([m])
        ax_s, _ = audit_axioms([m], sthms)
        if sthms and not any(t in ax_s for t in sthms):
            # the audit itself could not run (an import vanished under a concurrent rebuild): same
            # treatment as a failed build of a composition module -- a note, not an alarm
            ctx.notes.append(f"composition module {m}: axiom audit produced no result (not counted, not an alarm for {spec.pid})")
            ctx.coverage.setdefault("soft_modules_failed", []).append(m)
            continue
        bad_s = [t for t in sthms if t not in ax_s or [a for a in ax_s[t] if a not in ALLOWED_AXIOMS]]
        if hits_s or bad_s:
            broken += [f"banned construct: {h}" for h in hits_s] + [f"axiom audit: {t}" for t in bad_s]
            continue
        ctx.coverage["obligations"] += len(sthms)
        ctx.coverage["discharged"] += len(sthms)
        ctx.coverage["theorems"] = ctx.coverage["theorems"] + sthms
        ctx.coverage.setdefault("composition_modules", []).append(m)
    return (not broken), broken


def standard_check(spec: Spec, tier: str, seed: int, replay: Optional[str] = None) -> int:
    ctx = Ctx(spec.pid, tier, seed)
    ctx.coverage["rule"] = spec.rule
    ctx.coverage["trusted_base"] = TRUSTED_COMMON + spec.trusted_base
    ctx.assumptions += spec.assumptions

    # 1. obligations -----------------------------------------------------------------
    all_ok, broken = proof_obligations(ctx, spec)

    # 2. build driver + harness --------------------------------------------------------
    tie_broken: list[str] = []
    drv = LEAN / ".lake" / "build" / "bin" / spec.driver
    ok, out = lake_build([spec.driver])
    if not ok:
        tie_broken.append("driver build failed: " + "; ".join(failing_theorems(out, [])) + out[-300:])
    try:
        hbin = spec.harness()
    except BuildError as ex:
        hbin = None
        tie_broken.append(f"harness build failed ({ex.what}): {ex.output[-600:]}")

    if replay:
        return _replay(ctx, spec, hbin, drv, replay)

    results: list[CaseResult] = []
    divergences: list[CaseResult] = []
    if hbin is not None and ok:
        # 3. corpus first, then generated cases ------------------------------------------
        cases = corpus_cases(spec.pid)
        budget = spec.budget[tier]
        if broken or tie_broken:
            budget = max(budget, spec.search_budget[tier])     # enlarged search for a failing input
        gen = spec.generate(ctx, budget)
        cases += gen
        for i, c in enumerate(cases):
            if not c.cid:
                c.cid = f"k{i}"
        for off in range(0, len(cases), spec.batch):
            part = cases[off:off + spec.batch]
            try:
                rs = run_pair(hbin, drv, part, ctx.work, harness_args=spec.harness_args, env_extra=spec.env_extra,
                              per_case_timeout=spec.per_case_timeout)
            except BuildError as ex:
                tie_broken.append(f"{ex.what}: {ex.output[-400:]}")
                break
            for r in rs:
                results.append(r)
                ctx.count_case(r.case, spec.nontrivial(r))
                ctx.hist("tag:" + (r.case.tag or "gen"))
                if r.crashed:
                    ctx.hist("outcome:crash")
                if r.viols or r.crashed:
                    _handle_violation(ctx, spec, hbin, drv, r)
                elif r.diverges:
                    divergences.append(r)
                    ctx.hist("outcome:diverge")
                else:
                    ctx.hist("outcome:agree")
                    ctx.coverage["traces_validated_against_impl"] += 1
            if len(ctx.violations) >= 5:
                break
        if spec.post:
            spec.post(ctx, results)
        for r in results[:3]:
            ctx.sample({"ops": r.case.ops[:12], "impl": r.impl[:12], "model": r.model[:12]})

    # 4. decide ---------------------------------------------------------------------------
    if divergences:
        if spec.divergence_is_violation:
            r = divergences[0]
            i = r.diverges[0]
            ctx.report(f"diverge:{r.case.tag.split('/')[0]}", "failing-input",
                       {"ops": r.case.ops, "impl_out": r.impl, "model_out": r.model,
                        "monitor": f"op {i}: implementation output differs from the proved model (= specification) output"},
                       found_input=True)
        elif not ctx.violations:
            r = divergences[0]
            tie_broken.append(f"model/implementation divergence on {len(divergences)} case(s), first at op {r.diverges[0]}")
            ctx.coverage["first_divergence"] = {"ops": r.case.ops, "impl_out": r.impl, "model_out": r.model}
    found = [v for v in ctx.violations if v["found_input"]]
    if (broken or tie_broken) and not found and not ctx.known_hits_cover(broken, tie_broken):
        payload = {"theorem": broken, "correspondence": tie_broken,
                   "monitor": "no concrete failing input found within the search budget",
                   "searched_cases": ctx.coverage["evaluations"]}
        if "first_divergence" in ctx.coverage:
            payload.update(ctx.coverage["first_divergence"])
        ctx.report("broken:" + sha("|".join(broken + tie_broken))[:10],
                   "broken-obligation" if broken else "broken-correspondence", payload, found_input=False)
    elif broken or tie_broken:
        ctx.notes.append("broken obligations/correspondence (a failing input was found and reported): " + "; ".join(broken + tie_broken)[:1500])
    return ctx.finish("proof")


def _ctx_known_hits_cover(self, broken, tie_broken) -> bool:
    return False


Ctx.known_hits_cover = _ctx_known_hits_cover


def _handle_violation(ctx: Ctx, spec: Spec, hbin: Path, drv: Path, r: CaseResult) -> None:
    sig = spec.signature(r)
    if ctx.match_known(sig) is not None:
        ctx.report(sig, "failing-input", {}, found_input=True)
        return
    if any(v["signature"] == sig for v in ctx.violations):
        return
    small = r.case
    if len(r.case.ops) > 3:
        try:
            small = shrink(hbin, drv, r.case, ctx.work, sig, spec.signature, harness_args=spec.harness_args,
                           env_extra=spec.env_extra, budget_s=45.0 if ctx.tier == "quick" else 180.0)
        except Exception as ex:  # pragma: no cover
            ctx.notes.append(f"shrink failed: {ex}")
    try:
        rr = run_pair(hbin, drv, [Case(ops=small.ops, tag=small.tag, cid="final")], ctx.work, shards=1,
                      harness_args=spec.harness_args, env_extra=spec.env_extra)[0]
    except BuildError:
        rr = r
    if not (rr.viols or rr.crashed):
        rr = r
    mon = "; ".join(f"op {i}: {v}" for i, v in rr.viols[:4]) or (rr.crashed or "").split("\n", 1)[0]
    ctx.report(sig, "failing-input",
               {"ops": rr.case.ops, "impl_out": rr.impl, "model_out": rr.model, "monitor": mon,
                "crash": (rr.crashed or "")[:3000]}, found_input=True)


def _replay(ctx: Ctx, spec: Spec, hbin: Optional[Path], drv: Path, path: str) -> int:
    doc = json.loads(Path(path).read_text()) if path.endswith(".json") else {"ops": [l for l in Path(path).read_text().splitlines() if l.strip() and not l.startswith("#")]}
    ops = doc.get("ops")
    if not ops or hbin is None:
        print(f"replay {path}: no operation list to run (kind={doc.get('kind')}); broken obligations: {doc.get('theorem')}")
        shutil.rmtree(ctx.work, ignore_errors=True)
        return 1
    r = run_pair(hbin, drv, [Case(ops=ops, cid="replay")], ctx.work, shards=1, harness_args=spec.harness_args,
                 env_extra=spec.env_extra)[0]
    for i, op in enumerate(ops):
        print(f"{i:3d} op    {op}\n    impl  {r.impl[i]}\n    model {r.model[i]}\n    mon   {r.verdicts[i]}")
    bad = bool(r.viols or r.crashed or (spec.divergence_is_violation and r.diverges))
    print("REPRODUCED" if bad else "not reproduced")
    shutil.rmtree(ctx.work, ignore_errors=True)
    return 1 if bad else 0


def main_for(spec_factory: Callable[[], Spec]) -> None:
    import argparse
    ap = argparse.ArgumentParser()
    ap.add_argument("--tier", default=os.environ.get("VERIF_TIER", "quick"), choices=["quick", "thorough"])
    ap.add_argument("--replay")
    a = ap.parse_args()
    seed = int(os.environ.get("VERIF_SEED", "1"))
    sys.exit(standard_check(spec_factory(), a.tier, seed, a.replay))
