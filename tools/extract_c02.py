#!/usr/bin/env python3
"""(T) translator for C02 / C03: loop-free integer functions of the repository -> Lean definitions.

Source of truth is the clang AST (`clang++-14 -Xclang -ast-dump=json -Xclang -ast-dump-filter=<name>`,
cached under .build/ast by content hash of the translated file and the include tree).  Two kinds of
items are translated:

  * whole functions  (sanitize_*, sanitize_config, clamp_chunk_ttl, enforce_manifest_ttl, manifest_ttl):
    parameters become Lean parameters, `std::chrono` durations / time points become `Int` counts of
    their own period (seconds stay seconds, clock time points are nanoseconds; mixed-period
    arithmetic and comparisons are scaled explicitly, `duration_cast` to a coarser period is
    `Int.tdiv`), `std::uint8_t` / `std::size_t` become `Nat`, `std::optional` becomes `Option`,
    `Config` becomes the generated structure `Cfg`, a call of `system_clock::now()` becomes an extra
    trailing parameter `wall_now` (ns), `steady_clock::now()` -> `steady_now`.
    Statements: compound, `if`/`else`, assignment to a parameter / local / `config.field`,
    local declarations with initialiser, `return`.
  * slices of large methods (Node::store_chunk, Node::handle_announce, Node::ingest_manifest,
    Node::receive_chunk, ChunkStore::put, ControlServer::Impl::handle_store): the value that reaches a
    named *site* (an argument position of a call, the right-hand side of an assignment to a member,
    an `if` condition guarding an error code) as a function of the method's parameters and
    `config_`, following the straight-line definitions and conditional re-assignments of the local
    variables it depends on.  Early-exit guards (`if (...) return ...;`) are not part of a slice: a
    slice is the value *when the site is reached*.  `*opt` of a local optional is a fresh `Int`
    parameter named after the variable (the site is only reached when it holds a value); what the
    optional was bound to is emitted as its own definition (`..._source`).

Anything outside this subset raises `Gap`; the generated file then carries the hand-written fallback
text for that definition (marked `-- FALLBACK`), the gap is reported in the evidence notes, and the
differential harness run is what still ties that definition to the code.  A gap is never an alarm.
"""
from __future__ import annotations

import json
import os
import re
import subprocess
import sys
from fractions import Fraction
from pathlib import Path
from typing import Optional

HERE = Path(__file__).resolve().parent.parent
sys.path.insert(0, str(HERE))
from tools.vlib import BUILD, REPO, atomic_write, log, sha, tree_hash  # noqa: E402

CLANG = os.environ.get("VERIF_CLANG", "clang++-14")


class Gap(Exception):
    pass


# --------------------------------------------------------------------------------------
# clang AST access (cached, pruned)
# --------------------------------------------------------------------------------------

KEEP = ("kind", "name", "opcode", "value", "castKind", "isArrow", "isReversed", "inner", "type", "referencedDecl", "isPostfix")


def _prune(n):
    if not isinstance(n, dict):
        return n
    out = {}
    for k in KEEP:
        if k not in n:
            continue
        v = n[k]
        if k == "inner":
            out[k] = [_prune(c) for c in v]
        elif k == "type":
            out[k] = v.get("desugaredQualType") or v.get("qualType", "")
            if "qualType" in v:
                out["qtype"] = v["qualType"]
        elif k == "referencedDecl":
            out[k] = {"name": v.get("name", ""), "kind": v.get("kind", ""),
                      "type": (v.get("type") or {}).get("desugaredQualType") or (v.get("type") or {}).get("qualType", "")}
        else:
            out[k] = v
    if "loc" in n and isinstance(n["loc"], dict):
        ln = n["loc"].get("line") or (n["loc"].get("expansionLoc") or {}).get("line")
        if ln:
            out["line"] = ln
    return out


def _split_json_stream(text: str) -> list[dict]:
    dec = json.JSONDecoder()
    i, objs = 0, []
    n = len(text)
    while i < n:
        while i < n and text[i].isspace():
            i += 1
        if i >= n:
            break
        if text.startswith("Dumping", i):
            j = text.find("\n", i)
            i = n if j < 0 else j + 1
            continue
        o, j = dec.raw_decode(text, i)
        objs.append(o)
        i = j
    return objs


def ast_dump(rel_file: str, flt: str) -> list[dict]:
    """Top-level declarations matching the filter, pruned; cached by content."""
    src = REPO / rel_file
    key = sha(CLANG, flt, src.read_bytes(), tree_hash("include"), "v3")[:24]
    cache = BUILD / "ast" / f"{Path(rel_file).stem}-{re.sub(r'[^A-Za-z0-9_]+', '_', flt)}-{key}.json"
    if cache.exists():
        try:
            return json.loads(cache.read_text())
        except Exception:
            pass
    cmd = [CLANG, "-std=c++20", f"-I{REPO}/include", f"-I{REPO}/src", "-Xclang", "-ast-dump=json", "-Xclang",
           f"-ast-dump-filter={flt}", "-fsyntax-only", "-w", str(src)]
    r = subprocess.run(cmd, capture_output=True, text=True, timeout=900)
    if r.returncode != 0 and not r.stdout.strip():
        raise Gap(f"clang failed on {rel_file}: {r.stderr[-300:]}")
    objs = [_prune(o) for o in _split_json_stream(r.stdout)]
    atomic_write(cache, json.dumps(objs))
    return objs


def find_function(objs: list[dict], name: str) -> dict:
    for o in objs:
        if o.get("name") == name and o.get("kind") in ("FunctionDecl", "CXXMethodDecl") and body_of(o) is not None:
            return o
    raise Gap(f"function {name} not found (or has no body)")


def body_of(fn: dict) -> Optional[dict]:
    for c in fn.get("inner", []):
        if c.get("kind") == "CompoundStmt":
            return c
    return None


# --------------------------------------------------------------------------------------
# types
# --------------------------------------------------------------------------------------

NAMED_PERIODS = {"nanoseconds": Fraction(1, 10**9), "microseconds": Fraction(1, 10**6), "milliseconds": Fraction(1, 1000),
                 "seconds": Fraction(1, 1), "minutes": Fraction(60, 1), "hours": Fraction(3600, 1)}


def lean_kind(ctype: str) -> str:
    t = ctype.replace("const ", "").replace("&", "").strip()
    if "std::optional<" in t or t.startswith("optional<"):
        return "opt"
    if re.search(r"chrono::(nanoseconds|microseconds|milliseconds|seconds|minutes|hours)\b", t) or t.endswith("_clock::time_point"):
        return "int"
    if "ephemeralnet::Config" in t and "::Config::" not in t:
        return "cfg"
    if "chrono::duration<" in t or "chrono::time_point<" in t or re.search(r"\bduration<|\btime_point<", t):
        return "int"
    if t == "bool":
        return "bool"
    if re.search(r"\bunsigned\b|\buint\d+_t\b|\bsize_t\b", t):
        return "nat"
    if re.fullmatch(r"(long|int|short|long long|std::int\d+_t|signed char|std::chrono::duration<long>::rep)", t) or "::rep" in t:
        return "int"
    return "other"


def lean_type(kind: str) -> str:
    return {"int": "Int", "nat": "Nat", "bool": "Bool", "opt": "Option Int", "cfg": "Cfg"}.get(kind, "Int")


def period_of(ctype: str) -> Optional[Fraction]:
    """Tick period in seconds of a chrono duration / time_point type, None for anything else."""
    if "duration<" not in ctype and "time_point<" not in ctype:
        m = re.search(r"chrono::(nanoseconds|microseconds|milliseconds|seconds|minutes|hours)\b", ctype)
        if m:
            return NAMED_PERIODS[m.group(1)]
        if re.search(r"(system|steady|high_resolution)_clock::time_point", ctype):
            return Fraction(1, 10**9)
        return None
    m = re.search(r"ratio<\s*(\d+)\s*,\s*(\d+)\s*>", ctype)
    if m:
        return Fraction(int(m.group(1)), int(m.group(2)))
    m = re.search(r"ratio<\s*(\d+)\s*>", ctype)
    if m:
        return Fraction(int(m.group(1)), 1)
    return Fraction(1, 1)


def is_unsigned64(ctype: str) -> bool:
    return ctype.strip() in ("unsigned long", "unsigned long long", "std::uint64_t", "uint64_t", "std::size_t", "size_t")


def is_signed64(ctype: str) -> bool:
    t = ctype.strip()
    return t in ("long", "long long", "std::int64_t", "int64_t") or t.endswith("::rep")


# --------------------------------------------------------------------------------------
# expressions
# --------------------------------------------------------------------------------------

WRAPPERS = {"MaterializeTemporaryExpr", "ExprWithCleanups", "CXXBindTemporaryExpr", "ParenExpr",
            "CXXFunctionalCastExpr", "ConstantExpr", "CXXStaticCastExpr"}
CMP = {"<": "<", ">": ">", "<=": "≤", ">=": "≥", "==": "=", "!=": "≠"}
FLIP = {"<": ">", ">": "<", "<=": ">=", ">=": "<=", "==": "==", "!=": "!="}


class E:
    """A translated expression: Lean text, kind, tick period (durations), set of referenced names."""

    def __init__(self, text: str, kind: str, period: Optional[Fraction] = None, deps: Optional[set] = None, atomic: bool = False):
        self.text, self.kind, self.period, self.deps, self.atomic = text, kind, period, set(deps or ()), atomic

    def p(self) -> str:
        return self.text if self.atomic else f"({self.text})"


class Ctx:
    """Translation context of one function / slice."""

    def __init__(self, gen: "Generator", slice_mode: bool):
        self.gen = gen
        self.slice_mode = slice_mode
        self.scalars: dict[str, str] = {}      # known scalar variable -> kind (params and locals)
        self.free: dict[str, str] = {}         # free variables discovered on the way (ordered) -> kind
        self.struct_fields: dict[str, list[str]] = {}   # flattened struct parameter -> fields used
        self.notes: list[str] = []
        # by-value Config parameters that the function mutates are replaced by one scalar per field
        # (`config.f` ~> `config_f`), so that every `let` of the translation binds a scalar
        self.scalarised: dict[str, list[str]] = {}      # parameter -> fields assigned somewhere in the body
        self.scalar_reads: dict[str, list[str]] = {}    # parameter -> fields read or assigned (in order)

    def use_free(self, name: str, kind: str) -> None:
        if name not in self.scalars and name not in self.free:
            self.free[name] = kind


def callee_name(node: dict) -> tuple[str, str]:
    """(name, kind) of the function a CallExpr-like node calls."""
    if not node.get("inner"):
        return "", ""
    c = node["inner"][0]
    while c.get("kind") in ("ImplicitCastExpr", *WRAPPERS) and c.get("inner"):
        c = c["inner"][0]
    if c.get("kind") == "DeclRefExpr":
        return c["referencedDecl"]["name"], c["referencedDecl"]["kind"]
    if c.get("kind") == "MemberExpr":
        return c.get("name", ""), "member"
    return "", ""


def strip(node: dict) -> dict:
    while node.get("kind") in WRAPPERS and node.get("inner"):
        node = node["inner"][-1] if node["kind"] == "CXXFunctionalCastExpr" else node["inner"][0]
    return node


def scale_to(e: E, target: Fraction) -> E:
    if e.period is None or e.period == target:
        return e
    ratio = e.period / target
    if ratio.denominator != 1:
        raise Gap(f"lossy implicit duration conversion {e.period} -> {target}")
    return E(f"{e.p()} * {ratio.numerator}", e.kind, target, e.deps)


def unify(a: E, b: E) -> tuple[E, E]:
    if a.period is not None and b.period is not None and a.period != b.period:
        t = min(a.period, b.period)
        return scale_to(a, t), scale_to(b, t)
    return a, b


def tr_expr(n: dict, cx: Ctx) -> E:
    n = strip(n)
    k = n.get("kind")
    ty = n.get("type", "")
    if k == "ImplicitCastExpr":
        inner = n["inner"][0]
        if n.get("castKind") == "IntegralCast":
            src = strip(inner)
            while src.get("kind") == "ImplicitCastExpr":
                src = strip(src["inner"][0])
            src_t = src.get("type", "").replace("const ", "").strip()
            e = tr_expr(inner, cx)
            if src.get("kind") == "IntegerLiteral":
                return e
            if is_unsigned64(src_t) and is_signed64(ty.replace("const ", "")):
                return E(f"toInt64 {e.p() if not e.atomic else e.text}", "int", None, e.deps)
            return e            # value-preserving promotions (uint8 -> int, int -> long, ...)
        return tr_expr(inner, cx)
    if k == "IntegerLiteral":
        return E(str(int(n["value"])), "lit", None, None, True)
    if k == "CXXBoolLiteralExpr":
        return E("true" if n.get("value") else "false", "bool", None, None, True)
    if k == "DeclRefExpr":
        ref = n["referencedDecl"]
        name = ref["name"]
        if name == "nullopt":
            return E("none", "opt", None, None, True)
        if name in cx.gen.consts:
            c = cx.gen.consts[name]
            cx.gen.used_consts.add(name)
            return E(name, c[1], period_of(ref.get("type", "") or ty), None, True)
        kind = lean_kind(ty)
        if name in cx.scalarised:
            upd = ", ".join(f"{f} := {name}_{f}" for f in cx.scalarised[name])
            return E(f"{{ {name} with {upd} }}", "cfg", None, {name}, True)
        if kind == "other":
            raise Gap(f"variable {name} of untranslatable type {ty}")
        if name not in cx.scalars:
            if not cx.slice_mode:
                raise Gap(f"free variable {name}")
            cx.use_free(name, kind)
        return E(name, kind, period_of(ty), {name}, True)
    if k == "MemberExpr":
        base = strip(n["inner"][0]) if n.get("inner") else {}
        while base.get("kind") == "ImplicitCastExpr":
            base = strip(base["inner"][0])
        field = n.get("name", "")
        kind = lean_kind(ty)
        bt = base.get("type", "")
        if kind == "cfg" and base.get("kind") == "CXXThisExpr":
            if field not in cx.scalars:
                cx.use_free(field, "cfg")
            return E(field, "cfg", None, {field}, True)
        if lean_kind(bt) == "cfg":
            if base.get("kind") == "DeclRefExpr":
                bname = base["referencedDecl"]["name"]
            elif base.get("kind") == "MemberExpr" and strip(base["inner"][0]).get("kind") == "CXXThisExpr":
                bname = base.get("name", "config_")
            else:
                raise Gap("Config accessed through an unsupported expression")
            if field not in cx.gen.cfg_fields:
                raise Gap(f"Config field {field} is not part of the translated structure")
            if bname in cx.scalarised:
                if field not in cx.scalar_reads[bname]:
                    cx.scalar_reads[bname].append(field)
                return E(f"{bname}_{field}", cx.gen.cfg_fields[field], period_of(ty), {f"{bname}_{field}"}, True)
            if bname not in cx.scalars:
                cx.use_free(bname, "cfg")
            return E(f"{bname}.{field}", cx.gen.cfg_fields[field], period_of(ty), {bname}, True)
        if base.get("kind") == "DeclRefExpr" and kind in ("int", "nat", "bool"):
            # field of some other struct (payload.ttl, manifest.expires_at): a flattened scalar
            bname = base["referencedDecl"]["name"]
            name = f"{bname}_{field}"
            if name not in cx.scalars:
                cx.use_free(name, kind)
                cx.struct_fields.setdefault(bname, [])
                if field not in cx.struct_fields[bname]:
                    cx.struct_fields[bname].append(field)
            return E(name, kind, period_of(ty), {name}, True)
        raise Gap(f"member access .{field} on {bt or base.get('kind')}")
    if k == "CXXMemberCallExpr":
        name, _ = callee_name(n)
        callee = strip(n["inner"][0])
        obj = callee["inner"][0] if callee.get("inner") else {}
        if name == "count" and not n["inner"][1:]:
            e = tr_expr(obj, cx)
            return E(e.text, "int", None, e.deps, e.atomic)     # the tick count: a plain integer from here on
        if name == "time_since_epoch":
            return tr_expr(obj, cx)
        if name == "has_value":
            e = tr_expr(obj, cx)
            return E(f"{e.p()}.isSome", "bool", None, e.deps)
        raise Gap(f"member call {name}()")
    if k == "CallExpr":
        name, _ = callee_name(n)
        args = n["inner"][1:]
        if name == "zero" and not args:
            return E("0", "int", period_of(ty), None, True)
        if name == "now" and not args:
            which = "wall_now" if "system_clock" in (n.get("qtype", "") + ty) else "steady_now"
            cx.use_free(which, "int")
            return E(which, "int", period_of(ty), {which}, True)
        if name == "duration_cast" and len(args) == 1:
            e = tr_expr(args[0], cx)
            tp = period_of(ty)
            if e.period is None or tp is None:
                raise Gap("duration_cast on a non-duration")
            if e.period == tp:
                return e
            r = tp / e.period
            if r.denominator == 1:
                return E(f"Int.tdiv {e.p()} {r.numerator}", "int", tp, e.deps)
            r = e.period / tp
            if r.denominator == 1:
                return E(f"{e.p()} * {r.numerator}", "int", tp, e.deps)
            raise Gap("duration_cast between incommensurable periods")
        if name in ("max", "min") and len(args) == 2:
            a, b = unify(tr_expr(args[0], cx), tr_expr(args[1], cx))
            kind = a.kind if a.kind != "lit" else b.kind
            return E(f"{name} {a.p()} {b.p()}", kind, a.period or b.period, a.deps | b.deps)
        if name == "move" and len(args) == 1:
            return tr_expr(args[0], cx)
        if name in cx.gen.signatures:
            return tr_call(name, args, cx)
        raise Gap(f"call of {name}()")
    if k in ("CXXConstructExpr", "CXXTemporaryObjectExpr"):
        args = [a for a in n.get("inner", []) if a.get("kind") != "CXXDefaultArgExpr"]
        kind = lean_kind(ty)
        if len(args) == 1:
            a = strip(args[0])
            at = a.get("type", "")
            if "nullopt_t" in at:
                return E("none", "opt", None, None, True)
            e = tr_expr(args[0], cx)
            if kind == "opt" and e.kind != "opt":
                return E(f"some {e.p()}", "opt", e.period, e.deps)
            tp = period_of(ty)
            if tp is not None and e.period is not None and tp != e.period:
                return scale_to(e, tp)
            if tp is not None and e.period is None:
                # duration{count}: the representation is a signed 64-bit count
                at_ = a
                while at_.get("kind") == "ImplicitCastExpr":
                    at_ = strip(at_["inner"][0])
                if e.kind == "nat" and is_unsigned64(at_.get("type", "").replace("const ", "").strip()):
                    return E(f"toInt64 {e.p() if not e.atomic else e.text}", "int", tp, e.deps)
                if e.kind == "nat":
                    return E(f"Int.ofNat {e.p() if not e.atomic else e.text}", "int", tp, e.deps)
                return E(e.text, "int", tp, e.deps, e.atomic)
            return e
        if len(args) == 0 and kind == "int":
            return E("0", "int", period_of(ty), None, True)
        raise Gap(f"construction of {ty}")
    if k == "CXXRewrittenBinaryOperator":
        inner = strip(n["inner"][0])
        return tr_expr(inner, cx)
    if k == "CXXOperatorCallExpr":
        name, _ = callee_name(n)
        args = n["inner"][1:]
        op = name.replace("operator", "")
        if op in CMP and len(args) == 2:
            a0, a1 = strip(args[0]), strip(args[1])
            while a0.get("kind") == "ImplicitCastExpr":
                a0 = strip(a0["inner"][0])
            while a1.get("kind") == "ImplicitCastExpr":
                a1 = strip(a1["inner"][0])
            # (x <=> y) OP 0   or   0 OP (x <=> y)
            if a0.get("kind") == "CXXOperatorCallExpr" and callee_name(a0)[0] == "operator<=>":
                x, y = a0["inner"][1:3]
                return cmp_expr(op, tr_expr(x, cx), tr_expr(y, cx))
            if a1.get("kind") == "CXXOperatorCallExpr" and callee_name(a1)[0] == "operator<=>":
                x, y = a1["inner"][1:3]
                return cmp_expr(FLIP[op], tr_expr(x, cx), tr_expr(y, cx))
            return cmp_expr(op, tr_expr(args[0], cx), tr_expr(args[1], cx))
        if op in ("+", "-") and len(args) == 2:
            a, b = unify(tr_expr(args[0], cx), tr_expr(args[1], cx))
            return E(f"{a.p()} {op} {b.p()}", "int", a.period or b.period, a.deps | b.deps)
        if op == "*" and len(args) == 1:
            a = strip(args[0])
            while a.get("kind") == "ImplicitCastExpr":
                a = strip(a["inner"][0])
            if a.get("kind") == "DeclRefExpr" and lean_kind(a.get("type", "")) == "opt":
                name = a["referencedDecl"]["name"]
                inner_t = re.sub(r"^.*?optional<(.*)>\s*$", r"\1", a.get("type", ""))
                cx.gen.derefs.add(name)
                vk = lean_kind(inner_t)
                if vk not in ("int", "nat"):
                    raise Gap(f"dereference of optional<{inner_t}>")
                if name not in cx.scalars or cx.scalars.get(name) == "opt":
                    cx.scalars.pop(name, None)
                    cx.free.pop(name, None)
                    cx.free[name] = vk
                return E(name, vk, period_of(inner_t), {name}, True)
            raise Gap("dereference of a non-local optional")
        raise Gap(f"overloaded operator {op}")
    if k == "BinaryOperator":
        op = n.get("opcode")
        a, b = tr_expr(n["inner"][0], cx), tr_expr(n["inner"][1], cx)
        if op in CMP:
            return cmp_expr(op, a, b)
        if op in ("&&", "||"):
            return E(f"{as_prop(a)} {'∧' if op == '&&' else '∨'} {as_prop(b)}", "prop", None, a.deps | b.deps)
        if op in ("+", "-", "*"):
            a, b = unify(a, b)
            kind = "int" if "int" in (a.kind, b.kind) else ("nat" if "nat" in (a.kind, b.kind) else "int")
            if op == "-" and kind == "nat":
                raise Gap("unsigned subtraction")
            return E(f"{a.p()} {op} {b.p()}", kind, a.period or b.period, a.deps | b.deps)
        raise Gap(f"binary operator {op}")
    if k == "UnaryOperator":
        op = n.get("opcode")
        a = tr_expr(n["inner"][0], cx)
        if op == "!":
            return E(f"¬ {as_prop(a)}", "prop", None, a.deps)
        if op == "-":
            return E(f"- {a.p()}", "int", a.period, a.deps)
        raise Gap(f"unary operator {op}")
    if k == "ConditionalOperator":
        c, a, b = (tr_expr(x, cx) for x in n["inner"][:3])
        a, b = unify(a, b)
        kind = a.kind if a.kind != "lit" else b.kind
        return E(f"if {as_prop(c)} then {a.text} else {b.text}", kind, a.period or b.period, c.deps | a.deps | b.deps)
    raise Gap(f"expression kind {k}")


def as_prop(e: E) -> str:
    if e.kind == "prop":
        return e.p()
    if e.kind == "bool":
        return f"{e.p()} = true"
    raise Gap("non-boolean condition")


def cmp_expr(op: str, a: E, b: E) -> E:
    a, b = unify(a, b)
    if {a.kind, b.kind} == {"int", "nat"}:
        raise Gap("comparison between signed and unsigned")
    return E(f"{a.p() if not a.atomic else a.text} {CMP[op]} {b.p() if not b.atomic else b.text}", "prop", None, a.deps | b.deps)


def tr_call(name: str, args: list[dict], cx: Ctx) -> E:
    sig = cx.gen.signatures[name]
    out, deps = [], set()
    for spec, arg in zip(sig["cparams"], args):
        if spec["kind"] == "struct":
            a = strip(arg)
            while a.get("kind") == "ImplicitCastExpr":
                a = strip(a["inner"][0])
            if a.get("kind") != "DeclRefExpr":
                raise Gap(f"struct argument of {name}() is not a variable")
            bname = a["referencedDecl"]["name"]
            for f, fk in spec["fields"]:
                v = f"{bname}_{f}"
                if v not in cx.scalars:
                    cx.use_free(v, fk)
                out.append(v)
                deps.add(v)
        else:
            e = tr_expr(arg, cx)
            if spec.get("period") is not None and e.period is not None and e.period != spec["period"]:
                e = scale_to(e, spec["period"])
            out.append(e.p() if not e.atomic else e.text)
            deps |= e.deps
    for clock in sig["clocks"]:
        cx.use_free(clock, "int")
        out.append(clock)
        deps.add(clock)
    return E(f"{name} {' '.join(out)}", sig["ret"], sig.get("ret_period"), deps)


# --------------------------------------------------------------------------------------
# statements (whole-function mode)
# --------------------------------------------------------------------------------------

def flatten(stmts: list[dict]) -> list[dict]:
    out = []
    for s in stmts:
        if not s or not s.get("kind"):
            continue
        if s["kind"] == "CompoundStmt":
            out += flatten(s.get("inner", []))
        elif s["kind"] in ("ExprWithCleanups",) and s.get("inner"):
            out += flatten([s["inner"][0]])
        elif s["kind"] == "NullStmt":
            continue
        else:
            out.append(s)
    return out


def assignment(s: dict) -> Optional[tuple[dict, dict]]:
    """(lhs, rhs) when the statement is an assignment."""
    s = strip(s)
    if s.get("kind") == "BinaryOperator" and s.get("opcode") == "=":
        return s["inner"][0], s["inner"][1]
    if s.get("kind") == "CXXOperatorCallExpr" and callee_name(s)[0] == "operator=":
        return s["inner"][1], s["inner"][2]
    return None


def lhs_target(lhs: dict, cx: Ctx) -> tuple[str, Optional[str]]:
    """variable assigned, and the Config field when the target is `cfg.field`."""
    lhs = strip(lhs)
    if lhs.get("kind") == "DeclRefExpr":
        return lhs["referencedDecl"]["name"], None
    if lhs.get("kind") == "MemberExpr":
        base = strip(lhs["inner"][0])
        if base.get("kind") == "DeclRefExpr" and lean_kind(base.get("type", "")) == "cfg":
            if lhs["name"] not in cx.gen.cfg_fields:
                raise Gap(f"assignment to untranslated Config field {lhs['name']}")
            bname = base["referencedDecl"]["name"]
            if bname in cx.scalarised:
                if lhs["name"] not in cx.scalar_reads[bname]:
                    cx.scalar_reads[bname].append(lhs["name"])
                return f"{bname}_{lhs['name']}", None
            return bname, lhs["name"]
    raise Gap("assignment to an unsupported target")


def if_parts(s: dict) -> tuple[list[dict], dict, list[dict], list[dict]]:
    """(init / condition-variable declarations, condition, then-statements, else-statements) of an IfStmt"""
    parts = [p for p in s.get("inner", [])]
    inits = []
    while parts and parts[0].get("kind") == "DeclStmt":
        inits.append(parts.pop(0))
    cond = parts[0] if parts else {}
    then_s = [parts[1]] if len(parts) > 1 and parts[1].get("kind") else []
    else_s = [parts[2]] if len(parts) > 2 and parts[2].get("kind") else []
    return inits, cond, then_s, else_s


def always_returns(stmts: list[dict]) -> bool:
    stmts = flatten(stmts)
    if not stmts:
        return False
    last = stmts[-1]
    if last["kind"] == "ReturnStmt":
        return True
    if last["kind"] == "IfStmt":
        _i, _c, then_s, else_s = if_parts(last)
        if else_s:
            return always_returns(then_s) and always_returns(else_s)
    return False


def contains_return(stmts: list[dict]) -> bool:
    for s in flatten(stmts):
        if s["kind"] == "ReturnStmt":
            return True
        if s["kind"] == "IfStmt":
            _i, _c, then_s, else_s = if_parts(s)
            if contains_return(then_s + else_s):
                return True
    return False


def assigned_vars(stmts: list[dict], cx: Ctx) -> list[str]:
    out: list[str] = []
    for s in flatten(stmts):
        a = assignment(s)
        if a:
            v, _ = lhs_target(a[0], cx)
            if v not in out:
                out.append(v)
        elif s["kind"] == "IfStmt":
            inits, _c, then_s, else_s = if_parts(s)
            if inits:
                raise Gap("`if` with an init statement inside a conditional")
            for v in assigned_vars(then_s + else_s, cx):
                if v not in out:
                    out.append(v)
        elif s["kind"] == "DeclStmt":
            continue
        else:
            raise Gap(f"statement {s['kind']} inside a conditional")
    return out


def rhs_for(lhs_kind_period: tuple[str, Optional[Fraction]], e: E) -> E:
    kind, period = lhs_kind_period
    if period is not None and e.period is not None and e.period != period:
        e = scale_to(e, period)
    return e


def tr_block(stmts: list[dict], cx: Ctx, ind: str, tail: Optional[str], periods: dict) -> list[str]:
    """Lean lines for a statement list. `tail`: expression to yield when control falls off the end
    (used for the branches of a non-returning `if`), None when the list must end in a return."""
    stmts = flatten(stmts)
    lines: list[str] = []
    for i, s in enumerate(stmts):
        rest = stmts[i + 1:]
        kind = s["kind"]
        if kind == "DeclStmt":
            for v in s.get("inner", []):
                if v.get("kind") != "VarDecl":
                    continue
                if not v.get("inner"):
                    raise Gap(f"local {v.get('name')} without initialiser")
                e = tr_expr(v["inner"][-1], cx)
                vk = lean_kind(v.get("type", ""))
                if vk == "other":
                    vk = e.kind
                cx.scalars[v["name"]] = vk
                periods[v["name"]] = period_of(v.get("type", "")) or e.period
                e = rhs_for((vk, periods[v["name"]]), e)
                lines.append(f"{ind}let {v['name']} := {e.text}")
            continue
        a = assignment(s)
        if a:
            var, field = lhs_target(a[0], cx)
            lt = strip(a[0]).get("type", "")
            e = rhs_for((lean_kind(lt), period_of(lt)), tr_expr(a[1], cx))
            if field:
                lines.append(f"{ind}let {var} := {{ {var} with {field} := {e.text} }}")
            else:
                lines.append(f"{ind}let {var} := {e.text}")
            continue
        if kind == "ReturnStmt":
            if not s.get("inner"):
                raise Gap("return without value")
            e = tr_expr(s["inner"][0], cx)
            if cx.ret_kind == "opt" and e.kind != "opt":
                e = E(f"some {e.p()}", "opt", e.period, e.deps)
            lines.append(f"{ind}{e.text}")
            return lines
        if kind == "IfStmt":
            inits, cond_n, then_s, else_s = if_parts(s)
            if inits:
                raise Gap("`if` with an init statement")
            cond = as_prop(tr_expr(cond_n, cx))
            if not contains_return(then_s) and not contains_return(else_s):
                vs = assigned_vars(then_s + else_s, cx)
                if not vs:
                    continue
                yield_ = vs[0] if len(vs) == 1 else "(" + ", ".join(vs) + ")"
                saved = dict(cx.scalars)
                tl = tr_block(then_s, cx, "", yield_, periods)
                cx.scalars = dict(saved)
                el = tr_block(else_s, cx, "", yield_, periods)
                cx.scalars = saved
                t_txt = "; ".join(x.strip() for x in tl)
                e_txt = "; ".join(x.strip() for x in el)
                if len(tl) > 1:
                    t_txt = f"({t_txt})"
                if len(el) > 1:
                    e_txt = f"({e_txt})"
                simple = re.fullmatch(rf"let {re.escape(vs[0])} := (.*); {re.escape(vs[0])}", t_txt.strip("()")) if len(vs) == 1 else None
                if simple and len(tl) == 2:
                    t_txt = simple.group(1)
                simple = re.fullmatch(rf"let {re.escape(vs[0])} := (.*); {re.escape(vs[0])}", e_txt.strip("()")) if len(vs) == 1 else None
                if simple and len(el) == 2:
                    e_txt = simple.group(1)
                lines.append(f"{ind}let {yield_} := if {cond} then {t_txt} else {e_txt}")
                continue
            if always_returns(then_s):
                saved = dict(cx.scalars)
                tl = tr_block(then_s, cx, ind + "  ", None, periods)
                cx.scalars = saved
                lines.append(f"{ind}if {cond} then")
                lines += tl
                lines.append(f"{ind}else")
                if else_s and always_returns(else_s):
                    lines += tr_block(else_s, cx, ind + "  ", None, periods)
                    return lines
                lines += tr_block(else_s + rest, cx, ind + "  ", tail, periods)
                return lines
            raise Gap("`if` that returns on some paths only")
        raise Gap(f"statement kind {kind}")
    if tail is None:
        raise Gap("control reaches the end of a value-returning function")
    lines.append(f"{ind}{tail}")
    return lines


# --------------------------------------------------------------------------------------
# generator
# --------------------------------------------------------------------------------------

CFG_FIELDS = [  # the Config fields the TTL properties talk about; types checked against Config.hpp
    ("default_chunk_ttl", "int"), ("min_manifest_ttl", "int"), ("max_manifest_ttl", "int"), ("key_rotation_interval", "int"),
    ("announce_min_interval", "int"), ("announce_burst_limit", "nat"), ("announce_burst_window", "int"),
    ("announce_pow_difficulty", "nat"), ("handshake_pow_difficulty", "nat"), ("store_pow_difficulty", "nat"),
]

CONSTS = [  # name, file, kind, default
    ("kMinKeyRotationInterval", "src/core/Node.cpp", "int", 5), ("kMaxKeyRotationInterval", "src/core/Node.cpp", "int", 3600),
    ("kMinAllowedManifestTtl", "src/core/Node.cpp", "int", 1), ("kMaxAllowedManifestTtl", "src/core/Node.cpp", "int", 86400),
    ("kMinAnnounceInterval", "src/core/Node.cpp", "int", 1), ("kMaxAnnounceWindow", "src/core/Node.cpp", "int", 3600),
    ("kMaxAnnouncePowDifficulty", "src/core/Node.cpp", "nat", 24), ("kMaxHandshakePowDifficulty", "src/core/Node.cpp", "nat", 24),
    ("kMaxStorePowDifficulty", "src/core/Node.cpp", "nat", 24), ("kMinimumTtl", "src/core/ChunkStore.cpp", "int", 1),
]


def eval_const(expr: str) -> int:
    e = expr.strip()
    e = e.replace("std::chrono::", "")
    for _ in range(6):
        e = re.sub(r"\bhours\s*[({]([^(){}]*)[)}]", r"((\1)*3600)", e)
        e = re.sub(r"\bminutes\s*[({]([^(){}]*)[)}]", r"((\1)*60)", e)
        e = re.sub(r"\bseconds\s*[({]([^(){}]*)[)}]", r"(\1)", e)
        e = re.sub(r"std::u?int\d+_t\s*[({]([^(){}]*)[)}]", r"(\1)", e)
    e = re.sub(r"(?<=[0-9a-fA-F])(ull|ULL|ul|UL|u|U|ll|LL|l|L)\b", "", e).replace("'", "")
    if not re.fullmatch(r"[0-9a-fA-FxX\s+\-*()]+", e):
        raise ValueError(f"not a constant expression: {expr!r}")
    return int(eval(e, {"__builtins__": {}}, {}))


def strip_comments(text: str) -> str:
    text = re.sub(r"/\*.*?\*/", " ", text, flags=re.S)
    return re.sub(r"//[^\n]*", " ", text)


class Generator:
    def __init__(self):
        self.consts: dict[str, tuple[int, str]] = {}
        self.used_consts: set[str] = set()
        self.cfg_fields = dict(CFG_FIELDS)
        self.signatures: dict[str, dict] = {}
        self.gaps: list[str] = []
        self.defs: list[tuple[str, str, bool]] = []     # (name, lean text, translated?)
        self.derefs: set[str] = set()
        self.need_to_int64 = False

    # ---- constants and the Config structure -------------------------------------------
    def load_consts(self) -> None:
        cache: dict[str, str] = {}
        for name, file, kind, default in CONSTS:
            try:
                if file not in cache:
                    cache[file] = strip_comments((REPO / file).read_text(errors="replace"))
                m = re.search(rf"constexpr\s+[\w:]+\s+{name}\s*[{{(=]\s*(.*?)\s*[}})]?\s*;", cache[file], flags=re.S)
                if not m:
                    raise ValueError("declaration not found")
                body = m.group(1)
                # balance a brace / parenthesis swallowed by the lazy match
                while body.count("{") > body.count("}"):
                    body += "}"
                while body.count("(") > body.count(")"):
                    body += ")"
                self.consts[name] = (eval_const(body), kind)
            except Exception as ex:
                self.gaps.append(f"constant {name} ({file}): {ex}; default {default} used")
                self.consts[name] = (default, kind)

    def check_cfg_fields(self) -> None:
        try:
            txt = strip_comments((REPO / "include/ephemeralnet/Config.hpp").read_text())
        except OSError as ex:
            self.gaps.append(f"Config.hpp unreadable: {ex}")
            return
        for f, kind in CFG_FIELDS:
            m = re.search(rf"([\w:]+)\s+{f}\s*[{{=;]", txt)
            if not m:
                self.gaps.append(f"Config field {f} not found in Config.hpp")
                continue
            got = lean_kind(m.group(1).replace("std::chrono::seconds", "std::chrono::duration<long>"))
            if got != kind:
                self.gaps.append(f"Config field {f}: declared {m.group(1)}, translated as {kind}")

    # ---- whole functions -----------------------------------------------------------------
    def function(self, objs_or_err, name: str, fallback: str) -> None:
        try:
            if isinstance(objs_or_err, Exception):
                raise objs_or_err
            fn = find_function(objs_or_err, name)
            text = self._function(fn, name)
            self.defs.append((name, text, True))
        except Gap as g:
            self.gaps.append(f"function {name}: {g}; hand-written fallback used")
            self.defs.append((name, fallback.strip("\n"), False))
            self._fallback_signature(name, fallback)
        except Exception as ex:  # a translator crash is a gap as well
            self.gaps.append(f"function {name}: translator error {type(ex).__name__}: {ex}; hand-written fallback used")
            self.defs.append((name, fallback.strip("\n"), False))
            self._fallback_signature(name, fallback)

    def _fallback_signature(self, name: str, fallback: str) -> None:
        sig = FALLBACK_SIGS.get(name)
        if sig:
            self.signatures[name] = sig

    def _function(self, fn: dict, name: str) -> str:
        cx = Ctx(self, slice_mode=False)
        m = re.match(r"(.*?)\s*\(", fn.get("type", ""))
        ret_t = m.group(1) if m else ""
        cx.ret_kind = lean_kind(ret_t)
        if cx.ret_kind == "other":
            raise Gap(f"return type {ret_t}")
        periods: dict = {}
        cparams = []
        for p in fn.get("inner", []):
            if p.get("kind") != "ParmVarDecl":
                continue
            k = lean_kind(p.get("type", ""))
            if k == "other":
                cparams.append({"name": p["name"], "kind": "struct", "fields": []})
            else:
                cx.scalars[p["name"]] = k
                periods[p["name"]] = period_of(p.get("type", ""))
                cparams.append({"name": p["name"], "kind": k, "period": period_of(p.get("type", ""))})
        # struct parameters are flattened: their fields become free scalars on first use
        cx.slice_mode = True
        for cp in cparams:
            if cp["kind"] == "cfg":
                assigned = []
                for node in walk_nodes(body_of(fn)):
                    a = assignment(node) if node.get("kind") in ("BinaryOperator", "CXXOperatorCallExpr") else None
                    if a:
                        lhs = strip(a[0])
                        if lhs.get("kind") == "MemberExpr":
                            b = strip(lhs["inner"][0])
                            if b.get("kind") == "DeclRefExpr" and b["referencedDecl"]["name"] == cp["name"] and lhs.get("name") not in assigned:
                                assigned.append(lhs.get("name"))
                if assigned:
                    order = [f for f, _k in CFG_FIELDS]
                    cx.scalarised[cp["name"]] = sorted(assigned, key=lambda f: order.index(f) if f in order else 99)
                    cx.scalar_reads[cp["name"]] = []
        body = tr_block(body_of(fn)["inner"], cx, "  ", None, periods)
        pre = []
        for pname, fields in cx.scalar_reads.items():
            order = [f for f, _k in CFG_FIELDS]
            for f in sorted(fields, key=lambda f: order.index(f) if f in order else 99):
                pre.append(f"  let {pname}_{f} := {pname}.{f}")
        body = pre + body
        params = []
        for cp in cparams:
            if cp["kind"] == "struct":
                fields = cx.struct_fields.get(cp["name"], [])
                cp["fields"] = [(f, cx.free.get(f"{cp['name']}_{f}", "int")) for f in fields]
                for f, fk in cp["fields"]:
                    params.append((f"{cp['name']}_{f}", fk))
                    cx.free.pop(f"{cp['name']}_{f}", None)
            else:
                params.append((cp["name"], cp["kind"]))
        clocks = [c for c in ("wall_now", "steady_now") if c in cx.free]
        for c in clocks:
            params.append((c, "int"))
            cx.free.pop(c)
        if cx.free:
            raise Gap("free variables " + ", ".join(cx.free))
        ret_inner = re.sub(r"^.*?optional<(.*)>\s*$", r"\1", ret_t) if cx.ret_kind == "opt" else ret_t
        self.signatures[name] = {"cparams": cparams, "clocks": clocks, "ret": cx.ret_kind, "ret_period": period_of(ret_inner)}
        head = f"def {name} " + " ".join(f"({n} : {lean_type(k)})" for n, k in params) + f" : {lean_type(cx.ret_kind)} :="
        return head + "\n" + "\n".join(body)

    # ---- slices --------------------------------------------------------------------------
    def slices(self, objs_or_err, method: str, sites: list[dict]) -> None:
        """sites: {name, find: predicate description, fallback}"""
        try:
            if isinstance(objs_or_err, Exception):
                raise objs_or_err
            fn = find_function(objs_or_err, method)
            sl = Slicer(self, fn)
            sl.walk(body_of(fn)["inner"])
        except Gap as g:
            for s in sites:
                self.gaps.append(f"slice {s['name']} of {method}: {g}; hand-written fallback used")
                self.defs.append((s["name"], s["fallback"].strip("\n"), False))
            return
        except Exception as ex:
            for s in sites:
                self.gaps.append(f"slice {s['name']} of {method}: translator error {type(ex).__name__}: {ex}; fallback used")
                self.defs.append((s["name"], s["fallback"].strip("\n"), False))
            return
        for s in sites:
            try:
                text = sl.emit(s)
                text = fit_params(text, s.get("params"))
                self.defs.append((s["name"], text, True))
            except Gap as g:
                self.gaps.append(f"slice {s['name']} of {method}: {g}; hand-written fallback used")
                self.defs.append((s["name"], s["fallback"].strip("\n"), False))
            except Exception as ex:
                self.gaps.append(f"slice {s['name']} of {method}: translator error {type(ex).__name__}: {ex}; fallback used")
                self.defs.append((s["name"], s["fallback"].strip("\n"), False))

    # ---- output ------------------------------------------------------------------------------
    def render(self, names: Optional[list[str]] = None) -> str:
        out = ["/-! Constants (regex over the sources) -/"]
        for name, _f, kind, _d in CONSTS:
            v, k = self.consts[name]
            out.append(f"def {name} : {lean_type(k)} := {v}")
        out.append("")
        out.append("/-- the `Config` fields the TTL properties talk about (durations in seconds) -/")
        out.append("structure Cfg where")
        for f, k in CFG_FIELDS:
            out.append(f"  {f} : {lean_type(k)} := 0")
        out.append("  deriving Repr, DecidableEq")
        out.append("")
        out.append("/-- `static_cast<std::int64_t>(std::uint64_t)` (two's complement, as every supported target does) -/")
        out.append("def toInt64 (x : Nat) : Int := if x % 18446744073709551616 < 9223372036854775808 then Int.ofNat (x % 18446744073709551616) else Int.ofNat (x % 18446744073709551616) - 18446744073709551616")
        out.append("")
        for name, text, ok in self.defs:
            if names is not None and name not in names:
                continue
            out.append(("-- translated from the clang AST" if ok else "-- FALLBACK: hand-written (translator gap, see the evidence notes)"))
            out.append(text)
            out.append("")
        out.append("/-- names of the definitions above that are hand-written fallbacks in this run -/")
        fb = [n for n, _t, ok in self.defs if not ok and (names is None or n in names)]
        out.append("def fallbacks : List String := [" + ", ".join(f'"{n}"' for n in fb) + "]")
        return "\n".join(out)


def fit_params(text: str, want: "Optional[str]") -> str:
    """The hand-written model calls a slice with a fixed parameter list. A translated slice that
    uses a subset of those parameters is given the full list (unused ones are simply ignored), so
    that an edit which drops a dependency changes the Lean *term*, not the arity. A parameter the
    model does not know about is a gap."""
    if want is None:
        return text
    head, _, rest = text.partition("\n")
    m = re.match(r"def (\S+) (.*?)\s*: ([^:()]+) :=$", head)
    if not m:
        m0 = re.match(r"def (\S+) : ([^:()]+) :=$", head)
        if not m0:
            raise Gap("unparsable slice header")
        name, got, ret = m0.group(1), "", m0.group(2)
    else:
        name, got, ret = m.group(1), m.group(2).strip(), m.group(3)
    got_l = re.findall(r"\((\w+) : ([^()]+)\)", got)
    want_l = re.findall(r"\((\w+) : ([^()]+)\)", want)
    for g in got_l:
        if g not in want_l:
            raise Gap(f"depends on `{g[0]} : {g[1]}`, which the hand-written model does not supply (expects `{want}`)")
    return f"def {name} {want} : {ret.strip()} :=\n{rest}"


class Slicer:
    """Straight-line slice of a method body: ordered bindings of translatable locals."""

    def __init__(self, gen: Generator, fn: dict):
        self.gen = gen
        self.fn = fn
        self.cx = Ctx(gen, slice_mode=True)
        self.cx.ret_kind = "int"
        self.bindings: list[tuple[str, str, set, str]] = []    # (name, lean rhs, deps, kind)
        self.opaque: set[str] = set()
        self.periods: dict = {}
        self.sites: list[tuple[dict, int, bool]] = []          # (expression statement / if, #bindings before it, under control flow)
        self.sources: dict[str, tuple[str, set]] = {}          # optional local -> (lean rhs, deps)
        for p in fn.get("inner", []):
            if p.get("kind") == "ParmVarDecl":
                self.periods[p.get("name", "")] = period_of(p.get("type", ""))

    def bind(self, name: str, e: E) -> None:
        self.bindings.append((name, e.text, set(e.deps), e.kind))

    def walk(self, stmts: list[dict], nested: bool = False) -> None:
        for s in flatten(stmts):
            k = s["kind"]
            if k == "DeclStmt":
                for v in s.get("inner", []):
                    if v.get("kind") != "VarDecl" or not v.get("inner"):
                        continue
                    try:
                        free_before = dict(self.cx.free)
                        e = tr_expr(v["inner"][-1], self.cx)
                        vk = lean_kind(v.get("type", ""))
                        if vk == "other":
                            vk = e.kind
                        if vk not in ("int", "nat", "bool", "opt", "prop"):
                            raise Gap("not a scalar")
                        vp = period_of(v.get("type", "")) or e.period
                        if vp is not None and e.period is not None and vp != e.period:
                            e = scale_to(e, vp)
                        self.periods[v["name"]] = vp
                        self.cx.scalars[v["name"]] = vk
                        self.cx.free.pop(v["name"], None)
                        self.bind(v["name"], e)
                        if vk == "opt":
                            self.sources[v["name"]] = (e.text, set(e.deps))
                    except Gap:
                        self.cx.free = free_before
                        self.opaque.add(v["name"])
                    self.sites.append((v, len(self.bindings), nested))
                continue
            a = assignment(s)
            if a:
                lhs = strip(a[0])
                if lhs.get("kind") == "DeclRefExpr" and lhs["referencedDecl"]["name"] in self.cx.scalars and not nested:
                    name = lhs["referencedDecl"]["name"]
                    try:
                        e = tr_expr(a[1], self.cx)
                        vp = self.periods.get(name)
                        if vp is not None and e.period is not None and vp != e.period:
                            e = scale_to(e, vp)
                        self.bind(name, e)
                    except Gap:
                        self.opaque.add(name)
                    continue
                self.sites.append((s, len(self.bindings), nested))
                continue
            if k == "IfStmt":
                inits, _cond, then_s, else_s = if_parts(s)
                branches = then_s + else_s
                self.sites.append((s, len(self.bindings), nested))
                if inits:
                    self.walk(inits + branches, nested=True)
                    continue
                if contains_return(branches):
                    continue            # early-exit guard: not part of a slice
                try:
                    vs = assigned_vars(branches, self.cx)
                except Gap:
                    vs = None
                if vs is not None and not nested and len(vs) == 1 and vs[0] in self.cx.scalars:
                    try:
                        saved = dict(self.cx.scalars)
                        lines = tr_block([s], self.cx, "", vs[0], dict(self.periods))
                        self.cx.scalars = saved
                        m = re.fullmatch(rf"let {re.escape(vs[0])} := (.*)", lines[0])
                        if m and len(lines) == 2:
                            deps = {d for d in re.findall(r"[A-Za-z_][A-Za-z_0-9]*", m.group(1))
                                    if d in self.cx.scalars or d in self.cx.free}
                            self.bindings.append((vs[0], m.group(1), deps, self.cx.scalars[vs[0]]))
                            continue
                    except Gap:
                        pass
                    self.opaque.add(vs[0])
                    continue
                self.walk(branches, nested=True)
                continue
            if k in ("ForStmt", "WhileStmt", "DoStmt", "CXXForRangeStmt", "SwitchStmt", "CXXTryStmt"):
                for c in s.get("inner", []):
                    if c.get("kind") in ("CompoundStmt",):
                        self.walk([c], nested=True)
                continue
            self.sites.append((s, len(self.bindings), nested))

    # a site description: {"call": method name, "on": member object or None, "arg": index}
    #                     {"assign_member": field, "of": variable}
    #                     {"if_error": string literal in the then-branch}
    #                     {"local": variable name}   (value of a local after all its re-assignments)
    #                     {"source": optional local} (what an optional local was bound to)
    def emit(self, site: dict) -> str:
        name = site["name"]
        if "source" in site:
            if site["source"] not in self.sources:
                raise Gap(f"optional local {site['source']} not found / not translatable")
            rhs, deps = self.sources[site["source"]]
            idx = next(i for i, b in enumerate(self.bindings) if b[0] == site["source"])
            return self._render(name, E(rhs, "opt", None, deps), idx, site)
        if "local" in site:
            idxs = [i for i, b in enumerate(self.bindings) if b[0] == site["local"]]
            if not idxs or site["local"] in self.opaque:
                raise Gap(f"local {site['local']} not found / not translatable")
            kind = self.bindings[idxs[-1]][3]
            return self._render(name, E(site["local"], kind, None, {site["local"]}, True), idxs[-1] + 1, site)
        hits = []
        for stmt, nb, nested in self.sites:
            node = self._match(stmt, site)
            if node is not None:
                hits.append((node, nb, nested))
        if not hits:
            raise Gap("site not found")
        if len(hits) > 1:
            raise Gap(f"site is ambiguous ({len(hits)} matches)")
        node, nb, nested = hits[0]
        if nested and not site.get("allow_nested"):
            raise Gap("site sits under control flow")
        saved_free = dict(self.cx.free)
        e = tr_expr(node, self.cx)
        if site.get("period") is not None and e.period is not None and e.period != site["period"]:
            e = scale_to(e, site["period"])
        for d in e.deps:
            if d in self.opaque and d not in self.cx.free:
                raise Gap(f"depends on the untranslatable local {d}")
        return self._render(name, e, nb, site)

    def _match(self, stmt: dict, site: dict) -> Optional[dict]:
        if stmt.get("kind") == "IfStmt" and "if_error" not in site:
            return None             # the statements inside are visited on their own
        if "call" in site:
            for n in walk_nodes(stmt):
                if n.get("kind") in ("CXXMemberCallExpr", "CallExpr"):
                    cname, _ = callee_name(n)
                    if cname != site["call"]:
                        continue
                    if site.get("on"):
                        callee = strip(n["inner"][0])
                        obj = strip(callee["inner"][0]) if callee.get("inner") else {}
                        if obj.get("name") != site["on"]:
                            continue
                    args = n["inner"][1:]
                    if site["arg"] < len(args):
                        return args[site["arg"]]
            return None
        if "assign_member" in site:
            a = assignment(stmt) if stmt.get("kind") != "VarDecl" else None
            if a:
                lhs = strip(a[0])
                if lhs.get("kind") == "MemberExpr" and lhs.get("name") == site["assign_member"]:
                    base = strip(lhs["inner"][0])
                    if base.get("kind") == "DeclRefExpr" and base["referencedDecl"]["name"] == site["of"]:
                        return a[1]
            return None
        if "assign_local" in site:
            a = assignment(stmt) if stmt.get("kind") != "VarDecl" else None
            if a:
                lhs = strip(a[0])
                if lhs.get("kind") == "DeclRefExpr" and lhs["referencedDecl"]["name"] == site["assign_local"]:
                    return a[1]
            return None
        if "if_error" in site:
            if stmt.get("kind") == "IfStmt":
                _i, cond, then_s, _e = if_parts(stmt)
                for n in walk_nodes(then_s[0] if then_s else {}):
                    if n.get("kind") == "StringLiteral" and site["if_error"] in str(n.get("value", "")):
                        return cond
            return None
        return None

    def _render(self, name: str, e: E, nb: int, site: dict) -> str:
        needed = set(e.deps)
        chosen: list[tuple[str, str]] = []
        first_def = {}
        for i, b in enumerate(self.bindings):
            first_def.setdefault(b[0], i)
        if site.get("shallow"):
            nb = 0                  # the value as a function of the variables it mentions, nothing followed back
        for i in range(min(nb, len(self.bindings)) - 1, -1, -1):
            bname, rhs, deps, _k = self.bindings[i]
            if bname in needed:
                if bname in self.gen.derefs and self.cx.free.get(bname) == "int" and bname in self.sources:
                    continue            # `*opt`: the dereferenced value is a parameter of the slice
                chosen.append((bname, rhs))
                if first_def[bname] == i:
                    needed.discard(bname)
                needed |= {d for d in deps if d != bname or first_def[bname] != i}
        chosen.reverse()
        for d in needed:
            if d in self.opaque and d not in self.cx.free:
                raise Gap(f"depends on the untranslatable local {d}")
        # parameters: method parameters and flattened fields first (source order of first use), then Config, then clocks
        params: list[tuple[str, str]] = []
        order = list(self.cx.free.items())
        for n, k in order:
            if n in needed and k != "cfg" and n not in ("wall_now", "steady_now"):
                params.append((n, k))
        for n in sorted(needed):
            if n not in [p[0] for p in params] and n not in self.cx.free and n not in ("wall_now", "steady_now"):
                k = self.cx.scalars.get(n, "int")
                if k == "opt":
                    raise Gap(f"optional {n} used without dereference")
                params.append((n, k))
        for n, k in order:
            if n in needed and k == "cfg":
                params.append((n, k))
        for c in ("wall_now", "steady_now"):
            if c in needed:
                params.append((c, "int"))
        kind = e.kind if e.kind not in ("lit",) else "int"
        if kind == "prop":
            body_expr, ret = f"decide ({e.text})", "Bool"
        else:
            body_expr, ret = e.text, lean_type(kind)
        head = f"def {name} " + " ".join(f"({n} : {lean_type(k)})" for n, k in params) + f" : {ret} :="
        lines = [head] + [f"  let {n} := {rhs}" for n, rhs in chosen] + [f"  {body_expr}"]
        return "\n".join(lines)


def walk_nodes(n: dict):
    if not isinstance(n, dict) or not n:
        return
    yield n
    for c in n.get("inner", []) or []:
        yield from walk_nodes(c)


# --------------------------------------------------------------------------------------
# the concrete extraction for C02 / C03
# --------------------------------------------------------------------------------------

FALLBACKS = {
    "sanitize_key_rotation_interval": """
def sanitize_key_rotation_interval (interval : Int) : Int :=
  let interval := if interval ≤ 0 then kMinKeyRotationInterval else interval
  let interval := if interval < kMinKeyRotationInterval then kMinKeyRotationInterval else interval
  let interval := if interval > kMaxKeyRotationInterval then kMaxKeyRotationInterval else interval
  interval""",
    "sanitize_manifest_min": """
def sanitize_manifest_min (value : Int) : Int :=
  if value < kMinAllowedManifestTtl then
    kMinAllowedManifestTtl
  else
    if value > kMaxAllowedManifestTtl then
      kMaxAllowedManifestTtl
    else
      value""",
    "sanitize_manifest_max": """
def sanitize_manifest_max (value : Int) (min_value : Int) : Int :=
  let value := if value < min_value then min_value else value
  let value := if value < kMinAllowedManifestTtl then kMinAllowedManifestTtl else value
  let value := if value > kMaxAllowedManifestTtl then kMaxAllowedManifestTtl else value
  value""",
    "sanitize_announce_interval": """
def sanitize_announce_interval (value : Int) : Int :=
  if value ≤ 0 then
    kMinAnnounceInterval
  else
    if value < kMinAnnounceInterval then
      kMinAnnounceInterval
    else
      if value > kMaxAnnounceWindow then
        kMaxAnnounceWindow
      else
        value""",
    "sanitize_announce_window": """
def sanitize_announce_window (value : Int) : Int :=
  if value ≤ 0 then
    kMinAnnounceInterval
  else
    if value > kMaxAnnounceWindow then
      kMaxAnnounceWindow
    else
      value""",
    "clamp_chunk_ttl": """
def clamp_chunk_ttl (ttl : Int) (min_ttl : Int) (max_ttl : Int) : Int :=
  let ttl := if ttl < min_ttl then min_ttl else ttl
  let ttl := if ttl > max_ttl then max_ttl else ttl
  let ttl := if ttl ≤ 0 then kMinAllowedManifestTtl else ttl
  ttl""",
    "enforce_manifest_ttl": """
def enforce_manifest_ttl (ttl : Int) (min_ttl : Int) (max_ttl : Int) : Option Int :=
  if ttl < min_ttl then
    none
  else
    let ttl := if ttl > max_ttl then max_ttl else ttl
    if ttl ≤ 0 then
      none
    else
      some ttl""",
    "manifest_ttl": """
def manifest_ttl (manifest_expires_at : Int) (config : Cfg) (wall_now : Int) : Option Int :=
  let now := wall_now
  if manifest_expires_at ≤ now then
    none
  else
    let ttl := Int.tdiv (manifest_expires_at - now) 1000000000
    if ttl ≤ 0 then
      none
    else
      let min_ttl := config.min_manifest_ttl
      let max_ttl := config.max_manifest_ttl
      enforce_manifest_ttl ttl min_ttl max_ttl""",
    "sanitize_config": """
def sanitize_config (config : Cfg) : Cfg :=
  let config_default_chunk_ttl := config.default_chunk_ttl
  let config_min_manifest_ttl := config.min_manifest_ttl
  let config_max_manifest_ttl := config.max_manifest_ttl
  let config_key_rotation_interval := config.key_rotation_interval
  let config_announce_min_interval := config.announce_min_interval
  let config_announce_burst_limit := config.announce_burst_limit
  let config_announce_burst_window := config.announce_burst_window
  let config_announce_pow_difficulty := config.announce_pow_difficulty
  let config_handshake_pow_difficulty := config.handshake_pow_difficulty
  let config_store_pow_difficulty := config.store_pow_difficulty
  let config_key_rotation_interval := sanitize_key_rotation_interval config_key_rotation_interval
  let config_min_manifest_ttl := sanitize_manifest_min config_min_manifest_ttl
  let config_max_manifest_ttl := sanitize_manifest_max config_max_manifest_ttl config_min_manifest_ttl
  let config_default_chunk_ttl := if (config_default_chunk_ttl < config_min_manifest_ttl) then config_min_manifest_ttl else config_default_chunk_ttl
  let config_default_chunk_ttl := if (config_default_chunk_ttl > config_max_manifest_ttl) then config_max_manifest_ttl else config_default_chunk_ttl
  let config_announce_min_interval := sanitize_announce_interval config_announce_min_interval
  let config_announce_burst_limit := if (config_announce_burst_limit = 0) then 1 else config_announce_burst_limit
  let config_announce_burst_window := sanitize_announce_window config_announce_burst_window
  let config_announce_burst_window := if (config_announce_burst_window < config_announce_min_interval) then config_announce_min_interval else config_announce_burst_window
  let config_announce_pow_difficulty := if (config_announce_pow_difficulty > kMaxAnnouncePowDifficulty) then kMaxAnnouncePowDifficulty else config_announce_pow_difficulty
  let config_handshake_pow_difficulty := if (config_handshake_pow_difficulty > kMaxHandshakePowDifficulty) then kMaxHandshakePowDifficulty else config_handshake_pow_difficulty
  let config_store_pow_difficulty := if (config_store_pow_difficulty > kMaxStorePowDifficulty) then kMaxStorePowDifficulty else config_store_pow_difficulty
  { config with default_chunk_ttl := config_default_chunk_ttl, min_manifest_ttl := config_min_manifest_ttl, max_manifest_ttl := config_max_manifest_ttl, key_rotation_interval := config_key_rotation_interval, announce_min_interval := config_announce_min_interval, announce_burst_limit := config_announce_burst_limit, announce_burst_window := config_announce_burst_window, announce_pow_difficulty := config_announce_pow_difficulty, handshake_pow_difficulty := config_handshake_pow_difficulty, store_pow_difficulty := config_store_pow_difficulty }""",
}

_S = Fraction(1, 1)
FALLBACK_SIGS = {
    "sanitize_key_rotation_interval": {"cparams": [{"name": "interval", "kind": "int", "period": _S}], "clocks": [], "ret": "int", "ret_period": _S},
    "sanitize_manifest_min": {"cparams": [{"name": "value", "kind": "int", "period": _S}], "clocks": [], "ret": "int", "ret_period": _S},
    "sanitize_manifest_max": {"cparams": [{"name": "value", "kind": "int", "period": _S}, {"name": "min_value", "kind": "int", "period": _S}], "clocks": [], "ret": "int", "ret_period": _S},
    "sanitize_announce_interval": {"cparams": [{"name": "value", "kind": "int", "period": _S}], "clocks": [], "ret": "int", "ret_period": _S},
    "sanitize_announce_window": {"cparams": [{"name": "value", "kind": "int", "period": _S}], "clocks": [], "ret": "int", "ret_period": _S},
    "clamp_chunk_ttl": {"cparams": [{"name": n, "kind": "int", "period": _S} for n in ("ttl", "min_ttl", "max_ttl")], "clocks": [], "ret": "int", "ret_period": _S},
    "enforce_manifest_ttl": {"cparams": [{"name": n, "kind": "int", "period": _S} for n in ("ttl", "min_ttl", "max_ttl")], "clocks": [], "ret": "opt", "ret_period": _S},
    "manifest_ttl": {"cparams": [{"name": "manifest", "kind": "struct", "fields": [("expires_at", "int")]}, {"name": "config", "kind": "cfg"}],
                     "clocks": ["wall_now"], "ret": "opt", "ret_period": _S},
}

STORE_SITES = [
    {"name": "store_chunk_put_ttl", "call": "put", "on": "chunk_store_", "arg": 2, "params": "(ttl : Int) (config_ : Cfg)", "fallback": """
def store_chunk_put_ttl (ttl : Int) (config_ : Cfg) : Int :=
  let effective_ttl := if ttl > 0 then ttl else config_.default_chunk_ttl
  let sanitized_ttl := clamp_chunk_ttl effective_ttl config_.min_manifest_ttl config_.max_manifest_ttl
  sanitized_ttl"""},
    {"name": "store_chunk_manifest_expires", "assign_member": "expires_at", "of": "manifest", "params": "(ttl : Int) (config_ : Cfg) (wall_now : Int)", "fallback": """
def store_chunk_manifest_expires (ttl : Int) (config_ : Cfg) (wall_now : Int) : Int :=
  let effective_ttl := if ttl > 0 then ttl else config_.default_chunk_ttl
  let sanitized_ttl := clamp_chunk_ttl effective_ttl config_.min_manifest_ttl config_.max_manifest_ttl
  wall_now + sanitized_ttl * 1000000000"""},
    {"name": "store_chunk_shard_ttl", "call": "publish_shards", "on": "dht_", "arg": 4, "params": "(ttl : Int) (config_ : Cfg)", "fallback": """
def store_chunk_shard_ttl (ttl : Int) (config_ : Cfg) : Int :=
  let effective_ttl := if ttl > 0 then ttl else config_.default_chunk_ttl
  let sanitized_ttl := clamp_chunk_ttl effective_ttl config_.min_manifest_ttl config_.max_manifest_ttl
  sanitized_ttl"""},
    {"name": "store_chunk_announce_ttl", "call": "announce_chunk", "arg": 1, "params": "(ttl : Int) (config_ : Cfg)", "fallback": """
def store_chunk_announce_ttl (ttl : Int) (config_ : Cfg) : Int :=
  let effective_ttl := if ttl > 0 then ttl else config_.default_chunk_ttl
  let sanitized_ttl := clamp_chunk_ttl effective_ttl config_.min_manifest_ttl config_.max_manifest_ttl
  sanitized_ttl"""},
]

ANNOUNCE_CHUNK_SITES = [
    {"name": "announce_chunk_contact_ttl", "call": "add_contact", "on": "dht_", "arg": 2, "params": "(ttl : Int)", "fallback": """
def announce_chunk_contact_ttl (ttl : Int) : Int :=
  ttl"""},
]

PUT_SITES = [
    {"name": "chunkstore_put_ttl", "call": "compute_expiry", "arg": 0, "params": "(ttl : Int) (config_ : Cfg)", "fallback": """
def chunkstore_put_ttl (ttl : Int) (config_ : Cfg) : Int :=
  let effective_ttl := if ttl > 0 then ttl else config_.default_chunk_ttl
  let sanitized_ttl := max effective_ttl kMinimumTtl
  sanitized_ttl"""},
]

PUBLISH_SITES = [
    # `record_expires_at`: the deadline of the record already in the table for that chunk (0 = none); the code
    # as it stands builds a fresh record and ignores it, a variant that refreshes in place would depend on it
    {"name": "publish_shards_expires", "assign_member": "expires_at", "of": "record",
     "params": "(ttl : Int) (steady_now : Int) (record_expires_at : Int)", "fallback": """
def publish_shards_expires (ttl : Int) (steady_now : Int) (record_expires_at : Int) : Int :=
  steady_now + ttl * 1000000000"""},
]

ADD_CONTACT_SITES = [
    {"name": "add_contact_expires", "assign_member": "expires_at", "of": "contact", "params": "(ttl : Int) (steady_now : Int)", "fallback": """
def add_contact_expires (ttl : Int) (steady_now : Int) : Int :=
  steady_now + ttl * 1000000000"""},
]

COMPUTE_EXPIRY_FALLBACK = """
def compute_expiry (ttl : Int) (steady_now : Int) : Int :=
  steady_now + ttl * 1000000000"""

CONTROL_SITES = [
    {"name": "control_store_ttl", "assign_local": "ttl", "allow_nested": True, "shallow": True, "params": "(parsed : Nat)", "fallback": """
def control_store_ttl (parsed : Nat) : Int :=
  toInt64 parsed"""},
    {"name": "control_store_ttl_rejected", "if_error": "ERR_STORE_TTL_OUT_OF_RANGE", "shallow": True, "params": "(ttl : Int) (min_ttl : Int) (max_ttl : Int)", "fallback": """
def control_store_ttl_rejected (ttl : Int) (min_ttl : Int) (max_ttl : Int) : Bool :=
  decide ((ttl < min_ttl) ∨ (ttl > max_ttl))"""},
]

INGEST_SITES = [
    {"name": "ingest_ttl_source", "source": "ttl", "params": "(manifest_expires_at : Int) (config_ : Cfg) (wall_now : Int)", "fallback": """
def ingest_ttl_source (manifest_expires_at : Int) (config_ : Cfg) (wall_now : Int) : Option Int :=
  manifest_ttl manifest_expires_at config_ wall_now"""},
    {"name": "ingest_shard_ttl", "call": "publish_shards", "on": "dht_", "arg": 4, "params": "(ttl : Int) (config_ : Cfg)", "fallback": """
def ingest_shard_ttl (ttl : Int) (config_ : Cfg) : Int :=
  ttl"""},
]

RECEIVE_SITES = [
    {"name": "receive_ttl_source", "source": "ttl", "params": "(manifest_expires_at : Int) (config_ : Cfg) (wall_now : Int)", "fallback": """
def receive_ttl_source (manifest_expires_at : Int) (config_ : Cfg) (wall_now : Int) : Option Int :=
  manifest_ttl manifest_expires_at config_ wall_now"""},
    {"name": "receive_shard_ttl", "call": "publish_shards", "on": "dht_", "arg": 4, "params": "(ttl : Int) (config_ : Cfg)", "fallback": """
def receive_shard_ttl (ttl : Int) (config_ : Cfg) : Int :=
  ttl"""},
    {"name": "receive_announce_ttl", "call": "announce_chunk", "arg": 1, "params": "(ttl : Int) (config_ : Cfg)", "fallback": """
def receive_announce_ttl (ttl : Int) (config_ : Cfg) : Int :=
  ttl"""},
    {"name": "receive_put_ttl", "call": "put", "on": "chunk_store_", "arg": 2, "params": "(ttl : Int) (config_ : Cfg)", "fallback": """
def receive_put_ttl (ttl : Int) (config_ : Cfg) : Int :=
  ttl"""},
]

ANNOUNCE_SITES = [
    {"name": "announce_ttl_source", "source": "ttl_opt", "params": "(manifest_expires_at : Int) (config_ : Cfg) (wall_now : Int)", "fallback": """
def announce_ttl_source (manifest_expires_at : Int) (config_ : Cfg) (wall_now : Int) : Option Int :=
  manifest_ttl manifest_expires_at config_ wall_now"""},
    {"name": "announce_shard_ttl", "call": "publish_shards", "on": "dht_", "arg": 4, "allow_nested": True, "params": "(ttl_opt : Int) (config_ : Cfg)", "fallback": """
def announce_shard_ttl (ttl_opt : Int) (config_ : Cfg) : Int :=
  ttl_opt"""},
    {"name": "announce_advertised_ttl", "call": "add_contact", "on": "dht_", "arg": 2, "allow_nested": True,
     "params": "(payload_ttl : Int) (ttl_opt : Int) (config_ : Cfg)", "fallback": """
def announce_advertised_ttl (payload_ttl : Int) (ttl_opt : Int) (config_ : Cfg) : Int :=
  let advertised_ttl := if payload_ttl > 0 then payload_ttl else ttl_opt
  let advertised_ttl := if advertised_ttl > ttl_opt then ttl_opt else advertised_ttl
  let advertised_ttl := clamp_chunk_ttl advertised_ttl config_.min_manifest_ttl config_.max_manifest_ttl
  advertised_ttl"""},
]

PENDING_SITES = [
    {"name": "pending_manifest_expires", "assign_member": "manifest_expires", "of": "state",
     "params": "(manifest_expires_at : Int) (config_ : Cfg) (wall_now : Int)", "fallback": """
def pending_manifest_expires (manifest_expires_at : Int) (config_ : Cfg) (wall_now : Int) : Int :=
  min manifest_expires_at (wall_now + config_.max_manifest_ttl * 1000000000)"""},
]


def _dump(rel: str, flt: str):
    try:
        return ast_dump(rel, flt)
    except Exception as ex:
        return ex if isinstance(ex, Gap) else Gap(f"{type(ex).__name__}: {ex}")


def prefetch(jobs: list[tuple[str, str]], workers: int = 4) -> dict:
    import concurrent.futures as cf
    with cf.ThreadPoolExecutor(max_workers=workers) as ex:
        res = list(ex.map(lambda j: _dump(*j), jobs))
    return dict(zip(jobs, res))


NODE = "src/core/Node.cpp"
JOBS = [(NODE, "sanitize_"), (NODE, "_ttl"), (NODE, "store_chunk"), (NODE, "announce_chunk"), (NODE, "handle_announce"),
        (NODE, "ingest_manifest"), (NODE, "receive_chunk"), (NODE, "schedule_assigned_fetch"),
        ("src/core/ChunkStore.cpp", "ChunkStore::"), ("src/dht/KademliaTable.cpp", "KademliaTable::"),
        ("src/daemon/ControlServer.cpp", "handle_store")]


def generate() -> Generator:
    g = Generator()
    g.load_consts()
    g.check_cfg_fields()
    workers = max(1, min(4, int(os.environ.get("VERIF_JOBS", "4"))))
    d = prefetch(JOBS, workers)
    san, ttl = d[(NODE, "sanitize_")], d[(NODE, "_ttl")]
    for fn in ("sanitize_key_rotation_interval", "sanitize_manifest_min", "sanitize_manifest_max",
               "sanitize_announce_interval", "sanitize_announce_window"):
        g.function(san, fn, FALLBACKS[fn])
    for fn in ("clamp_chunk_ttl", "enforce_manifest_ttl", "manifest_ttl"):
        g.function(ttl, fn, FALLBACKS[fn])
    g.function(san, "sanitize_config", FALLBACKS["sanitize_config"])
    g.slices(d[(NODE, "store_chunk")], "store_chunk", STORE_SITES)
    g.slices(d[(NODE, "announce_chunk")], "announce_chunk", ANNOUNCE_CHUNK_SITES)
    g.function(d[("src/core/ChunkStore.cpp", "ChunkStore::")], "compute_expiry", COMPUTE_EXPIRY_FALLBACK)
    g.slices(d[("src/core/ChunkStore.cpp", "ChunkStore::")], "put", PUT_SITES)
    g.slices(d[("src/dht/KademliaTable.cpp", "KademliaTable::")], "publish_shards", PUBLISH_SITES)
    g.slices(d[("src/dht/KademliaTable.cpp", "KademliaTable::")], "add_contact", ADD_CONTACT_SITES)
    g.slices(d[("src/daemon/ControlServer.cpp", "handle_store")], "handle_store", CONTROL_SITES)
    g.slices(d[(NODE, "ingest_manifest")], "ingest_manifest", INGEST_SITES)
    g.slices(d[(NODE, "receive_chunk")], "receive_chunk", RECEIVE_SITES)
    g.slices(d[(NODE, "handle_announce")], "handle_announce", ANNOUNCE_SITES)
    g.slices(d[(NODE, "schedule_assigned_fetch")], "schedule_assigned_fetch", PENDING_SITES)
    return g


def write_generated_c02() -> list[str]:
    """Regenerate lean/EphVerif/Generated/C02.lean (only rewritten when the content changes); returns the gaps."""
    from tools.vlib import write_generated
    g = generate()
    write_generated("C02", "set_option linter.unusedVariables false\n\n" + g.render())
    return g.gaps


if __name__ == "__main__":
    gen = generate()
    print(gen.render())
    print("\n-- gaps:", file=sys.stderr)
    for x in gen.gaps:
        print("--   " + x, file=sys.stderr)
