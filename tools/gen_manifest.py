#!/usr/bin/env python3
"""Regenerate MANIFEST.json from the per-property plugins (props/Cxx.py: READY + MANIFEST dict)
and known_findings.json from known_findings.d/*.json.  Idempotent."""
import importlib
import json
import sys
from pathlib import Path

HERE = Path(__file__).resolve().parent.parent
sys.path.insert(0, str(HERE))
sys.path.insert(0, str(HERE / "tools"))


def main() -> int:
    props = [json.loads(l) for l in (HERE / "properties.jsonl").read_text().splitlines() if l.strip()]
    checks, na = [], []
    for p in props:
        pid = p["id"]
        f = HERE / "props" / f"{pid}.py"
        mod = None
        if f.exists():
            try:
                mod = importlib.import_module(f"props.{pid}")
            except Exception as ex:  # a plugin under construction must not break the manifest
                print(f"warning: props/{pid}.py does not import: {ex}", file=sys.stderr)
        if mod is not None and getattr(mod, "READY", False):
            m = mod.MANIFEST
            checks.append({
                "property_id": pid,
                "quick_cmd": f"./check.py {pid} --tier quick",
                "thorough_cmd": f"./check.py {pid} --tier thorough",
                "evidence_file": f"evidence/{pid}.json",
                "replay_cmd_template": f"./check.py {pid} --replay {{path}}",
                "engine": "lean4-proof+correspondence",
                "level_claimed": {"category": m.get("category", "proof"), "text": m["level_text"],
                                  "design_ref": m.get("design_ref", f"DESIGN.md section 5, {pid}")},
                "level_note": m["level_note"],
                "technique": m.get("technique", "Lean 4 theorem about a model of the code + differential correspondence check"),
            })
        else:
            reason = getattr(mod, "NOT_APPLICABLE", None) if mod is not None else None
            na.append({"property_id": pid, "reason": reason or
                       "check not built yet in this round (the design in DESIGN.md section 5 applies; not claimed until its proof and correspondence run are in place)"})
    manifest = {
        "version": 1,
        "setup_cmd": "./check.py --setup",
        "hooks": {"guard": "EPHEMERALNET_VERIF", "enable": "no source hooks: harnesses compile the unmodified sources with -fno-access-control, link-time clock interposition and .cpp inclusion (DESIGN.md section 1); -DEPHEMERALNET_VERIF=1 is passed but nothing in /repo tests it",
                  "baseline_off_cmd": "./tools/run_repo_tests.sh", "source_commits": [], "add_only": True},
        "engines": [{"name": "lean4-proof+correspondence", "path": "check.py",
                     "serves_properties": [c["property_id"] for c in checks],
                     "kind_free_text": "Lean 4.33 theorems over executable models (lean/EphVerif), tied to /repo by (T) regenerated constants/functions and (H) a differential harness-vs-driver run with a Lean monitor"}],
        "checks": checks,
        "not_applicable": na,
        "notes": "See DESIGN.md. Known findings: known_findings.json. Seeded mutants: seeded/.",
    }
    (HERE / "MANIFEST.json").write_text(json.dumps(manifest, indent=1) + "\n")
    # known findings aggregate
    d = HERE / "known_findings.d"
    findings = []
    if d.is_dir():
        for f in sorted(d.glob("*.json")):
            findings += json.loads(f.read_text())
    (HERE / "known_findings.json").write_text(json.dumps({"findings": findings}, indent=1) + "\n")
    print(f"MANIFEST.json: {len(checks)} checks, {len(na)} not claimed; known_findings.json: {len(findings)} entries")
    return 0


if __name__ == "__main__":
    sys.exit(main())
