#!/usr/bin/env python3
"""MANIFEST.setup_cmd: build everything the registered checks need, offline, from files on disk.
(extractor -> Generated/*.lean, `lake build` of all proof modules and drivers, harness binaries)."""
import concurrent.futures as cf
import importlib
import sys
from pathlib import Path

HERE = Path(__file__).resolve().parent
sys.path.insert(0, str(HERE))
sys.path.insert(0, str(HERE / "tools"))


def ready_props():
    out = []
    for p in sorted((HERE / "props").glob("C[0-9][0-9].py")):
        mod = importlib.import_module(f"props.{p.stem}")
        if getattr(mod, "READY", False):
            out.append(mod)
    return out


def main() -> int:
    from tools import vlib
    mods = ready_props()
    targets = []
    harness_jobs = []
    rc = 0
    for m in mods:
        try:
            if hasattr(m, "spec"):
                s = m.spec()
                if s.extract:
                    gaps = s.extract()
                    if gaps:
                        print(f"[setup] {s.pid}: translator gaps: {gaps}")
                targets += s.proof_modules + list(getattr(s, 'soft_proof_modules', [])) + [s.driver]
                harness_jobs.append((s.pid, s.harness))
            if hasattr(m, "setup_targets"):
                targets += m.setup_targets()
            if hasattr(m, "setup_harnesses"):
                for h in m.setup_harnesses():
                    harness_jobs.append((m.PID, h))
        except Exception as ex:
            print(f"[setup] WARNING {m.__name__}: {ex} (its check will report it)")
    targets = list(dict.fromkeys(targets))
    print(f"[setup] lake build of {len(targets)} targets")
    ok, out = vlib.lake_build(targets)
    print(out[-3000:])
    if not ok:
        # A proof module that does not build is that property's business: its check reports the broken
        # obligation. Setup only has to get everything else built, so build target by target now.
        print("[setup] bulk build reported failures; building target by target", flush=True)
        for t in targets:
            ok1, out1 = vlib.lake_build([t])
            if not ok1:
                print(f"[setup] WARNING: {t} does not build (its check will report it): {out1[-400:]}", flush=True)

    def build(job):
        pid, fn = job
        try:
            return pid, str(fn())
        except vlib.BuildError as ex:
            return pid, f"FAILED {ex.what}: {ex.output[-800:]}"

    # sequential: each build is parallel inside, and several properties share one harness binary
    for job in harness_jobs:
        try:
            pid, res = build(job)
        except Exception as ex:  # a plugin's own build code failed
            pid, res = job[0], f"FAILED {type(ex).__name__}: {ex}"
        print(f"[setup] harness for {pid}: {res}", flush=True)
        if res.startswith("FAILED"):
            print(f"[setup] WARNING: harness for {pid} does not build (its check will report it)", flush=True)
    return rc


if __name__ == "__main__":
    sys.exit(main())
