// Second translation unit of the C12 harness (only with VERIF_INTERNALS=1): the CLI's own derivation of a node's public
// identity from its identity seed (anonymous-namespace derive_public_identity_from_seed of src/main.cpp, used for
// bootstrap entries), reached by including main.cpp with its `main` renamed.
#define main eph_cli_main_kex
#include "src/main.cpp"
#undef main

namespace kexcli {
std::uint32_t public_from_seed(std::uint32_t seed) { return derive_public_identity_from_seed(seed); }
}  // namespace kexcli
