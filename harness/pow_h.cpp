// Harness for C19 (proof-of-work acceptance): the real digest encoders, leading-zero counters,
// validators and solvers of Node.cpp, StoreProof.cpp, TokenChallenge.cpp and (second TU) main.cpp.
//
// SHA-256 tap: the executable is linked with --wrap for Sha256::update / finalize / digest, so
// every byte the code feeds to the hash is recorded: ops report the *preimage bytes* and the digest.
//
// Ops (one output line each; ids are 64 hex chars, byte strings hex or "-"):
//   lz <digest> <d>                                   -> node=<n|-> store=<n> cli=<n> meets=<0|1>
//   ann <chunk> <peer> <ep> <uri> <shards> <ttl> <nonce> <d>   -> pre=<hex> dg=<hex> valid=<0|1>
//   annnode <cfg> <ver> <chunk> <peer> <ep> <uri> <shards> <ttl> <nonce> -> valid=<0|1>   (Node::verify_announce_pow)
//   annsolve <chunk> <peer> <ep> <uri> <shards> <ttl> <d>      -> nonce=<n> | none
//   annsolvenode <cfg> <chunk> <peer> <ep> <uri> <shards> <ttl> -> nonce=<n> | none        (Node::apply_announce_pow)
//   hs <init> <resp> <pub> <nonce> <d>                -> pre= dg= valid=      (Node.cpp)
//   hscli <init> <resp> <pub> <nonce> <d>             -> pre= dg= valid=      (main.cpp)
//   hsnode <cfg> <init> <resp> <pub> <nonce>          -> valid=<0|1>          (Node::perform_handshake on a fresh node `resp`)
//   hssolve / hsclisolve <init> <resp> <pub> <d>      -> nonce=<n> | none
//   store <chunk> <size> <hint> <nonce> <d>           -> pre= dg= valid=
//   storesolve <chunk> <size> <hint> <d> <max>        -> nonce=<n> | none
//   tok <chunk> <hash> <ep> <k> <d>                   -> pre= dg= valid=      (attempt k of solve_token_challenge; valid = digest_meets_difficulty)
//   toksolve <chunk> <hash> <ep> <d> <max>            -> nonce=<n> | none
//   hint <path>                                       -> some:<hex> | none
//   storecli <cfg> <name> <content>                   -> rc=<n> err=<code|->   (real CLI `store` against a real in-process daemon)
//
// VERIF_INTERNALS (default 1): ops that call anonymous-namespace functions of the included .cpp files BY NAME
// (announce_pow_digest/valid, compute_announce_pow, handshake_pow_digest/valid, compute_handshake_pow, the three
// count_leading_zero_bits, StoreProof's pow_digest, main.cpp's transport_* helpers).  With -DVERIF_INTERNALS=0 the
// harness uses the public API only (Node::verify_announce_pow / apply_announce_pow / perform_handshake /
// generate_handshake_work, security::store_pow_valid / compute_store_pow / sanitize_filename_hint,
// bootstrap::digest_meets_difficulty / solve_token_challenge, the CLI's main): internal-only ops answer `skip`,
// unobservable fields are printed as `?` (the store preimage stays observable through the SHA-256 tap).
#ifndef VERIF_INTERNALS
#define VERIF_INTERNALS 1
#endif
#include "src/core/Node.cpp"
#include "src/security/StoreProof.cpp"

#include "common/lineproto.hpp"
#include "pow_cli_h.hpp"

#include "ephemeralnet/bootstrap/TokenChallenge.hpp"
#include "ephemeralnet/daemon/ControlPlane.hpp"

#include <fstream>
#include <map>
#include <regex>
#include <unistd.h>

using namespace ephemeralnet;

// ---------------------------------------------------------------------------------------------
// SHA-256 tap
// ---------------------------------------------------------------------------------------------
namespace tap {
thread_local std::map<const void*, std::vector<std::uint8_t>> open_hashers;
thread_local std::vector<std::uint8_t> last_preimage;
thread_local std::array<std::uint8_t, 32> last_digest{};
thread_local std::uint64_t finished = 0;
}  // namespace tap

using ShaT = crypto::Sha256;
using ByteSpan = std::span<const std::uint8_t>;
using Digest = std::array<std::uint8_t, 32>;

void real_update(ShaT*, ByteSpan) asm("__real__ZN12ephemeralnet6crypto6Sha2566updateESt4spanIKhLm18446744073709551615EE");
Digest real_finalize(ShaT*) asm("__real__ZN12ephemeralnet6crypto6Sha2568finalizeEv");
Digest real_digest(ByteSpan) asm("__real__ZN12ephemeralnet6crypto6Sha2566digestESt4spanIKhLm18446744073709551615EE");
void wrap_update(ShaT*, ByteSpan) asm("__wrap__ZN12ephemeralnet6crypto6Sha2566updateESt4spanIKhLm18446744073709551615EE");
Digest wrap_finalize(ShaT*) asm("__wrap__ZN12ephemeralnet6crypto6Sha2568finalizeEv");
Digest wrap_digest(ByteSpan) asm("__wrap__ZN12ephemeralnet6crypto6Sha2566digestESt4spanIKhLm18446744073709551615EE");

void wrap_update(ShaT* self, ByteSpan data) {
    auto& rec = tap::open_hashers[self];
    rec.insert(rec.end(), data.begin(), data.end());
    real_update(self, data);
}
Digest wrap_finalize(ShaT* self) {
    auto it = tap::open_hashers.find(self);
    if (it != tap::open_hashers.end()) {
        tap::last_preimage = std::move(it->second);
        tap::open_hashers.erase(it);
    } else {
        tap::last_preimage.clear();
    }
    tap::last_digest = real_finalize(self);
    ++tap::finished;
    return tap::last_digest;
}
Digest wrap_digest(ByteSpan data) {
    tap::last_preimage.assign(data.begin(), data.end());
    tap::last_digest = real_digest(data);
    ++tap::finished;
    return tap::last_digest;
}

namespace {

std::string hexd(const std::vector<std::uint8_t>& v) { return verif::hex_or_dash(verif::to_hex(v)); }
std::string str_of(const std::string& hex) {
    auto b = verif::from_hex(hex);
    return std::string(b.begin(), b.end());
}
std::array<std::uint8_t, 32> id_of(const std::string& tok) { return verif::id32(tok); }

std::string pre_dg_valid(bool valid) {
    return "pre=" + hexd(tap::last_preimage) + " dg=" + verif::to_hex(tap::last_digest) + " valid=" + (valid ? "1" : "0");
}
std::string nonce_out(const std::optional<std::uint64_t>& n) { return n ? "nonce=" + std::to_string(*n) : std::string("none"); }

protocol::AnnouncePayload announce_of(const std::vector<std::string>& t, std::size_t i) {
    protocol::AnnouncePayload p{};
    p.chunk_id = id_of(t[i]);
    p.peer_id = id_of(t[i + 1]);
    p.endpoint = str_of(t[i + 2]);
    p.manifest_uri = str_of(t[i + 3]);
    p.assigned_shards = verif::from_hex(t[i + 4]);
    p.ttl = std::chrono::seconds(std::stoll(t[i + 5]));
    return p;
}

Config quiet_config() {
    Config c{};
    c.identity_seed = 7u;
    c.nat_stun_enabled = false;
    c.relay_enabled = false;
    c.advertise_auto_mode = Config::AdvertiseAutoMode::Off;
    return c;
}

PeerId harness_id(std::uint8_t first) {
    PeerId id{};
    id[0] = first;
    id[31] = 1;
    return id;
}

// ---- in-process daemon for storecli ------------------------------------------------------------
struct Daemon {
    std::unique_ptr<Node> node;
    std::mutex node_mutex;
    std::uint16_t port{0};
};
std::map<int, std::unique_ptr<Daemon>> daemons;
std::string tmp_root;

Daemon& daemon_for(int cfg) {
    auto it = daemons.find(cfg);
    if (it != daemons.end()) return *it->second;
    auto d = std::make_unique<Daemon>();
    Config c = quiet_config();
    c.store_pow_difficulty = static_cast<std::uint8_t>(cfg);
    c.storage_persistent_enabled = false;
    d->node = std::make_unique<Node>(harness_id(0xD0), c);
    return *(daemons[cfg] = std::move(d));
}

std::string first_code(const std::string& text) {
    static const std::regex re("\\b(ERR_[A-Z_]+|E_[A-Z_]+)\\b");
    std::smatch m;
    if (std::regex_search(text, m, re)) return m[1];
    return "-";
}

std::string storecli(int cfg, const std::string& name, const std::vector<std::uint8_t>& content) {
    if (tmp_root.empty()) {
        char templ[] = "/tmp/verif-c19-XXXXXX";
        tmp_root = mkdtemp(templ);
    }
    if (name.empty() || name.find('/') != std::string::npos || name.find('\0') != std::string::npos || name == "." || name == "..") {
        return "bad-op";
    }
    const std::string path = tmp_root + "/" + name;
    {
        std::ofstream f(path, std::ios::binary | std::ios::trunc);
        f.write(reinterpret_cast<const char*>(content.data()), static_cast<std::streamsize>(content.size()));
        if (!f) return "bad-op";
    }
    Daemon& d = daemon_for(cfg);
    // a fresh control server per op: its STORE rate limiter (6 per 30 s) lives in the server object
    daemon::ControlServer server(*d.node, d.node_mutex, [] {});
    std::uint16_t port = 0;
    for (int attempt = 0; attempt < 50; ++attempt) {
        port = static_cast<std::uint16_t>(20000 + (static_cast<unsigned>(getpid()) * 131u + static_cast<unsigned>(attempt) * 977u + static_cast<unsigned>(cfg)) % 30000u);
        try {
            server.start("127.0.0.1", port);
            if (server.running()) break;
        } catch (const std::exception&) {
        }
        port = 0;
    }
    if (port == 0) return "no-port";
    std::string out, err;
    const int rc = powcli::run({"eph", "--control-host", "127.0.0.1", "--control-port", std::to_string(port), "store", path}, out, err);
    server.stop();
    ::unlink(path.c_str());
    (void)out;
    return "rc=" + std::to_string(rc) + " err=" + first_code(err + out);
}

}  // namespace

int main(int argc, char** argv) {
    verif::Handler h;
    h.reset = [] {};
    h.op = [](const std::vector<std::string>& t, const std::string&) -> std::string {
        const auto& op = t[0];
        if (op == "lz" && t.size() == 3) {
            const auto dg = verif::from_hex(t[1]);
            const auto d = static_cast<std::uint8_t>(std::stoul(t[2]));
            const ByteSpan span(dg.data(), dg.size());
#if VERIF_INTERNALS
            std::string node = "-";
            if (dg.size() == 32) {
                std::array<std::uint8_t, 32> a{};
                std::copy(dg.begin(), dg.end(), a.begin());
                node = std::to_string(ephemeralnet::count_leading_zero_bits(a));
            }
            const std::string counters = "node=" + node + " store=" + std::to_string(security::count_leading_zero_bits(span)) +
                                         " cli=" + std::to_string(powcli::clz(span));
#else
            const std::string counters = "node=? store=? cli=?";
#endif
            return counters + " meets=" + (bootstrap::digest_meets_difficulty(span, d) ? "1" : "0");
        }
        if (op == "ann" && t.size() == 9) {
#if !VERIF_INTERNALS
            return "skip";
#else
            auto p = announce_of(t, 1);
            p.work_nonce = std::stoull(t[7]);
            const auto d = static_cast<std::uint8_t>(std::stoul(t[8]));
            (void)announce_pow_digest(p);
            const auto pre = tap::last_preimage;
            const auto dg = tap::last_digest;
            const bool v = announce_pow_valid(p, d);
            tap::last_preimage = pre;
            tap::last_digest = dg;
            return pre_dg_valid(v);
#endif
        }
        if (op == "annnode" && t.size() == 10) {
            Config c = quiet_config();
            c.announce_pow_difficulty = static_cast<std::uint8_t>(std::stoul(t[1]));
            Node node(harness_id(0xA0), c);
            auto p = announce_of(t, 3);
            p.work_nonce = std::stoull(t[9]);
            return std::string("valid=") + (node.verify_announce_pow(p, static_cast<std::uint8_t>(std::stoul(t[2]))) ? "1" : "0");
        }
        if (op == "annsolve" && t.size() == 8) {
#if !VERIF_INTERNALS
            return "skip";
#else
            auto p = announce_of(t, 1);
            p.work_nonce = 0xDEADBEEF;  // must be ignored by the solver's seed
            const bool ok = compute_announce_pow(p, static_cast<std::uint8_t>(std::stoul(t[7])));
            return ok ? "nonce=" + std::to_string(p.work_nonce) : std::string("none");
#endif
        }
        if (op == "annsolvenode" && t.size() == 8) {
            Config c = quiet_config();
            c.announce_pow_difficulty = static_cast<std::uint8_t>(std::stoul(t[1]));
            Node node(harness_id(0xA0), c);
            auto p = announce_of(t, 2);
            const bool ok = node.apply_announce_pow(p);
            return ok ? "nonce=" + std::to_string(p.work_nonce) : std::string("none");
        }
        if ((op == "hs" || op == "hscli") && t.size() == 6) {
#if !VERIF_INTERNALS
            return "skip";
#else
            const auto a = id_of(t[1]);
            const auto b = id_of(t[2]);
            const auto pub = static_cast<std::uint32_t>(std::stoul(t[3]));
            const auto nonce = std::stoull(t[4]);
            const auto d = static_cast<std::uint8_t>(std::stoul(t[5]));
            if (op == "hs") (void)handshake_pow_digest(a, b, pub, nonce); else (void)powcli::digest(a, b, pub, nonce);
            const auto pre = tap::last_preimage;
            const auto dg = tap::last_digest;
            const bool v = op == "hs" ? handshake_pow_valid(a, b, pub, nonce, d) : powcli::valid(a, b, pub, nonce, d);
            tap::last_preimage = pre;
            tap::last_digest = dg;
            return pre_dg_valid(v);
#endif
        }
        if (op == "hsnode" && t.size() == 6) {
            Config c = quiet_config();
            c.handshake_pow_difficulty = static_cast<std::uint8_t>(std::stoul(t[1]));
            Node node(id_of(t[3]), c);
            const bool ok = node.perform_handshake(id_of(t[2]), static_cast<std::uint32_t>(std::stoul(t[4])), std::stoull(t[5]));
            return std::string("valid=") + (ok ? "1" : "0");
        }
        if ((op == "hssolve" || op == "hsclisolve") && t.size() == 5) {
            const auto a = id_of(t[1]);
            const auto b = id_of(t[2]);
            const auto pub = static_cast<std::uint32_t>(std::stoul(t[3]));
            const auto d = static_cast<std::uint8_t>(std::stoul(t[4]));
#if VERIF_INTERNALS
            if (op == "hsclisolve") return nonce_out(powcli::solve(a, b, pub, d));
            std::uint64_t n = 0;
            return compute_handshake_pow(a, b, pub, d, n) ? "nonce=" + std::to_string(n) : std::string("none");
#else
            // public route: a node `a` configured with d bits whose public identity is `pub` solves work for `b`
            if (op == "hsclisolve" || d > 24) return "skip";
            Config c = quiet_config();
            c.handshake_pow_difficulty = d;
            Node node(a, c);
            node.identity_public_ = pub;
            return nonce_out(node.generate_handshake_work(b));
#endif
        }
        if (op == "store" && t.size() == 6) {
            const std::string hint = str_of(t[3]);
            security::StoreWorkInput in{id_of(t[1]), std::stoull(t[2]), hint};
            const auto nonce = std::stoull(t[4]);
#if VERIF_INTERNALS
            (void)security::pow_digest(in, nonce);
            const auto pre = tap::last_preimage;
            const auto dg = tap::last_digest;
            const bool v = security::store_pow_valid(in, nonce, static_cast<std::uint8_t>(std::stoul(t[5])));
            tap::last_preimage = pre;
            tap::last_digest = dg;
            return pre_dg_valid(v);
#else
            // the validator hashes the preimage itself (unless the difficulty is 0): the tap still sees it
            const auto before = tap::finished;
            const bool v = security::store_pow_valid(in, nonce, static_cast<std::uint8_t>(std::stoul(t[5])));
            if (tap::finished == before + 1) return pre_dg_valid(v);
            return std::string("pre=? dg=? valid=") + (v ? "1" : "0");
#endif
        }
        if (op == "storesolve" && t.size() == 6) {
            const std::string hint = str_of(t[3]);
            security::StoreWorkInput in{id_of(t[1]), std::stoull(t[2]), hint};
            return nonce_out(security::compute_store_pow(in, static_cast<std::uint8_t>(std::stoul(t[4])), std::stoull(t[5])));
        }
        if ((op == "tok" || op == "toksolve") && t.size() == 6) {
            protocol::Manifest m{};
            m.chunk_id = id_of(t[1]);
            m.chunk_hash = id_of(t[2]);
            protocol::DiscoveryHint hint{};
            hint.endpoint = str_of(t[3]);
            if (op == "toksolve") {
                return nonce_out(bootstrap::solve_token_challenge(m, hint, static_cast<std::uint8_t>(std::stoul(t[4])), std::stoull(t[5])));
            }
            const auto k = std::stoull(t[4]);
            const auto d = static_cast<std::uint8_t>(std::stoul(t[5]));
            if (hint.endpoint.empty() || k > 5000) return "bad-op";
            tap::last_preimage.clear();
            // difficulty 255 is (practically) never met: the solver walks attempts 0..k and the tap keeps the last one
            (void)bootstrap::solve_token_challenge(m, hint, 255, k + 1);
            return pre_dg_valid(bootstrap::digest_meets_difficulty(ByteSpan(tap::last_digest.data(), tap::last_digest.size()), d));
        }
        if (op == "hint" && t.size() == 2) {
            const auto r = security::sanitize_filename_hint(str_of(t[1]));
            return r ? "some:" + verif::hex_or_dash(verif::to_hex(*r)) : std::string("none");
        }
        if (op == "storecli" && t.size() == 4) {
            return storecli(std::stoi(t[1]), str_of(t[2]), verif::from_hex(t[3]));
        }
        return "bad-op";
    };
    const int rc = verif::run_lines(argc, argv, h);
    daemons.clear();
    if (!tmp_root.empty()) ::rmdir(tmp_root.c_str());
    return rc;
}
