// Harness for auto-advertise (C34): the real classification functions of AdvertiseDiscovery.cpp (anonymous
// namespace, reached by including the .cpp), the real build_transport_advertise_candidates, and a real Node
// whose STUN query is replaced through NatTraversalManager::TestHooks::stun_override (as tests/nat_node.cpp does).
//
// Host tokens: "-" is the empty string, "t:<text>" literal text (no spaces), "4:<8 hex>" / "6:<32 hex>" a numeric
// address that the harness turns into text with inet_ntop (what a STUN result always is).
// Ops (one output line each):
//   cls <host>            -> 1|0                      is_private_or_reserved_host(host)
//   p4 <text>             -> a.b.c.d as 8 hex | none  parse_ipv4(text)
//   c4 <8 hex>            -> <inet_ntop text> <1|0>   text form of the numeric IPv4 address, and its classification
//   c6 <32 hex>           -> <inet_ntop text> <1|0>   same for IPv6
//   bt <priv 0|1> <stun_ok 0|1> <ext_addr> <ext_port> <control_host> <tport>
//                         -> echo=<addr> cand=<via|host|port,...> conflict=<0|1>
//                            build_transport_advertise_candidates on a hand-made NatTraversalResult
//   node <mode on|warn|off> <priv 0|1> <stun host-token|fail|off> <control_host> <adv_host> <adv_port> <endpoint list h|p|m;...>
//                         -> tp=<transport port> echo=<addr> cand=<...> conflict=<0|1>
//                            adv=<m|host|port|source,...> hints=<scheme|host|port,...>
//      a real Node: start_transport(0), read Config::auto_advertise_candidates / advertised_endpoints,
//      store_chunk, read Manifest::discovery_hints (wire order)
#include "common/lineproto.hpp"

#include "src/network/AdvertiseDiscovery.cpp"

#include "ephemeralnet/core/Node.hpp"

#include <arpa/inet.h>
#include <chrono>
#include <memory>

namespace en = ephemeralnet;
namespace net = ephemeralnet::network;

namespace {

std::string tok(const std::string& t) {
    if (t == "-") return {};
    if (t.rfind("t:", 0) == 0) return t.substr(2);
    if (t.rfind("4:", 0) == 0 || t.rfind("6:", 0) == 0) {
        const bool v4 = t[0] == '4';
        const auto b = verif::from_hex(t.substr(2));
        if (b.size() != (v4 ? 4u : 16u)) throw std::invalid_argument("bad numeric host token");
        char buf[INET6_ADDRSTRLEN]{};
        if (!inet_ntop(v4 ? AF_INET : AF_INET6, b.data(), buf, sizeof(buf))) throw std::invalid_argument("inet_ntop failed");
        return buf;
    }
    throw std::invalid_argument("bad host token");
}
std::string untok(const std::string& s) { return s.empty() ? std::string{"-"} : s; }

constexpr std::uint32_t kSeed = 0x00C0FFEEu;

std::string fmt_candidates(const std::vector<en::Config::AdvertiseCandidate>& cs) {
    if (cs.empty()) return "-";
    std::string out;
    for (std::size_t i = 0; i < cs.size(); ++i) {
        if (i) out += ",";
        out += cs[i].via + "|" + untok(cs[i].host) + "|" + std::to_string(cs[i].port);
    }
    return out;
}

std::string echo_address() {
    en::Config c{};
    c.identity_seed = kSeed;
    return net::fallback_echo_address(c);
}

en::PeerId make_id(std::uint8_t seed) {
    en::PeerId id{};
    for (auto& b : id) b = seed++;
    return id;
}

std::string split_endpoint(const std::string& ep) {
    const auto pos = ep.find_last_of(':');
    if (pos == std::string::npos) return untok(ep) + "|?";
    return untok(ep.substr(0, pos)) + "|" + ep.substr(pos + 1);
}

}  // namespace

int main(int argc, char** argv) {
    verif::Handler h;
    h.reset = [] {};
    h.op = [](const std::vector<std::string>& t, const std::string&) -> std::string {
        if (t[0] == "cls" && t.size() == 2) {
            return net::is_private_or_reserved_host(tok(t[1])) ? "1" : "0";
        }
        if (t[0] == "p4" && t.size() == 2) {
            std::array<std::uint8_t, 4> o{};
            if (!net::parse_ipv4(tok(t[1]), o)) return "none";
            return verif::to_hex(o.data(), 4);
        }
        if (t[0] == "c4" && t.size() == 2) {
            const auto b = verif::from_hex(t[1]);
            if (b.size() != 4) return "bad-op";
            char buf[INET_ADDRSTRLEN]{};
            if (!inet_ntop(AF_INET, b.data(), buf, sizeof(buf))) return "ntop-failed";
            return std::string(buf) + " " + (net::is_private_or_reserved_host(buf) ? "1" : "0");
        }
        if (t[0] == "c6" && t.size() == 2) {
            const auto b = verif::from_hex(t[1]);
            if (b.size() != 16) return "bad-op";
            char buf[INET6_ADDRSTRLEN]{};
            if (!inet_ntop(AF_INET6, b.data(), buf, sizeof(buf))) return "ntop-failed";
            return std::string(buf) + " " + (net::is_private_or_reserved_host(buf) ? "1" : "0");
        }
        if (t[0] == "bt" && t.size() == 7) {
            en::Config c{};
            c.identity_seed = kSeed;
            c.advertise_allow_private = t[1] == "1";
            c.control_host = tok(t[5]);
            net::NatTraversalResult nat{};
            nat.stun_succeeded = t[2] == "1";
            nat.external_address = tok(t[3]);
            nat.external_port = static_cast<std::uint16_t>(std::stoul(t[4]));
            const auto r = net::build_transport_advertise_candidates(c, static_cast<std::uint16_t>(std::stoul(t[6])), nat);
            return "echo=" + echo_address() + " cand=" + fmt_candidates(r.candidates) + " conflict=" + (r.conflict ? "1" : "0");
        }
        if (t[0] == "node" && t.size() == 8) {
            en::Config c{};
            c.identity_seed = kSeed;
            c.storage_persistent_enabled = false;
            c.relay_enabled = false;
            c.advertise_auto_mode = t[1] == "on" ? en::Config::AdvertiseAutoMode::On
                                  : t[1] == "warn" ? en::Config::AdvertiseAutoMode::Warn
                                                   : en::Config::AdvertiseAutoMode::Off;
            c.advertise_allow_private = t[2] == "1";
            const bool stun_none = t[3] == "fail" || t[3] == "off";
            const std::string stun = stun_none ? std::string{} : tok(t[3]);
            c.nat_stun_enabled = t[3] != "off";
            c.control_host = tok(t[4]);
            if (t[5] != "-") c.advertise_control_host = tok(t[5]);
            if (t[6] != "-") c.advertise_control_port = static_cast<std::uint16_t>(std::stoul(t[6]));
            if (t[7] != "-") {
                for (const auto& item : verif::split(t[7], ';')) {
                    const auto f = verif::split(item, '|');
                    if (f.size() != 3) return "bad-op";
                    en::Config::AdvertisedEndpoint e{};
                    e.host = tok(f[0]);
                    e.port = static_cast<std::uint16_t>(std::stoul(f[1]));
                    e.manual = f[2] == "1";
                    e.source = e.manual ? "manual" : "stale";
                    c.advertised_endpoints.push_back(e);
                }
            }
            net::NatTraversalManager::TestHooks hooks{};
            hooks.stun_override = [stun, stun_none]() -> std::optional<net::NatTraversalManager::StunQueryResult> {
                if (stun_none) return std::nullopt;
                net::NatTraversalManager::StunQueryResult r{};
                r.address = stun;
                r.reported_port = 47001;
                r.server = "verif-stun";
                return r;
            };
            net::NatTraversalManager::set_test_hooks(&hooks);
            std::string out;
            {
                en::Node node(make_id(0x42), c);
                node.start_transport(0);
                const auto tp = node.transport_port();
                out = "tp=" + std::to_string(tp) + " echo=" + echo_address();
                out += " cand=" + fmt_candidates(node.config_.auto_advertise_candidates);
                out += std::string(" conflict=") + (node.config_.auto_advertise_conflict ? "1" : "0");
                std::string adv;
                for (const auto& e : node.config_.advertised_endpoints) {
                    if (!adv.empty()) adv += ",";
                    adv += std::string(e.manual ? "1" : "0") + "|" + untok(e.host) + "|" + std::to_string(e.port) + "|" + untok(e.source);
                }
                out += " adv=" + untok(adv);
                en::ChunkData payload(32, 0x5a);
                const auto manifest = node.store_chunk(make_id(0x20), payload, std::chrono::seconds(120));
                std::string hints;
                for (const auto& hint : manifest.discovery_hints) {
                    if (!hints.empty()) hints += ",";
                    hints += hint.scheme + "|" + split_endpoint(hint.endpoint);
                }
                out += " hints=" + untok(hints);
                node.stop_transport();
            }
            net::NatTraversalManager::set_test_hooks(nullptr);
            return out;
        }
        return "bad-op";
    };
    return verif::run_lines(argc, argv, h);
}
