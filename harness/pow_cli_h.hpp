#pragma once
#include "ephemeralnet/Types.hpp"
#include <array>
#include <cstdint>
#include <optional>
#include <span>
#include <string>
#include <vector>
namespace powcli {
std::size_t clz(std::span<const std::uint8_t> digest);
std::array<std::uint8_t, 32> digest(const ephemeralnet::PeerId& a, const ephemeralnet::PeerId& b, std::uint32_t pub, std::uint64_t nonce);
bool valid(const ephemeralnet::PeerId& a, const ephemeralnet::PeerId& b, std::uint32_t pub, std::uint64_t nonce, std::uint8_t d);
std::optional<std::uint64_t> solve(const ephemeralnet::PeerId& a, const ephemeralnet::PeerId& b, std::uint32_t pub, std::uint8_t d);
std::uint64_t max_attempts();
// runs the CLI's main() in-process with argv = args; captures stdout / stderr
int run(const std::vector<std::string>& args, std::string& out, std::string& err);
}  // namespace powcli
