// Harness for C35 (no remote input can crash the node or the daemon): a real Node and a real
// ControlServer::Impl in this process; every op delivers remote input *through the real thread
// entry function*, run synchronously on the harness thread, so that an exception which would
// reach the top of that thread (std::terminate for the daemon) arrives here instead and is
// reported as `escape:<type>`:
//
//   * session reader thread   : SessionManager::receive_loop on a planted socketpair session
//   * transport accept thread : SessionManager::accept_loop, `accept` interposed to hand out the
//                               planted connection and then end the loop
//   * control accept thread   : ControlServer::Impl::accept_loop, same interposition
//   * main loop               : Node::tick
//
// Sanitizer aborts, signals and std::terminate on real threads are seen by the framework (`crash:`).
//
// Ops (one output line each):
//   cfg [tok=<hex>] [relay=1]    fresh node + control server (relay=1: with a RelayClient object)   -> ok
//   peer <name> <key64hex>       install a 32-byte session key for peer <name>         -> ok
//   adv <ns>                     advance the virtual clock                             -> ok
//   frame <peer> <plainhex> [raw=<hex>]   one transport frame (encrypted by the harness with the
//                                session key; the plaintext is the signed message as sent), optionally
//                                followed by raw bytes on the wire                     -> <st> cm=<..> r=<..>
//   stream <peer> <rawhex>       raw bytes on an established session                   -> <st> cm=na r=<..>
//   hs <rawhex>                  bytes of a new inbound transport connection (peer id, length, handshake)
//                                                                                      -> <st> acc=<0|1>
//   ctl <rawhex>                 bytes of one control connection                       -> <st> held=<..> resp=<STATUS>/<CODE>
//   tick                         Node::tick()                                          -> <st> due=<..> relay=<0|1>
//                                due = pending fetches this tick retries by dialling (announcer has no live session):
//                                <chunk8>:<announced endpoint hex|->:<relay hint endpoints hex joined by +|->,...
//   rt <scenario>                real threads, real sockets: all | control-only | stall | stall-reads   -> ok ...
// <st> = ok | escape:<exception class>
// hints (state observed *before* the op, by harness code that does not run the code under test's
//        exception paths):  cm = cached manifest of the chunk a CHUNK message names:
//        <threshold>:<i1.i2...|->:<ttl-ok 0|1>, `-` none cached, `na` not a decodable CHUNK;
//        held = node holds an encrypted record of the chunk the MANIFEST header names (0|1|na)
#include "common/lineproto.hpp"
#include "common/vclock.hpp"

#include "src/daemon/ControlServer.cpp"  // ControlServer::Impl (private nested class)

#include "ephemeralnet/core/Node.hpp"
#include "ephemeralnet/crypto/ChaCha20.hpp"
#include "ephemeralnet/crypto/CryptoManager.hpp"
#include "ephemeralnet/crypto/Sha256.hpp"
#include "ephemeralnet/crypto/Shamir.hpp"
#include "ephemeralnet/network/SessionManager.hpp"
#include "ephemeralnet/protocol/Manifest.hpp"
#include "ephemeralnet/protocol/Message.hpp"

#include <csignal>
#include <cstring>
#include <deque>
#include <dlfcn.h>
#include <fcntl.h>
#include <filesystem>
#include <map>
#include <memory>
#include <poll.h>
#include <sys/socket.h>
#include <unistd.h>

using namespace ephemeralnet;
using namespace ephemeralnet::daemon;
namespace fs = std::filesystem;

// ---- interposed accept(2) ------------------------------------------------------------------
namespace {
int g_fake_listen = -1;
std::deque<int> g_accept_queue;
std::function<void()> g_on_queue_empty;
}  // namespace

extern "C" int accept(int fd, struct sockaddr* addr, socklen_t* len) {
    if (g_fake_listen >= 0 && fd == g_fake_listen) {
        if (g_accept_queue.empty()) {
            if (g_on_queue_empty) g_on_queue_empty();
            errno = EINVAL;
            return -1;
        }
        const int c = g_accept_queue.front();
        g_accept_queue.pop_front();
        if (addr != nullptr && len != nullptr) {
            std::memset(addr, 0, *len);
        }
        return c;
    }
    using Fn = int (*)(int, struct sockaddr*, socklen_t*);
    static Fn real = reinterpret_cast<Fn>(dlsym(RTLD_NEXT, "accept"));
    return real(fd, addr, len);
}

namespace {

fs::path scratch;
std::unique_ptr<Node> node;
std::mutex node_mutex;
std::unique_ptr<daemon::ControlServer::Impl> impl;
std::optional<std::string> cfg_token;
std::size_t cfg_stream_cap = 1u << 20;
bool cfg_relay = false;
int stops = 0;
std::uint64_t nonce_counter = 1;
std::map<std::string, std::array<std::uint8_t, 32>> peer_keys;

PeerId self_id() {
    PeerId id{};
    id[0] = 0xEE;
    return id;
}

std::string exc_class(const std::exception& ex) {
    if (dynamic_cast<const std::filesystem::filesystem_error*>(&ex)) return "filesystem_error";
    if (dynamic_cast<const std::system_error*>(&ex)) return "system_error";
    if (dynamic_cast<const std::invalid_argument*>(&ex)) return "invalid_argument";
    if (dynamic_cast<const std::out_of_range*>(&ex)) return "out_of_range";
    if (dynamic_cast<const std::length_error*>(&ex)) return "length_error";
    if (dynamic_cast<const std::bad_alloc*>(&ex)) return "bad_alloc";
    if (dynamic_cast<const std::bad_optional_access*>(&ex)) return "bad_optional_access";
    if (dynamic_cast<const std::bad_variant_access*>(&ex)) return "bad_variant_access";
    if (dynamic_cast<const std::runtime_error*>(&ex)) return "runtime_error";
    if (dynamic_cast<const std::logic_error*>(&ex)) return "logic_error";
    return "std_exception";
}

template <class F> std::string guarded(F&& f) {
    try {
        f();
        return "ok";
    } catch (const std::exception& ex) {
        return "escape:" + exc_class(ex);
    } catch (...) {
        return "escape:other";
    }
}

void wipe_scratch() {
    std::error_code ec;
    for (const auto& e : fs::directory_iterator(scratch, ec)) fs::remove_all(e.path(), ec);
}

void drop_all() {
    impl.reset();
    if (node) {
        std::scoped_lock lock(node->sessions_.sessions_mutex_);
        for (auto& [k, s] : node->sessions_.sessions_) {
            if (s) { s->running.store(false); s->alive.store(false); }
        }
    }
    node.reset();
    peer_keys.clear();
    stops = 0;
}

void ensure() {
    if (node) return;
    Config c{};
    c.identity_seed = 0x51u;
    c.announce_pow_difficulty = 0;
    c.handshake_pow_difficulty = 0;
    c.store_pow_difficulty = 0;
    c.nat_stun_enabled = false;
    c.relay_enabled = cfg_relay;
    if (cfg_relay) {
        // a RelayClient object exists (relay hints of manifests are then parsed and dialled by request_chunk);
        // it is never started in the synchronous ops, and its relay is a closed loopback port
        c.relay_endpoints.push_back(Config::RelayEndpoint{"127.0.0.1", 9});
    }
    c.control_stream_max_bytes = cfg_stream_cap;
    c.control_token = cfg_token;
    c.handshake_cooldown = std::chrono::seconds(0);
    node = std::make_unique<Node>(self_id(), c);
    // the announce rate gate is C21's subject: open it so that what a case exercises does not depend on it
    node->config_.announce_min_interval = std::chrono::seconds(0);
    node->config_.announce_burst_limit = 0;
    impl = std::make_unique<daemon::ControlServer::Impl>(*node, node_mutex, [] { ++stops; });
}

// ---- socket helpers ---------------------------------------------------------------------------
void close_if_open(int fd) {
    if (fd >= 0 && ::fcntl(fd, F_GETFD) != -1) ::close(fd);
}

bool write_all(int fd, const std::uint8_t* p, std::size_t n) {
    while (n > 0) {
        const auto w = ::send(fd, p, n, MSG_NOSIGNAL);
        if (w <= 0) return false;
        p += w;
        n -= static_cast<std::size_t>(w);
    }
    return true;
}

std::vector<std::uint8_t> drain(int fd, int wait_ms) {
    std::vector<std::uint8_t> out;
    std::uint8_t buf[8192];
    for (;;) {
        pollfd p{fd, POLLIN, 0};
        const int r = ::poll(&p, 1, wait_ms);
        if (r <= 0) break;
        const auto n = ::recv(fd, buf, sizeof(buf), 0);
        if (n <= 0) break;
        out.insert(out.end(), buf, buf + n);
        wait_ms = 0;
    }
    return out;
}

std::vector<std::uint8_t> seal(const std::array<std::uint8_t, 32>& key_bytes, const std::vector<std::uint8_t>& plain) {
    crypto::Key key{};
    key.bytes = key_bytes;
    crypto::Nonce nonce{};
    auto n = nonce_counter++;
    for (std::size_t i = 0; i < 8; ++i) nonce.bytes[i] = static_cast<std::uint8_t>(n >> (8 * i));
    std::vector<std::uint8_t> cipher(plain.size());
    crypto::ChaCha20::apply(key, nonce, plain, cipher, 0u);
    std::vector<std::uint8_t> frame(nonce.bytes.begin(), nonce.bytes.end());
    const auto len = static_cast<std::uint32_t>(cipher.size());
    frame.push_back(static_cast<std::uint8_t>(len >> 24));
    frame.push_back(static_cast<std::uint8_t>(len >> 16));
    frame.push_back(static_cast<std::uint8_t>(len >> 8));
    frame.push_back(static_cast<std::uint8_t>(len));
    frame.insert(frame.end(), cipher.begin(), cipher.end());
    return frame;
}

std::string describe(const protocol::Message& m) {
    if (const auto* p = std::get_if<protocol::AcknowledgePayload>(&m.payload)) return std::string("ack:") + (p->accepted ? "1" : "0");
    if (const auto* p = std::get_if<protocol::ChunkPayload>(&m.payload)) return "chunk:" + std::to_string(p->data.size());
    if (std::get_if<protocol::RequestPayload>(&m.payload)) return "req";
    if (std::get_if<protocol::AnnouncePayload>(&m.payload)) return "ann";
    if (std::get_if<protocol::HandshakeAckPayload>(&m.payload)) return "hsack";
    return "other";
}

// frames the node wrote back on a session, decoded with the session key
std::string replies(const std::vector<std::uint8_t>& wire, const std::array<std::uint8_t, 32>& key_bytes) {
    std::string out;
    std::size_t off = 0;
    crypto::Key key{};
    key.bytes = key_bytes;
    while (off + 16 <= wire.size()) {
        crypto::Nonce nonce{};
        std::copy_n(wire.begin() + off, 12, nonce.bytes.begin());
        const std::uint32_t len = (std::uint32_t(wire[off + 12]) << 24) | (std::uint32_t(wire[off + 13]) << 16) |
                                  (std::uint32_t(wire[off + 14]) << 8) | std::uint32_t(wire[off + 15]);
        off += 16;
        if (off + len > wire.size()) break;
        std::vector<std::uint8_t> cipher(wire.begin() + off, wire.begin() + off + len), plain(len);
        off += len;
        crypto::ChaCha20::apply(key, nonce, cipher, plain, 0u);
        const auto m = protocol::decode_signed(plain, std::span<const std::uint8_t>(key_bytes.data(), key_bytes.size()));
        if (!out.empty()) out += ",";
        out += m ? describe(*m) : std::string("undecodable");
    }
    return out.empty() ? "-" : out;
}

bool ttl_ok(const protocol::Manifest& m) {
    const auto now = std::chrono::system_clock::now();
    if (m.expires_at <= now) return false;
    const auto ttl = std::chrono::duration_cast<std::chrono::seconds>(m.expires_at - now);
    return ttl > std::chrono::seconds(0) && ttl >= node->config_.min_manifest_ttl;
}

std::string manifest_hint(const protocol::Manifest& m) {
    std::string idx;
    for (const auto& s : m.shards) {
        if (!idx.empty()) idx += ".";
        idx += std::to_string(s.index);
    }
    return std::to_string(m.threshold) + ":" + (idx.empty() ? "-" : idx) + ":" + (ttl_ok(m) ? "1" : "0");
}

std::shared_ptr<network::SessionManager::Session> plant(const PeerId& p, int fd, const std::array<std::uint8_t, 32>& key) {
    auto session = std::make_shared<network::SessionManager::Session>();
    session->socket = static_cast<network::SessionManager::SocketHandle>(fd);
    session->key = key;
    session->endpoint = "verif";
    session->running.store(true);
    session->alive.store(false);
    session->debug_origin = "verif";
    session->debug_peer = network::SessionManager::peer_key_string(p);
    std::scoped_lock lock(node->sessions_.sessions_mutex_);
    node->sessions_.sessions_[network::SessionManager::peer_key_string(p)] = session;
    node->sessions_.keys_[network::SessionManager::peer_key_string(p)] = key;
    return session;
}

void unplant(const PeerId& p, const std::shared_ptr<network::SessionManager::Session>& session) {
    session->running.store(false);
    session->alive.store(false);
    std::scoped_lock lock(node->sessions_.sessions_mutex_);
    auto it = node->sessions_.sessions_.find(network::SessionManager::peer_key_string(p));
    if (it != node->sessions_.sessions_.end() && it->second.get() == session.get()) node->sessions_.sessions_.erase(it);
}

// deliver bytes on an established session through the real reader-thread function
std::string run_reader(const std::string& peer, const std::vector<std::uint8_t>& wire, const std::string& hint) {
    const auto kit = peer_keys.find(peer);
    if (kit == peer_keys.end()) return "bad-op:unknown-peer";
    const auto p = verif::id32(peer);
    int sv[2];
    if (::socketpair(AF_UNIX, SOCK_STREAM, 0, sv) != 0) return "bad-op:socketpair";
    auto session = plant(p, sv[0], kit->second);
    write_all(sv[1], wire.data(), wire.size());
    ::shutdown(sv[1], SHUT_WR);
    const auto st = guarded([&] { node->sessions_.receive_loop(p, session); });
    unplant(p, session);
    // Who closes the planted descriptor differs between trees (receive_loop itself, or ~Session with the last
    // reference) and an escaping exception skips it altogether: drop the session first, then close only what
    // is still open.
    session.reset();
    close_if_open(sv[0]);
    const auto back = drain(sv[1], 0);
    ::close(sv[1]);
    return st + " cm=" + hint + " r=" + replies(back, kit->second);
}

// pending fetches the next tick will retry by dialling (no live session to the announcer): for each the
// announced endpoint and the relay hints of its manifest, as the strings the node stored (hint for the driver)
std::string due_fetches() {
    std::string out;
    const auto now = std::chrono::steady_clock::now();
    std::unique_lock<std::recursive_mutex> lock(node->scheduler_mutex_);
    for (const auto& [key, st] : node->pending_chunk_fetches_) {
        if (st.next_attempt == std::chrono::steady_clock::time_point::max() || now < st.next_attempt) continue;
        if (node->sessions_.is_connected(st.peer_id)) continue;
        protocol::Manifest m;
        bool usable = false;
        try {
            m = protocol::decode_manifest(st.manifest_uri);
            usable = ttl_ok(m);
        } catch (const std::exception&) {
        }
        if (!usable) continue;
        bool held = false;
        for (const auto& e : node->chunk_store_.snapshot()) if (e.id == st.chunk_id) held = true;
        if (held) continue;
        std::string hints;
        for (const auto& h : m.discovery_hints) {
            if (h.transport != "relay") continue;
            if (!hints.empty()) hints += "+";
            hints += verif::hex_or_dash(verif::to_hex(h.endpoint));
        }
        if (!out.empty()) out += ",";
        out += verif::to_hex(st.chunk_id).substr(0, 8) + ":" + verif::hex_or_dash(verif::to_hex(st.endpoint)) + ":" + (hints.empty() ? "-" : hints);
    }
    return out.empty() ? "-" : out;
}

// ---- control request inspection (harness side: hint + safety) ---------------------------------
struct CtlView {
    std::map<std::string, std::string> fields;
};
CtlView view_request(const std::vector<std::uint8_t>& raw) {
    CtlView v;
    std::string line;
    for (std::size_t i = 0; i < raw.size(); ++i) {
        const char ch = static_cast<char>(raw[i]);
        if (ch == '\n') {
            if (line.empty()) break;
            const auto pos = line.find(':');
            if (pos == std::string::npos) break;
            v.fields[to_upper(line.substr(0, pos))] = line.substr(pos + 1);
            line.clear();
        } else if (ch != '\r') {
            line.push_back(ch);
        }
    }
    return v;
}

bool out_path_safe(const std::string& out) {
    if (out.find("..") != std::string::npos) return false;
    if (out.empty() || out[0] != '/') return true;   // relative: lands in the scratch directory
    for (const char* ok : {"/proc/verif-nonexistent/", "/dev/null/"}) {
        if (out.rfind(ok, 0) == 0) return true;
    }
    return false;
}

std::string run_control(const std::vector<std::uint8_t>& raw) {
    const auto view = view_request(raw);
    for (const auto& [k, v] : view.fields) {
        if (k == "OUT" && !out_path_safe(v)) return "skip:unsafe-out";
    }
    std::string held = "na";
    if (const auto it = view.fields.find("MANIFEST"); it != view.fields.end()) {
        try {
            const auto m = protocol::decode_manifest(it->second);
            const auto rec = node->export_chunk_record(m.chunk_id);
            held = (rec.has_value() && rec->encrypted) ? "1" : "0";
        } catch (const std::exception&) {
            held = "na";
        }
    }
    int sv[2];
    if (::socketpair(AF_UNIX, SOCK_STREAM, 0, sv) != 0) return "bad-op:socketpair";
    write_all(sv[1], raw.data(), raw.size());
    ::shutdown(sv[1], SHUT_WR);
    g_accept_queue.push_back(sv[0]);
    impl->listen_socket_ = g_fake_listen;
    impl->running_.store(true);
    g_on_queue_empty = [] { impl->running_.store(false); };
    const auto st = guarded([&] { impl->accept_loop(); });
    impl->running_.store(false);
    impl->listen_socket_ = kInvalidSocket;
    if (st != "ok") {
        g_accept_queue.clear();
        close_if_open(sv[0]);   // accept_loop did not get to close it
    }
    const auto back = drain(sv[1], 0);
    ::close(sv[1]);
    std::string text(back.begin(), back.end());
    std::string status = "-", code = "-";
    {
        std::istringstream in(text);
        std::string l;
        bool first = true;
        while (std::getline(in, l)) {
            if (l.empty()) break;
            if (first) { first = false; if (l.rfind("STATUS:", 0) == 0) status = l.substr(7); continue; }
            if (l.rfind("CODE:", 0) == 0) code = l.substr(5);
        }
    }
    return st + " held=" + held + " resp=" + status + "/" + code;
}

std::string run_handshake(const std::vector<std::uint8_t>& raw) {
    int sv[2];
    if (::socketpair(AF_UNIX, SOCK_STREAM, 0, sv) != 0) return "bad-op:socketpair";
    write_all(sv[1], raw.data(), raw.size());
    ::shutdown(sv[1], SHUT_WR);
    g_accept_queue.push_back(sv[0]);
    auto& sm = node->sessions_;
    sm.listen_socket_ = static_cast<network::SessionManager::SocketHandle>(g_fake_listen);
    sm.running_ = true;
    g_on_queue_empty = [] { node->sessions_.running_ = false; };
    const auto st = guarded([&] { sm.accept_loop(); });
    sm.running_ = false;
    sm.listen_socket_ = network::SessionManager::INVALID_SOCKET_HANDLE;
    if (st != "ok") {
        g_accept_queue.clear();
        close_if_open(sv[0]);
    }
    const auto back = drain(sv[1], 50);
    // an accepted handshake started a real reader thread on our planted socket: it sees EOF; wait for it
    for (int i = 0; i < 400; ++i) {
        bool any_alive = false;
        {
            std::scoped_lock lock(sm.sessions_mutex_);
            for (auto& [k, s] : sm.sessions_) if (s && s->debug_origin == "inbound-handshake") any_alive = true;
        }
        if (!any_alive) break;
        std::this_thread::sleep_for(std::chrono::milliseconds(5));
    }
    ::close(sv[1]);
    return st + " acc=" + (back.empty() ? "0" : "1");
}

// ---- real threads, real sockets (thorough tier) ------------------------------------------------
std::atomic<bool> ticker_run{false};

int tcp_connect(std::uint16_t port) {
    int fd = ::socket(AF_INET, SOCK_STREAM, 0);
    sockaddr_in a{};
    a.sin_family = AF_INET;
    a.sin_port = htons(port);
    a.sin_addr.s_addr = htonl(INADDR_LOOPBACK);
    if (::connect(fd, reinterpret_cast<sockaddr*>(&a), sizeof(a)) != 0) { ::close(fd); return -1; }
    return fd;
}

std::string control_roundtrip(std::uint16_t port, const std::string& request) {
    const int fd = tcp_connect(port);
    if (fd < 0) return "noconnect";
    write_all(fd, reinterpret_cast<const std::uint8_t*>(request.data()), request.size());
    ::shutdown(fd, SHUT_WR);
    const auto back = drain(fd, 3000);
    ::close(fd);
    std::string text(back.begin(), back.end());
    const auto p = text.find("CODE:");
    if (p == std::string::npos) return text.empty() ? "closed" : "nocode";
    return text.substr(p + 5, text.find('\n', p) - p - 5);
}

// first bytes of an answer within `deadline_ms`, or "timeout"
std::string control_probe(std::uint16_t port, const std::string& request, int deadline_ms) {
    const int fd = tcp_connect(port);
    if (fd < 0) return "noconnect";
    write_all(fd, reinterpret_cast<const std::uint8_t*>(request.data()), request.size());
    ::shutdown(fd, SHUT_WR);
    pollfd p{fd, POLLIN, 0};
    const int r = ::poll(&p, 1, deadline_ms);
    std::string out = "timeout";
    if (r > 0) {
        const auto back = drain(fd, 200);
        std::string text(back.begin(), back.end());
        const auto q = text.find("CODE:");
        out = q == std::string::npos ? (text.empty() ? "closed" : "nocode") : text.substr(q + 5, text.find('\n', q) - q - 5);
    }
    ::close(fd);
    return out;
}

// a well-formed inbound transport handshake from a fresh peer; "acked" when the node answers within the deadline
std::string transport_probe(std::uint16_t port, std::uint8_t tag, int deadline_ms) {
    const int fd = tcp_connect(port);
    if (fd < 0) return "noconnect";
    protocol::Message hs{};
    hs.type = protocol::MessageType::TransportHandshake;
    protocol::TransportHandshakePayload hp{};
    hp.public_identity = 5;
    hp.work_nonce = 0;
    hs.payload = hp;
    const auto body = protocol::encode(hs);
    std::vector<std::uint8_t> wire(32, 0);
    wire[0] = tag;
    const auto len = static_cast<std::uint32_t>(body.size());
    wire.push_back(static_cast<std::uint8_t>(len >> 24));
    wire.push_back(static_cast<std::uint8_t>(len >> 16));
    wire.push_back(static_cast<std::uint8_t>(len >> 8));
    wire.push_back(static_cast<std::uint8_t>(len));
    wire.insert(wire.end(), body.begin(), body.end());
    write_all(fd, wire.data(), wire.size());
    pollfd p{fd, POLLIN, 0};
    const int r = ::poll(&p, 1, deadline_ms);
    std::string out = "timeout";
    if (r > 0) {
        std::uint8_t b[64];
        out = ::recv(fd, b, sizeof(b), 0) > 0 ? "acked" : "closed";
    }
    ::close(fd);
    return out;
}

// connect with a tiny receive buffer (so that the peer's send really blocks) and send `request`; never read
int never_reading_client(std::uint16_t port, const std::string& request) {
    int fd = ::socket(AF_INET, SOCK_STREAM, 0);
    int small = 2048;
    ::setsockopt(fd, SOL_SOCKET, SO_RCVBUF, &small, sizeof(small));
    sockaddr_in a{};
    a.sin_family = AF_INET;
    a.sin_port = htons(port);
    a.sin_addr.s_addr = htonl(INADDR_LOOPBACK);
    if (::connect(fd, reinterpret_cast<sockaddr*>(&a), sizeof(a)) != 0) { ::close(fd); return -1; }
    write_all(fd, reinterpret_cast<const std::uint8_t*>(request.data()), request.size());
    return fd;
}

template <class I> bool shorten_control_timeout(I& server, std::chrono::milliseconds t) {
    if constexpr (requires { server.client_io_timeout_ = t; }) {
        server.client_io_timeout_ = t;      // SO_RCVTIMEO / SO_SNDTIMEO run on real time: keep the probe short
        return true;
    } else {
        return false;
    }
}

// One client that connects and then says nothing (or never reads its answer): are the others still served?
//   ctl-second, ctl-hdr1, ctl-hdrpart, ctl-pay0, ctl-payhalf, ctl-paym1 : a PING sent while a client stalls at
//                one of the blocking read sites of a control connection — before the first byte, after one header
//                line, inside a header line, after the blank line with 0 / half / all but one of the announced
//                payload bytes (deadline 4 s; the harness shortens the server's client I/O timeout to 300 ms
//                when the server has one)
//   ctl-wstall : a PING sent while a client that asked for an 8 MiB streamed FETCH never reads it
//   ctl-after  : a PING after the stalling clients went away
//   tr-second, tr-pay : a well-formed transport handshake while a client stalls inside its peer id / inside its
//                announced handshake payload (deadline 8 s: the inbound handshake is bounded by kHandshakeTimeout = 2 s)
std::string stall_probe(bool reads_only) {
    std::string out;
    const bool bounded = shorten_control_timeout(*impl, std::chrono::milliseconds(300));
    out += std::string(" ctl-timeout=") + (bounded ? "300" : "none");
    node->start_transport(0);
    impl->start("127.0.0.1", 0);
    sockaddr_in bound{};
    socklen_t bl = sizeof(bound);
    ::getsockname(impl->listen_socket_, reinterpret_cast<sockaddr*>(&bound), &bl);
    const auto cport = ntohs(bound.sin_port);
    const auto tport = node->transport_port();

    // a client that stalls at each blocking read site of a control connection, each ahead of a PING
    auto behind = [&](const std::string& sent) {
        const int fd = tcp_connect(cport);
        if (fd >= 0 && !sent.empty()) write_all(fd, reinterpret_cast<const std::uint8_t*>(sent.data()), sent.size());
        std::this_thread::sleep_for(std::chrono::milliseconds(100));
        const auto r = control_probe(cport, "COMMAND:PING\n\n", 4000);
        if (fd >= 0) ::close(fd);
        return r;
    };
    const std::string store_head = "COMMAND:STORE\nPAYLOAD-LENGTH:64\n\n";
    out += " ctl-second=" + behind("");                                   // silent: first header byte never comes
    out += " ctl-hdr1=" + behind("COMMAND:STORE\n");                      // after one complete header line
    out += " ctl-hdrpart=" + behind("COMMAND:STORE\nPAYLOAD-LEN");        // in the middle of a header line
    out += " ctl-pay0=" + behind(store_head);                             // after the blank line, no payload byte
    out += " ctl-payhalf=" + behind(store_head + std::string(32, 'x'));   // half of the announced payload
    out += " ctl-paym1=" + behind(store_head + std::string(63, 'x'));     // all but one byte

    if (reads_only) {
        out += " ctl-after=" + control_probe(cport, "COMMAND:PING\n\n", 4000);
        impl->stop();
        node->stop_transport();
        return out;
    }

    ChunkId big{}; big[0] = 0xCB;
    protocol::Manifest big_manifest;
    {
        std::scoped_lock lock(node_mutex);
        big_manifest = node->store_chunk(big, ChunkData(8u << 20, 0x42), std::chrono::seconds(3600));
    }
    const int deaf = never_reading_client(cport, "COMMAND:FETCH\nMANIFEST:" + protocol::encode_manifest(big_manifest) + "\nSTREAM:client\n\n");
    std::this_thread::sleep_for(std::chrono::milliseconds(400));
    // generous deadline: the server first decrypts the chunk (slow under ASan on a loaded machine); the question is
    // "bounded or forever", the bound itself being 300 ms of no progress
    out += " ctl-wstall=" + control_probe(cport, "COMMAND:PING\n\n", 15000);
    if (deaf >= 0) ::close(deaf);
    out += " ctl-after=" + control_probe(cport, "COMMAND:PING\n\n", 3000);

    // the same on the transport accept thread: inside the peer id, and inside the announced handshake payload
    auto behind_tr = [&](const std::vector<std::uint8_t>& sent, std::uint8_t tag) {
        const int fd = tcp_connect(tport);
        if (fd >= 0 && !sent.empty()) write_all(fd, sent.data(), sent.size());
        std::this_thread::sleep_for(std::chrono::milliseconds(100));
        const auto r = transport_probe(tport, tag, 8000);
        if (fd >= 0) ::close(fd);
        return r;
    };
    out += " tr-second=" + behind_tr({1, 2, 3, 4, 5}, 0xB7);
    {
        std::vector<std::uint8_t> partial(32, 0x5C);       // complete peer id, length 40, 10 of the 40 bytes
        partial.insert(partial.end(), {0, 0, 0, 40});
        partial.insert(partial.end(), 10, 0x01);
        out += " tr-pay=" + behind_tr(partial, 0xB9);
    }
    out += " tr-after=" + transport_probe(tport, 0xB8, 4000);

    impl->stop();
    node->stop_transport();
    return out;
}

protocol::Manifest with_duplicate_index(protocol::Manifest m) {
    if (m.shards.size() >= 2) m.shards[1].index = m.shards[0].index;
    return m;
}

bool link_nodes(Node& a, Node& b, std::uint16_t port_a) {
    const auto pow_b = b.generate_handshake_work(a.id());
    const auto pow_a = a.generate_handshake_work(b.id());
    if (!pow_a || !pow_b) return false;
    if (!a.perform_handshake(b.id(), b.public_identity(), *pow_b)) return false;
    if (!b.perform_handshake(a.id(), a.public_identity(), *pow_a)) return false;
    return b.connect_peer(a.id(), "127.0.0.1", port_a);
}

// The daemon as deployed: transport accept thread + per-session reader threads + control accept
// thread.  An attacker peer sends a validly signed ANNOUNCE + CHUNK whose manifest repeats a shard
// index; a control client sends FETCH with such a manifest for a held chunk and FETCH with an empty
// OUT; afterwards the daemon must still answer PING and accept a second peer.
std::string real_threads(const std::string& scenario) {
    drop_all();
    cfg_token.reset();
    cfg_stream_cap = scenario == "stall" ? (32u << 20) : (1u << 20);
    cfg_relay = false;
    ensure();
    cfg_stream_cap = 1u << 20;
    ticker_run = true;
    std::thread ticker([] {
        while (ticker_run) { std::this_thread::sleep_for(std::chrono::milliseconds(5)); verif::vclock_advance(5'000'000); }
    });
    std::string out;
    if (scenario == "stall" || scenario == "stall-reads") {
        out = stall_probe(scenario == "stall-reads");
    } else {
        Config oc{};
        oc.identity_seed = 0x77u;
        oc.announce_pow_difficulty = 0;
        oc.handshake_pow_difficulty = 0;
        oc.nat_stun_enabled = false;
        oc.relay_enabled = false;
        oc.handshake_cooldown = std::chrono::seconds(0);
        PeerId aid{}; aid[0] = 0xA1;
        PeerId bid{}; bid[0] = 0xB2;
        Node attacker(aid, oc);
        oc.identity_seed = 0x78u;
        Node second(bid, oc);
        node->start_transport(0);
        impl->start("127.0.0.1", 0);
        sockaddr_in bound{};
        socklen_t bl = sizeof(bound);
        ::getsockname(impl->listen_socket_, reinterpret_cast<sockaddr*>(&bound), &bl);
        const auto cport = ntohs(bound.sin_port);
        const auto tport = node->transport_port();
        attacker.start_transport(0);
        second.start_transport(0);

        const bool linked = link_nodes(*node, attacker, tport);
        out += std::string(" link=") + (linked ? "1" : "0");

        // a chunk the attacker made, with a manifest whose first two shards share an index
        ChunkId cid{}; cid[0] = 0xC7;
        ChunkData data(64, 0x5a);
        const auto honest = attacker.store_chunk(cid, data, std::chrono::seconds(3600));
        const auto evil = with_duplicate_index(honest);
        const auto record = attacker.export_chunk_record(cid);
        const auto key = attacker.session_shared_key(node->id());
        if (scenario != "control-only" && linked && key && record) {
            const auto ks = std::span<const std::uint8_t>(key->data(), key->size());
            protocol::Message ann{};
            ann.type = protocol::MessageType::Announce;
            protocol::AnnouncePayload ap{};
            ap.chunk_id = cid;
            ap.peer_id = attacker.id();
            ap.ttl = std::chrono::seconds(600);
            ap.manifest_uri = protocol::encode_manifest(evil);
            ann.payload = ap;
            auto e1 = protocol::encode_signed(ann, ks);
            attacker.send_secure(node->id(), e1);
            protocol::Message chk{};
            chk.type = protocol::MessageType::Chunk;
            protocol::ChunkPayload cp{};
            cp.chunk_id = cid;
            cp.data = record->data;
            chk.payload = cp;
            auto e2 = protocol::encode_signed(chk, ks);
            attacker.send_secure(node->id(), e2);
            std::this_thread::sleep_for(std::chrono::milliseconds(400));
        }
        // control plane: a held chunk and a manifest of it with a repeated index; an empty OUT
        ChunkId hid{}; hid[0] = 0xC8;
        protocol::Manifest held_manifest;
        {
            std::scoped_lock lock(node_mutex);
            held_manifest = node->store_chunk(hid, ChunkData(48, 0x11), std::chrono::seconds(3600));
        }
        const auto evil_uri = protocol::encode_manifest(with_duplicate_index(held_manifest));
        const auto good_uri = protocol::encode_manifest(held_manifest);
        out += " fetch-dup=" + control_roundtrip(cport, "COMMAND:FETCH\nMANIFEST:" + evil_uri + "\nSTREAM:client\n\n");
        out += " fetch-emptyout=" + control_roundtrip(cport, "COMMAND:FETCH\nMANIFEST:" + good_uri + "\nOUT:\n\n");
        out += " ping=" + control_roundtrip(cport, "COMMAND:PING\n\n");
        const bool linked2 = link_nodes(*node, second, tport);
        out += std::string(" link2=") + (linked2 ? "1" : "0");
        out += " fetch-good=" + control_roundtrip(cport, "COMMAND:FETCH\nMANIFEST:" + good_uri + "\nSTREAM:client\n\n");

        attacker.stop_transport();
        second.stop_transport();
        impl->stop();
        node->stop_transport();
    }
    ticker_run = false;
    ticker.join();
    drop_all();
    return "ok" + out;
}

}  // namespace

int main(int argc, char** argv) {
    ::signal(SIGPIPE, SIG_IGN);
    g_fake_listen = ::open("/dev/null", O_RDONLY);
    scratch = fs::current_path() / ("c35-scratch-" + std::to_string(::getpid()));
    fs::create_directories(scratch);
    fs::current_path(scratch);
    // the repository logs to std::cerr / std::clog on every frame; keep the sanitizers' stderr readable
    std::ios::sync_with_stdio(false);   // before the redirection: the first call replaces the stream buffers
    std::ofstream devnull("/dev/null");
    auto* old_cerr = std::cerr.rdbuf(devnull.rdbuf());
    auto* old_clog = std::clog.rdbuf(devnull.rdbuf());
    auto* old_cout = std::cout.rdbuf();
    (void)old_cout;

    verif::Handler h;
    h.reset = [] {
        drop_all();
        cfg_token.reset();
        cfg_relay = false;
        wipe_scratch();
        verif::vclock_set(verif::kVclockStart);
        nonce_counter = 1;
    };
    h.op = [](const std::vector<std::string>& t, const std::string&) -> std::string {
        const auto& op = t[0];
        if (op == "cfg") {
            drop_all();
            cfg_token.reset();
            cfg_relay = false;
            for (std::size_t i = 1; i < t.size(); ++i) {
                if (t[i] == "relay=1") cfg_relay = true;
                if (t[i].rfind("tok=", 0) == 0 && t[i] != "tok=-") {
                    const auto b = verif::from_hex(t[i].substr(4));
                    cfg_token = std::string(b.begin(), b.end());
                }
            }
            ensure();
            return "ok";
        }
        if (op == "rt" && t.size() == 2) return real_threads(t[1]);
        ensure();
        if (op == "adv" && t.size() == 2) {
            verif::vclock_advance(std::stoll(t[1]));
            return "ok";
        }
        if (op == "peer" && t.size() == 3) {
            const auto p = verif::id32(t[1]);
            const auto kb = verif::from_hex(t[2]);
            if (kb.size() != 32) return "bad-op:key";
            std::array<std::uint8_t, 32> key{};
            std::copy(kb.begin(), kb.end(), key.begin());
            crypto::Key secret{};
            secret.bytes = key;
            node->register_shared_secret(p, secret);
            auto& ctx = node->key_manager_.contexts_[peer_id_to_string(p)];
            ctx.current_key = key;     // the session key itself is the op's argument (the sender knows it)
            node->sessions_.register_peer_key(p, key);
            peer_keys[t[1]] = key;
            return "ok";
        }
        if (op == "frame" && (t.size() == 3 || t.size() == 4)) {
            const auto kit = peer_keys.find(t[1]);
            if (kit == peer_keys.end()) return "bad-op:unknown-peer";
            const auto plain = verif::from_hex(t[2]);
            std::string hint = "na";
            if (const auto m = protocol::decode_signed(plain, std::span<const std::uint8_t>(kit->second.data(), 32))) {
                if (const auto* cp = std::get_if<protocol::ChunkPayload>(&m->payload); cp && m->type == protocol::MessageType::Chunk) {
                    const auto cached = node->manifest_for_chunk(cp->chunk_id);
                    hint = cached ? manifest_hint(*cached) : "-";
                }
            }
            auto wire = seal(kit->second, plain);
            if (t.size() == 4 && t[3].rfind("raw=", 0) == 0) {
                const auto extra = verif::from_hex(t[3].substr(4));
                wire.insert(wire.end(), extra.begin(), extra.end());
            }
            return run_reader(t[1], wire, hint);
        }
        if (op == "stream" && t.size() == 3) return run_reader(t[1], verif::from_hex(t[2]), "na");
        if (op == "hs" && t.size() == 2) return run_handshake(verif::from_hex(t[1]));
        if (op == "ctl" && t.size() == 2) return run_control(verif::from_hex(t[1]));
        if (op == "tick" && t.size() == 1) {
            const auto due = due_fetches();
            return guarded([&] { std::scoped_lock lock(node_mutex); node->tick(); }) + " due=" + due +
                   " relay=" + (cfg_relay ? "1" : "0");
        }
        return "bad-op";
    };
    const int rc = verif::run_lines(argc, argv, h);
    drop_all();
    std::cerr.rdbuf(old_cerr);
    std::clog.rdbuf(old_clog);
    std::error_code ec;
    fs::current_path(scratch.parent_path(), ec);
    fs::remove_all(scratch, ec);
    return rc;
}
