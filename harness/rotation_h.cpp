// Harness for C39 (key rotation never leaves the two ends of a session on different keys).
//
// Two real Nodes A and B in this process under the virtual clock (both read the same counter; a
// "clock offset" between the nodes is an `adv` between their ticks).  The transport session between
// them is a socketpair whose ends are planted as running `SessionManager::Session`s (no reader
// threads): single-threaded and replayable; whether a session is "open" is what
// `SessionManager::is_connected` says.  Real loopback sessions are C14's business.
//
// Ops — every op answers with the observation line
//     [<prefix> ]kA=<hex|-> kB=.. sA=.. sB=.. cA=<n|-> cB=.. lA=<ns|-> lB=.. oA=<0|1> oB=<0|1>
//   kX: Node::session_key(peer) (KeyManager)   sX: Session::key in X's SessionManager
//   cX / lX: rotation counter / last_rotation (ns) of the KeyManager context   oX: is_connected(peer)
//
//   nodes <ivA s> <ivB s> <scalarA> <scalarB>   fresh nodes with these configured rotation intervals and DH scalars
//                                               prefix iv=<effective ns A>/<ns B> pub=<pA>/<pB>
//   hs <delta ns>        A.perform_handshake(B) now, advance delta, B.perform_handshake(A); plant the session
//                        prefix hs=<okA><okB> sec=<hex A's secret>/<hex B's secret>
//   reg <secret hex32>   register_shared_secret at both nodes at the current instant; plant the session
//   adv <ns>             advance the virtual clock
//   tick <a|b|ab>        Node::tick() (ab: both nodes at the same clock reading, observed once afterwards)
//   rot <a|b>            Node::rotate_session_key(peer)      prefix rot=<0|1>
//   msg <ab|ba>          sender signs an Acknowledge with its session key and send_secure()s it; the frame is read
//                        off the receiver's socket, decrypted with the receiver's Session::key as receive_loop
//                        does and verified with protocol::decode_signed under the receiver's session key as
//                        handle_transport_message does                  prefix sent=<0|1> verify=<0|1>
#include "src/core/Node.cpp"

#include "common/lineproto.hpp"
#include "common/vclock.hpp"

#include <sys/socket.h>
#include <unistd.h>

using namespace ephemeralnet;

namespace {

struct World {
    std::unique_ptr<Node> A;
    std::unique_ptr<Node> B;
    int fdA = -1;  // A's end of the session
    int fdB = -1;  // B's end
    ~World() {
        A.reset();
        B.reset();
        if (fdA >= 0) ::close(fdA);
        if (fdB >= 0) ::close(fdB);
    }
};

std::unique_ptr<World> W;

Config quiet_config(std::int64_t interval_s) {
    Config c{};
    c.identity_seed = 11u;
    c.nat_stun_enabled = false;
    c.relay_enabled = false;
    c.advertise_auto_mode = Config::AdvertiseAutoMode::Off;
    c.handshake_pow_difficulty = 0;
    c.announce_pow_difficulty = 0;
    c.key_rotation_interval = std::chrono::seconds(interval_s);
    return c;
}

std::string hex_opt(const std::optional<std::array<std::uint8_t, 32>>& k) { return k ? verif::to_hex(*k) : std::string("-"); }

std::shared_ptr<network::SessionManager::Session> session_of(Node& n, const PeerId& peer) {
    std::scoped_lock lock(n.sessions_.sessions_mutex_);
    const auto it = n.sessions_.sessions_.find(peer_id_to_string(peer));
    return it == n.sessions_.sessions_.end() ? nullptr : it->second;
}

void plant(Node& n, const PeerId& peer, int fd) {
    auto s = std::make_shared<network::SessionManager::Session>();
    s->socket = fd;
    if (const auto k = n.sessions_.peer_key(peer)) s->key = *k;
    s->endpoint = "socketpair";
    s->running.store(true);
    s->alive.store(false);  // no reader thread
    s->debug_origin = "planted";
    std::scoped_lock lock(n.sessions_.sessions_mutex_);
    n.sessions_.sessions_[peer_id_to_string(peer)] = s;
}

void plant_session() {
    if (W->fdA >= 0) return;
    int sv[2];
    if (::socketpair(AF_UNIX, SOCK_STREAM, 0, sv) != 0) throw std::runtime_error("socketpair");
    W->fdA = sv[0];
    W->fdB = sv[1];
    plant(*W->A, W->B->id(), sv[0]);
    plant(*W->B, W->A->id(), sv[1]);
}

std::string side(Node& n, const PeerId& peer, const char* tag) {
    std::string k = "-", s = "-", c = "-", l = "-";
    k = hex_opt(n.session_key(peer));
    if (const auto sess = session_of(n, peer)) s = verif::to_hex(sess->key);
    const auto it = n.key_manager_.contexts_.find(peer_id_to_string(peer));
    if (it != n.key_manager_.contexts_.end()) {
        c = std::to_string(it->second.counter);
        l = std::to_string(std::chrono::duration_cast<std::chrono::nanoseconds>(it->second.last_rotation.time_since_epoch()).count());
    }
    (void)tag;
    return k + " " + s + " " + c + " " + l;
}

std::string observe() {
    if (!W) return "no-nodes";
    auto fields = [](const std::string& x) { return verif::split(x); };
    const auto a = fields(side(*W->A, W->B->id(), "A"));
    const auto b = fields(side(*W->B, W->A->id(), "B"));
    return "kA=" + a[0] + " kB=" + b[0] + " sA=" + a[1] + " sB=" + b[1] + " cA=" + a[2] + " cB=" + b[2] + " lA=" + a[3] + " lB=" + b[3] +
           " oA=" + (W->A->sessions_.is_connected(W->B->id()) ? "1" : "0") + " oB=" + (W->B->sessions_.is_connected(W->A->id()) ? "1" : "0");
}

std::string do_msg(Node& from, Node& to, int to_fd) {
    const auto key_from = from.session_key(to.id());
    if (!key_from) return "sent=0 verify=0 ";
    protocol::Message m{};
    m.version = protocol::kCurrentMessageVersion;
    m.type = protocol::MessageType::Acknowledge;
    protocol::AcknowledgePayload p{};
    p.chunk_id = verif::id32("c1");
    p.peer_id = from.id();
    p.accepted = true;
    m.payload = p;
    const auto signed_bytes = protocol::encode_signed(m, std::span<const std::uint8_t>(key_from->data(), key_from->size()));
    const bool sent = from.send_secure(to.id(), signed_bytes);
    if (!sent) return "sent=0 verify=0 ";
    // the receiving side, as receive_loop + handle_transport_message do it
    std::vector<std::uint8_t> buf;
    std::uint8_t tmp[4096];
    for (;;) {
        const auto n = ::recv(to_fd, tmp, sizeof tmp, MSG_DONTWAIT);
        if (n <= 0) break;
        buf.insert(buf.end(), tmp, tmp + n);
    }
    if (buf.size() < 16) return "sent=1 verify=0 ";
    const std::size_t len = (std::size_t(buf[12]) << 24) | (std::size_t(buf[13]) << 16) | (std::size_t(buf[14]) << 8) | std::size_t(buf[15]);
    if (buf.size() != 16 + len) return "sent=1 verify=0 ";
    const auto sess = session_of(to, from.id());
    if (!sess) return "sent=1 verify=0 ";
    crypto::Key tk{};
    tk.bytes = sess->key;
    crypto::Nonce nonce{};
    std::copy(buf.begin(), buf.begin() + 12, nonce.bytes.begin());
    std::vector<std::uint8_t> plain(len);
    crypto::ChaCha20::apply(tk, nonce, std::span<const std::uint8_t>(buf.data() + 16, len), plain, 0u);
    const auto key_to = to.session_shared_key(from.id());
    bool ok = false;
    if (key_to) {
        const auto decoded = protocol::decode_signed(plain, std::span<const std::uint8_t>(key_to->data(), key_to->size()));
        ok = decoded.has_value() && decoded->type == protocol::MessageType::Acknowledge;
    }
    return std::string("sent=1 verify=") + (ok ? "1 " : "0 ");
}

}  // namespace

int main(int argc, char** argv) {
    std::ios::sync_with_stdio(false);
    if (!std::getenv("VERIF_TRANSPORT_LOG")) std::cerr.setstate(std::ios_base::failbit);
    verif::Handler h;
    h.reset = [] {
        W.reset();
        verif::vclock_set(verif::kVclockStart);
    };
    h.op = [](const std::vector<std::string>& t, const std::string&) -> std::string {
        const auto& op = t[0];
        if (op == "nodes" && t.size() == 5) {
            W.reset();
            W = std::make_unique<World>();
            W->A = std::make_unique<Node>(verif::id32("a1"), quiet_config(std::stoll(t[1])));
            W->B = std::make_unique<Node>(verif::id32("b1"), quiet_config(std::stoll(t[2])));
            W->A->identity_scalar_ = static_cast<std::uint32_t>(std::stoull(t[3]));
            W->A->identity_public_ = network::KeyExchange::compute_public(W->A->identity_scalar_);
            W->B->identity_scalar_ = static_cast<std::uint32_t>(std::stoull(t[4]));
            W->B->identity_public_ = network::KeyExchange::compute_public(W->B->identity_scalar_);
            auto ns = [](Node& n) {
                return std::to_string(std::chrono::duration_cast<std::chrono::nanoseconds>(n.key_manager_.rotation_interval_).count());
            };
            return "iv=" + ns(*W->A) + "/" + ns(*W->B) + " pub=" + std::to_string(W->A->public_identity()) + "/" +
                   std::to_string(W->B->public_identity()) + " " + observe();
        }
        if (!W) return "bad-op";
        if (op == "hs" && t.size() == 2) {
            const auto nB = W->B->generate_handshake_work(W->A->id());
            const auto nA = W->A->generate_handshake_work(W->B->id());
            const bool okA = nB && W->A->perform_handshake(W->B->id(), W->B->public_identity(), *nB);
            verif::vclock_advance(std::stoll(t[1]));
            const bool okB = nA && W->B->perform_handshake(W->A->id(), W->A->public_identity(), *nA);
            std::string secA = "-", secB = "-";
            if (auto it = W->A->key_manager_.contexts_.find(peer_id_to_string(W->B->id())); it != W->A->key_manager_.contexts_.end())
                secA = verif::to_hex(it->second.shared_secret.bytes);
            if (auto it = W->B->key_manager_.contexts_.find(peer_id_to_string(W->A->id())); it != W->B->key_manager_.contexts_.end())
                secB = verif::to_hex(it->second.shared_secret.bytes);
            if (okA && okB) plant_session();
            return std::string("hs=") + (okA ? "1" : "0") + (okB ? "1" : "0") + " sec=" + secA + "/" + secB + " " + observe();
        }
        if (op == "reg" && t.size() == 2) {
            const auto sb = verif::from_hex(t[1]);
            if (sb.size() != 32) return "bad-op";
            crypto::Key secret{};
            std::copy(sb.begin(), sb.end(), secret.bytes.begin());
            W->A->register_shared_secret(W->B->id(), secret);
            W->B->register_shared_secret(W->A->id(), secret);
            plant_session();
            return observe();
        }
        if (op == "adv" && t.size() == 2) {
            verif::vclock_advance(std::stoll(t[1]));
            return observe();
        }
        if (op == "tick" && t.size() == 2) {
            if (t[1] == "ab") {  // both nodes tick at one and the same clock reading; one observation afterwards
                W->A->tick();
                W->B->tick();
            } else {
                (t[1] == "a" ? *W->A : *W->B).tick();
            }
            return observe();
        }
        if (op == "rot" && t.size() == 2) {
            Node& n = t[1] == "a" ? *W->A : *W->B;
            Node& o = t[1] == "a" ? *W->B : *W->A;
            const auto r = n.rotate_session_key(o.id());
            return std::string("rot=") + (r ? "1 " : "0 ") + observe();
        }
        if (op == "msg" && t.size() == 2) {
            if (W->fdA < 0) return "bad-op";
            const std::string pre = t[1] == "ab" ? do_msg(*W->A, *W->B, W->fdB) : do_msg(*W->B, *W->A, W->fdA);
            return pre + observe();
        }
        return "bad-op";
    };
    const int rc = verif::run_lines(argc, argv, h);
    W.reset();
    return rc;
}
