// Harness for the TTL window (C02) and manifest-derived lifetimes (C03).
// Real Node (no listeners) under the virtual clock; src/core/Node.cpp is #included so that the
// anonymous-namespace functions (sanitize_*, clamp_chunk_ttl, enforce_manifest_ttl, manifest_ttl)
// can be called directly. The control-plane STORE path runs through the real
// ControlServer::Impl::handle_client over a socketpair (harness/ttl_ctl_h.cpp).
//
// Every case starts with (optionally `wall <offset_ns>` and then) a `cfg` line.
//   wall <ns>            wall clock = steady clock + <ns> for the rest of the case          -> ok
//   cfg <default> <min> <max> <rot> <amin> <burst> <awin> <apow> <hpow> <spow> [lim=<n>]
//                        construct the Node; durations in seconds (any int64)
//                        -> the same ten fields as sanitised by the Node (Node::config())
//   adv <ns>             -> ok
//   -- pure functions of Node.cpp's anonymous namespace
//   rot|smin|aint|awin <v>   sanitize_key_rotation_interval / _manifest_min / _announce_interval / _announce_window
//   smax <v> <min>           sanitize_manifest_max
//   clamp <ttl> <min> <max>  clamp_chunk_ttl                                                 -> <seconds>
//   enforce <ttl> <min> <max>   enforce_manifest_ttl                                         -> <seconds>|none
//   mttl <E_s>               manifest_ttl(manifest expiring at E_s, node config)             -> <seconds>|none
//   put <ttl>                ChunkStore::put on a scratch store with the node's config       -> recorded duration ns
//   -- C02
//   store <chunk> <ttl_s>    Node::store_chunk -> ck=<ns> mf=<ns> sh=<ns> an=<ns>  (recorded durations)
//   ctl <hdr>                control STORE with header TTL:<hdr> (`-` no header, `e` empty value)
//                            -> ok ck=.. mf=.. sh=.. an=..  |  rej:<CODE>
//   -- C03 (E_s = manifest expiry, absolute wall-clock seconds)
//   ingest <chunk> <E_s>                               Node::ingest_manifest
//   request <chunk> <E_s>                              Node::request_chunk (no route: only the ingest part has effect)
//   receive <chunk> <E_s> <good01>                     Node::receive_chunk with the genuine / a tampered replica
//   announce <chunk> <E_s> <peer> <ttl_s> <ep01> <asg01>   Node::handle_announce
//   obs <chunk>
//        -> r=<0|1|-> sh=<abs ns|-> ct=<peer:abs ns,..|-> ck=<abs ns|-> pf=<abs wall ns:attempts|-> mc=<E_s of the adopted (cached, unexpired) manifest|-> fp=<same|chg>
//           (announce appends  all=<chunk:abs wall ns:attempts,...|->  the whole pending-fetch table)
//           (sh/ct/ck: live records only, steady-clock deadlines; fp: did anything in the node's
//            chunk store, DHT, manifest cache, swarm plans or pending-fetch table change)
//   tick                     Node::tick -> pf=<chunk:abs wall ns:attempts,...|->
#include "common/lineproto.hpp"
#include "common/vclock.hpp"

#include "core/Node.cpp"  // the repository's src/core/Node.cpp

#include <algorithm>
#include <map>
#include <memory>
#include <set>

namespace ephemeralnet::test {
class NodeTestAccess {
public:
    static void handle_announce(Node& node, const protocol::AnnouncePayload& payload, const PeerId& sender, std::uint8_t version) {
        node.handle_announce(payload, sender, version);
    }
};
}  // namespace ephemeralnet::test

namespace vh {
std::string control_roundtrip(ephemeralnet::Node& node, const std::string& request);  // ttl_ctl_h.cpp
}

namespace vh {
using namespace ephemeralnet;
using std::chrono::seconds;

std::unique_ptr<Node> node;
std::map<std::string, std::string> names;  // hex id -> token
std::string last_fp;

struct Origin {
    protocol::Manifest manifest;
    ChunkData cipher;
};
std::unique_ptr<Node> origin_node;
std::map<std::string, Origin> origins;

PeerId self_id() { return verif::id32("s1"); }

std::array<std::uint8_t, 32> intern(const std::string& tok) {
    auto id = verif::id32(tok);
    names[verif::to_hex(id)] = tok;
    return id;
}
std::string name_of(const std::array<std::uint8_t, 32>& id) {
    if (id == self_id()) return "self";
    auto it = names.find(verif::to_hex(id));
    return it == names.end() ? verif::to_hex(id) : it->second;
}

std::int64_t steady_ns() { return std::chrono::steady_clock::now().time_since_epoch().count(); }
std::int64_t wall_ns() { return std::chrono::system_clock::now().time_since_epoch().count(); }

long long kv_get(const std::vector<std::string>& t, const std::string& k, long long dflt) {
    for (const auto& x : t) {
        if (x.rfind(k + "=", 0) == 0) return std::stoll(x.substr(k.size() + 1));
    }
    return dflt;
}

std::string cfg_line(const Config& c) {
    std::ostringstream o;
    o << c.default_chunk_ttl.count() << ' ' << c.min_manifest_ttl.count() << ' ' << c.max_manifest_ttl.count() << ' '
      << c.key_rotation_interval.count() << ' ' << c.announce_min_interval.count() << ' ' << c.announce_burst_limit << ' '
      << c.announce_burst_window.count() << ' ' << static_cast<unsigned>(c.announce_pow_difficulty) << ' '
      << static_cast<unsigned>(c.handshake_pow_difficulty) << ' ' << static_cast<unsigned>(c.store_pow_difficulty);
    return o.str();
}

Config base_config() {
    Config c{};
    c.identity_seed = 7u;
    c.nat_stun_enabled = false;
    c.relay_enabled = false;
    c.cleanup_interval = seconds(1);
    return c;
}

// ---- fingerprint of everything a manifest may legitimately touch -------------------------------
std::string fingerprint() {
    std::vector<std::string> items;
    for (const auto& e : node->chunk_store_.snapshot()) {
        items.push_back("ck|" + e.key + "|" + std::to_string(e.expires_at.time_since_epoch().count()) + "|" + std::to_string(e.size));
    }
    for (const auto& [k, r] : node->dht_.shard_table_) {
        items.push_back("sh|" + k + "|" + std::to_string(r.expires_at.time_since_epoch().count()) + "|" + std::to_string(r.shards.size()) +
                        "|" + std::to_string(r.threshold));
    }
    for (const auto& [k, loc] : node->dht_.table_) {
        std::vector<std::string> hs;
        for (const auto& h : loc.holders) {
            hs.push_back(verif::to_hex(h.id) + "@" + h.address + "@" + std::to_string(h.expires_at.time_since_epoch().count()));
        }
        std::sort(hs.begin(), hs.end());
        std::string s = "lc|" + k + "|" + std::to_string(loc.expires_at.time_since_epoch().count());
        for (const auto& h : hs) s += "|" + h;
        items.push_back(s);
    }
    std::size_t nb = 0;
    for (const auto& b : node->dht_.buckets_) {
        for (const auto& e : b) {
            ++nb;
            items.push_back("bk|" + verif::to_hex(e.id) + "|" + e.address + "|" + std::to_string(e.expires_at.time_since_epoch().count()));
        }
    }
    for (const auto& [k, m] : node->manifest_cache_) {
        items.push_back("mc|" + k + "|" + std::to_string(m.expires_at.time_since_epoch().count()) + "|" + std::to_string(m.shards.size()));
    }
    for (const auto& [k, p] : node->swarm_plans_) {
        items.push_back("sp|" + k + "|" + std::to_string(p.assignments.size()));
    }
    for (const auto& [k, p] : node->pending_chunk_fetches_) {
        items.push_back("pf|" + k + "|" + std::to_string(p.manifest_expires.time_since_epoch().count()) + "|" + std::to_string(p.attempts) +
                        "|" + std::to_string(p.next_attempt.time_since_epoch().count()) + "|" + verif::to_hex(p.peer_id));
    }
    std::sort(items.begin(), items.end());
    std::string out;
    for (const auto& s : items) { out += s; out += '\n'; }
    return out;
}

std::string fp_delta() {
    auto now = fingerprint();
    const bool same = now == last_fp;
    last_fp = std::move(now);
    return same ? "same" : "chg";
}

// ---- observations -----------------------------------------------------------------------------
std::string obs_records(const ChunkId& c) {
    const auto key = chunk_id_to_string(c);
    const auto now = std::chrono::steady_clock::now();
    std::string sh = "-", ct = "-", ck = "-", pf = "-";
    if (auto it = node->dht_.shard_table_.find(key); it != node->dht_.shard_table_.end() && it->second.expires_at > now) {
        sh = std::to_string(it->second.expires_at.time_since_epoch().count());
    }
    if (auto it = node->dht_.table_.find(key); it != node->dht_.table_.end()) {
        std::vector<std::pair<std::string, std::string>> hs;
        for (const auto& h : it->second.holders) {
            if (h.expires_at > now) hs.emplace_back(name_of(h.id), std::to_string(h.expires_at.time_since_epoch().count()));
        }
        std::stable_sort(hs.begin(), hs.end(), [](const auto& a, const auto& b) { return a.first < b.first; });
        if (!hs.empty()) {
            ct.clear();
            for (std::size_t i = 0; i < hs.size(); ++i) { if (i) ct += ","; ct += hs[i].first + ":" + hs[i].second; }
        }
    }
    for (const auto& e : node->chunk_store_.snapshot()) {
        if (e.id == c && e.expires_at > now) ck = std::to_string(e.expires_at.time_since_epoch().count());
    }
    if (auto it = node->pending_chunk_fetches_.find(key); it != node->pending_chunk_fetches_.end()) {
        pf = std::to_string(it->second.manifest_expires.time_since_epoch().count()) + ":" + std::to_string(it->second.attempts);
    }
    // the manifest the node currently has adopted for the chunk (cache entry, shown while unexpired): its expiry in seconds
    std::string mc = "-";
    if (auto it = node->manifest_cache_.find(key); it != node->manifest_cache_.end() && it->second.expires_at > std::chrono::system_clock::now()) {
        mc = std::to_string(std::chrono::duration_cast<seconds>(it->second.expires_at.time_since_epoch()).count());
    }
    return "sh=" + sh + " ct=" + ct + " ck=" + ck + " pf=" + pf + " mc=" + mc;
}

std::string obs_line(const std::string& r, const ChunkId& c) { return "r=" + r + " " + obs_records(c) + " fp=" + fp_delta(); }

std::string pending_list() {
    std::vector<std::string> items;
    for (const auto& [k, p] : node->pending_chunk_fetches_) {
        items.push_back(name_of(p.chunk_id) + ":" + std::to_string(p.manifest_expires.time_since_epoch().count()) + ":" + std::to_string(p.attempts));
    }
    if (items.empty()) return "pf=-";
    std::sort(items.begin(), items.end());
    std::string out = "pf=";
    for (std::size_t i = 0; i < items.size(); ++i) { if (i) out += ","; out += items[i]; }
    return out;
}

std::string store_durations(const ChunkId& c, const protocol::Manifest& m) {
    const auto key = chunk_id_to_string(c);
    const auto now = std::chrono::steady_clock::now();
    const auto wnow = std::chrono::system_clock::now();
    std::string ck = "-", sh = "-", an = "-";
    for (const auto& e : node->chunk_store_.snapshot()) {
        if (e.id == c) ck = std::to_string((e.expires_at - now).count());
    }
    if (auto it = node->dht_.shard_table_.find(key); it != node->dht_.shard_table_.end()) {
        sh = std::to_string((it->second.expires_at - now).count());
    }
    if (auto it = node->dht_.table_.find(key); it != node->dht_.table_.end()) {
        for (const auto& h : it->second.holders) {
            if (h.id == self_id()) an = std::to_string((h.expires_at - now).count());
        }
    }
    const auto mf = std::to_string(std::chrono::duration_cast<std::chrono::nanoseconds>(m.expires_at - wnow).count());
    return "ck=" + ck + " mf=" + mf + " sh=" + sh + " an=" + an;
}

ChunkData chunk_bytes(const std::string& tok) {
    ChunkData d{0x10, 0x20, 0x30};
    for (char ch : tok) d.push_back(static_cast<std::uint8_t>(ch));
    return d;
}

// the genuine manifest + replica ciphertext of a chunk, produced once by a separate origin node
const Origin& origin_of(const std::string& tok) {
    auto it = origins.find(tok);
    if (it != origins.end()) return it->second;
    if (!origin_node) {
        Config c = base_config();
        c.identity_seed = 11u;
        c.announce_pow_difficulty = 0;
        origin_node = std::make_unique<Node>(verif::id32("o1"), c);
    }
    const auto id = intern(tok);
    Origin o;
    o.manifest = origin_node->store_chunk(id, chunk_bytes(tok), seconds(3600));
    o.manifest.discovery_hints.clear();
    o.manifest.fallback_hints.clear();
    const auto rec = origin_node->export_chunk_record(id);
    if (rec.has_value()) o.cipher = rec->data;
    return origins.emplace(tok, std::move(o)).first->second;
}

std::string manifest_uri(const std::string& tok, long long expiry_s) {
    protocol::Manifest m = origin_of(tok).manifest;
    m.expires_at = std::chrono::system_clock::time_point{seconds(expiry_s)};
    return protocol::encode_manifest(m);
}

std::string opt_s(const std::optional<seconds>& v) { return v.has_value() ? std::to_string(v->count()) : std::string("none"); }

std::string do_op(const std::vector<std::string>& t) {
    const auto& op = t[0];
    if (op == "wall" && t.size() == 2) { verif::vclock_wall_offset_ns.store(std::stoll(t[1])); return "ok"; }
    if (op == "adv" && t.size() == 2) { verif::vclock_advance(std::stoll(t[1])); return "ok"; }
    if (op == "cfg" && t.size() >= 11) {
        Config c = base_config();
        c.default_chunk_ttl = seconds(std::stoll(t[1]));
        c.min_manifest_ttl = seconds(std::stoll(t[2]));
        c.max_manifest_ttl = seconds(std::stoll(t[3]));
        c.key_rotation_interval = seconds(std::stoll(t[4]));
        c.announce_min_interval = seconds(std::stoll(t[5]));
        c.announce_burst_limit = static_cast<std::size_t>(std::stoull(t[6]));
        c.announce_burst_window = seconds(std::stoll(t[7]));
        c.announce_pow_difficulty = static_cast<std::uint8_t>(std::stoul(t[8]));
        c.handshake_pow_difficulty = static_cast<std::uint8_t>(std::stoul(t[9]));
        c.store_pow_difficulty = static_cast<std::uint8_t>(std::stoul(t[10]));
        c.fetch_retry_attempt_limit = static_cast<std::uint8_t>(kv_get(t, "lim", 0));
        node.reset();
        node = std::make_unique<Node>(self_id(), c);
        last_fp = fingerprint();
        return cfg_line(node->config());
    }
    // pure functions ---------------------------------------------------------------------------
    if (op == "rot" && t.size() == 2) return std::to_string(sanitize_key_rotation_interval(seconds(std::stoll(t[1]))).count());
    if (op == "smin" && t.size() == 2) return std::to_string(sanitize_manifest_min(seconds(std::stoll(t[1]))).count());
    if (op == "smax" && t.size() == 3) return std::to_string(sanitize_manifest_max(seconds(std::stoll(t[1])), seconds(std::stoll(t[2]))).count());
    if (op == "aint" && t.size() == 2) return std::to_string(sanitize_announce_interval(seconds(std::stoll(t[1]))).count());
    if (op == "awin" && t.size() == 2) return std::to_string(sanitize_announce_window(seconds(std::stoll(t[1]))).count());
    if (op == "clamp" && t.size() == 4) {
        return std::to_string(clamp_chunk_ttl(seconds(std::stoll(t[1])), seconds(std::stoll(t[2])), seconds(std::stoll(t[3]))).count());
    }
    if (op == "enforce" && t.size() == 4) {
        return opt_s(enforce_manifest_ttl(seconds(std::stoll(t[1])), seconds(std::stoll(t[2])), seconds(std::stoll(t[3]))));
    }
    if (!node) return "no-node";
    if (op == "mttl" && t.size() == 2) {
        protocol::Manifest m{};
        m.expires_at = std::chrono::system_clock::time_point{seconds(std::stoll(t[1]))};
        return opt_s(manifest_ttl(m, node->config()));
    }
    if (op == "put" && t.size() == 2) {
        ChunkStore scratch(node->config());
        const auto id = verif::id32("z1");
        scratch.put(id, ChunkData{1, 2, 3}, seconds(std::stoll(t[1])), {}, false);
        for (const auto& e : scratch.snapshot()) {
            if (e.id == id) return std::to_string((e.expires_at - std::chrono::steady_clock::now()).count());
        }
        return "-";
    }
    // C02 --------------------------------------------------------------------------------------
    if (op == "store" && t.size() == 3) {
        const auto id = intern(t[1]);
        const auto m = node->store_chunk(id, chunk_bytes(t[1]), seconds(std::stoll(t[2])));
        return store_durations(id, m);
    }
    if (op == "ctl" && t.size() == 2) {
        node->config_.store_pow_difficulty = 0;  // proof-of-work is C28's business; the TTL check comes first anyway
        std::string req = "COMMAND:STORE\n";
        if (t[1] == "e") req += "TTL:\n";
        else if (t[1] != "-") req += "TTL:" + t[1] + "\n";
        req += "PAYLOAD-LENGTH:4\n\n";
        req += "\x01\x02\x03\x04";
        const auto resp = control_roundtrip(*node, req);
        std::map<std::string, std::string> fields;
        std::istringstream in(resp);
        std::string line, status;
        bool first = true;
        while (std::getline(in, line)) {
            if (line.empty()) break;
            const auto pos = line.find(':');
            if (pos == std::string::npos) continue;
            if (first) { status = line.substr(pos + 1); first = false; continue; }
            fields[line.substr(0, pos)] = line.substr(pos + 1);
        }
        if (status != "OK") return "rej:" + (fields.count("CODE") ? fields["CODE"] : std::string("?"));
        auto m = protocol::decode_manifest(fields["MANIFEST"]);
        // the wire format carries whole seconds; the lifetime under test is that of the manifest the node created
        if (auto it = node->manifest_cache_.find(chunk_id_to_string(m.chunk_id)); it != node->manifest_cache_.end()) m = it->second;
        return "ok " + store_durations(m.chunk_id, m);
    }
    // C03 --------------------------------------------------------------------------------------
    if (op == "obs" && t.size() == 2) return obs_line("-", intern(t[1]));
    if (op == "ingest" && t.size() == 3) {
        const auto id = intern(t[1]);
        const bool r = node->ingest_manifest(manifest_uri(t[1], std::stoll(t[2])));
        return obs_line(r ? "1" : "0", id);
    }
    if (op == "request" && t.size() == 3) {
        const auto id = intern(t[1]);
        (void)node->request_chunk(intern("p99"), "", 0, manifest_uri(t[1], std::stoll(t[2])));
        return obs_line("-", id);
    }
    if (op == "receive" && t.size() == 4) {
        const auto id = intern(t[1]);
        auto cipher = origin_of(t[1]).cipher;
        if (t[3] != "1" && !cipher.empty()) cipher[cipher.size() / 2] ^= 0x5a;
        const auto r = node->receive_chunk(manifest_uri(t[1], std::stoll(t[2])), std::move(cipher));
        return obs_line(r.has_value() ? "1" : "0", id);
    }
    if (op == "announce" && t.size() == 7) {
        const auto id = intern(t[1]);
        const auto sender = intern(t[3]);
        const auto& origin = origin_of(t[1]);
        protocol::AnnouncePayload p{};
        p.chunk_id = id;
        p.peer_id = sender;
        p.endpoint = t[5] == "1" ? "10.0.0.9:4000" : "";
        p.ttl = seconds(std::stoll(t[4]));
        p.manifest_uri = manifest_uri(t[1], std::stoll(t[2]));
        if (t[6] == "1" && !origin.manifest.shards.empty()) p.assigned_shards.push_back(origin.manifest.shards.front().index);
        const int before = node->reputation_.score(sender);
        test::NodeTestAccess::handle_announce(*node, p, sender, protocol::kCurrentMessageVersion);
        const int after = node->reputation_.score(sender);
        // an accepted announce runs the fetch scheduler over *all* pending entries: show them all
        return obs_line(after > before ? "1" : "0", id) + " all=" + pending_list().substr(3);
    }
    if (op == "tick") {
        node->tick();
        last_fp = fingerprint();
        return pending_list();
    }
    return "bad-op";
}
}  // namespace vh

int main(int argc, char** argv) {
    verif::Handler h;
    h.reset = [] {
        verif::vclock_set(verif::kVclockStart);
        verif::vclock_wall_offset_ns.store(1'700'000'000'000'000'000LL);
        vh::node.reset();
        vh::names.clear();
        vh::last_fp.clear();
    };
    h.op = [](const std::vector<std::string>& t, const std::string&) -> std::string { return vh::do_op(t); };
    return verif::run_lines(argc, argv, h);
}
