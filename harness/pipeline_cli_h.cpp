// Second translation unit of the C11 harness: the CLI (src/main.cpp) with its `main` renamed, so
// that the anonymous-namespace `decrypt_chunk_with_manifest` — what `eph fetch` runs on a chunk
// it received from a daemon — can be driven in-process on the real code.
#define main eph_cli_main
#include "src/main.cpp"
#undef main

#include "pipeline_cli_h.hpp"

namespace pipecli {

std::optional<ephemeralnet::ChunkData> decrypt(const ephemeralnet::protocol::Manifest& manifest,
                                               const std::vector<std::uint8_t>& data) {
    ephemeralnet::protocol::ChunkPayload payload{};
    payload.chunk_id = manifest.chunk_id;
    payload.data = data;
    return ::decrypt_chunk_with_manifest(manifest, payload);
}

}  // namespace pipecli
