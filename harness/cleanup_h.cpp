// Harness for C05 (a cleanup tick removes all expired state and reports each expiry once).
// A real Node without listeners under the virtual clock; every structure the property names is read
// through -fno-access-control and printed with expiries *relative to the current instant*.
//
// Every case starts with (optionally `wall <offset_ns>` and then) a `cfg` line.
//   wall <ns>                          wall clock = steady clock + <ns> for the rest of the case        -> ok
//   cfg <default_s> <min_s> <max_s> <cleanup_s> <rebalance_s>
//                                      construct the Node -> the five values as the Node sanitised them
//   adv <ns>                           -> ok
//   store <chunk> <ttl_s>              Node::store_chunk                    -> ok ck=<record lifetime ns>
//   ingest <chunk> <E_s> [o|s]         Node::ingest_manifest of a manifest of the chunk re-encoded with expiry E_s
//                                      (absolute wall-clock seconds)                        -> r=<0|1>
//                                      o (default): the manifest a remote publisher (a second Node) produced for the
//                                      id - its own key; same content as a local store for odd-numbered chunks,
//                                      different content for even-numbered ones; s: the manifest this node has cached
//                                      for the id (same key and content hash), o if it has none
//   announce <chunk> <E_s> <peer> <ttl_s> <asg01> [o|s]
//                                      Node::handle_announce (sender checks disabled: no PoW, no throttle)
//                                      -> r=<0|1> disp=<chunks dispatched by the fetch scheduler> pf=<pending fetches>
//   reannounce <chunk> <ttl_s>         Node::announce_chunk, only when the chunk is held and the new
//                                      announcement does not end before the record            -> ok | skip
//   lookup <chunk>                     Node::fetch_chunk (hit/miss is that of export_chunk_record)  -> hit | miss
//   probe <chunk>                      Node::count_known_providers                              -> n=<count>
//   tick                               Node::tick -> since=<ns since last cleanup> disp=.. <dump>
//   dump                               -> <dump>
//   drain                              Node::drain_cleanup_notifications, sorted               -> c1,c2 | -
//   audit                              Node::audit_ttl -> el=.. elc=.. ec=.. miss=.. orph=..   (sorted)
// <dump> = ck=<c:rel,..> lc=<c@rel{peer:rel;..},..> bk=<peer:rel,..> sh=<c:rel,..> mc=<c:relwall,..>
//          sp=<c:manifest relwall|none:next_rebalance rel,..> pf=<c:relwall,..>
//   rel = expires_at - steady now (ns), relwall = expires_at - wall now (ns); every list sorted by name, `-` if empty;
//   the node itself is printed as `self`.
#include "common/lineproto.hpp"
#include "common/vclock.hpp"

#include "ephemeralnet/core/Node.hpp"
#include "ephemeralnet/protocol/Manifest.hpp"
#include "ephemeralnet/protocol/Message.hpp"

#include <algorithm>
#include <map>
#include <memory>
#include <set>

namespace ephemeralnet::test {
class NodeTestAccess {
public:
    static void handle_announce(Node& node, const protocol::AnnouncePayload& payload, const PeerId& sender, std::uint8_t version) {
        node.handle_announce(payload, sender, version);
    }
    static void announce_chunk(Node& node, const ChunkId& id, std::chrono::seconds ttl) { node.announce_chunk(id, ttl); }
    static std::size_t count_known_providers(Node& node, const ChunkId& id) { return node.count_known_providers(id); }
};
}  // namespace ephemeralnet::test

namespace ch {
using namespace ephemeralnet;
using std::chrono::seconds;

std::unique_ptr<Node> node;
std::map<std::string, std::string> names;  // hex id -> token

struct Origin {
    protocol::Manifest manifest;
};
std::unique_ptr<Node> origin_node;
std::map<std::string, Origin> origins;

PeerId self_id() { return verif::id32("s1"); }

std::array<std::uint8_t, 32> intern(const std::string& tok) {
    auto id = verif::id32(tok);
    names[verif::to_hex(id)] = tok;
    return id;
}
std::string name_of_hex(const std::string& hex) {
    if (hex == verif::to_hex(self_id())) return "self";
    auto it = names.find(hex);
    return it == names.end() ? "?" + hex : it->second;
}
std::string name_of(const std::array<std::uint8_t, 32>& id) { return name_of_hex(verif::to_hex(id)); }

std::int64_t steady_ns() { return std::chrono::steady_clock::now().time_since_epoch().count(); }
std::int64_t wall_ns() {
    return std::chrono::duration_cast<std::chrono::nanoseconds>(std::chrono::system_clock::now().time_since_epoch()).count();
}
template <class TP> std::int64_t ns_of(const TP& tp) {
    return std::chrono::duration_cast<std::chrono::nanoseconds>(tp.time_since_epoch()).count();
}

std::string join(std::vector<std::string> v, char sep = ',') {
    if (v.empty()) return "-";
    std::sort(v.begin(), v.end());
    std::string out;
    for (std::size_t i = 0; i < v.size(); ++i) { if (i) out += sep; out += v[i]; }
    return out;
}

Config base_config() {
    Config c{};
    c.identity_seed = 7u;
    c.nat_stun_enabled = false;
    c.relay_enabled = false;
    c.storage_persistent_enabled = false;
    c.announce_pow_difficulty = 0;
    c.handshake_pow_difficulty = 0;
    c.store_pow_difficulty = 0;
    // fetch scheduler (C24's business): retry often, never give up, refresh availability on every pass
    c.fetch_retry_attempt_limit = 0;
    c.fetch_retry_initial_backoff = seconds(1);
    c.fetch_retry_max_backoff = seconds(2);
    c.fetch_max_parallel_requests = 0;
    c.fetch_availability_refresh = seconds(0);
    return c;
}

ChunkData chunk_bytes(const std::string& tok) {
    ChunkData d{0x10, 0x20, 0x30};
    for (char ch : tok) d.push_back(static_cast<std::uint8_t>(ch));
    return d;
}

// what the remote publisher stored under the id: the same bytes for odd-numbered chunks, other bytes for even ones
ChunkData origin_bytes(const std::string& tok) {
    ChunkData d = chunk_bytes(tok);
    const unsigned long n = tok.size() > 1 ? std::stoul(tok.substr(1)) : 0;
    if (n % 2 == 0) d.push_back(0x78);
    return d;
}

// the genuine manifest of a chunk as a remote publisher would have produced it
const Origin& origin_of(const std::string& tok) {
    auto it = origins.find(tok);
    if (it != origins.end()) return it->second;
    if (!origin_node) {
        Config c = base_config();
        c.identity_seed = 11u;
        origin_node = std::make_unique<Node>(verif::id32("o1"), c);
    }
    const auto id = intern(tok);
    Origin o;
    o.manifest = origin_node->store_chunk(id, origin_bytes(tok), seconds(3600));
    o.manifest.discovery_hints.clear();
    o.manifest.fallback_hints.clear();
    return origins.emplace(tok, std::move(o)).first->second;
}

std::string manifest_uri(const std::string& tok, long long expiry_s, const std::string& src = "o") {
    protocol::Manifest m = origin_of(tok).manifest;
    if (src == "s" && node) {
        const auto it = node->manifest_cache_.find(chunk_id_to_string(verif::id32(tok)));
        if (it != node->manifest_cache_.end()) m = it->second;
    }
    m.expires_at = std::chrono::system_clock::time_point{seconds(expiry_s)};
    return protocol::encode_manifest(m);
}

bool held(const ChunkId& id) { return node->export_chunk_record(id).has_value(); }

// ---- the dump -----------------------------------------------------------------------------------
std::string pending_list() {
    std::vector<std::string> items;
    const auto wnow = wall_ns();
    for (const auto& [k, p] : node->pending_chunk_fetches_) {
        items.push_back(name_of(p.chunk_id) + ":" + std::to_string(ns_of(p.manifest_expires) - wnow));
    }
    return join(items);
}

std::string dump() {
    const auto now = steady_ns();
    const auto wnow = wall_ns();
    std::vector<std::string> ck, lc, bk, sh, mc, sp;
    for (const auto& e : node->chunk_store_.snapshot()) {
        ck.push_back(name_of_hex(e.key) + ":" + std::to_string(ns_of(e.expires_at) - now));
    }
    for (const auto& [k, loc] : node->dht_.table_) {
        std::vector<std::string> hs;
        for (const auto& h : loc.holders) hs.push_back(name_of(h.id) + ":" + std::to_string(ns_of(h.expires_at) - now));
        lc.push_back(name_of_hex(k) + "@" + std::to_string(ns_of(loc.expires_at) - now) + "{" + join(hs, ';') + "}");
    }
    for (const auto& b : node->dht_.buckets_) {
        for (const auto& e : b) bk.push_back(name_of(e.id) + ":" + std::to_string(ns_of(e.expires_at) - now));
    }
    for (const auto& [k, r] : node->dht_.shard_table_) {
        sh.push_back(name_of_hex(k) + ":" + std::to_string(ns_of(r.expires_at) - now));
    }
    for (const auto& [k, m] : node->manifest_cache_) {
        mc.push_back(name_of_hex(k) + ":" + std::to_string(ns_of(m.expires_at) - wnow));
    }
    for (const auto& [k, p] : node->swarm_plans_) {
        std::string m = "none";
        if (auto it = node->manifest_cache_.find(k); it != node->manifest_cache_.end()) m = std::to_string(ns_of(it->second.expires_at) - wnow);
        sp.push_back(name_of_hex(k) + ":" + m + ":" + std::to_string(ns_of(p.next_rebalance) - now));
    }
    return "ck=" + join(ck) + " lc=" + join(lc) + " bk=" + join(bk) + " sh=" + join(sh) + " mc=" + join(mc) + " sp=" + join(sp) +
           " pf=" + pending_list();
}

// ---- which pending fetches did the scheduler dispatch during the current op? ----------------------
std::map<std::string, std::size_t> attempts_now() {
    std::map<std::string, std::size_t> m;
    for (const auto& [k, p] : node->pending_chunk_fetches_) m[k] = p.attempts;
    return m;
}
std::string dispatched(const std::map<std::string, std::size_t>& before, const std::string& rescheduled_key) {
    std::vector<std::string> out;
    const auto now = std::chrono::steady_clock::now();
    for (const auto& [k, p] : node->pending_chunk_fetches_) {
        bool d;
        if (k == rescheduled_key) {
            d = p.last_dispatch == now;  // schedule_assigned_fetch had reset it to the epoch
        } else {
            const auto it = before.find(k);
            d = it != before.end() && p.attempts > it->second;
        }
        if (d) out.push_back(name_of(p.chunk_id));
    }
    return join(out);
}

std::string names_of_keys(const std::vector<std::string>& keys) {
    std::vector<std::string> v;
    for (const auto& k : keys) {
        const auto pos = k.find('/');
        if (pos == std::string::npos) v.push_back(name_of_hex(k));
        else v.push_back(name_of_hex(k.substr(0, pos)) + "/" + name_of_hex(k.substr(pos + 1)));
    }
    return join(v);
}

std::string do_op(const std::vector<std::string>& t) {
    const auto& op = t[0];
    if (op == "wall" && t.size() == 2) { verif::vclock_wall_offset_ns.store(std::stoll(t[1])); return "ok"; }
    if (op == "adv" && t.size() == 2) { verif::vclock_advance(std::stoll(t[1])); return "ok"; }
    if (op == "cfg" && t.size() == 6) {
        Config c = base_config();
        c.default_chunk_ttl = seconds(std::stoll(t[1]));
        c.min_manifest_ttl = seconds(std::stoll(t[2]));
        c.max_manifest_ttl = seconds(std::stoll(t[3]));
        c.cleanup_interval = seconds(std::stoll(t[4]));
        c.swarm_rebalance_interval = seconds(std::stoll(t[5]));
        node.reset();
        node = std::make_unique<Node>(self_id(), c);
        // sender admission is C21's business: switch the throttle off (sanitize_config forces it on)
        node->config_.announce_min_interval = seconds(0);
        node->config_.announce_burst_limit = 0;
        node->config_.announce_burst_window = seconds(0);
        const auto& k = node->config();
        return std::to_string(k.default_chunk_ttl.count()) + " " + std::to_string(k.min_manifest_ttl.count()) + " " +
               std::to_string(k.max_manifest_ttl.count()) + " " + std::to_string(k.cleanup_interval.count()) + " " +
               std::to_string(k.swarm_rebalance_interval.count());
    }
    if (!node) return "no-node";
    if (op == "store" && t.size() == 3) {
        const auto id = intern(t[1]);
        node->store_chunk(id, chunk_bytes(t[1]), seconds(std::stoll(t[2])));
        std::string ck = "-";
        for (const auto& e : node->chunk_store_.snapshot()) {
            if (e.id == id) ck = std::to_string(ns_of(e.expires_at) - steady_ns());
        }
        return "ok ck=" + ck;
    }
    if (op == "ingest" && (t.size() == 3 || t.size() == 4)) {
        intern(t[1]);
        const bool r = node->ingest_manifest(manifest_uri(t[1], std::stoll(t[2]), t.size() == 4 ? t[3] : std::string("o")));
        return std::string("r=") + (r ? "1" : "0");
    }
    if (op == "announce" && (t.size() == 6 || t.size() == 7)) {
        const auto id = intern(t[1]);
        const auto sender = intern(t[3]);
        const auto& origin = origin_of(t[1]);
        protocol::AnnouncePayload p{};
        p.chunk_id = id;
        p.peer_id = sender;
        p.endpoint = "10.0.0.9:4000";
        p.ttl = seconds(std::stoll(t[4]));
        p.manifest_uri = manifest_uri(t[1], std::stoll(t[2]), t.size() == 7 ? t[6] : std::string("o"));
        const bool asg = t[5] == "1" && !origin.manifest.shards.empty();
        if (asg) p.assigned_shards.push_back(origin.manifest.shards.front().index);
        node->peer_announce_lockouts_.clear();
        node->peer_announce_failure_history_.clear();
        const bool was_held = held(id);
        const auto before = attempts_now();
        const int rep_before = node->reputation_.score(sender);
        test::NodeTestAccess::handle_announce(*node, p, sender, protocol::kCurrentMessageVersion);
        const bool accepted = node->reputation_.score(sender) > rep_before;
        std::string disp = "-";
        if (accepted && asg && !was_held) disp = dispatched(before, chunk_id_to_string(id));
        return std::string("r=") + (accepted ? "1" : "0") + " disp=" + disp + " pf=" + pending_list();
    }
    if (op == "reannounce" && t.size() == 3) {
        const auto id = intern(t[1]);
        const auto ttl = seconds(std::stoll(t[2]));
        const auto rec = node->export_chunk_record(id);
        if (!rec.has_value() || std::chrono::steady_clock::now() + ttl < rec->expires_at) return "skip";
        test::NodeTestAccess::announce_chunk(*node, id, ttl);
        return "ok";
    }
    if (op == "lookup" && t.size() == 2) {
        const auto id = intern(t[1]);
        const bool hit = held(id);
        (void)node->fetch_chunk(id);
        return hit ? "hit" : "miss";
    }
    if (op == "probe" && t.size() == 2) {
        const auto id = intern(t[1]);
        return "n=" + std::to_string(test::NodeTestAccess::count_known_providers(*node, id));
    }
    if (op == "tick") {
        const auto before = attempts_now();
        node->tick();
        const auto since = steady_ns() - ns_of(node->last_cleanup_);
        return "since=" + std::to_string(since) + " disp=" + dispatched(before, "") + " " + dump();
    }
    if (op == "dump") return dump();
    if (op == "drain") {
        std::vector<std::string> v;
        for (const auto& k : node->drain_cleanup_notifications()) v.push_back(name_of_hex(k));
        return join(v);
    }
    if (op == "audit") {
        const auto r = node->audit_ttl();
        return "el=" + names_of_keys(r.expired_local_chunks) + " elc=" + names_of_keys(r.expired_locator_chunks) +
               " ec=" + names_of_keys(r.expired_contacts) + " miss=" + names_of_keys(r.missing_announcements) +
               " orph=" + names_of_keys(r.orphan_announcements);
    }
    return "bad-op";
}
}  // namespace ch

int main(int argc, char** argv) {
    verif::Handler h;
    h.reset = [] {
        verif::vclock_set(verif::kVclockStart);
        verif::vclock_wall_offset_ns.store(1'700'000'000'000'000'000LL);
        ch::node.reset();
        ch::names.clear();
    };
    h.op = [](const std::vector<std::string>& t, const std::string&) -> std::string { return ch::do_op(t); };
    return verif::run_lines(argc, argv, h);
}
