// Harness for the two JSON string codecs of the repository (real code, in-process):
//
//   C37  StructuredLogger (built with -DLOGJSON_C37, linked with the virtual clock so the
//        "ts" field is deterministic)
//     esc <hex>                              -> hex of StructuredLogger::escape_json(bytes)
//     log <level 0|1|2> <event-hex> [<key-hex> <value-hex>]...
//                                            -> hex of everything the call wrote to std::clog
//
//   C38  update::parse_update_metadata (built with -DLOGJSON_C38)
//     meta <hex>                             -> result for that document
//     nest <pre> <open> <n> <mid> <close> <m> <post>   (all hex, n/m decimal)
//                                            -> result for  pre open^n mid close^m post
//     result line:  err                      (returned false; `err:nomsg` if the message is empty)
//                   ok version=<hex> tag=<hex> commit=<hex> channel=<hex> generated_at=<hex>
//                      notes=<hex|none> dl=<platform,url,arch,format,sha|none;...>
//     The document is copied into a heap block of exactly its size (ASan then sees a read one
//     past the end).  All ops run on one thread with an 8 MiB stack (the Linux default).
//
// Empty byte strings are printed as `-`.
#include "common/lineproto.hpp"

#include <cstring>
#include <memory>
#include <pthread.h>
#include <sstream>

#if defined(LOGJSON_C37)
#include "ephemeralnet/daemon/StructuredLogger.hpp"
#endif
#if defined(LOGJSON_C38)
#include "ephemeralnet/core/UpdateCheck.hpp"
#endif

namespace {

std::string hx(const std::string& s) { return verif::hex_or_dash(verif::to_hex(s)); }

std::string bytes_of(const std::string& tok) {
    auto v = verif::from_hex(tok);
    return std::string(v.begin(), v.end());
}

#if defined(LOGJSON_C37)
using ephemeralnet::daemon::StructuredLogger;

std::string op_c37(const std::vector<std::string>& t) {
    if (t[0] == "esc" && t.size() == 2) {
        return hx(StructuredLogger::escape_json(bytes_of(t[1])));
    }
    if (t[0] == "log" && t.size() >= 3 && (t.size() - 3) % 2 == 0) {
        const int lv = std::stoi(t[1]);
        const std::string event = bytes_of(t[2]);
        StructuredLogger::FieldList fields;
        for (std::size_t i = 3; i + 1 < t.size(); i += 2) {
            fields.emplace_back(bytes_of(t[i]), bytes_of(t[i + 1]));
        }
        std::ostringstream capture;
        std::streambuf* old = std::clog.rdbuf(capture.rdbuf());
        try {
            StructuredLogger::instance().log(static_cast<StructuredLogger::Level>(lv), event, std::move(fields));
        } catch (...) {
            std::clog.rdbuf(old);
            throw;
        }
        std::clog.rdbuf(old);
        return hx(capture.str());
    }
    return "bad-op";
}
#endif

#if defined(LOGJSON_C38)
namespace upd = ephemeralnet::update;

std::string render(const upd::Metadata& m) {
    std::string out = "ok version=" + hx(m.version) + " tag=" + hx(m.tag) + " commit=" + hx(m.commit) +
                      " channel=" + hx(m.channel) + " generated_at=" + hx(m.generated_at) +
                      " notes=" + (m.notes_url ? hx(*m.notes_url) : std::string("none")) + " dl=";
    for (std::size_t i = 0; i < m.downloads.size(); ++i) {
        const auto& d = m.downloads[i];
        if (i) out += ";";
        out += hx(d.platform) + "," + hx(d.url) + "," + hx(d.arch) + "," + hx(d.format) + "," +
               (d.sha256 ? hx(*d.sha256) : std::string("none"));
    }
    return out;
}

std::string parse_now(const char* data, std::size_t size) {
    try {
        upd::Metadata md;
        std::string error;
        const bool ok = upd::parse_update_metadata(std::string_view(data, size), md, error);
        if (ok) return render(md);
        return error.empty() ? "err:nomsg" : "err";
    } catch (const std::exception& ex) {
        return verif::exception_name(ex);   // the function promises not to throw
    }
}

std::string run_parse(const std::string& doc) {
    // exact-size heap block: no terminating NUL, no slack
    std::unique_ptr<char[]> block(new char[doc.size()]);
    if (!doc.empty()) std::memcpy(block.get(), doc.data(), doc.size());
    return parse_now(block.get(), doc.size());
}

std::string repeat(const std::string& s, std::size_t n) {
    std::string out;
    out.reserve(s.size() * n);
    for (std::size_t i = 0; i < n; ++i) out += s;
    return out;
}

std::string op_c38(const std::vector<std::string>& t) {
    if (t[0] == "meta" && t.size() == 2) {
        return run_parse(bytes_of(t[1]));
    }
    if (t[0] == "nest" && t.size() == 8) {
        const std::string doc = bytes_of(t[1]) + repeat(bytes_of(t[2]), std::stoull(t[3])) + bytes_of(t[4]) +
                                repeat(bytes_of(t[5]), std::stoull(t[6])) + bytes_of(t[7]);
        return run_parse(doc);
    }
    return "bad-op";
}
#endif

}  // namespace

int main(int argc, char** argv) {
    verif::Handler h;
    h.reset = [] {};
    h.op = [](const std::vector<std::string>& t, const std::string&) -> std::string {
#if defined(LOGJSON_C37)
        return op_c37(t);
#elif defined(LOGJSON_C38)
        return op_c38(t);
#else
        return "bad-op";
#endif
    };
    // Everything runs on one thread with an 8 MiB stack (the Linux default for the main thread
    // and for pthreads), so "does not overflow the stack" does not depend on the caller's ulimit.
    struct Args { int argc; char** argv; const verif::Handler* h; int rc; } args{argc, argv, &h, 0};
    pthread_attr_t attr;
    pthread_attr_init(&attr);
    pthread_attr_setstacksize(&attr, 8u << 20);
    pthread_t th;
    auto body = +[](void* p) -> void* {
        auto* a = static_cast<Args*>(p);
        a->rc = verif::run_lines(a->argc, a->argv, *a->h);
        return nullptr;
    };
    if (pthread_create(&th, &attr, body, &args) != 0) return 3;
    pthread_join(th, nullptr);
    return args.rc;
}
