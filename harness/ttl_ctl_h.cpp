// Second translation unit of harness/ttl_h.cpp: the repository's ControlServer.cpp is #included here
// (it cannot share a TU with Node.cpp: both have anonymous-namespace helpers of the same name) so that
// the real ControlServer::Impl::handle_client -- request parser, STORE handler with its TTL check --
// can be driven in-process over a socketpair, single-threaded.
#include "daemon/ControlServer.cpp"  // the repository's src/daemon/ControlServer.cpp

#include <sys/socket.h>
#include <unistd.h>

namespace vh {

std::string control_roundtrip(ephemeralnet::Node& node, const std::string& request) {
    std::mutex node_mutex;
    // a fresh Impl per request: empty rate-limit history, no listener thread
    ephemeralnet::daemon::ControlServer::Impl impl(node, node_mutex, [] {});
    int sv[2];
    if (::socketpair(AF_UNIX, SOCK_STREAM, 0, sv) != 0) return "STATUS:ERROR\nCODE:SOCKETPAIR\n\n";
    std::size_t off = 0;
    while (off < request.size()) {
        const auto n = ::send(sv[0], request.data() + off, request.size() - off, MSG_NOSIGNAL);
        if (n <= 0) break;
        off += static_cast<std::size_t>(n);
    }
    ::shutdown(sv[0], SHUT_WR);
    impl.handle_client(sv[1], "verif");
    ::close(sv[1]);
    std::string resp;
    char buf[4096];
    for (;;) {
        const auto n = ::recv(sv[0], buf, sizeof buf, 0);
        if (n <= 0) break;
        resp.append(buf, static_cast<std::size_t>(n));
    }
    ::close(sv[0]);
    return resp;
}

}  // namespace vh
