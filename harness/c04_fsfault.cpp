// File-system tracing and crash injection for the C04 harness build (linked into store_h).
//
// libstdc++'s file streams open files with fopen64(), write with write()/writev() on the
// descriptor and std::filesystem::remove() ends in unlink()/remove(): these entry points are
// interposed here (the executable's definitions win over libc's for calls made from
// libstdc++.so).  Only files below a storage directory (path contains "/sd-") are tracked.
//
// A *mutating event* is: fopen in a truncating/creating mode, a write to a tracked descriptor,
// an unlink/remove of a tracked path.  c04_trace_begin(op) resets the per-operation counters; if
// a crash point is armed (c04_arm(op, k), or the environment C04_CRASH_OP=<op index> and
// C04_CRASH_AT=<k>), the process _exit(77)s immediately *before* the k-th (0-based) mutating
// event of that operation: every file-system state a crash between two system calls can leave
// is reachable this way.
// c04_trace_end() returns "name:bytes_written:allzero,..." for the files removed during the
// operation (sorted), i.e. what was written to each file between its last open and its removal.
//
// I/O *errors* (c04_arm_fail(op, k, short)): every interposed call on a tracked file - fopen in any
// mode, write/writev of > 0 bytes, unlink/remove - has an index within the operation (the *call
// index*, counted separately from the mutating events).  The k-th call fails: fopen returns NULL
// (ENOSPC), unlink/remove return -1 (EACCES) without removing, a write gets min(short, n-1) bytes
// through (a short write) and from then on every write to that descriptor fails with ENOSPC until
// it is closed - what a full disk, a quota or RLIMIT_FSIZE do.
#undef _FILE_OFFSET_BITS   // both fopen and fopen64 are defined below: no asm renaming of one onto the other
#ifndef _GNU_SOURCE
#define _GNU_SOURCE
#endif
#include <dlfcn.h>
#include <errno.h>
#include <fcntl.h>
#include <stdarg.h>
#include <stdio.h>
#include <stdlib.h>
#include <string.h>
#include <sys/uio.h>
#include <unistd.h>

#include <algorithm>
#include <map>
#include <string>
#include <vector>

namespace {
struct FdInfo { std::string path; unsigned long long written = 0; bool allzero = true; };
struct PathInfo { unsigned long long written = 0; bool allzero = true; };

bool active = false;          // inside a traced operation
bool in_hook = false;         // re-entrancy guard
long crash_at = -1;
int crash_op = -1;
long fail_at = -1;            // call index that fails (armed by c04_arm_fail)
int fail_op = -1;
long fail_short = 0;
long calls = 0;               // call index within the operation
int failing_fd = -1;          // descriptor on which every further write fails
int cur_op = -1;
long events = 0;
std::map<int, FdInfo>* fds = nullptr;
std::map<std::string, PathInfo>* paths = nullptr;   // written since last open, by path
std::vector<std::string>* removed = nullptr;
std::map<std::string, bool>* opened_in_op = nullptr;   // paths opened since c04_trace_begin
std::string* last_trace = nullptr;

void init_once() {
    if (fds) return;
    fds = new std::map<int, FdInfo>();
    paths = new std::map<std::string, PathInfo>();
    removed = new std::vector<std::string>();
    opened_in_op = new std::map<std::string, bool>();
    last_trace = new std::string();
    if (const char* e = getenv("C04_CRASH_AT")) crash_at = atol(e);
    if (const char* e = getenv("C04_CRASH_OP")) crash_op = atoi(e);
}

bool tracked_path(const char* p) { return p && strstr(p, "/sd-") != nullptr; }

void mutating_event() {
    if (!active) return;
    if (crash_at >= 0 && cur_op == crash_op && events == crash_at) {
        _exit(77);
    }
    ++events;
}

// true iff this call (a new call index) is the one that has to fail
bool failing_call() {
    if (!active) return false;
    const bool hit = fail_at >= 0 && cur_op == fail_op && calls == fail_at;
    ++calls;
    return hit;
}

std::string label_of(const std::string& path) {
    const auto slash = path.find_last_of('/');
    return slash == std::string::npos ? path : path.substr(slash + 1);
}

template <class F> F real(const char* name) {
    return reinterpret_cast<F>(dlsym(RTLD_NEXT, name));
}

void note_write(int fd, const void* buf, size_t n) {
    auto it = fds->find(fd);
    if (it == fds->end()) return;
    it->second.written += n;
    const unsigned char* p = static_cast<const unsigned char*>(buf);
    for (size_t i = 0; i < n; ++i) if (p[i]) { it->second.allzero = false; break; }
    auto& pi = (*paths)[it->second.path];
    pi.written = it->second.written;
    pi.allzero = it->second.allzero;
}

FILE* do_fopen(const char* fn, const char* path, const char* mode) {
    init_once();
    using Fn = FILE* (*)(const char*, const char*);
    static Fn r64 = real<Fn>("fopen64");
    static Fn r = real<Fn>("fopen");
    Fn f = (strcmp(fn, "fopen64") == 0 && r64) ? r64 : r;
    if (in_hook || !tracked_path(path)) return f(path, mode);
    in_hook = true;
    if (failing_call()) {
        in_hook = false;
        errno = ENOSPC;
        return nullptr;
    }
    if (mode && (strchr(mode, 'w') || strchr(mode, 'a'))) mutating_event();
    FILE* fp = f(path, mode);
    if (fp) {
        FdInfo info;
        info.path = path;
        // the per-path byte count restarts when the file is created/truncated and at the first open of
        // an operation; a second wipe of the same file inside one operation keeps counting
        const bool fresh = (mode && strchr(mode, 'w')) || !opened_in_op->count(path);
        (*opened_in_op)[path] = true;
        if (!fresh) {
            const auto it = paths->find(path);
            if (it != paths->end()) { info.written = it->second.written; info.allzero = it->second.allzero; }
        }
        (*fds)[fileno(fp)] = info;
        if (fresh) (*paths)[path] = PathInfo{};
    }
    in_hook = false;
    return fp;
}
}  // namespace

extern "C" {

FILE* fopen64(const char* path, const char* mode) { return do_fopen("fopen64", path, mode); }
FILE* fopen(const char* path, const char* mode) { return do_fopen("fopen", path, mode); }

ssize_t write(int fd, const void* buf, size_t n) {
    using Fn = ssize_t (*)(int, const void*, size_t);
    static Fn r = real<Fn>("write");
    if (!fds || in_hook || fds->find(fd) == fds->end()) return r(fd, buf, n);
    if (fd == failing_fd) { errno = ENOSPC; return -1; }
    in_hook = true;
    if (n > 0 && failing_call()) {
        failing_fd = fd;
        size_t w = fail_short > 0 ? static_cast<size_t>(fail_short) : 0;
        if (w > n - 1) w = n - 1;
        if (w > 0) { mutating_event(); note_write(fd, buf, w); }
        in_hook = false;
        if (w == 0) { errno = ENOSPC; return -1; }
        return r(fd, buf, w);
    }
    if (n > 0) mutating_event();
    note_write(fd, buf, n);
    in_hook = false;
    return r(fd, buf, n);
}

ssize_t writev(int fd, const struct iovec* iov, int cnt) {
    using Fn = ssize_t (*)(int, const struct iovec*, int);
    static Fn r = real<Fn>("writev");
    if (!fds || in_hook || fds->find(fd) == fds->end()) return r(fd, iov, cnt);
    if (fd == failing_fd) { errno = ENOSPC; return -1; }
    in_hook = true;
    size_t total = 0;
    for (int i = 0; i < cnt; ++i) total += iov[i].iov_len;
    if (total > 0 && failing_call()) {
        failing_fd = fd;
        size_t w = fail_short > 0 ? static_cast<size_t>(fail_short) : 0;
        if (w > total - 1) w = total - 1;
        std::string part;
        for (int i = 0; i < cnt && part.size() < w; ++i) {
            const size_t take = std::min(w - part.size(), iov[i].iov_len);
            part.append(static_cast<const char*>(iov[i].iov_base), take);
        }
        if (w > 0) { mutating_event(); note_write(fd, part.data(), w); }
        in_hook = false;
        if (w == 0) { errno = ENOSPC; return -1; }
        using W = ssize_t (*)(int, const void*, size_t);
        static W rw = real<W>("write");
        return rw(fd, part.data(), w);
    }
    if (total > 0) mutating_event();
    for (int i = 0; i < cnt; ++i) note_write(fd, iov[i].iov_base, iov[i].iov_len);
    in_hook = false;
    return r(fd, iov, cnt);
}

// libstdc++ closes its streams with fclose(); glibc's fclose does not go through close@plt
int fclose(FILE* fp) {
    using Fn = int (*)(FILE*);
    static Fn r = real<Fn>("fclose");
    if (fp && fds && !in_hook) {
        const int fd = fileno(fp);
        fds->erase(fd);
        if (fd == failing_fd) failing_fd = -1;
    }
    return r(fp);
}

int close(int fd) {
    using Fn = int (*)(int);
    static Fn r = real<Fn>("close");
    if (fds && !in_hook) fds->erase(fd);
    if (fd == failing_fd) failing_fd = -1;
    return r(fd);
}

static void note_removed(const char* path) {
    auto it = paths->find(path);
    PathInfo pi = it == paths->end() ? PathInfo{} : it->second;
    removed->push_back(label_of(path) + ":" + std::to_string(pi.written) + ":" + (pi.allzero ? "1" : "0"));
    if (it != paths->end()) paths->erase(it);
}

int unlink(const char* path) {
    using Fn = int (*)(const char*);
    static Fn r = real<Fn>("unlink");
    init_once();
    if (in_hook || !tracked_path(path)) return r(path);
    in_hook = true;
    if (failing_call()) { in_hook = false; errno = EACCES; return -1; }
    mutating_event();
    if (active) note_removed(path);
    in_hook = false;
    return r(path);
}

int remove(const char* path) {
    using Fn = int (*)(const char*);
    static Fn r = real<Fn>("remove");
    init_once();
    if (in_hook || !tracked_path(path)) return r(path);
    in_hook = true;
    if (failing_call()) { in_hook = false; errno = EACCES; return -1; }
    mutating_event();
    if (active) note_removed(path);
    int rc = r(path);
    in_hook = false;
    return rc;
}

// arm the crash point from inside the process (used by the forked child of `crashat`)
void c04_arm(int op_index, long k) {
    init_once();
    crash_op = op_index;
    crash_at = k;
}

// make the k-th call of operation `op_index` fail (see the header comment)
void c04_arm_fail(int op_index, long k, long short_bytes) {
    init_once();
    fail_op = op_index;
    fail_at = k;
    fail_short = short_bytes;
}

void c04_trace_begin(int op_index) {
    init_once();
    active = true;
    cur_op = op_index;
    events = 0;
    calls = 0;
    opened_in_op->clear();
    failing_fd = -1;
    removed->clear();
}

// returns the removed-file trace of the operation; also leaves the event count in c04_last_events
long c04_last_events = 0;
long c04_last_calls = 0;
const char* c04_trace_end() {
    init_once();
    active = false;
    c04_last_events = events;
    c04_last_calls = calls;
    fail_at = -1;
    std::sort(removed->begin(), removed->end());
    last_trace->clear();
    for (size_t i = 0; i < removed->size(); ++i) { if (i) *last_trace += ","; *last_trace += (*removed)[i]; }
    removed->clear();
    return last_trace->c_str();
}

}  // extern "C"
