// Harness for C14 (transport sessions deliver exactly what was sent, within the size limit).
//
// Two real SessionManagers A and B in this process, connected over loopback TCP with the real
// connect / accept / transport-handshake path and their real reader threads; plus a raw TCP peer R
// that completes the handshake like a session would and then writes arbitrary bytes to A / reads
// what A writes.  Message handlers append (peer, payload summary) to a mutex-protected log.
//
// Quiescence is never guessed from timing: `drain` sends a marker frame down the same session and
// waits (bounded) until the marker shows up in the receiver's log — one TCP connection and one
// reader thread per session make everything sent before it visible by then; `rawclose` half-closes
// the raw socket and waits (bounded) until A's reader has seen EOF and left its loop.
//
// Ops (one output line each):
//   open <key hex32>                       A listens, B connects (handshake, no ack), both sessions up; SO_RCVTIMEO (ms) of the
//                                          accepted (A) and the connecting (B) session socket          -> ok rcvto=<a>/<b> | fail:<why>
//   idle <ms>                              real-time pause without traffic                              -> ok
//   send <ab|ba> <len> <seed>              SessionManager::send of gen_payload(len, seed)              -> sent | refused
//   burst <ab|ba> <count> <seed> <maxlen>  count sends, i-th payload gen_payload(burst_len(seed,i,maxlen), seed*1000003+i)
//                                                                                                      -> sent=<k>
//   drain <ab|ba>                          marker + wait; handler log since the previous drain         -> n=<k> <item>,<item>… | timeout …
//   rekey <key hex32>                      wait until both readers are idle, then register_peer_key(new key) for the live A<->B session
//                                          at both ends (the raw peer's session keeps the handshake key)               -> ok | timeout
//   csend <ab|ba> <threads> <count> <len> <seed> <sndbuf>
//                                          <threads> threads call SessionManager::send for the same peer at the same time, <count>
//                                          payloads of <len> bytes each (payload i of thread t = gen_payload(len, seed*1000003+t*1009+i));
//                                          sndbuf > 0: SO_SNDBUF of the sending session's socket is set first   -> sent=<ok t0>/<ok t1>/…
//   cdrain <ab|ba> <ms>                    marker + wait (at most <ms>); arrivals since the last drain by sender thread
//                                                                                -> [timeout |marker-refused ]n=<k> t0=<i,i,…|-> … unknown=<u>
//   rawopen                                R connects to A, sends its id and a TransportHandshake      -> ok rcvto=<ms> | fail:<why>
//   rawframe <nonce hex12> <declared|auto> <len> <seed> <chunk>
//                                          R writes nonce ‖ be32(declared) ‖ ChaCha20(key, nonce, 0, gen_payload(len, seed))
//                                          in pieces of <chunk> bytes (0 = one write)                  -> ok
//   rawbytes <hex> <chunk>                 R writes these bytes                                         -> ok
//   rawended <ms>                          has A closed R's connection (wait at most <ms>)              -> ended | open
//   rawclose                               R half-closes; wait for A's reader to leave; R's log         -> n=<k> <item>,…
//   rawrecv <len> <seed>                   A sends to R; R reads the frame off the wire                 -> refused | nonce=<hex> len=<hex> ct=<item>
// item: `-` empty, hex up to 32 bytes, else `<len>:<first 8 bytes of sha256, hex>`.
#include "ephemeralnet/Types.hpp"
#include "ephemeralnet/crypto/ChaCha20.hpp"
#include "ephemeralnet/crypto/Sha256.hpp"
#include "ephemeralnet/network/SessionManager.hpp"
#include "ephemeralnet/protocol/Message.hpp"

#include "common/lineproto.hpp"

#include <arpa/inet.h>
#include <netinet/in.h>
#include <netinet/tcp.h>
#include <poll.h>
#include <signal.h>
#include <sys/socket.h>
#include <unistd.h>

#include <atomic>
#include <chrono>
#include <condition_variable>
#include <map>
#include <memory>
#include <mutex>
#include <thread>

using namespace ephemeralnet;
using Clock = std::chrono::steady_clock;

namespace {

std::vector<std::uint8_t> gen_payload(std::size_t n, std::uint64_t seed) {
    std::vector<std::uint8_t> out(n);
    std::uint64_t x = seed;
    for (std::size_t i = 0; i < n; ++i) {
        x = x * 6364136223846793005ULL + 1442695040888963407ULL;
        out[i] = static_cast<std::uint8_t>(x >> 56);
    }
    return out;
}

std::size_t burst_len(std::uint64_t seed, std::uint64_t i, std::uint64_t max_len) {
    // unbounded-Nat arithmetic in the driver: keep every product far below 2^64
    return static_cast<std::size_t>(((seed + 1) * 2654435761ULL + i * 40503ULL + i * i * 7ULL) % (max_len + 1));
}

std::string item(const std::vector<std::uint8_t>& b) {
    if (b.empty()) return "-";
    if (b.size() <= 32) return verif::to_hex(b);
    const auto d = crypto::Sha256::digest(std::span<const std::uint8_t>(b.data(), b.size()));
    return std::to_string(b.size()) + ":" + verif::to_hex(d.data(), 8);
}

struct Log {
    std::mutex m;
    std::condition_variable cv;
    std::map<std::string, std::vector<std::vector<std::uint8_t>>> by_peer;  // sender id string -> payloads

    void add(const PeerId& from, std::vector<std::uint8_t> payload) {
        {
            std::lock_guard<std::mutex> l(m);
            by_peer[peer_id_to_string(from)].push_back(std::move(payload));
        }
        cv.notify_all();
    }
};

std::string fmt_log(const std::vector<std::vector<std::uint8_t>>& items) {
    std::string s = "n=" + std::to_string(items.size()) + " ";
    if (items.empty()) return s + "-";
    for (std::size_t i = 0; i < items.size(); ++i) {
        if (i) s += ",";
        s += item(items[i]);
    }
    return s;
}

struct World {
    PeerId idA = verif::id32("a1");
    PeerId idB = verif::id32("b1");
    PeerId idR = verif::id32("r1");
    std::array<std::uint8_t, 32> key{};
    Log logA;  // what A's handler received
    Log logB;  // what B's handler received
    std::unique_ptr<network::SessionManager> A;
    std::unique_ptr<network::SessionManager> B;
    int raw = -1;
    std::uint32_t markers = 0;
    // every Session ever seen in A's / B's tables: SessionManager::stop() gives a reader thread 2 s to
    // leave and then lets the manager be destroyed under it; on a loaded machine that is not enough,
    // so the harness itself waits for `alive == false` before the managers go away.
    std::vector<std::shared_ptr<network::SessionManager::Session>> tracked;

    void track(network::SessionManager& m) {
        std::scoped_lock lock(m.sessions_mutex_);
        for (auto& [_, s] : m.sessions_) {
            if (s && std::find(tracked.begin(), tracked.end(), s) == tracked.end()) tracked.push_back(s);
        }
    }

    ~World() {
        if (raw >= 0) ::close(raw);
        if (A) track(*A);
        if (B) track(*B);
        // managers first (joins accept thread, signals the reader threads), logs outlive them
        if (B) B->stop();
        if (A) A->stop();
        const auto deadline = Clock::now() + std::chrono::seconds(60);
        for (auto& s : tracked) {
            while (s->alive.load() && Clock::now() < deadline) std::this_thread::sleep_for(std::chrono::milliseconds(1));
        }
        B.reset();
        A.reset();
    }
};

std::unique_ptr<World> W;

template <class F> bool wait_until(F f, int ms) {
    const auto deadline = Clock::now() + std::chrono::milliseconds(ms);
    while (!f()) {
        if (Clock::now() >= deadline) return f();
        std::this_thread::sleep_for(std::chrono::milliseconds(1));
    }
    return true;
}

bool write_all(int fd, const std::uint8_t* p, std::size_t n) {
    std::size_t off = 0;
    while (off < n) {
        const auto r = ::send(fd, p + off, n - off, MSG_NOSIGNAL);
        if (r <= 0) return false;
        off += static_cast<std::size_t>(r);
    }
    return true;
}

// write in pieces of `chunk` bytes (0 = one write); a short pause between pieces lets the reader's recv
// return short counts.  The result is deliberately not reported: whether a write after the peer closed
// fails is a matter of timing.
void write_chunked(int fd, const std::vector<std::uint8_t>& bytes, std::size_t chunk) {
    if (chunk == 0 || chunk >= bytes.size()) {
        write_all(fd, bytes.data(), bytes.size());
        return;
    }
    const std::size_t pieces = (bytes.size() + chunk - 1) / chunk;
    for (std::size_t off = 0; off < bytes.size(); off += chunk) {
        const std::size_t n = std::min(chunk, bytes.size() - off);
        if (!write_all(fd, bytes.data() + off, n)) return;
        if (pieces <= 256) std::this_thread::sleep_for(std::chrono::microseconds(300));
    }
}

bool read_exact(int fd, std::uint8_t* p, std::size_t n, int timeout_ms) {
    const auto deadline = Clock::now() + std::chrono::milliseconds(timeout_ms);
    std::size_t off = 0;
    while (off < n) {
        const auto left = std::chrono::duration_cast<std::chrono::milliseconds>(deadline - Clock::now()).count();
        if (left <= 0) return false;
        pollfd pfd{fd, POLLIN, 0};
        const int pr = ::poll(&pfd, 1, static_cast<int>(left));
        if (pr <= 0) continue;
        const auto r = ::recv(fd, p + off, n - off, 0);
        if (r <= 0) return false;
        off += static_cast<std::size_t>(r);
    }
    return true;
}

// SO_RCVTIMEO (ms) of the socket of `m`'s session with `peer`; -1 if there is no such session
long recv_timeout_ms(network::SessionManager& m, const PeerId& peer) {
    std::shared_ptr<network::SessionManager::Session> sess;
    {
        std::scoped_lock lock(m.sessions_mutex_);
        const auto it = m.sessions_.find(peer_id_to_string(peer));
        if (it != m.sessions_.end()) sess = it->second;
    }
    if (!sess) return -1;
    timeval tv{};
    socklen_t len = sizeof(tv);
    if (::getsockopt(static_cast<int>(sess->socket), SOL_SOCKET, SO_RCVTIMEO, &tv, &len) != 0) return -1;
    return static_cast<long>(tv.tv_sec) * 1000 + static_cast<long>(tv.tv_usec) / 1000;
}

std::string do_open(const std::string& key_hex) {
    W = std::make_unique<World>();
    const auto kb = verif::from_hex(key_hex);
    if (kb.size() != 32) return "bad-op";
    std::copy(kb.begin(), kb.end(), W->key.begin());
    W->A = std::make_unique<network::SessionManager>(W->idA);
    W->B = std::make_unique<network::SessionManager>(W->idB);
    World* w = W.get();
    W->A->set_message_handler([w](const network::TransportMessage& m) { w->logA.add(m.peer_id, m.payload); });
    W->B->set_message_handler([w](const network::TransportMessage& m) { w->logB.add(m.peer_id, m.payload); });
    auto accept_all = [w](const PeerId&, const protocol::TransportHandshakePayload&)
        -> std::optional<network::SessionManager::HandshakeAcceptance> {
        network::SessionManager::HandshakeAcceptance acc{};
        acc.accepted = true;
        acc.session_key = w->key;
        return acc;  // empty ack payload: nothing is written back during the handshake
    };
    W->A->set_handshake_handler(accept_all);
    W->B->set_handshake_handler(accept_all);
    W->A->start(0);
    W->B->start(0);
    W->B->register_peer_key(W->idA, W->key);
    network::SessionManager::OutboundHandshake hs{};
    hs.payload.public_identity = 5;
    hs.payload.work_nonce = 0;
    hs.session_key = W->key;
    hs.expect_ack = false;
    if (!W->B->connect(W->idA, "127.0.0.1", W->A->listening_port(), &hs)) return "fail:connect";
    if (!wait_until([&] { return W->A->is_connected(W->idB) && W->B->is_connected(W->idA); }, 5000)) return "fail:session";
    W->track(*W->A);
    W->track(*W->B);
    // an established session must not carry the handshake's receive timeout: A accepted, B connected
    return "ok rcvto=" + std::to_string(recv_timeout_ms(*W->A, W->idB)) + "/" + std::to_string(recv_timeout_ms(*W->B, W->idA));
}

network::SessionManager* sender_of(const std::string& dir) {
    if (!W) return nullptr;
    if (dir == "ab") return W->A.get();
    if (dir == "ba") return W->B.get();
    return nullptr;
}

// marker frame down the session, wait (bounded) for it in the receiver's log; the entries before it
std::vector<std::vector<std::uint8_t>> collect(const std::string& dir, int timeout_ms, std::string& status) {
    auto* from = sender_of(dir);
    Log& log = dir == "ab" ? W->logB : W->logA;
    const PeerId& to = dir == "ab" ? W->idB : W->idA;
    const std::string src = peer_id_to_string(dir == "ab" ? W->idA : W->idB);
    std::vector<std::uint8_t> marker = {'V', 'E', 'R', 'I', 'F', '-', 'D', 'R', 'A', 'I', 'N', '-'};
    const std::uint32_t c = ++W->markers;
    for (int s = 24; s >= 0; s -= 8) marker.push_back(static_cast<std::uint8_t>(c >> s));
    const bool marker_sent = from->send(to, marker);
    std::unique_lock<std::mutex> l(log.m);
    auto has_marker = [&] {
        const auto& v = log.by_peer[src];
        return std::find(v.begin(), v.end(), marker) != v.end();
    };
    const bool seen = marker_sent && log.cv.wait_for(l, std::chrono::milliseconds(timeout_ms), has_marker);
    auto& v = log.by_peer[src];
    std::vector<std::vector<std::uint8_t>> out;
    if (seen) {
        const auto it = std::find(v.begin(), v.end(), marker);
        out.assign(v.begin(), it);
        v.erase(v.begin(), it + 1);
        status = "";
        return out;
    }
    out = v;
    v.clear();
    status = marker_sent ? "timeout " : "marker-refused ";
    return out;
}

// wait until everything sent so far in this direction has been handled by the peer's reader thread (which is then back
// at the top of its loop, waiting for the next nonce); unlike `drain` the log keeps its entries, only the marker goes
bool quiesce(const std::string& dir, int timeout_ms) {
    auto* from = sender_of(dir);
    Log& log = dir == "ab" ? W->logB : W->logA;
    const PeerId& to = dir == "ab" ? W->idB : W->idA;
    const std::string src = peer_id_to_string(dir == "ab" ? W->idA : W->idB);
    std::vector<std::uint8_t> marker = {'V', 'E', 'R', 'I', 'F', '-', 'D', 'R', 'A', 'I', 'N', '-'};
    const std::uint32_t c = ++W->markers;
    for (int s = 24; s >= 0; s -= 8) marker.push_back(static_cast<std::uint8_t>(c >> s));
    if (!from->send(to, marker)) return false;
    std::unique_lock<std::mutex> l(log.m);
    auto& v = log.by_peer[src];
    const bool seen = log.cv.wait_for(l, std::chrono::milliseconds(timeout_ms),
                                      [&] { return std::find(v.begin(), v.end(), marker) != v.end(); });
    if (seen) v.erase(std::find(v.begin(), v.end(), marker));
    return seen;
}

// key rotation on the live A <-> B session: SessionManager::register_peer_key at both ends, while both reader threads are
// idle at a frame boundary (a frame in flight across a key replacement is a race the property does not cover)
std::string do_rekey(const std::string& key_hex) {
    const auto kb = verif::from_hex(key_hex);
    if (kb.size() != 32) return "bad-op";
    if (!quiesce("ab", 30000) || !quiesce("ba", 30000)) return "timeout";
    // the handler returns before receive_loop goes round: give the readers a moment to reach the next recv
    std::this_thread::sleep_for(std::chrono::milliseconds(2));
    std::array<std::uint8_t, 32> k{};
    std::copy(kb.begin(), kb.end(), k.begin());
    W->A->register_peer_key(W->idB, k);
    W->B->register_peer_key(W->idA, k);
    return "ok";
}

std::string do_drain(const std::string& dir) {
    if (!sender_of(dir)) return "bad-op";
    std::string status;
    const auto out = collect(dir, 30000, status);
    return status + fmt_log(out);
}

// payload i of sender thread t of a `csend`
std::vector<std::uint8_t> cpayload(std::size_t len, std::uint64_t seed, std::uint64_t t, std::uint64_t i) {
    return gen_payload(len, seed * 1000003ULL + t * 1009ULL + i);
}

struct CSend {
    std::size_t threads = 0, count = 0, len = 0;
    std::uint64_t seed = 0;
};
std::map<std::string, CSend> last_csend;  // per direction

// N threads call SessionManager::send for the same peer at the same time
std::string do_csend(const std::string& dir, std::size_t threads, std::size_t count, std::size_t len, std::uint64_t seed, int sndbuf) {
    auto* from = sender_of(dir);
    if (!from || threads == 0 || threads > 16) return "bad-op";
    const PeerId to = dir == "ab" ? W->idB : W->idA;
    if (sndbuf > 0) {
        // a small socket send buffer (ordinary socket configuration) makes the kernel take the frame in several pieces
        std::shared_ptr<network::SessionManager::Session> sess;
        {
            std::scoped_lock lock(from->sessions_mutex_);
            const auto it = from->sessions_.find(peer_id_to_string(to));
            if (it != from->sessions_.end()) sess = it->second;
        }
        if (sess) {
            int v = sndbuf;
            ::setsockopt(static_cast<int>(sess->socket), SOL_SOCKET, SO_SNDBUF, &v, sizeof(v));
        }
    }
    std::vector<std::vector<std::vector<std::uint8_t>>> payloads(threads);
    for (std::size_t t = 0; t < threads; ++t)
        for (std::size_t i = 0; i < count; ++i) payloads[t].push_back(cpayload(len, seed, t, i));
    std::vector<std::size_t> ok(threads, 0);
    std::atomic<std::size_t> ready{0};
    std::atomic<bool> go{false};
    std::vector<std::thread> pool;
    for (std::size_t t = 0; t < threads; ++t) {
        pool.emplace_back([&, t] {
            ready.fetch_add(1);
            while (!go.load()) std::this_thread::yield();
            for (std::size_t i = 0; i < count; ++i) {
                if (from->send(to, payloads[t][i])) ++ok[t];
            }
        });
    }
    while (ready.load() < threads) std::this_thread::yield();
    go.store(true);
    for (auto& th : pool) th.join();
    last_csend[dir] = CSend{threads, count, len, seed};
    std::string out = "sent=";
    for (std::size_t t = 0; t < threads; ++t) out += (t ? "/" : "") + std::to_string(ok[t]);
    return out;
}

// what arrived since the last drain, classified by sender thread: `n=<k> t0=<indices in arrival order> … unknown=<u>`
std::string do_cdrain(const std::string& dir, int timeout_ms) {
    if (!sender_of(dir) || !last_csend.count(dir)) return "bad-op";
    const CSend cs = last_csend[dir];
    std::string status;
    const auto got = collect(dir, timeout_ms, status);
    std::map<std::vector<std::uint8_t>, std::pair<std::size_t, std::size_t>> index;
    for (std::size_t t = 0; t < cs.threads; ++t)
        for (std::size_t i = 0; i < cs.count; ++i) index[cpayload(cs.len, cs.seed, t, i)] = {t, i};
    std::vector<std::string> seq(cs.threads);
    std::size_t unknown = 0;
    for (const auto& p : got) {
        const auto it = index.find(p);
        if (it == index.end()) { ++unknown; continue; }
        auto& s = seq[it->second.first];
        s += (s.empty() ? "" : ",") + std::to_string(it->second.second);
    }
    std::string out = status + "n=" + std::to_string(got.size());
    for (std::size_t t = 0; t < cs.threads; ++t) out += " t" + std::to_string(t) + "=" + (seq[t].empty() ? "-" : seq[t]);
    return out + " unknown=" + std::to_string(unknown);
}

std::string do_rawopen() {
    if (!W) return "bad-op";
    if (W->raw >= 0) { ::close(W->raw); W->raw = -1; }
    const int fd = ::socket(AF_INET, SOCK_STREAM, IPPROTO_TCP);
    if (fd < 0) return "fail:socket";
    int one = 1;
    ::setsockopt(fd, IPPROTO_TCP, TCP_NODELAY, &one, sizeof(one));
    sockaddr_in addr{};
    addr.sin_family = AF_INET;
    addr.sin_addr.s_addr = htonl(INADDR_LOOPBACK);
    addr.sin_port = htons(W->A->listening_port());
    if (::connect(fd, reinterpret_cast<sockaddr*>(&addr), sizeof(addr)) < 0) { ::close(fd); return "fail:connect"; }
    protocol::Message msg{};
    msg.version = protocol::kCurrentMessageVersion;
    msg.type = protocol::MessageType::TransportHandshake;
    protocol::TransportHandshakePayload p{};
    p.public_identity = 7;
    p.work_nonce = 0;
    msg.payload = p;
    const auto enc = protocol::encode(msg);
    std::vector<std::uint8_t> hello(W->idR.begin(), W->idR.end());
    const auto n = static_cast<std::uint32_t>(enc.size());
    for (int s = 24; s >= 0; s -= 8) hello.push_back(static_cast<std::uint8_t>(n >> s));
    hello.insert(hello.end(), enc.begin(), enc.end());
    if (!write_all(fd, hello.data(), hello.size())) { ::close(fd); return "fail:hello"; }
    W->raw = fd;
    if (!wait_until([&] { return W->A->is_connected(W->idR); }, 5000)) return "fail:session";
    W->track(*W->A);
    return "ok rcvto=" + std::to_string(recv_timeout_ms(*W->A, W->idR));
}

std::string do_rawended(int ms) {
    if (!W || W->raw < 0) return "bad-op";
    const auto deadline = Clock::now() + std::chrono::milliseconds(ms);
    for (;;) {
        pollfd pfd{W->raw, POLLIN | POLLRDHUP, 0};
        const auto left = std::chrono::duration_cast<std::chrono::milliseconds>(deadline - Clock::now()).count();
        const int pr = ::poll(&pfd, 1, static_cast<int>(std::max<long long>(0, left)));
        if (pr > 0) {
            std::uint8_t b;
            const auto r = ::recv(W->raw, &b, 1, MSG_PEEK | MSG_DONTWAIT);
            if (r == 0) return "ended";
            if (r < 0 && errno != EAGAIN && errno != EWOULDBLOCK && errno != EINTR) return "ended";
            if (r > 0) std::this_thread::sleep_for(std::chrono::milliseconds(1));  // unread data from A: not an end
        }
        if (Clock::now() >= deadline) return "open";
    }
}

std::string take_raw_log() {
    std::lock_guard<std::mutex> l(W->logA.m);
    auto& v = W->logA.by_peer[peer_id_to_string(W->idR)];
    auto out = v;
    v.clear();
    return fmt_log(out);
}

std::string do_rawclose() {
    if (!W || W->raw < 0) return "bad-op";
    ::shutdown(W->raw, SHUT_WR);
    const bool gone = wait_until([&] { return !W->A->is_connected(W->idR); }, 30000);
    const auto out = take_raw_log();
    ::close(W->raw);
    W->raw = -1;
    return (gone ? "" : "timeout ") + out;
}

std::string do_rawrecv(std::size_t len, std::uint64_t seed) {
    if (!W || W->raw < 0) return "bad-op";
    const auto payload = gen_payload(len, seed);
    if (!W->A->send(W->idR, payload)) return "refused";
    std::vector<std::uint8_t> frame(16 + len);
    if (!read_exact(W->raw, frame.data(), frame.size(), 30000)) return "short-read";
    // anything beyond the expected frame size?
    std::size_t extra = 0;
    for (;;) {
        pollfd pfd{W->raw, POLLIN, 0};
        if (::poll(&pfd, 1, 20) <= 0) break;
        std::uint8_t buf[4096];
        const auto r = ::recv(W->raw, buf, sizeof(buf), MSG_DONTWAIT);
        if (r <= 0) break;
        extra += static_cast<std::size_t>(r);
    }
    std::vector<std::uint8_t> ct(frame.begin() + 16, frame.end());
    std::string out = "nonce=" + verif::to_hex(frame.data(), 12) + " len=" + verif::to_hex(frame.data() + 12, 4) + " ct=" + item(ct);
    if (extra) out += " extra=" + std::to_string(extra);
    return out;
}

}  // namespace

int main(int argc, char** argv) {
    ::signal(SIGPIPE, SIG_IGN);
    std::ios::sync_with_stdio(false);  // run_lines does this too; doing it first keeps the failbit below
    if (!std::getenv("VERIF_TRANSPORT_LOG")) std::cerr.setstate(std::ios_base::failbit);  // SessionManager narrates every frame
    verif::Handler h;
    h.reset = [] { W.reset(); last_csend.clear(); };
    h.op = [](const std::vector<std::string>& t, const std::string&) -> std::string {
        const auto& op = t[0];
        if (op == "open" && t.size() == 2) {
            W.reset();
            return do_open(t[1]);
        }
        if (!W) return "bad-op";
        if (op == "send" && t.size() == 4) {
            auto* from = sender_of(t[1]);
            if (!from) return "bad-op";
            const auto payload = gen_payload(std::stoull(t[2]), std::stoull(t[3]));
            return from->send(t[1] == "ab" ? W->idB : W->idA, payload) ? "sent" : "refused";
        }
        if (op == "burst" && t.size() == 5) {
            auto* from = sender_of(t[1]);
            if (!from) return "bad-op";
            const auto count = std::stoull(t[2]);
            const auto seed = std::stoull(t[3]);
            const auto max_len = std::stoull(t[4]);
            std::size_t ok = 0;
            for (std::uint64_t i = 0; i < count; ++i) {
                const auto payload = gen_payload(burst_len(seed, i, max_len), seed * 1000003ULL + i);
                if (from->send(t[1] == "ab" ? W->idB : W->idA, payload)) ++ok;
            }
            return "sent=" + std::to_string(ok);
        }
        if (op == "drain" && t.size() == 2) return do_drain(t[1]);
        if (op == "rekey" && t.size() == 2) return do_rekey(t[1]);
        if (op == "idle" && t.size() == 2) {  // nobody sends anything for this long (real time)
            std::this_thread::sleep_for(std::chrono::milliseconds(std::stoi(t[1])));
            return "ok";
        }
        if (op == "csend" && t.size() == 7)
            return do_csend(t[1], std::stoull(t[2]), std::stoull(t[3]), std::stoull(t[4]), std::stoull(t[5]), std::stoi(t[6]));
        if (op == "cdrain" && t.size() == 3) return do_cdrain(t[1], std::stoi(t[2]));
        if (op == "rawopen" && t.size() == 1) return do_rawopen();
        if (op == "rawframe" && t.size() == 6) {
            if (W->raw < 0) return "bad-op";
            const auto nonce_bytes = verif::from_hex(t[1]);
            if (nonce_bytes.size() != 12) return "bad-op";
            const auto len = std::stoull(t[3]);
            const auto payload = gen_payload(len, std::stoull(t[4]));
            const std::uint32_t declared = t[2] == "auto" ? static_cast<std::uint32_t>(len) : static_cast<std::uint32_t>(std::stoull(t[2]));
            crypto::Key key{};
            key.bytes = W->key;
            crypto::Nonce nonce{};
            std::copy(nonce_bytes.begin(), nonce_bytes.end(), nonce.bytes.begin());
            std::vector<std::uint8_t> ct(payload.size());
            crypto::ChaCha20::apply(key, nonce, payload, ct, 0u);
            std::vector<std::uint8_t> bytes(nonce_bytes);
            for (int s = 24; s >= 0; s -= 8) bytes.push_back(static_cast<std::uint8_t>(declared >> s));
            bytes.insert(bytes.end(), ct.begin(), ct.end());
            write_chunked(W->raw, bytes, std::stoull(t[5]));
            return "ok";
        }
        if (op == "rawbytes" && t.size() == 3) {
            if (W->raw < 0) return "bad-op";
            write_chunked(W->raw, verif::from_hex(t[1]), std::stoull(t[2]));
            return "ok";
        }
        if (op == "rawended" && t.size() == 2) return do_rawended(std::stoi(t[1]));
        if (op == "rawclose" && t.size() == 1) return do_rawclose();
        if (op == "rawrecv" && t.size() == 3) return do_rawrecv(std::stoull(t[1]), std::stoull(t[2]));
        return "bad-op";
    };
    const int rc = verif::run_lines(argc, argv, h);
    W.reset();
    return rc;
}
