// Harness for announce admission / throttle (C21) and inbound handshakes (C20).
// Real Node (no listeners), virtual clock.  Everything goes through Node / SessionManager / KeyExchange members and
// public functions, with one exception kept behind VERIF_INTERNALS (default 1): with internals, Node.cpp is
// #included and three validators of its anonymous namespace (handshake_pow_valid, manifest_ttl, validate_shards)
// measure the validity facts independently of perform_handshake / handle_announce.  Without internals
// (-DVERIF_INTERNALS=0, chosen by the plugin when those names no longer exist) the same facts come from an oracle
// Node with cooldown 0 (perform_handshake's verdict on a valid key = PoW validity) and from the property's own
// statement of "threshold met" / "unexpired"; every op stays available.
//
// Ops (one output line each; every case starts with a `cfg` line):
//   cfg mi=<s> bw=<s> bl=<n> diff=<d> cd=<s> hdiff=<d> [bs=<peer>:<pub|->,...]   (bs=: Config::bootstrap_nodes, pinned identity or none)
//        -> mi=<s> bw=<s> bl=<n> diff=<d> cd=<s> hdiff=<d>          (sanitised values of the Node)
//   adv <ns>                                   -> ok
//   ann <peer> <chunk> <mtok> <flags> <ver> [as=<i,j,..>|as=-]     (as=: explicit assigned shard indices)
//        flags: '-' or letters  S sender!=announcer  E empty uri  W wrong PoW nonce  G undecodable uri
//               I manifest of another chunk  T threshold unmet  X expired  x ttl below minimum
//               A assigned shard not in manifest  n no assigned shards  e no endpoint
//        -> f=<sm ne pv dec idm thr unx asg> rep=<n> h=<len> fl=<len> lk=<until-now|-> mc=<0/1> pc=<0/1> pf=<0/1> ks=<n> chg=<mkpf> kr=<0/1>
//           (kr: may the announced manifest replace what is cached for the chunk - always 1 unless the node holds the chunk)
//   hold <chunk>                               the node stores the chunk itself (store_chunk)   -> ok
//   hs <peer> <pub> <ntok>                     perform_handshake
//   th <peer> <pub> <ntok> <reqver>            handle_transport_handshake
//   sock <peer> <pub> <ntok>                   SessionManager::handle_pending_handshake over a socketpair
//        ntok: g g2 (valid nonces) b b2 (invalid nonces) o (valid for another claimed peer, invalid here)
//        -> r=<0/1> kv=<0/1> pv=<0/1|-> sk=<pub|-> sm=<pub|-> rep=<n> ls=<1/0/-> [ack=<0/1> conn=<0/1>]
#include "common/lineproto.hpp"
#include "common/vclock.hpp"

#ifndef VERIF_INTERNALS
#define VERIF_INTERNALS 1
#endif
#if VERIF_INTERNALS
#include "core/Node.cpp"  // the repository's src/core/Node.cpp (anonymous-namespace validators)
#endif
#include "ephemeralnet/core/Node.hpp"
#include "ephemeralnet/crypto/ChaCha20.hpp"
#include "ephemeralnet/crypto/HmacSha256.hpp"
#include "ephemeralnet/crypto/Sha256.hpp"
#include "ephemeralnet/network/KeyExchange.hpp"
#include "ephemeralnet/network/SessionManager.hpp"
#include "ephemeralnet/protocol/Manifest.hpp"
#include "ephemeralnet/protocol/Message.hpp"

#include <sys/socket.h>
#include <sys/types.h>
#include <unistd.h>

#include <algorithm>
#include <map>
#include <memory>
#include <set>

namespace ephemeralnet::test {
class NodeTestAccess {
public:
    static Node::PendingFetchState* pending(Node& n, const std::string& key) {
        auto it = n.pending_chunk_fetches_.find(key);
        return it == n.pending_chunk_fetches_.end() ? nullptr : &it->second;
    }
};
}  // namespace ephemeralnet::test

namespace vh {
using namespace ephemeralnet;

std::unique_ptr<Node> node;
std::unique_ptr<Node> oracle;                      // VERIF_INTERNALS=0: same id and difficulty, cooldown 0
std::map<std::string, std::uint32_t> key_to_pub;  // hex of derived session key -> offered public key
std::map<std::string, std::uint64_t> nonce_cache; // peer/pub/token -> nonce
std::string cfg_line;

PeerId self_id() { return verif::id32("s1"); }
void learn_pub(std::uint32_t pub);

long long kv_get(const std::vector<std::string>& t, const std::string& k, long long dflt) {
    for (const auto& x : t) {
        if (x.rfind(k + "=", 0) == 0) return std::stoll(x.substr(k.size() + 1));
    }
    return dflt;
}

void make_node(const std::vector<std::string>& t) {
    Config c{};
    c.identity_seed = 7u;
    c.announce_min_interval = std::chrono::seconds(kv_get(t, "mi", 15));
    c.announce_burst_window = std::chrono::seconds(kv_get(t, "bw", 120));
    c.announce_burst_limit = static_cast<std::size_t>(kv_get(t, "bl", 4));
    c.announce_pow_difficulty = static_cast<std::uint8_t>(kv_get(t, "diff", 2));
    c.handshake_cooldown = std::chrono::seconds(kv_get(t, "cd", 5));
    c.handshake_pow_difficulty = static_cast<std::uint8_t>(kv_get(t, "hdiff", 2));
    std::vector<std::uint32_t> pinned;
    for (const auto& x : t) {
        if (x.rfind("bs=", 0) != 0 || x.size() <= 3) continue;
        for (const auto& ent : verif::split(x.substr(3), ',')) {
            const auto colon = ent.find(':');
            if (colon == std::string::npos) continue;
            Config::BootstrapNode b{};
            b.id = verif::id32(ent.substr(0, colon));
            b.host = "127.0.0.1";
            b.port = 1;
            const std::string pk = ent.substr(colon + 1);
            if (pk != "-") { b.public_identity = static_cast<std::uint32_t>(std::stoull(pk)); pinned.push_back(*b.public_identity); }
            c.bootstrap_nodes.push_back(b);
        }
    }
    node.reset();
    oracle.reset();
    node = std::make_unique<Node>(self_id(), c);
#if !VERIF_INTERNALS
    Config oc = c;
    oc.handshake_cooldown = std::chrono::seconds(0);
    oracle = std::make_unique<Node>(self_id(), oc);
#endif
    key_to_pub.clear();
    nonce_cache.clear();
    for (const auto pk : pinned) learn_pub(pk);
}

// PoW validity of (claimed peer, this node, key, nonce) at the configured difficulty, for a VALID key
bool handshake_work_ok(const PeerId& peer, std::uint32_t pub, std::uint64_t n) {
#if VERIF_INTERNALS
    return handshake_pow_valid(peer, node->id(), pub, n, node->config_.handshake_pow_difficulty);
#else
    return oracle->perform_handshake(peer, pub, n);   // cooldown 0: never short-circuits; key valid => verdict = PoW
#endif
}

// the facts "shares meet the threshold" / "unexpired (and not below the minimum manifest TTL)"
bool fact_threshold(const protocol::Manifest& m) {
#if VERIF_INTERNALS
    return validate_shards(m);
#else
    return m.threshold > 0 && m.shards.size() >= m.threshold;
#endif
}
bool fact_unexpired(const protocol::Manifest& m) {
#if VERIF_INTERNALS
    return manifest_ttl(m, node->config_).has_value();
#else
    const auto now = std::chrono::system_clock::now();
    if (m.expires_at <= now) return false;
    const auto ttl = std::chrono::duration_cast<std::chrono::seconds>(m.expires_at - now);
    return ttl > std::chrono::seconds(0) && ttl >= node->config_.min_manifest_ttl;
#endif
}

// Node::verify_announce_pow at version 4 = announce_pow_valid(payload, difficulty) (true at difficulty 0)
bool announce_work_ok(const protocol::AnnouncePayload& p) { return node->verify_announce_pow(p, 4); }

std::string sanitised() {
    const auto& c = node->config_;
    return "mi=" + std::to_string(c.announce_min_interval.count()) + " bw=" + std::to_string(c.announce_burst_window.count()) +
           " bl=" + std::to_string(c.announce_burst_limit) + " diff=" + std::to_string(c.announce_pow_difficulty) +
           " cd=" + std::to_string(c.handshake_cooldown.count()) + " hdiff=" + std::to_string(c.handshake_pow_difficulty);
}

// ---------------------------------------------------------------------------------- announces
bool has(const std::string& flags, char c) { return flags.find(c) != std::string::npos; }

protocol::Manifest make_manifest(const std::string& chunk, unsigned mtok, const std::string& flags) {
    protocol::Manifest m{};
    m.chunk_id = has(flags, 'I') ? verif::id32("z" + chunk.substr(1)) : verif::id32(chunk);
    m.chunk_hash.fill(static_cast<std::uint8_t>(mtok));
    m.nonce.bytes.fill(0x11);
    m.threshold = has(flags, 'T') ? 3 : 2;
    m.total_shares = 3;
    const int nshards = has(flags, 'T') ? 2 : 3;
    for (int i = 1; i <= nshards; ++i) {
        protocol::KeyShard s{};
        s.index = static_cast<std::uint8_t>(i);
        s.value.fill(static_cast<std::uint8_t>(0x40 + i + mtok));
        m.shards.push_back(s);
    }
    const auto now = std::chrono::system_clock::now();
    // encoded with one-second resolution: truncate so that decode(encode(m)) == m
    const auto now_s = std::chrono::time_point_cast<std::chrono::seconds>(now);
    if (has(flags, 'X')) m.expires_at = now_s - std::chrono::seconds(1);
    else if (has(flags, 'x')) m.expires_at = now_s + std::chrono::seconds(5);
    else m.expires_at = now_s + std::chrono::seconds(600 + mtok);
    return m;
}

std::string digest_str(const std::string& s) {
    const auto d = crypto::Sha256::digest(std::span<const std::uint8_t>(reinterpret_cast<const std::uint8_t*>(s.data()), s.size()));
    return verif::to_hex(d.data(), 6);
}

struct Snap { std::string m, k, p, f; };

Snap snapshot() {
    Snap s;
    {
        std::vector<std::string> items;
        for (const auto& [key, man] : node->manifest_cache_) {
            std::string enc;
            try { enc = protocol::encode_manifest(man); } catch (const std::exception&) { enc = "<unencodable>"; }
            items.push_back(key + "=" + enc);
        }
        std::sort(items.begin(), items.end());
        for (auto& i : items) s.m += i + ";";
    }
    {
        std::vector<std::string> items;
        for (const auto& [key, rec] : node->dht_.shard_table_) {
            std::string v = key + "=" + std::to_string(rec.threshold) + "/" + std::to_string(rec.total_shares) + "@" +
                            std::to_string(rec.expires_at.time_since_epoch().count());
            for (const auto& sh : rec.shards) v += ":" + std::to_string(sh.index) + verif::to_hex(sh.value);
            items.push_back(v);
        }
        std::sort(items.begin(), items.end());
        for (auto& i : items) s.k += i + ";";
    }
    {
        std::vector<std::string> items;
        for (const auto& loc : node->dht_.snapshot_locators()) {
            std::vector<std::string> hs;
            for (const auto& h : loc.holders)
                hs.push_back(verif::to_hex(h.id) + "/" + h.address + "/" + std::to_string(h.expires_at.time_since_epoch().count()));
            std::sort(hs.begin(), hs.end());
            std::string v = verif::to_hex(loc.id) + "=";
            for (auto& h : hs) v += h + ",";
            items.push_back(v);
        }
        std::sort(items.begin(), items.end());
        for (auto& i : items) s.p += i + ";";
    }
    {
        std::vector<std::string> items;
        for (const auto& [key, st] : node->pending_chunk_fetches_) {
            items.push_back(key + "=" + verif::to_hex(st.peer_id) + "/" + st.endpoint + "/" + st.manifest_uri + "/" +
                            std::to_string(st.attempts) + "/" + std::to_string(st.next_attempt.time_since_epoch().count()));
        }
        std::sort(items.begin(), items.end());
        for (auto& i : items) s.f += i + ";";
    }
    return s;
}

std::string op_ann(const std::vector<std::string>& t) {
    const PeerId sender = verif::id32(t[1]);
    const std::string chunk = t[2];
    const unsigned mtok = static_cast<unsigned>(std::stoul(t[3]));
    const std::string flags = t[4];
    const auto ver = static_cast<std::uint8_t>(std::stoul(t[5]));

    const auto manifest = make_manifest(chunk, mtok, flags);
    protocol::AnnouncePayload p{};
    p.chunk_id = verif::id32(chunk);
    p.peer_id = has(flags, 'S') ? verif::id32("q77") : sender;
    p.endpoint = has(flags, 'e') ? std::string() : std::string("203.0.113.10:4040");
    p.ttl = std::chrono::seconds(45);
    if (has(flags, 'E')) p.manifest_uri.clear();
    else if (has(flags, 'G')) p.manifest_uri = "eph://not-a-manifest";
    else p.manifest_uri = protocol::encode_manifest(manifest);
    if (t.size() == 7 && t[6].rfind("as=", 0) == 0) {
        // explicit assigned shard indices (as=- : none)
        const std::string list = t[6].substr(3);
        if (list != "-") for (const auto& x : verif::split(list, ',')) p.assigned_shards.push_back(static_cast<std::uint8_t>(std::stoul(x)));
    } else {
        if (!has(flags, 'n')) p.assigned_shards.push_back(1);
        if (has(flags, 'A')) p.assigned_shards.push_back(99);
    }

    const auto diff = node->config_.announce_pow_difficulty;
    if (has(flags, 'W') && diff > 0) {
        std::uint64_t n = 0;
        for (;; ++n) { p.work_nonce = n; if (!announce_work_ok(p)) break; }
    } else if (!node->apply_announce_pow(p)) {
        return "pow-solver-failed";
    }

    // facts, evaluated with the real validators independently of handle_announce
    const bool f_sm = p.peer_id == sender;
    const bool f_ne = !p.manifest_uri.empty();
    const bool f_pv = announce_work_ok(p);
    bool f_dec = false, f_idm = false, f_thr = false, f_unx = false, f_asg = false;
    protocol::Manifest decoded{};
    try { decoded = protocol::decode_manifest(p.manifest_uri); f_dec = true; } catch (const std::exception&) {}
    if (f_dec) {
        f_idm = decoded.chunk_id == p.chunk_id;
        f_thr = fact_threshold(decoded);
        f_unx = fact_unexpired(decoded);
        f_asg = std::all_of(p.assigned_shards.begin(), p.assigned_shards.end(), [&](std::uint8_t i) {
            return std::any_of(decoded.shards.begin(), decoded.shards.end(), [&](const protocol::KeyShard& s) { return s.index == i; });
        });
    }

    bool kr = true;
    if constexpr (requires(Node& n, const protocol::Manifest& m) { n.manifest_keeps_held_chunk_readable(m); }) {
        if (f_dec) kr = node->manifest_keeps_held_chunk_readable(decoded);
    }
    const Snap before = snapshot();
    node->handle_announce(p, sender, ver);
    const Snap after = snapshot();

    const auto now = std::chrono::steady_clock::now();
    const auto skey = peer_id_to_string(sender);
    std::size_t h = 0, fl = 0;
    std::string lk = "-";
    if (auto it = node->peer_announce_history_.find(skey); it != node->peer_announce_history_.end()) h = it->second.size();
    if (auto it = node->peer_announce_failure_history_.find(skey); it != node->peer_announce_failure_history_.end()) fl = it->second.size();
    if (auto it = node->peer_announce_lockouts_.find(skey); it != node->peer_announce_lockouts_.end())
        lk = std::to_string((it->second - now).count());

    const auto ckey = chunk_id_to_string(p.chunk_id);
    bool mc = false;
    if (auto it = node->manifest_cache_.find(ckey); it != node->manifest_cache_.end() && f_dec) {
        try { mc = protocol::encode_manifest(it->second) == p.manifest_uri; } catch (const std::exception&) {}
    }
    bool pc = false;
    for (const auto& loc : node->dht_.snapshot_locators()) {
        if (loc.id != p.chunk_id) continue;
        for (const auto& hld : loc.holders) if (hld.id == sender) pc = true;
    }
    const bool pf = test::NodeTestAccess::pending(*node, ckey) != nullptr;
    std::size_t ks = 0;
    if (const auto rec = node->dht_.shard_record(p.chunk_id)) ks = rec->shards.size();

    std::string out = "f=";
    for (bool b : {f_sm, f_ne, f_pv, f_dec, f_idm, f_thr, f_unx, f_asg}) out += b ? '1' : '0';
    out += " rep=" + std::to_string(node->reputation_score(sender));
    out += " h=" + std::to_string(h) + " fl=" + std::to_string(fl) + " lk=" + lk;
    out += std::string(" mc=") + (mc ? "1" : "0") + " pc=" + (pc ? "1" : "0") + " pf=" + (pf ? "1" : "0") + " ks=" + std::to_string(ks);
    out += " chg=";
    out += before.m != after.m ? '1' : '0';
    out += before.k != after.k ? '1' : '0';
    out += before.p != after.p ? '1' : '0';
    out += before.f != after.f ? '1' : '0';
    out += std::string(" kr=") + (kr ? "1" : "0");
    return out;
}

// --------------------------------------------------------------------------------- handshakes
std::uint64_t nonce_for_uncached(const PeerId& peer, std::uint32_t pub, const std::string& tok) {
    const auto diff = node->config_.handshake_pow_difficulty;
    const bool key_ok = network::KeyExchange::validate_public(pub);
    // an invalid key is refused whatever the nonce: only distinct values are needed
    if (diff == 0 || !key_ok) {
        if (tok == "g") return 0;
        if (tok == "g2") return 1;
        if (tok == "b") return 1000;
        if (tok == "b2") return 1001;
        return 2000;
    }
    auto valid = [&](std::uint64_t n) { return handshake_work_ok(peer, pub, n); };
    if (tok == "g" || tok == "g2") {
        std::uint64_t n = 0;
        for (;; ++n) if (valid(n)) break;
        if (tok == "g") return n;
        for (++n;; ++n) if (valid(n)) return n;
    }
    if (tok == "b" || tok == "b2") {
        std::uint64_t n = 1000;
        for (;; ++n) if (!valid(n)) break;
        if (tok == "b") return n;
        for (++n;; ++n) if (!valid(n)) return n;
    }
    // "o": valid for another claimed peer, invalid for this one
    const PeerId other = verif::id32("q99");
    for (std::uint64_t n = 5000;; ++n) {
        if (handshake_work_ok(other, pub, n) && !valid(n)) return n;
    }
}

std::uint64_t nonce_for(const PeerId& peer, std::uint32_t pub, const std::string& tok) {
    const std::string k = verif::to_hex(peer) + "/" + std::to_string(pub) + "/" + tok;
    const auto it = nonce_cache.find(k);
    if (it != nonce_cache.end()) return it->second;
    const auto n = nonce_for_uncached(peer, pub, tok);
    nonce_cache[k] = n;
    return n;
}

// the key material layout of the handshake: both public keys, ascending, big-endian (C12's model states it)
std::array<std::uint8_t, 8> handshake_material(std::uint32_t a, std::uint32_t b) {
    if (a > b) std::swap(a, b);
    std::array<std::uint8_t, 8> m{};
    for (int i = 0; i < 4; ++i) { m[i] = static_cast<std::uint8_t>(a >> (24 - 8 * i)); m[4 + i] = static_cast<std::uint8_t>(b >> (24 - 8 * i)); }
    return m;
}

std::array<std::uint8_t, 32> derive_for(std::uint32_t pub) {
    const auto secret = network::KeyExchange::derive_shared_secret(node->identity_scalar_, pub);
    const auto material = handshake_material(node->public_identity(), pub);
    return crypto::HmacSha256::compute(std::span<const std::uint8_t>(secret.bytes), material);
}

void learn_pub(std::uint32_t pub) {
    if (!(pub > 1u && pub < network::KeyExchange::kPrime)) return;
    const auto hex = verif::to_hex(derive_for(pub));
    if (!key_to_pub.count(hex)) key_to_pub[hex] = pub;
}

std::string key_token(const std::optional<std::array<std::uint8_t, 32>>& k) {
    if (!k.has_value()) return "-";
    const auto hex = verif::to_hex(*k);
    const auto it = key_to_pub.find(hex);
    return it == key_to_pub.end() ? "?" + hex.substr(0, 8) : std::to_string(it->second);
}

std::string hs_state(const PeerId& peer) {
    const auto ls = node->last_handshake_success(peer);
    return " sk=" + key_token(node->session_key(peer)) + " sm=" + key_token(node->sessions_.peer_key(peer)) +
           " rep=" + std::to_string(node->reputation_score(peer)) + " ls=" + (ls.has_value() ? (*ls ? "1" : "0") : "-");
}

std::string op_handshake(const std::vector<std::string>& t) {
    const PeerId peer = verif::id32(t[1]);
    const auto pub = static_cast<std::uint32_t>(std::stoull(t[2]));
    const auto nonce = nonce_for(peer, pub, t[3]);
    learn_pub(pub);
    const bool kv = network::KeyExchange::validate_public(pub);
    // nonce validity is measured for valid keys only (an invalid key is refused before the nonce matters)
    const std::string pv = !kv ? "-" : (node->config_.handshake_pow_difficulty == 0 || handshake_work_ok(peer, pub, nonce)) ? "1" : "0";
    const std::string facts = std::string(" kv=") + (kv ? "1" : "0") + " pv=" + pv;

    if (t[0] == "hs") {
        const bool r = node->perform_handshake(peer, pub, nonce);
        return std::string("r=") + (r ? "1" : "0") + facts + hs_state(peer);
    }
    protocol::TransportHandshakePayload payload{};
    payload.public_identity = pub;
    payload.work_nonce = nonce;
    if (t[0] == "th") {
        payload.requested_version = static_cast<std::uint8_t>(std::stoul(t[4]));
        const auto acc = node->handle_transport_handshake(peer, payload);
        const bool r = acc.has_value() && acc->accepted;
        std::string extra;
        if (r) {
            // the ack must be signed with the session key handed to the session layer
            const auto dec = protocol::decode_signed(acc->ack_payload, std::span<const std::uint8_t>(acc->session_key.data(), acc->session_key.size()));
            const bool ok = dec.has_value() && dec->type == protocol::MessageType::HandshakeAck;
            extra = " ak=" + key_token(acc->session_key) + " ack=" + (ok ? "1" : "0");
        } else {
            extra = " ak=- ack=0";
        }
        return std::string("r=") + (r ? "1" : "0") + facts + hs_state(peer) + extra;
    }
    // sock: the session layer's inbound path on a real socket pair
    int sv[2];
    if (::socketpair(AF_UNIX, SOCK_STREAM, 0, sv) != 0) return "socketpair-failed";
    protocol::Message msg{};
    msg.version = protocol::kCurrentMessageVersion;
    msg.type = protocol::MessageType::TransportHandshake;
    msg.payload = payload;
    const auto encoded = protocol::encode(msg);
    std::vector<std::uint8_t> frame(4 + encoded.size());
    const auto len = static_cast<std::uint32_t>(encoded.size());
    frame[0] = len >> 24; frame[1] = (len >> 16) & 0xFF; frame[2] = (len >> 8) & 0xFF; frame[3] = len & 0xFF;
    std::copy(encoded.begin(), encoded.end(), frame.begin() + 4);
    if (::send(sv[0], frame.data(), frame.size(), MSG_NOSIGNAL) != static_cast<ssize_t>(frame.size())) return "send-failed";
    const bool r = node->sessions_.handle_pending_handshake(peer, static_cast<network::SessionManager::SocketHandle>(sv[1]));
    // is there a well-formed, accepted ACK on our end?
    bool ack = false;
    {
        std::uint8_t buf[4096];
        const auto n = ::recv(sv[0], buf, sizeof buf, MSG_DONTWAIT);
        const auto key = node->session_key(peer);
        if (n > 16 && key.has_value()) {
            crypto::Key k{}; k.bytes = *key;
            crypto::Nonce nn{}; std::copy(buf, buf + 12, nn.bytes.begin());
            const std::uint32_t clen = (std::uint32_t(buf[12]) << 24) | (std::uint32_t(buf[13]) << 16) | (std::uint32_t(buf[14]) << 8) | buf[15];
            if (clen == static_cast<std::uint32_t>(n - 16)) {
                std::vector<std::uint8_t> cipher(buf + 16, buf + n), plain(clen);
                crypto::ChaCha20::apply(k, nn, cipher, plain, 0u);
                const auto dec = protocol::decode_signed(plain, std::span<const std::uint8_t>(key->data(), key->size()));
                if (dec.has_value() && dec->type == protocol::MessageType::HandshakeAck) {
                    const auto* ap = std::get_if<protocol::HandshakeAckPayload>(&dec->payload);
                    ack = ap != nullptr && ap->accepted;
                }
            }
        } else if (n > 0) {
            ack = true;  // bytes were sent although no key is known to us: report as an acknowledgement
        }
    }
    const bool conn = node->sessions_.is_connected(peer);
    const std::string state = hs_state(peer);
    // Hang up and wait until the session's reader thread has left receive_loop: this manager was never
    // start()ed, so its destructor would not wait for the thread.
    std::shared_ptr<network::SessionManager::Session> sess;
    if (r) {
        std::scoped_lock lock(node->sessions_.sessions_mutex_);
        const auto it = node->sessions_.sessions_.find(peer_id_to_string(peer));
        if (it != node->sessions_.sessions_.end()) sess = it->second;
    }
    ::close(sv[0]);
    if (!r) ::close(sv[1]);
    if (sess) {
        for (int i = 0; i < 2000 && sess->alive.load(); ++i) ::usleep(2000);
        if (sess->alive.load()) return "session-reader-did-not-stop";
    }
    return std::string("r=") + (r ? "1" : "0") + facts + state + " ack=" + (ack ? "1" : "0") + " conn=" + (conn ? "1" : "0");
}

}  // namespace vh

int main(int argc, char** argv) {
    verif::Handler h;
    h.reset = [] {
        verif::vclock_set(verif::kVclockStart);
        vh::node.reset();
        vh::oracle.reset();
    };
    h.op = [](const std::vector<std::string>& t, const std::string&) -> std::string {
        if (t[0] == "cfg") { vh::make_node(t); return vh::sanitised(); }
        if (!vh::node) vh::make_node({});
        if (t[0] == "adv" && t.size() == 2) { verif::vclock_advance(std::stoll(t[1])); return "ok"; }
        if (t[0] == "ann" && (t.size() == 6 || t.size() == 7)) return vh::op_ann(t);
        if (t[0] == "hold" && t.size() == 2) {
            vh::node->store_chunk(verif::id32(t[1]), ephemeralnet::ChunkData(64, 0x5a), std::chrono::seconds(0));
            return "ok";
        }
        if ((t[0] == "hs" || t[0] == "sock") && t.size() == 4) return vh::op_handshake(t);
        if (t[0] == "th" && t.size() == 5) return vh::op_handshake(t);
        return "bad-op";
    };
    // session reader threads log to std::cerr, which is tied to std::cout by default: an unsynchronised
    // flush of our output buffer from another thread duplicates lines
    std::cerr.tie(nullptr);
    const int rc = verif::run_lines(argc, argv, h);
    vh::node.reset();
    vh::oracle.reset();
    return rc;
}
