// Harness for ChunkStore and the Node wrappers around it (C01, C04): real code, virtual clock.
//
// Every case starts with an `init` line.  One output line per op.
//   init store <default_ttl_s> <persist 0|1> <wipe 0|1> <passes> [keep]   -> ok
//   init node  <default_ttl_s> <min_s> <max_s> <cleanup_s> <persist> <wipe> <passes> [keep]
//                                              -> ok d=<default> min=<min> max=<max> ci=<cleanup> (sanitised values)
//   adv <ns>                   -> ok
//   put <id> <data> <ttl_s>    -> ok                      ChunkStore::put (nonce zero, encrypted=false)
//   get <id>                   -> hit <bytes> | miss      ChunkStore::get
//   rec <id>                   -> hit <bytes> exp=<ns> | miss    ChunkStore::get_record / Node::export_chunk_record
//   sweep                      -> removed ids sorted "c1,c2" | -  [" wiped=" id:written:allzero,...  when write tracing is linked]
//   snap                       -> id:exp:size,... sorted | -      ChunkStore::snapshot (diagnostic, includes expired)
//   nstore <id> <plain> <ttl_s>-> ok <cipher hex> <nonce hex> exp=<ns>   Node::store_chunk
//   fetch <id>                 -> hit <bytes> | miss      Node::fetch_chunk
//   req <id>                   -> served <bytes> | nack | none    Node::handle_request via a planted session
//   list                       -> id:exp:size,... sorted | -      Node::stored_chunks
//   tick                       -> expired ids reported (cleanup notifications) sorted | -
//   ls                         -> directory: c1=<bytes>,!name=<bytes>,... sorted | - | nodir
//   restart                    -> ok   (drop the instance without any cleanup, construct a new one on the same directory)
//   plant <id|!name> <data>    -> ok   (write a file into the storage directory behind the store's back)
//   crash <op...>              -> fsops=<N> <output of op>   (C04 build: N = mutating file-system calls the op made)
//   crashat <k> <op...>        -> crashed   (C04 build: forked child killed before the k-th mutating call; instance forgotten)
//   failat <k> <short> <op...> -> output of op   (C04 build: the k-th file-system call of the op fails with an I/O error;
//                                 a failing write first gets <short> bytes through; `crash <op>` also reports calls=<M>)
// <data>: hex | - (empty) | r<seed>n<len> (pattern).  <bytes>: hex if <= 32 bytes ("-" if empty), else <len>:<fnv1a64>.
// The storage directory is ./sd-<tag>/<case id> below the working directory (tag = $STORE_H_TAG or pid);
// `keep` in init re-uses what is there, otherwise the directory is emptied first.
#include "common/lineproto.hpp"
#include "common/vclock.hpp"
#include "ephemeralnet/core/Node.hpp"
#include "ephemeralnet/crypto/ChaCha20.hpp"
#include "ephemeralnet/protocol/Message.hpp"
#include "ephemeralnet/storage/ChunkStore.hpp"

#include <algorithm>
#include <cstdlib>
#include <filesystem>
#include <fstream>
#include <map>
#include <memory>
#include <sys/socket.h>
#include <sys/wait.h>
#include <unistd.h>

using namespace ephemeralnet;
namespace fs = std::filesystem;

// optional file-system tracing / crash injection (harness/c04_fsfault.cpp); absent in the C01 build
extern "C" {
__attribute__((weak)) void c04_trace_begin(int op_index);
__attribute__((weak)) const char* c04_trace_end();
extern __attribute__((weak)) long c04_last_events;
extern __attribute__((weak)) long c04_last_calls;
__attribute__((weak)) void c04_arm_fail(int op_index, long k, long short_bytes);
__attribute__((weak)) void c04_arm(int op_index, long k);
}

namespace {

std::unique_ptr<ChunkStore> store;
std::unique_ptr<Node> node;
Config cfg;
bool node_mode = false;
std::string case_id;
fs::path dir;
std::map<std::string, std::string> names;  // hex id -> symbolic token
int op_index = 0;
int peer_sock = -1;  // our end of the planted session
PeerId peer{};

std::string tag() {
    const char* t = std::getenv("STORE_H_TAG");
    return t ? std::string(t) : std::to_string(::getpid());
}

std::array<std::uint8_t, 32> intern(const std::string& tok) {
    auto id = verif::id32(tok);
    names[verif::to_hex(id)] = tok;
    return id;
}
std::string name_of_hex(const std::string& hex) {
    auto it = names.find(hex);
    if (it != names.end()) return it->second;
    // inverse of verif::id32 for symbolic names (<letter><number>), so that files of an earlier
    // process are labelled the same way
    if (hex.size() == 64) {
        const auto b = verif::from_hex(hex);
        bool mid_zero = true;
        for (std::size_t i = 1; i < 28; ++i) mid_zero = mid_zero && b[i] == 0;
        if (mid_zero && std::isalpha(b[0])) {
            const unsigned long n = (static_cast<unsigned long>(b[28]) << 24) | (static_cast<unsigned long>(b[29]) << 16) |
                                    (static_cast<unsigned long>(b[30]) << 8) | b[31];
            const std::string tok = std::string(1, static_cast<char>(b[0])) + std::to_string(n);
            if (verif::to_hex(verif::id32(tok)) == hex) return tok;
        }
    }
    return "?" + hex;
}

std::vector<std::uint8_t> parse_data(const std::string& s) {
    if (!s.empty() && s[0] == 'r') {
        const auto n = s.find('n');
        const unsigned long seed = std::stoul(s.substr(1, n - 1));
        const unsigned long len = std::stoul(s.substr(n + 1));
        std::vector<std::uint8_t> out(len);
        for (unsigned long i = 0; i < len; ++i) out[i] = static_cast<std::uint8_t>((seed + i * 7 + (i / 256) * 13) % 256);
        return out;
    }
    return verif::from_hex(s);
}

std::string fmt_bytes(const std::uint8_t* p, std::size_t n) {
    if (n == 0) return "-";
    if (n <= 32) return verif::to_hex(p, n);
    std::uint64_t h = 14695981039346656037ull;
    for (std::size_t i = 0; i < n; ++i) { h ^= p[i]; h *= 1099511628211ull; }
    char buf[40];
    std::snprintf(buf, sizeof buf, "%zu:%016llx", n, static_cast<unsigned long long>(h));
    return buf;
}
template <class C> std::string fmt_bytes(const C& c) { return fmt_bytes(reinterpret_cast<const std::uint8_t*>(c.data()), c.size()); }

std::string join_sorted(std::vector<std::string> v, char sep = ',') {
    if (v.empty()) return "-";
    std::sort(v.begin(), v.end());
    std::string out;
    for (std::size_t i = 0; i < v.size(); ++i) { if (i) out += sep; out += v[i]; }
    return out;
}

std::string ids_sorted(const std::vector<ChunkId>& ids) {
    std::vector<std::string> v;
    for (const auto& id : ids) v.push_back(name_of_hex(verif::to_hex(id)));
    return join_sorted(v);
}

std::string fmt_snapshot(const std::vector<ChunkStore::SnapshotEntry>& es) {
    std::vector<std::string> v;
    for (const auto& e : es) {
        v.push_back(name_of_hex(verif::to_hex(e.id)) + ":" + std::to_string(e.expires_at.time_since_epoch().count()) + ":" + std::to_string(e.size));
    }
    return join_sorted(v);
}

void close_peer() {
    if (peer_sock >= 0) { ::close(peer_sock); peer_sock = -1; }
}

void drop_instances() {
    node.reset();   // ~Node stops the (never started) transport and closes the planted socket
    store.reset();
    close_peer();
}

ChunkStore& cs() {
    if (node_mode) return node->chunk_store_;
    return *store;
}

void plant_session() {
    int sv[2];
    if (::socketpair(AF_UNIX, SOCK_STREAM, 0, sv) != 0) throw std::runtime_error("socketpair");
    peer_sock = sv[1];
    peer.fill(0);
    peer[0] = 0x70;
    peer[31] = 0x01;
    crypto::Key secret{};
    secret.bytes.fill(0x42);
    node->register_shared_secret(peer, secret);
    auto s = std::make_shared<network::SessionManager::Session>();
    s->socket = sv[0];
    s->running = true;
    s->alive = true;
    if (const auto k = node->session_key(peer)) s->key = *k;
    node->sessions_.sessions_[peer_id_to_string(peer)] = s;
}

void construct() {
    if (node_mode) {
        PeerId self{};
        self[0] = 0xEE;
        node = std::make_unique<Node>(self, cfg);
        plant_session();
    } else {
        store = std::make_unique<ChunkStore>(cfg);
    }
}

bool read_exact(int fd, std::uint8_t* p, std::size_t n) {
    std::size_t got = 0;
    while (got < n) {
        const auto r = ::recv(fd, p + got, n - got, MSG_DONTWAIT);
        if (r <= 0) return false;
        got += static_cast<std::size_t>(r);
    }
    return true;
}

// drain every frame the node sent to the planted peer; report what was said about `want`
std::string drain_peer(const ChunkId& want) {
    std::string verdict = "none";
    for (;;) {
        std::uint8_t head[16];
        if (!read_exact(peer_sock, head, sizeof head)) break;
        const std::uint32_t len = (std::uint32_t(head[12]) << 24) | (std::uint32_t(head[13]) << 16) | (std::uint32_t(head[14]) << 8) | head[15];
        std::vector<std::uint8_t> ct(len);
        if (len && !read_exact(peer_sock, ct.data(), len)) break;
        crypto::Nonce nonce{};
        std::copy(head, head + 12, nonce.bytes.begin());
        // the frame is encrypted with the session key, the message is signed with the shared key
        crypto::Key key{};
        const auto it = node->sessions_.sessions_.find(peer_id_to_string(peer));
        if (it == node->sessions_.sessions_.end()) break;
        key.bytes = it->second->key;
        std::vector<std::uint8_t> pt(len);
        crypto::ChaCha20::apply(key, nonce, std::span<const std::uint8_t>(ct), pt, 0u);
        const auto shared = node->session_key(peer);
        if (!shared) continue;
        const auto msg = protocol::decode_signed(std::span<const std::uint8_t>(pt), std::span<const std::uint8_t>(shared->data(), shared->size()));
        if (!msg) continue;
        if (const auto* c = std::get_if<protocol::ChunkPayload>(&msg->payload)) {
            if (c->chunk_id == want) verdict = "served " + fmt_bytes(c->data);
        } else if (const auto* a = std::get_if<protocol::AcknowledgePayload>(&msg->payload)) {
            if (a->chunk_id == want && !a->accepted && verdict == "none") verdict = "nack";
        }
    }
    return verdict;
}

std::string do_ls() {
    std::error_code ec;
    if (!fs::exists(dir, ec)) return "nodir";
    std::vector<std::string> v;
    for (fs::directory_iterator it(dir, ec), end; !ec && it != end; it.increment(ec)) {
        const auto p = it->path();
        std::ifstream in(p, std::ios::binary);
        std::vector<char> content((std::istreambuf_iterator<char>(in)), std::istreambuf_iterator<char>());
        std::string label;
        if (p.extension() == ".chunk") label = name_of_hex(p.stem().string());
        else label = "!" + p.filename().string();
        v.push_back(label + "=" + fmt_bytes(content));
    }
    return join_sorted(v);
}

// append what the operation wiped: "<id>:<bytes written before removal>:<all zero?>", sorted
std::string with_trace(const std::string& out) {
    if (!c04_trace_end) return out;
    const char* t = c04_trace_end();
    if (!t || !*t) return out;
    std::vector<std::string> v;
    for (const auto& item : verif::split(t, ',')) {
        const auto colon = item.find(':');
        std::string file = item.substr(0, colon);
        const auto dot = file.rfind(".chunk");
        std::string label = (dot != std::string::npos && dot + 6 == file.size()) ? name_of_hex(file.substr(0, dot)) : "!" + file;
        v.push_back(label + item.substr(colon));
    }
    return out + " wiped=" + join_sorted(v);
}

std::string handle_inner(const std::vector<std::string>& t);

std::string handle(const std::vector<std::string>& t) {
    ++op_index;
    if (t[0] == "crash" && t.size() > 1) {
        // `crash <op>`: the op runs with crash injection armed (environment); when it survives,
        // report how many mutating file-system events it performed
        std::vector<std::string> rest(t.begin() + 1, t.end());
        std::string out;
        try { out = handle_inner(rest); } catch (const std::exception& ex) { out = verif::exception_name(ex); }
        out = with_trace(out);
        const long n = (&c04_last_events) ? c04_last_events : -1;
        const long m = (&c04_last_calls) ? c04_last_calls : -1;
        return "fsops=" + std::to_string(n) + " calls=" + std::to_string(m) + " " + out;
    }
    if (t[0] == "failat" && t.size() > 3) {
        // `failat <k> <short> <op>`: the k-th file-system call of the op fails with an I/O error
        // (a write gets <short> bytes through first); the op itself runs to completion in-process
        if (!c04_arm_fail) return "no-fsfault";
        c04_arm_fail(op_index, std::stol(t[1]), std::stol(t[2]));
        std::vector<std::string> rest(t.begin() + 3, t.end());
        std::string out;
        try { out = handle_inner(rest); } catch (const std::exception& ex) { out = verif::exception_name(ex); }
        return with_trace(out);
    }
    if (t[0] == "crashat" && t.size() > 2) {
        // `crashat <k> <op>`: a forked child runs the op and is killed (_exit) immediately before its
        // k-th mutating file-system call.  The parent never ran the op; it then forgets its instance
        // without any cleanup, exactly what a process crash leaves: the directory as the child left
        // it and no memory.  The next `init ... keep` is the restarted daemon.
        if (!c04_arm) return "no-fsfault";
        const long k = std::stol(t[1]);
        std::vector<std::string> rest(t.begin() + 2, t.end());
        std::cout << std::flush;
        const pid_t pid = ::fork();
        if (pid < 0) return "fork-failed";
        if (pid == 0) {
            c04_arm(op_index, k);
            try { handle_inner(rest); } catch (...) {}
            ::_exit(0);
        }
        int status = 0;
        ::waitpid(pid, &status, 0);
        if (c04_trace_end) c04_trace_end();
        drop_instances();
        return (WIFEXITED(status) && WEXITSTATUS(status) == 77) ? "crashed" : "no-crash";
    }
    return with_trace(handle_inner(t));
}

std::string handle_inner(const std::vector<std::string>& t) {
    if (t[0] == "init") {
        drop_instances();
        const bool is_node = t.size() > 1 && t[1] == "node";
        const std::size_t base = is_node ? 5 : 2;   // index of <persist> - 1 ... see below
        cfg = Config{};
        cfg.identity_seed = 0x55u;
        cfg.announce_pow_difficulty = 0;
        cfg.handshake_pow_difficulty = 0;
        cfg.relay_enabled = false;
        cfg.nat_stun_enabled = false;
        cfg.upload_max_parallel_transfers = 0;
        cfg.upload_max_transfers_per_peer = 0;
        cfg.key_rotation_interval = std::chrono::seconds(3600);
        cfg.default_chunk_ttl = std::chrono::seconds(std::stoll(t[2]));
        std::size_t i = 3;
        if (is_node) {
            cfg.min_manifest_ttl = std::chrono::seconds(std::stoll(t[3]));
            cfg.max_manifest_ttl = std::chrono::seconds(std::stoll(t[4]));
            cfg.cleanup_interval = std::chrono::seconds(std::stoll(t[5]));
            i = 6;
        }
        (void)base;
        cfg.storage_persistent_enabled = t.at(i) == "1";
        cfg.storage_wipe_on_expiry = t.at(i + 1) == "1";
        cfg.storage_wipe_passes = static_cast<std::uint8_t>(std::stoul(t.at(i + 2)));
        const bool keep = t.size() > i + 3 && t[i + 3] == "keep";
        cfg.storage_directory = dir.string();
        std::error_code ec;
        if (!keep) fs::remove_all(dir, ec);
        node_mode = is_node;
        if (c04_trace_begin) c04_trace_begin(op_index);
        construct();
        if (is_node) {
            const auto& c = node->config();
            return "ok d=" + std::to_string(c.default_chunk_ttl.count()) + " min=" + std::to_string(c.min_manifest_ttl.count()) +
                   " max=" + std::to_string(c.max_manifest_ttl.count()) + " ci=" + std::to_string(c.cleanup_interval.count());
        }
        return "ok";
    }
    if (t[0] == "ls") return do_ls();
    if (t[0] == "adv" && t.size() == 2) { verif::vclock_advance(std::stoll(t[1])); return "ok"; }
    if (t[0] == "plant" && t.size() == 3) {
        std::error_code ec;
        fs::create_directories(dir, ec);
        fs::path p;
        if (t[1][0] == '!') p = dir / t[1].substr(1);
        else p = dir / (verif::to_hex(intern(t[1])) + ".chunk");
        const auto data = parse_data(t[2]);
        std::ofstream out(p, std::ios::binary | std::ios::trunc);
        out.write(reinterpret_cast<const char*>(data.data()), static_cast<std::streamsize>(data.size()));
        return "ok";
    }
    if (!store && !node) return "no-instance";
    if (t[0] == "restart") {
        drop_instances();
        if (c04_trace_begin) c04_trace_begin(op_index);
        construct();
        return "ok";
    }
    if (t[0] == "put" && t.size() == 4) {
        const auto id = intern(t[1]);
        if (c04_trace_begin) c04_trace_begin(op_index);
        cs().put(id, parse_data(t[2]), std::chrono::seconds(std::stoll(t[3])));
        return "ok";
    }
    if (t[0] == "get" && t.size() == 2) {
        const auto r = cs().get(intern(t[1]));
        return r ? "hit " + fmt_bytes(*r) : "miss";
    }
    if (t[0] == "rec" && t.size() == 2) {
        const auto id = intern(t[1]);
        const auto r = node_mode ? node->export_chunk_record(id) : cs().get_record(id);
        if (!r) return "miss";
        return "hit " + fmt_bytes(r->data) + " exp=" + std::to_string(r->expires_at.time_since_epoch().count());
    }
    if (t[0] == "sweep") {
        if (c04_trace_begin) c04_trace_begin(op_index);
        const auto removed = cs().sweep_expired();
        return ids_sorted(removed);
    }
    if (t[0] == "snap") return fmt_snapshot(cs().snapshot());
    if (!node_mode) return "bad-op";
    if (t[0] == "nstore" && t.size() == 4) {
        const auto id = intern(t[1]);
        if (c04_trace_begin) c04_trace_begin(op_index);
        node->store_chunk(id, parse_data(t[2]), std::chrono::seconds(std::stoll(t[3])));
        const auto r = node->export_chunk_record(id);
        if (!r) return "ok lost";
        return "ok " + verif::hex_or_dash(verif::to_hex(r->data)) + " " + verif::to_hex(r->nonce) + " exp=" + std::to_string(r->expires_at.time_since_epoch().count());
    }
    if (t[0] == "fetch" && t.size() == 2) {
        const auto r = node->fetch_chunk(intern(t[1]));
        return r ? "hit " + fmt_bytes(*r) : "miss";
    }
    if (t[0] == "req" && t.size() == 2) {
        const auto id = intern(t[1]);
        drain_peer(id);  // forget anything sent earlier
        protocol::RequestPayload payload{};
        payload.chunk_id = id;
        payload.requester = peer;
        node->handle_request(payload, peer);
        auto out = drain_peer(id);
        // release the upload slot the dispatch took (slot accounting is property C23's business)
        if constexpr (requires { node->active_uploads_; node->active_uploads_per_peer_; node->pending_uploads_; }) {
            node->active_uploads_.clear();
            node->active_uploads_per_peer_.clear();
            node->pending_uploads_.clear();
        }
        return out;
    }
    if (t[0] == "list") return fmt_snapshot(node->stored_chunks());
    if (t[0] == "tick") {
        if (c04_trace_begin) c04_trace_begin(op_index);
        node->tick();
        auto notes = node->drain_cleanup_notifications();
        std::vector<std::string> v;
        for (const auto& n : notes) v.push_back(name_of_hex(n));
        return join_sorted(v);
    }
    return "bad-op";
}

}  // namespace

int main(int argc, char** argv) {
    verif::Handler h;
    h.reset = [] {};
    // the case id is needed for the directory name: wrap run_lines' reset through the op hook
    h.op = [](const std::vector<std::string>& t, const std::string&) -> std::string { return handle(t); };
    // own loop (needs the case id): same contract as verif::run_lines
    if (argc < 2) { std::fprintf(stderr, "usage: %s <ops-file>\n", argv[0]); return 2; }
    std::ifstream in(argv[1]);
    if (!in) { std::fprintf(stderr, "cannot open %s\n", argv[1]); return 2; }
    const fs::path base = fs::current_path() / ("sd-" + tag());
    std::string line;
    std::ios::sync_with_stdio(false);
    const bool keep_dirs = std::getenv("STORE_H_KEEP") != nullptr;
    auto cleanup_case = [&] {
        drop_instances();
        std::error_code ec;
        if (!keep_dirs && !dir.empty()) fs::remove_all(dir, ec);
    };
    while (std::getline(in, line)) {
        if (line.rfind("case ", 0) == 0) {
            cleanup_case();
            case_id = line.substr(5);
            std::string safe;
            for (char c : case_id) safe.push_back((std::isalnum(static_cast<unsigned char>(c)) || c == '_' || c == '-') ? c : '_');
            dir = base / safe;
            names.clear();
            op_index = 0;
            verif::vclock_set(verif::kVclockStart);
            std::cout << line << "\n" << std::flush;
            continue;
        }
        std::string out;
        try {
            out = h.op(verif::split(line), line);
        } catch (const std::exception& ex) {
            out = verif::exception_name(ex);
        }
        for (auto& c : out) if (c == '\n' || c == '\r') c = '~';
        std::cout << out << "\n" << std::flush;
    }
    cleanup_case();
    if (!keep_dirs) { std::error_code ec; fs::remove(base, ec); }
    return 0;
}
