// Harness for the STUN response parser (C33): the real parse_stun_response, reached by including
// the repository's .cpp (the function lives in an anonymous namespace).
// Ops (one output line each):
//   parse <txid-hex(12 bytes)> <datagram-hex | ->
//       -> none                          parser returned nullopt
//       -> a <family> <addr-hex> <port>  parser returned an address; the text form is converted back to
//                                        canonical bytes with inet_pton (family 1 = IPv4, 2 = IPv6)
//       -> badtext:<text>                parser returned text that is no numeric address (never expected)
// The datagram is copied into an exact-size heap allocation so that ASan sees any read past its end.
#include "common/lineproto.hpp"

#include "src/network/NatTraversal.cpp"

#include <arpa/inet.h>
#include <cstring>
#include <memory>

namespace en = ephemeralnet::network;

int main(int argc, char** argv) {
    verif::Handler h;
    h.reset = [] {};
    h.op = [](const std::vector<std::string>& t, const std::string&) -> std::string {
        if (t[0] == "parse" && t.size() == 3) {
            const auto tx = verif::from_hex(t[1]);
            if (tx.size() != 12) return "bad-op";
            std::array<std::uint8_t, 12> txid{};
            std::copy(tx.begin(), tx.end(), txid.begin());
            const auto bytes = verif::from_hex(t[2]);
            std::unique_ptr<std::uint8_t[]> buf(new std::uint8_t[bytes.size()]);
            if (!bytes.empty()) std::memcpy(buf.get(), bytes.data(), bytes.size());
            const auto r = en::parse_stun_response(buf.get(), bytes.size(), txid);
            if (!r.has_value()) return "none";
            unsigned char raw[16];
            if (inet_pton(AF_INET, r->address.c_str(), raw) == 1) {
                return "a 1 " + verif::to_hex(raw, 4) + " " + std::to_string(r->port);
            }
            if (inet_pton(AF_INET6, r->address.c_str(), raw) == 1) {
                return "a 2 " + verif::to_hex(raw, 16) + " " + std::to_string(r->port);
            }
            return "badtext:" + r->address;
        }
        return "bad-op";
    };
    return verif::run_lines(argc, argv, h);
}
