// Harness for SwarmCoordinator::compute_plan (C22): real coordinator + real KademliaTable,
// virtual clock. The node's own id is the token "s0".
//   cfg <target> <min> <sample>          -> ok   (fresh table + coordinator with this config)
//   peer <id> <ttl_s>                    -> ok   (register_peer with expiry now+ttl)
//   load <id> <active_up> <pending_up> <seed_roles> <reputation|-> <choked 0|1> -> ok
//   tself <id>                           -> ok   (fresh routing table kept under local id <id>; self stays s0)
//   adv <ns>                             -> ok
//   plan <chunk> <threshold> <labels l.l.l|->  -> c=<candidates>|a=<peer:l.l;peer:l>
#include "common/lineproto.hpp"
#include "common/vclock.hpp"
#include "ephemeralnet/core/SwarmCoordinator.hpp"

#include <map>
#include <memory>

using namespace ephemeralnet;

namespace {
Config cfg;
std::unique_ptr<KademliaTable> table;
std::unique_ptr<SwarmCoordinator> coord;
SwarmPeerLoadMap loads;
std::map<std::string, std::string> names;
PeerId self_id;

std::array<std::uint8_t, 32> intern(const std::string& tok) {
    auto id = verif::id32(tok);
    names[verif::to_hex(id)] = tok;
    return id;
}
std::string name_of(const std::array<std::uint8_t, 32>& id) {
    auto it = names.find(verif::to_hex(id));
    return it == names.end() ? verif::to_hex(id) : it->second;
}
void fresh() {
    self_id = intern("s0");
    table = std::make_unique<KademliaTable>(self_id, cfg);
    coord = std::make_unique<SwarmCoordinator>(cfg);
    loads.clear();
}
}  // namespace

int main(int argc, char** argv) {
    verif::Handler h;
    h.reset = [] {
        verif::vclock_set(verif::kVclockStart);
        names.clear();
        cfg = Config{};
        cfg.identity_seed = 7;
        fresh();
    };
    h.op = [](const std::vector<std::string>& t, const std::string&) -> std::string {
        if (t[0] == "adv" && t.size() == 2) { verif::vclock_advance(std::stoll(t[1])); return "ok"; }
        if (t[0] == "cfg" && t.size() == 4) {
            cfg.swarm_target_replicas = static_cast<std::uint16_t>(std::stoul(t[1]));
            cfg.swarm_min_providers = static_cast<std::uint16_t>(std::stoul(t[2]));
            cfg.swarm_candidate_sample = static_cast<std::uint16_t>(std::stoul(t[3]));
            fresh();
            return "ok";
        }
        if (t[0] == "tself" && t.size() == 2) {
            // the routing table handed to compute_plan may be kept under another local id than the
            // self_id passed to it (compute_plan takes both): then the table can hold the node's own id
            table = std::make_unique<KademliaTable>(intern(t[1]), cfg);
            return "ok";
        }
        if (t[0] == "peer" && t.size() == 3) {
            PeerContact c{};
            c.id = intern(t[1]);
            c.address = "10.0.0." + std::to_string(names.size()) + ":9";
            c.expires_at = std::chrono::steady_clock::now() + std::chrono::seconds(std::stoll(t[2]));
            table->register_peer(c);
            return "ok";
        }
        if (t[0] == "load" && t.size() == 7) {
            SwarmPeerLoad l{};
            l.active_uploads = std::stoul(t[2]);
            l.pending_uploads = std::stoul(t[3]);
            l.seed_roles = std::stoul(t[4]);
            if (t[5] != "-") { l.has_reputation = true; l.reputation = std::stoi(t[5]); }
            l.is_choked = t[6] == "1";
            loads[peer_id_to_string(intern(t[1]))] = l;
            return "ok";
        }
        if (t[0] == "plan" && t.size() == 4) {
            const auto chunk = intern(t[1]);
            protocol::Manifest m{};
            m.chunk_id = chunk;
            m.threshold = static_cast<std::uint8_t>(std::stoul(t[2]));
            if (t[3] != "-") {
                for (const auto& l : verif::split(t[3], '.')) {
                    protocol::KeyShard s{};
                    s.index = static_cast<std::uint8_t>(std::stoul(l));
                    m.shards.push_back(s);
                }
            }
            // the candidate view the coordinator works from (public API, same arguments)
            const auto limit = std::max<std::size_t>(static_cast<std::size_t>(cfg.swarm_candidate_sample), 1);
            PeerId target{};
            std::copy(chunk.begin(), chunk.end(), target.begin());
            std::string c;
            for (const auto& p : table->closest_peers(target, limit)) {
                if (p.id == self_id) continue;
                if (!c.empty()) c += ",";
                c += name_of(p.id);
            }
            const auto plan = coord->compute_plan(chunk, m, *table, self_id, loads);
            std::string a;
            for (const auto& as : plan.assignments) {
                if (!a.empty()) a += ";";
                a += name_of(as.peer.id) + ":";
                if (as.shard_indices.empty()) a += "-";
                for (std::size_t i = 0; i < as.shard_indices.size(); ++i) {
                    if (i) a += ".";
                    a += std::to_string(static_cast<unsigned>(as.shard_indices[i]));
                }
            }
            return "c=" + (c.empty() ? std::string("-") : c) + "|a=" + (a.empty() ? std::string("-") : a);
        }
        return "bad-op";
    };
    return verif::run_lines(argc, argv, h);
}
