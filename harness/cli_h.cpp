// Harness for the CLI properties C30 (fetch only writes matching bytes), C31 (fetch output stays inside
// the chosen directory) and C32 (configuration layers).  The whole of src/main.cpp is compiled into this
// translation unit (`main` renamed to eph_cli_main) so that the real command implementations, the real
// load_configuration / apply_profile_to_options and the real transport client code are what runs.
//
// The harness process stays single-threaded.  Fake endpoints (control servers, transport peers, relays)
// run in forked child processes that die with the parent (PR_SET_PDEATHSIG).
//
// Ops (one output line each)
//
//   fetch <mode> <payload-hex> <path> <path> ...                                            (C30)
//       mode   : auto | direct | tonly | cfb, optionally followed by manifest-state flags joined with '+':
//                past / now / far (expiry an hour ago / this instant / in 50 years), thr0 / thrbig (threshold 0 / above the
//                share count), nopub (no publisher identity), undec1..4 (URI the CLI cannot decode)
//       path   : <kind>:<prio>:<script>
//                kind  t = transport hint (tcp)   r = relay transport hint   c = control hint
//                      f = control:// fallback    l = the local daemon (at most one)
//                script (control kinds c f l): ok=<hex> | nop | err | trunc=<hex> | nostatus=<hex> | down |
//                       oks<N>=<hex> (SIZE header says N) | oksx=<hex> (no SIZE header) | oksj=<hex> (SIZE is not a number) |
//                       okl<N>=<hex> (PAYLOAD-LENGTH says N, all bytes are sent)
//                script (transport kinds t r): chunk=<hex-of-the-plaintext-it-decrypts-to> | nack | close |
//                                               badhs | down
//       -> exit=<code> file=<-|hex> tried=<i,j,...|->      (indices of the endpoints that received a
//          connection, in order; `file` is the content of the output file afterwards)
//
//   name <hex>                                                                              (C31)
//       -> cli=<hex|-|ESC:..|ERR:..> node=<hex|-> hint=<hex|-> via=<hex|->
//          cli : name of the file `eph fetch <manifest> <dir>/` really created for a manifest whose
//                filename metadata is <hex> ("-" = the CLI fell back to the hex chunk id); ESC = a file
//                appeared outside the target directory
//          node: metadata["filename"] of the manifest Node::store_chunk issues for original_name=<hex>
//          hint: security::sanitize_filename_hint(<hex>)
//          via : store_chunk(original_name = *hint) -- the route the daemon's STORE command takes
//   nm <hex>
//       same output, but computed by calling the sanitising source text extracted from the working tree
//       (fast; used for the exhaustive two-byte sweep).  "unavailable" if the extraction found nothing.
//   join <dir-hex> <name-hex>
//       -> p=<hex of (dir / name)> parent=<hex of its parent_path()> file=<hex of its filename()>
//
//   cfg  <json|yaml> <profile|-> <env|-> <flags|-> <doc>                                    (C32)
//       real load_configuration on a GlobalOptions pre-filled from <flags>
//   cfgx <json|yaml> <profile|-> <env|-> <flags|-> <doc>
//       the real CLI entry (`eph --config f [--profile p] [--env e] <flags> start`): real option parsing,
//       load_configuration, validate_global_options, build_daemon_arguments; the re-executed "daemon" is
//       this binary, which dumps the argument vector it was given
//       -> ttl=.. min=.. max=.. cport=.. tport=.. tok=.. pow=.. dir=.. pers=..   ("-" = unset)
//        | err:<E_CODE>:<kind>
//     doc   : {key:value,...}  value = {..} | integer | t | f | n | "text"
//     flags : ttl=5,min=1,max=9,cport=1,tport=2,tok=x,pow=3,dir=@d1,pers=t
//     "@name" string values stand for <scratch>/name; integers 60000..60003 in cfgx stand for the four
//     loopback ports the harness listens on.
#include "common/lineproto.hpp"

#include <dirent.h>
#include <poll.h>
#include <signal.h>
#include <sys/prctl.h>

#define main eph_cli_main
#include "src/main.cpp"
#undef main

#include "ephemeralnet/core/Node.hpp"
#include "ephemeralnet/security/StoreProof.hpp"

// (T) the two sanitising code blocks, copied verbatim from the working tree by props/C31.py:extract()
// into a generated header (they are local lambdas / statement blocks and cannot be called otherwise).
#if __has_include("c31_extracted.hpp")
#include "c31_extracted.hpp"
#endif

namespace fs = std::filesystem;
namespace en = ephemeralnet;

namespace hz {

std::string g_scratch;      // absolute scratch directory
std::string g_self_exe;

// ------------------------------------------------------------------------------------------------
// small helpers
// ------------------------------------------------------------------------------------------------
std::string hex_of(const std::string& s) { return s.empty() ? "-" : verif::to_hex(s); }
std::string str_of_hex(const std::string& h) {
    const auto b = verif::from_hex(h);
    return std::string(b.begin(), b.end());
}
std::string read_file(const fs::path& p) {
    std::ifstream in(p, std::ios::binary);
    std::stringstream ss;
    ss << in.rdbuf();
    return ss.str();
}
void write_file(const fs::path& p, const std::string& data) {
    std::ofstream out(p, std::ios::binary | std::ios::trunc);
    out << data;
}

struct Listener {
    int fd{-1};
    std::uint16_t port{0};
};
Listener make_listener() {
    Listener l;
    l.fd = ::socket(AF_INET, SOCK_STREAM, 0);
    int one = 1;
    ::setsockopt(l.fd, SOL_SOCKET, SO_REUSEADDR, &one, sizeof(one));
    sockaddr_in a{};
    a.sin_family = AF_INET;
    a.sin_addr.s_addr = htonl(INADDR_ANY);
    a.sin_port = 0;
    if (::bind(l.fd, reinterpret_cast<sockaddr*>(&a), sizeof(a)) != 0 || ::listen(l.fd, 32) != 0) {
        throw std::runtime_error("listen failed");
    }
    socklen_t len = sizeof(a);
    ::getsockname(l.fd, reinterpret_cast<sockaddr*>(&a), &len);
    l.port = ntohs(a.sin_port);
    return l;
}
// a port nobody listens on: bound (so that nothing else can be given the number) but never put into the listening state,
// connections are refused.  The caller closes the descriptor when the case is over.
Listener make_refusing() {
    Listener l;
    l.fd = ::socket(AF_INET, SOCK_STREAM, 0);
    sockaddr_in a{};
    a.sin_family = AF_INET;
    a.sin_addr.s_addr = htonl(INADDR_ANY);
    a.sin_port = 0;
    if (::bind(l.fd, reinterpret_cast<sockaddr*>(&a), sizeof(a)) != 0) throw std::runtime_error("bind failed");
    socklen_t len = sizeof(a);
    ::getsockname(l.fd, reinterpret_cast<sockaddr*>(&a), &len);
    l.port = ntohs(a.sin_port);
    return l;
}

bool send_str(int fd, const std::string& s) {
    return socket_send_all(fd, reinterpret_cast<const std::uint8_t*>(s.data()), s.size());
}
// request header: lines up to the first empty line
std::vector<std::string> read_header(int fd) {
    std::vector<std::string> lines;
    socket_set_timeout(fd, std::chrono::milliseconds{3000});
    while (true) {
        auto line = socket_read_line(fd, std::chrono::milliseconds{0});
        if (!line.has_value() || line->empty()) break;
        lines.push_back(*line);
    }
    return lines;
}

// run the CLI entry in-process with stdout/stderr captured
struct CliResult {
    int code{0};
    std::string out;
    std::string err;
};
CliResult run_cli(const std::vector<std::string>& args) {
    std::vector<std::string> storage;
    storage.push_back(g_self_exe.empty() ? std::string("eph") : g_self_exe);
    for (const auto& a : args) storage.push_back(a);
    std::vector<char*> argv;
    for (auto& s : storage) argv.push_back(s.data());
    argv.push_back(nullptr);
    std::ostringstream o, e;
    auto* old_o = std::cout.rdbuf(o.rdbuf());
    auto* old_e = std::cerr.rdbuf(e.rdbuf());
    CliResult r;
    try {
        r.code = eph_cli_main(static_cast<int>(storage.size()), argv.data());
    } catch (...) {
        std::cout.rdbuf(old_o);
        std::cerr.rdbuf(old_e);
        throw;
    }
    std::cout.rdbuf(old_o);
    std::cerr.rdbuf(old_e);
    std::cout.clear();
    std::cerr.clear();
    r.out = o.str();
    r.err = e.str();
    return r;
}

// ------------------------------------------------------------------------------------------------
// manifests
// ------------------------------------------------------------------------------------------------
constexpr std::uint32_t kPeerPrivate = 0x1234567u;   // the fake publisher's Diffie-Hellman scalar

en::PeerId publisher_peer_id() {
    en::PeerId id{};
    for (std::size_t i = 0; i < id.size(); ++i) id[i] = static_cast<std::uint8_t>(0xA0 + i);
    return id;
}

struct Crafted {
    protocol::Manifest manifest;
    en::crypto::Key key;
};
Crafted craft_manifest(const std::string& payload) {
    Crafted c;
    const auto digest = en::crypto::Sha256::digest(
        std::span<const std::uint8_t>(reinterpret_cast<const std::uint8_t*>(payload.data()), payload.size()));
    std::copy(digest.begin(), digest.end(), c.manifest.chunk_id.begin());
    c.manifest.chunk_id[0] ^= 0x5a;   // the id need not equal the hash
    c.manifest.chunk_hash = digest;
    for (std::size_t i = 0; i < c.key.bytes.size(); ++i) c.key.bytes[i] = static_cast<std::uint8_t>(i * 7 + 1);
    for (std::size_t i = 0; i < c.manifest.nonce.bytes.size(); ++i) c.manifest.nonce.bytes[i] = static_cast<std::uint8_t>(i + 3);
    c.manifest.threshold = 2;
    c.manifest.total_shares = 3;
    for (const auto& s : en::crypto::Shamir::split(c.key.bytes, 2, 3)) {
        protocol::KeyShard k{};
        k.index = s.index;
        k.value = s.value;
        c.manifest.shards.push_back(k);
    }
    c.manifest.expires_at = std::chrono::system_clock::now() + std::chrono::hours(1);
    c.manifest.metadata["publisher_peer"] = en::peer_id_to_string(publisher_peer_id());
    c.manifest.metadata["publisher_public"] = std::to_string(en::network::KeyExchange::compute_public(kPeerPrivate));
    return c;
}
// what a peer holding `plain` under the manifest's key would send (stream cipher: decrypt == encrypt)
std::vector<std::uint8_t> seal(const Crafted& c, const std::string& plain) {
    auto r = en::crypto::CryptoManager::decrypt_with_key(
        c.key, c.manifest.chunk_id,
        std::span<const std::uint8_t>(reinterpret_cast<const std::uint8_t*>(plain.data()), plain.size()), c.manifest.nonce);
    return r.value_or(std::vector<std::uint8_t>{});
}

// ------------------------------------------------------------------------------------------------
// fake endpoints (run in a forked child)
// ------------------------------------------------------------------------------------------------
struct Endpoint {
    char kind{'c'};           // t r c f l
    int prio{0};
    std::string script;       // ok=.. nop err trunc=.. nostatus=.. down | chunk=.. nack close badhs down
    Listener listener;
    bool transport() const { return kind == 't' || kind == 'r'; }
};

// both serve_* functions return false when the peer had already gone away (a stale connection left in the backlog by a
// client that timed out): the parent then repeats the op instead of trusting its outcome
bool serve_control(int c, const std::string& script) {
    if (read_header(c).empty()) return false;
    const auto eq = script.find('=');
    const std::string verb = script.substr(0, eq);
    const std::string body = eq == std::string::npos ? std::string{} : str_of_hex(script.substr(eq + 1));
    if (verb == "ok") {
        send_str(c, "STATUS:OK\nCODE:OK_FETCH\nSIZE:" + std::to_string(body.size()) + "\nSTREAM:CLIENT\nPAYLOAD-LENGTH:" +
                        std::to_string(body.size()) + "\n\n" + body);
    } else if (verb.rfind("oks", 0) == 0) {
        // the SIZE header disagrees with (or is missing from / is garbage in) the response: oks<digits> | oksx | oksj
        const std::string spec = verb.substr(3);
        std::string size_line;
        if (spec == "x") size_line = "";
        else if (spec == "j") size_line = "SIZE:12abc\n";
        else size_line = "SIZE:" + spec + "\n";
        send_str(c, "STATUS:OK\nCODE:OK_FETCH\n" + size_line + "STREAM:CLIENT\nPAYLOAD-LENGTH:" + std::to_string(body.size()) + "\n\n" + body);
    } else if (verb.rfind("okl", 0) == 0) {
        // PAYLOAD-LENGTH announces fewer bytes than are sent (SIZE names the full length): the client reads a prefix
        send_str(c, "STATUS:OK\nCODE:OK_FETCH\nSIZE:" + std::to_string(body.size()) + "\nSTREAM:CLIENT\nPAYLOAD-LENGTH:" + verb.substr(3) +
                        "\n\n" + body);
    } else if (verb == "nop") {
        send_str(c, "STATUS:OK\nCODE:OK_FETCH\nOUTPUT:/nonexistent/remote.bin\nSIZE:3\n\n");
    } else if (verb == "trunc") {
        send_str(c, "STATUS:OK\nCODE:OK_FETCH\nSIZE:" + std::to_string(body.size() + 7) + "\nPAYLOAD-LENGTH:" +
                        std::to_string(body.size() + 7) + "\n\n" + body);
    } else if (verb == "nostatus") {
        send_str(c, "CODE:OK_FETCH\nPAYLOAD-LENGTH:" + std::to_string(body.size()) + "\n\n" + body);
    } else {
        send_str(c, "STATUS:ERROR\nCODE:ERR_FETCH_CHUNK_MISSING\nMESSAGE:Chunk not available locally\n\n");
    }
    return true;
}

bool serve_transport(int c, const Endpoint& ep, const Crafted& crafted) {
    socket_set_timeout(c, std::chrono::milliseconds{3000});
    if (ep.kind == 'r') {
        auto line = socket_read_line(c, std::chrono::milliseconds{0});
        if (!line.has_value() || line->rfind("CONNECT ", 0) != 0) return false;
        send_str(c, "OK\n");
    }
    en::PeerId initiator{};
    if (!socket_recv_all(c, initiator.data(), initiator.size())) return false;
    std::array<std::uint8_t, 4> lenb{};
    if (!socket_recv_all(c, lenb.data(), lenb.size())) return true;
    const std::uint32_t len = (std::uint32_t(lenb[0]) << 24) | (std::uint32_t(lenb[1]) << 16) | (std::uint32_t(lenb[2]) << 8) | lenb[3];
    if (len > 65536) return true;
    std::vector<std::uint8_t> frame(len);
    if (len && !socket_recv_all(c, frame.data(), frame.size())) return true;
    const auto hs = protocol::decode(frame);
    if (!hs.has_value()) return true;
    const auto* hp = std::get_if<protocol::TransportHandshakePayload>(&hs->payload);
    if (!hp) return true;
    const std::uint32_t my_public = en::network::KeyExchange::compute_public(kPeerPrivate);
    const auto shared = en::network::KeyExchange::derive_shared_secret(kPeerPrivate, hp->public_identity);
    std::array<std::uint32_t, 2> ordered{hp->public_identity, my_public};
    std::sort(ordered.begin(), ordered.end());
    std::array<std::uint8_t, 8> material{};
    for (std::size_t i = 0; i < 2; ++i)
        for (std::size_t b = 0; b < 4; ++b) material[i * 4 + b] = static_cast<std::uint8_t>((ordered[i] >> ((3 - b) * 8)) & 0xFFu);
    const std::array<std::uint8_t, 32> key = en::crypto::HmacSha256::compute(std::span<const std::uint8_t>(shared.bytes),
                                                                            std::span<const std::uint8_t>(material));
    protocol::Message ack{};
    ack.version = protocol::kCurrentMessageVersion;
    ack.type = protocol::MessageType::HandshakeAck;
    protocol::HandshakeAckPayload ap{};
    ap.accepted = ep.script != "badhs";
    ap.negotiated_version = protocol::kCurrentMessageVersion;
    ap.responder_public = my_public;
    ack.payload = ap;
    if (!send_protocol_message(c, key, ack)) return false;
    if (!ap.accepted) return true;
    const auto req = receive_protocol_message(c, key, std::chrono::milliseconds{3000});
    if (!req.has_value()) return false;   // an initiator that was accepted always sends its request
    if (req->type != protocol::MessageType::Request) return true;
    const auto eq = ep.script.find('=');
    const std::string verb = ep.script.substr(0, eq);
    if (verb == "chunk") {
        protocol::Message m{};
        m.version = req->version;
        m.type = protocol::MessageType::Chunk;
        protocol::ChunkPayload cp{};
        cp.chunk_id = crafted.manifest.chunk_id;
        cp.data = seal(crafted, str_of_hex(ep.script.substr(eq + 1)));
        cp.ttl = std::chrono::seconds(60);
        m.payload = cp;
        send_protocol_message(c, key, m);
    } else if (verb == "nack") {
        protocol::Message m{};
        m.version = req->version;
        m.type = protocol::MessageType::Acknowledge;
        protocol::AcknowledgePayload ak{};
        ak.chunk_id = crafted.manifest.chunk_id;
        ak.peer_id = publisher_peer_id();
        ak.accepted = false;
        m.payload = ak;
        send_protocol_message(c, key, m);
    }
    // "close": say nothing
    return true;
}

// Child process: serve the listed endpoints until killed; report each accepted connection's endpoint
// index on `log_fd`.  `ping_file`: PING is answered OK once that file exists (cfgx).
[[noreturn]] void server_loop(const std::vector<Endpoint>& eps, const Crafted* crafted, int log_fd, const std::string& ping_file) {
    ::prctl(PR_SET_PDEATHSIG, SIGKILL);
    ::signal(SIGPIPE, SIG_IGN);
    std::vector<pollfd> fds;
    std::vector<std::size_t> owner;
    for (std::size_t i = 0; i < eps.size(); ++i) {
        if (eps[i].listener.fd >= 0) {
            fds.push_back({eps[i].listener.fd, POLLIN, 0});
            owner.push_back(i);
        }
    }
    while (true) {
        if (fds.empty()) { ::pause(); continue; }
        if (::poll(fds.data(), fds.size(), -1) <= 0) continue;
        for (std::size_t k = 0; k < fds.size(); ++k) {
            if (!(fds[k].revents & POLLIN)) continue;
            const int c = ::accept(fds[k].fd, nullptr, nullptr);
            if (c < 0) continue;
            const auto& ep = eps[owner[k]];
            const std::uint8_t tag = static_cast<std::uint8_t>(owner[k] & 0x3f);
            if (log_fd >= 0) { (void)!::write(log_fd, &tag, 1); }
            const auto t_accept = std::chrono::steady_clock::now();
            bool peer_present = true;
            try {
                if (!ping_file.empty()) {
                    (void)read_header(c);
                    // wait (briefly) for the re-executed binary to have written its dump
                    for (int spin = 0; spin < 400 && !fs::exists(ping_file) && fs::exists(ping_file + ".armed"); ++spin) ::usleep(10000);
                    if (fs::exists(ping_file)) send_str(c, "STATUS:OK\nCODE:OK_PING\n\n");
                    else { write_file(ping_file + ".armed", "1"); send_str(c, "STATUS:ERROR\nCODE:ERR_NOT_YET\n\n"); }
                } else if (ep.transport()) {
                    peer_present = serve_transport(c, ep, *crafted);
                } else {
                    peer_present = serve_control(c, ep.script);
                }
            } catch (...) {
            }
            ::shutdown(c, SHUT_RDWR);
            ::close(c);
            // completion record: 0x80|idx when the scripted answer went out well inside the CLI's shortest timeout
            // (2 s handshake), 0xC0|idx when this process was too slow (loaded machine) -- the parent then repeats the op
            const auto ms = std::chrono::duration_cast<std::chrono::milliseconds>(std::chrono::steady_clock::now() - t_accept).count();
            const std::uint8_t done = static_cast<std::uint8_t>((ms < 900 && peer_present ? 0x80 : 0xC0) | tag);
            if (log_fd >= 0) { (void)!::write(log_fd, &done, 1); }
        }
    }
}

struct ServerProc {
    pid_t pid{-1};
    int log_read{-1};
    void stop() {
        if (pid > 0) {
            ::kill(pid, SIGKILL);
            int st = 0;
            ::waitpid(pid, &st, 0);
            pid = -1;
        }
    }
    std::string drain() {
        std::string tags;
        if (log_read >= 0) {
            ::fcntl(log_read, F_SETFL, O_NONBLOCK);
            char buf[256];
            ssize_t n;
            while ((n = ::read(log_read, buf, sizeof(buf))) > 0) tags.append(buf, static_cast<std::size_t>(n));
            ::close(log_read);
            log_read = -1;
        }
        return tags;
    }
};
ServerProc spawn_server(std::vector<Endpoint>& eps, const Crafted* crafted, const std::string& ping_file = {}) {
    int pipefd[2];
    if (::pipe(pipefd) != 0) throw std::runtime_error("pipe");
    std::cout.flush();
    const pid_t pid = ::fork();
    if (pid < 0) throw std::runtime_error("fork");
    if (pid == 0) {
        ::close(pipefd[0]);
        server_loop(eps, crafted, pipefd[1], ping_file);
    }
    ::close(pipefd[1]);
    for (auto& e : eps) {
        if (e.listener.fd >= 0) { ::close(e.listener.fd); e.listener.fd = -1; }
    }
    return ServerProc{pid, pipefd[0]};
}

// ------------------------------------------------------------------------------------------------
// the warm endpoint server used by `fetch` ops: forked once, told per case which endpoints to play
// (forking a sanitizer-instrumented process per case costs hundreds of milliseconds on a loaded machine
// and made the freshly forked child miss the CLI's two-second handshake timeout)
//   parent -> child : "CASE <payload-hex> <kind:prio:script> ...\n"   child -> parent : "PORTS p0 p1 ...\n"
//   parent -> child : "END\n"                                          child -> parent : "LOG <hex>\n"
// ------------------------------------------------------------------------------------------------
struct WarmServer {
    pid_t pid{-1};
    int cmd_w{-1};
    int rsp_r{-1};
};
WarmServer g_warm;

bool read_line_fd(int fd, std::string& line) {
    line.clear();
    char ch = 0;
    while (true) {
        const ssize_t n = ::read(fd, &ch, 1);
        if (n <= 0) return false;
        if (ch == '\n') return true;
        line.push_back(ch);
    }
}

[[noreturn]] void warm_loop(int cmd_r, int rsp_w) {
    ::prctl(PR_SET_PDEATHSIG, SIGKILL);
    ::signal(SIGPIPE, SIG_IGN);
    std::vector<Endpoint> eps;
    Crafted crafted;
    std::string log;
    std::vector<int> reserved;   // bound, non-listening sockets standing for endpoints that are down
    auto close_all = [&] {
        for (auto& e : eps) if (e.listener.fd >= 0) { ::close(e.listener.fd); e.listener.fd = -1; }
        for (int fd : reserved) ::close(fd);
        reserved.clear();
    };
    while (true) {
        std::vector<pollfd> fds;
        std::vector<std::size_t> owner;
        fds.push_back({cmd_r, POLLIN, 0});
        for (std::size_t i = 0; i < eps.size(); ++i) if (eps[i].listener.fd >= 0) { fds.push_back({eps[i].listener.fd, POLLIN, 0}); owner.push_back(i); }
        if (::poll(fds.data(), fds.size(), -1) <= 0) continue;
        if (fds[0].revents & (POLLIN | POLLHUP)) {
            std::string line;
            if (!read_line_fd(cmd_r, line)) ::_exit(0);
            const auto tok = verif::split(line);
            if (tok[0] == "CASE" && tok.size() >= 2) {
                close_all();
                eps.clear();
                log.clear();
                crafted = craft_manifest(str_of_hex(tok[1]));
                std::string reply = "PORTS";
                for (std::size_t i = 2; i < tok.size(); ++i) {
                    const auto parts = verif::split(tok[i], ':');
                    Endpoint e;
                    if (parts.size() == 3 && parts[0].size() == 1) { e.kind = parts[0][0]; e.prio = std::atoi(parts[1].c_str()); e.script = parts[2]; }
                    if (e.script == "down") {
                        Listener refusing = make_refusing();
                        reserved.push_back(refusing.fd);
                        e.listener.port = refusing.port;
                    } else {
                        e.listener = make_listener();
                    }
                    reply += " " + std::to_string(e.listener.port);
                    eps.push_back(e);
                }
                reply += "\n";
                (void)!::write(rsp_w, reply.data(), reply.size());
            } else if (tok[0] == "END") {
                close_all();
                const std::string reply = "LOG " + (log.empty() ? std::string("-") : verif::to_hex(log)) + "\n";
                (void)!::write(rsp_w, reply.data(), reply.size());
            }
            continue;
        }
        for (std::size_t k = 1; k < fds.size(); ++k) {
            if (!(fds[k].revents & POLLIN)) continue;
            const std::size_t idx = owner[k - 1];
            const int c = ::accept(fds[k].fd, nullptr, nullptr);
            if (c < 0) continue;
            log.push_back(static_cast<char>(idx & 0x3f));
            const auto t_accept = std::chrono::steady_clock::now();
            bool peer_present = true;
            try {
                peer_present = eps[idx].transport() ? serve_transport(c, eps[idx], crafted) : serve_control(c, eps[idx].script);
            } catch (...) {
            }
            ::shutdown(c, SHUT_RDWR);
            ::close(c);
            const auto ms = std::chrono::duration_cast<std::chrono::milliseconds>(std::chrono::steady_clock::now() - t_accept).count();
            log.push_back(static_cast<char>((ms < 900 && peer_present ? 0x80 : 0xC0) | (idx & 0x3f)));
        }
    }
}

void ensure_warm() {
    if (g_warm.pid > 0) return;
    int a[2], b[2];
    if (::pipe(a) != 0 || ::pipe(b) != 0) throw std::runtime_error("pipe");
    std::cout.flush();
    const pid_t pid = ::fork();
    if (pid < 0) throw std::runtime_error("fork");
    if (pid == 0) {
        ::close(a[1]);
        ::close(b[0]);
        warm_loop(a[0], b[1]);
    }
    ::close(a[0]);
    ::close(b[1]);
    g_warm = WarmServer{pid, a[1], b[0]};
}

// ------------------------------------------------------------------------------------------------
// C30
// ------------------------------------------------------------------------------------------------
int g_counter = 0;

std::string op_fetch_once(const std::vector<std::string>& t, bool& timing_suspect) {
    timing_suspect = false;
    if (t.size() < 3) return "bad-op";
    const auto mode_parts = verif::split(t[1], '+');
    std::string mode = mode_parts[0];
    const bool pre = false;
    std::set<std::string> mflags(mode_parts.begin() + 1, mode_parts.end());
    const std::string payload = str_of_hex(t[2]);
    Crafted crafted = craft_manifest(payload);
    // the state of the manifest itself
    if (mflags.contains("past")) crafted.manifest.expires_at = std::chrono::system_clock::now() - std::chrono::hours(1);
    if (mflags.contains("now")) crafted.manifest.expires_at = std::chrono::system_clock::now();
    if (mflags.contains("far")) crafted.manifest.expires_at = std::chrono::system_clock::now() + std::chrono::hours(24 * 365 * 50);
    if (mflags.contains("thr0")) crafted.manifest.threshold = 0;
    if (mflags.contains("thrbig")) crafted.manifest.threshold = 9;     // more than the three shares present
    if (mflags.contains("nopub")) { crafted.manifest.metadata.erase("publisher_peer"); crafted.manifest.metadata.erase("publisher_public"); }
    std::vector<Endpoint> eps;
    for (std::size_t i = 3; i < t.size(); ++i) {
        const auto parts = verif::split(t[i], ':');
        if (parts.size() != 3 || parts[0].size() != 1 || std::string("trcfl").find(parts[0][0]) == std::string::npos) return "bad-op";
        Endpoint e;
        e.kind = parts[0][0];
        e.prio = std::stoi(parts[1]);
        e.script = parts[2];
        eps.push_back(e);
    }
    if (eps.size() > 60) return "bad-op";
    ensure_warm();
    {
        std::string cmd = "CASE " + t[2];
        for (std::size_t i = 3; i < t.size(); ++i) cmd += " " + t[i];
        cmd += "\n";
        if (::write(g_warm.cmd_w, cmd.data(), cmd.size()) != static_cast<ssize_t>(cmd.size())) return "crash:endpoint-server";
        std::string reply;
        if (!read_line_fd(g_warm.rsp_r, reply)) return "crash:endpoint-server";
        const auto ports = verif::split(reply);
        if (ports.size() != eps.size() + 1 || ports[0] != "PORTS") return "crash:endpoint-server";
        for (std::size_t i = 0; i < eps.size(); ++i) eps[i].listener.port = static_cast<std::uint16_t>(std::stoul(ports[i + 1]));
    }
    std::uint16_t local_port = 0;
    for (const auto& e : eps) {
        const std::string endpoint = "127.0.0.1:" + std::to_string(e.listener.port);
        if (e.kind == 't') crafted.manifest.discovery_hints.push_back({"transport", "tcp", endpoint, static_cast<std::uint8_t>(e.prio)});
        else if (e.kind == 'r') crafted.manifest.discovery_hints.push_back({"transport", "relay", endpoint, static_cast<std::uint8_t>(e.prio)});
        else if (e.kind == 'c') crafted.manifest.discovery_hints.push_back({"control", "control", endpoint, static_cast<std::uint8_t>(e.prio)});
        else if (e.kind == 'f') crafted.manifest.fallback_hints.push_back({"control://" + endpoint, static_cast<std::uint8_t>(e.prio)});
        else if (e.kind == 'l') local_port = e.listener.port;
    }
    Listener local_refusing;
    if (local_port == 0) { local_refusing = make_refusing(); local_port = local_refusing.port; }
    std::string uri = protocol::encode_manifest(crafted.manifest);
    // manifests the CLI cannot decode (still an eph:// URI, so the command gets as far as the local daemon)
    if (mflags.contains("undec1")) uri = uri.substr(0, 6 + 40);                                   // truncated
    if (mflags.contains("undec2")) uri = "eph://" + std::string("QUJDREVGR0g");                      // a few unrelated bytes
    if (mflags.contains("undec3")) { uri[6] = (uri[6] == 'Z' ? 'Y' : 'Z'); }                       // version byte changed
    if (mflags.contains("undec4")) uri = uri.substr(0, uri.size() - 9);                           // tail (fallback hints) cut off
    if (mflags.contains("undec1") || mflags.contains("undec2") || mflags.contains("undec3") || mflags.contains("undec4")) {
        bool decodes = true;
        try { (void)protocol::decode_manifest(uri); } catch (const std::exception&) { decodes = false; }
        if (decodes) return "bad-op:still-decodable";
    }
    const fs::path dir = fs::path(g_scratch) / ("f" + std::to_string(++g_counter));
    fs::create_directories(dir);
    const fs::path out = dir / "out.bin";
    if (pre) write_file(out, "OLD");

    std::vector<std::string> args{"--control-host", "127.0.0.1", "--control-port", std::to_string(local_port),
                                  "--identity-seed", "77"};
    if (pre) args.push_back("--yes");
    args.push_back("fetch");
    args.push_back(uri);
    args.push_back("--out");
    args.push_back(out.string());
    if (mode == "direct") args.push_back("--direct-only");
    else if (mode == "tonly") args.push_back("--transport-only");
    else if (mode == "cfb") args.push_back("--control-fallback");
    else if (mode != "auto") return "bad-op";
    CliResult r;
    std::string thrown;
    try {
        r = run_cli(args);
    } catch (const std::exception& ex) {
        thrown = verif::exception_name(ex);
    }
    if (local_refusing.fd >= 0) ::close(local_refusing.fd);
    std::string tags;
    {
        const std::string cmd = "END\n";
        std::string reply;
        if (::write(g_warm.cmd_w, cmd.data(), cmd.size()) != static_cast<ssize_t>(cmd.size()) || !read_line_fd(g_warm.rsp_r, reply) ||
            reply.rfind("LOG ", 0) != 0) {
            return "crash:endpoint-server";
        }
        tags = str_of_hex(reply.substr(4));
    }
    std::string tried;
    std::set<int> accepted, done_fast;
    for (unsigned char ch : tags) {
        if (ch < 0x80) {
            if (!tried.empty()) tried += ",";
            tried += std::to_string(static_cast<int>(ch));
            accepted.insert(ch);
        } else if (ch < 0xC0) {
            done_fast.insert(ch & 0x3f);
        }
    }
    for (int idx : accepted) if (!done_fast.contains(idx)) timing_suspect = true;
    std::string file = "-";
    if (fs::exists(out)) {
        const auto content = read_file(out);
        file = content.empty() ? "empty" : verif::to_hex(content);
    }
    // anything else created in the directory is reported too
    std::string extra;
    for (const auto& entry : fs::directory_iterator(dir)) {
        if (entry.path().filename() != "out.bin") extra += "+" + verif::to_hex(entry.path().filename().string());
    }
    std::error_code ec;
    fs::remove_all(dir, ec);
    if (!thrown.empty()) return thrown;
    return "exit=" + std::to_string(r.code) + " file=" + file + extra + " tried=" + (tried.empty() ? "-" : tried);
}

// A fake endpoint that could not answer within the CLI's own timeouts (2 s handshake, forked sanitizer process on a
// loaded machine) makes the CLI give up on an endpoint that was scripted to be honest: repeat such runs.
std::string op_fetch(const std::vector<std::string>& t) {
    std::string out;
    for (int attempt = 0; attempt < 5; ++attempt) {
        bool suspect = false;
        out = op_fetch_once(t, suspect);
        if (!suspect) break;
        ::usleep(200000);
    }
    return out;
}

// ------------------------------------------------------------------------------------------------
// C31
// ------------------------------------------------------------------------------------------------
const std::string kHonestPayload = "hello-verif";
ServerProc g_honest;
std::uint16_t g_honest_port = 0;
std::unique_ptr<en::Node> g_node;

void ensure_honest() {
    if (g_honest.pid > 0) return;
    std::vector<Endpoint> eps(1);
    eps[0].kind = 'l';
    eps[0].script = "ok=" + verif::to_hex(kHonestPayload);
    eps[0].listener = make_listener();
    g_honest_port = eps[0].listener.port;
    g_honest = spawn_server(eps, nullptr);
    ::close(g_honest.log_read);
    g_honest.log_read = -1;
}

void list_tree(const fs::path& root, const fs::path& rel, std::vector<std::string>& out) {
    DIR* d = ::opendir((root / rel).c_str());
    if (!d) return;
    while (auto* e = ::readdir(d)) {
        const std::string n = e->d_name;
        if (n == "." || n == "..") continue;
        const fs::path child = rel / n;
        struct stat st {};
        if (::lstat((root / child).c_str(), &st) == 0 && S_ISDIR(st.st_mode)) list_tree(root, child, out);
        else out.push_back(child.string());
    }
    ::closedir(d);
}

std::string cli_created_name(const std::string& raw) {
    ensure_honest();
    Crafted crafted = craft_manifest(kHonestPayload);
    crafted.manifest.metadata["filename"] = raw;
    const std::string uri = protocol::encode_manifest(crafted.manifest);
    // jail/<n>/a/b/target/ : room for a few "../" to stay inside the scanned tree
    const fs::path jail = fs::path(g_scratch) / ("j" + std::to_string(++g_counter));
    const fs::path target = jail / "a" / "b" / "target";
    fs::create_directories(target);
    std::string thrown;
    CliResult r;
    try {
        r = run_cli({"--control-host", "127.0.0.1", "--control-port", std::to_string(g_honest_port), "--identity-seed", "77",
                     "--yes", "fetch", uri, "--out", target.string() + "/"});
    } catch (const std::exception& ex) {
        thrown = verif::exception_name(ex);
    }
    std::vector<std::string> files;
    list_tree(jail, "", files);
    std::string res;
    if (!thrown.empty()) res = "ERR:" + thrown;
    else if (files.size() != 1) res = "ERR:files" + std::to_string(files.size()) + ":exit" + std::to_string(r.code);
    else {
        const fs::path created = jail / files[0];
        std::error_code ec;
        const auto real_parent = fs::canonical(created.parent_path(), ec);
        const auto real_target = fs::canonical(target, ec);
        const std::string name = created.filename().string();
        if (real_parent != real_target || files[0] != (fs::path("a") / "b" / "target" / name).string()) {
            res = "ESC:" + verif::to_hex(files[0]);
        } else if (read_file(created) != kHonestPayload) {
            res = "ERR:content";
        } else if (name == en::chunk_id_to_string(crafted.manifest.chunk_id)) {
            res = "-";
        } else {
            res = verif::to_hex(name);
        }
    }
    std::error_code ec;
    fs::remove_all(jail, ec);
    return res;
}

int g_node_uses = 0;
std::string node_recorded_name(const std::optional<std::string>& original) {
    if (++g_node_uses % 2048 == 0) g_node.reset();
    if (!g_node) {
        en::Config cfg{};
        cfg.relay_enabled = false;
        cfg.nat_stun_enabled = false;
        cfg.advertise_auto_mode = en::Config::AdvertiseAutoMode::Off;
        en::PeerId id{};
        id[0] = 0x31;
        g_node = std::make_unique<en::Node>(id, cfg);
    }
    en::ChunkData data{'x', 'y', 'z', static_cast<std::uint8_t>(g_counter & 0xff)};
    en::ChunkId cid{};
    cid[0] = 0xC3;
    cid[1] = static_cast<std::uint8_t>((++g_counter) >> 8);
    cid[2] = static_cast<std::uint8_t>(g_counter);
    const auto manifest = g_node->store_chunk(cid, data, std::chrono::seconds(60), original);
    // what a reader of the issued manifest sees (through the real codec)
    const auto decoded = protocol::decode_manifest(protocol::encode_manifest(manifest));
    const auto it = decoded.metadata.find("filename");
    return it == decoded.metadata.end() ? std::string("-") : hex_of(it->second);
}

std::string op_name(const std::vector<std::string>& t) {
    if (t.size() != 2) return "bad-op";
    const std::string raw = str_of_hex(t[1]);
    const std::string cli = cli_created_name(raw);
    const std::string node = node_recorded_name(raw);
    const auto hint = en::security::sanitize_filename_hint(raw);
    const std::string via = hint.has_value() ? node_recorded_name(*hint) : std::string("-");
    return "cli=" + cli + " node=" + node + " hint=" + (hint.has_value() ? hex_of(*hint) : std::string("-")) + " via=" + via;
}

std::string op_nm(const std::vector<std::string>& t) {
    if (t.size() != 2) return "bad-op";
#ifdef C31X_AVAILABLE
    const std::string raw = str_of_hex(t[1]);
    const std::string cli = c31x::cli_sanitize(raw);
    const auto node = c31x::node_filename(raw);
    const auto hint = en::security::sanitize_filename_hint(raw);
    const auto via = hint.has_value() ? c31x::node_filename(*hint) : std::optional<std::string>{};
    return "cli=" + hex_of(cli) + " node=" + (node ? hex_of(*node) : std::string("-")) + " hint=" +
           (hint.has_value() ? hex_of(*hint) : std::string("-")) + " via=" + (via ? hex_of(*via) : std::string("-"));
#else
    return "unavailable";
#endif
}

std::string op_join(const std::vector<std::string>& t) {
    if (t.size() != 3) return "bad-op";
    fs::path p(str_of_hex(t[1]));
    p /= str_of_hex(t[2]);
    return "p=" + hex_of(p.string()) + " parent=" + hex_of(p.parent_path().string()) + " file=" + hex_of(p.filename().string());
}

// ------------------------------------------------------------------------------------------------
// C32
// ------------------------------------------------------------------------------------------------
struct Tree {
    enum Kind { Null, Bool, Int, Str, Obj } kind{Null};
    bool b{false};
    long long i{0};
    std::string s;
    std::vector<std::pair<std::string, Tree>> fields;
};

struct TreeParser {
    const std::string& text;
    std::size_t pos{0};
    bool ok{true};
    Tree value() {
        Tree t;
        if (pos >= text.size()) { ok = false; return t; }
        const char c = text[pos];
        if (c == '{') {
            ++pos;
            t.kind = Tree::Obj;
            if (pos < text.size() && text[pos] == '}') { ++pos; return t; }
            while (ok) {
                std::string key;
                while (pos < text.size() && text[pos] != ':') key.push_back(text[pos++]);
                if (pos >= text.size()) { ok = false; break; }
                ++pos;
                Tree v = value();
                t.fields.emplace_back(key, std::move(v));
                if (pos < text.size() && text[pos] == ',') { ++pos; continue; }
                if (pos < text.size() && text[pos] == '}') { ++pos; break; }
                ok = false;
            }
            return t;
        }
        if (c == '"') {
            ++pos;
            t.kind = Tree::Str;
            while (pos < text.size() && text[pos] != '"') t.s.push_back(text[pos++]);
            if (pos >= text.size()) ok = false; else ++pos;
            return t;
        }
        if (c == 't' || c == 'f') { t.kind = Tree::Bool; t.b = c == 't'; ++pos; return t; }
        if (c == 'n') { ++pos; return t; }
        std::string num;
        while (pos < text.size() && (text[pos] == '-' || std::isdigit(static_cast<unsigned char>(text[pos])))) num.push_back(text[pos++]);
        if (num.empty()) { ok = false; return t; }
        t.kind = Tree::Int;
        t.i = std::stoll(num);
        return t;
    }
};

std::uint16_t g_slot_ports[4] = {0, 0, 0, 0};

std::string map_string(const std::string& s) { return (!s.empty() && s[0] == '@') ? g_scratch + "/" + s.substr(1) : s; }
std::string unmap_string(const std::string& s) {
    const std::string prefix = g_scratch + "/";
    return s.rfind(prefix, 0) == 0 ? "@" + s.substr(prefix.size()) : s;
}
long long map_int(long long v, bool slots) { return (slots && v >= 60000 && v < 60004) ? g_slot_ports[v - 60000] : v; }
long long unmap_int(long long v, bool slots) {
    if (slots) for (int k = 0; k < 4; ++k) if (v == g_slot_ports[k]) return 60000 + k;
    return v;
}

void render_json(const Tree& t, bool slots, std::string& out) {
    switch (t.kind) {
        case Tree::Null: out += "null"; break;
        case Tree::Bool: out += t.b ? "true" : "false"; break;
        case Tree::Int: out += std::to_string(map_int(t.i, slots)); break;
        case Tree::Str: out += "\"" + map_string(t.s) + "\""; break;
        case Tree::Obj: {
            out += "{";
            bool first = true;
            for (const auto& [k, v] : t.fields) {
                if (!first) out += ", ";
                first = false;
                out += "\"" + k + "\": ";
                render_json(v, slots, out);
            }
            out += "}";
        }
    }
}
void render_yaml(const Tree& t, bool slots, int indent, std::string& out) {
    for (const auto& [k, v] : t.fields) {
        out += std::string(static_cast<std::size_t>(indent), ' ') + k + ":";
        switch (v.kind) {
            case Tree::Null: out += " null\n"; break;
            case Tree::Bool: out += v.b ? " true\n" : " false\n"; break;
            case Tree::Int: out += " " + std::to_string(map_int(v.i, slots)) + "\n"; break;
            case Tree::Str: out += " \"" + map_string(v.s) + "\"\n"; break;
            case Tree::Obj: out += "\n"; render_yaml(v, slots, indent + 2, out); break;
        }
    }
}

struct FlagSet {
    std::vector<std::pair<std::string, std::string>> items;
};
FlagSet parse_flags(const std::string& text) {
    FlagSet f;
    if (text == "-") return f;
    for (const auto& item : verif::split(text, ',')) {
        const auto eq = item.find('=');
        if (eq == std::string::npos) continue;
        f.items.emplace_back(item.substr(0, eq), item.substr(eq + 1));
    }
    return f;
}

struct Effective {
    std::string ttl{"-"}, min{"-"}, max{"-"}, cport{"-"}, tport{"-"}, tok{"-"}, pow{"-"}, dir{"-"}, pers{"-"};
    std::string line() const {
        return "ttl=" + ttl + " min=" + min + " max=" + max + " cport=" + cport + " tport=" + tport + " tok=" + tok + " pow=" + pow +
               " dir=" + dir + " pers=" + pers;
    }
};

std::string classify(const std::string& code, const std::string& message) {
    std::string kind = "-";
    if (code == "E_CONFIG_PROFILE") {
        if (message.find("Profile not found") != std::string::npos) kind = "notfound";
        else if (message.find("cycle") != std::string::npos) kind = "cycle";
        else if (message.find("'extends' must be") != std::string::npos) kind = "extends";
        else kind = "other";
    }
    return "err:" + code + ":" + kind;
}

std::string op_cfg(const std::vector<std::string>& t, bool e2e) {
    if (t.size() != 6) return "bad-op";
    const bool yaml = t[1] == "yaml";
    const std::string& profile = t[2];
    const std::string& env = t[3];
    const FlagSet flags = parse_flags(t[4]);
    TreeParser parser{t[5]};
    const Tree doc = parser.value();
    if (!parser.ok || doc.kind != Tree::Obj || parser.pos != t[5].size()) return "bad-op";

    const fs::path dir = fs::path(g_scratch) / ("c" + std::to_string(++g_counter));
    fs::create_directories(dir);
    const fs::path file = dir / (yaml ? "eph.yaml" : "eph.json");
    std::string text;

    ServerProc server;
    std::string dump_file;
    if (e2e) {
        std::vector<Endpoint> eps(4);
        for (int k = 0; k < 4; ++k) {
            eps[k].listener = make_listener();
            g_slot_ports[k] = eps[k].listener.port;
        }
        dump_file = (dir / "daemon-argv").string();
        server = spawn_server(eps, nullptr, dump_file);
        ::close(server.log_read);
        server.log_read = -1;
    }
    if (yaml) render_yaml(doc, e2e, 0, text); else render_json(doc, e2e, text);
    write_file(file, text);

    std::string result;
    if (!e2e) {
        GlobalOptions opts{};
        opts.config_path = file.string();
        if (profile != "-") opts.profile_name = profile;
        if (env != "-") opts.environment = env;
        for (const auto& [k, v] : flags.items) {
            if (k == "ttl") opts.default_ttl_seconds = std::stoull(v);
            else if (k == "min") opts.min_ttl_seconds = std::stoull(v);
            else if (k == "max") opts.max_ttl_seconds = std::stoull(v);
            else if (k == "cport") opts.control_port = static_cast<std::uint16_t>(std::stoul(v));
            else if (k == "tport") opts.transport_listen_port = static_cast<std::uint16_t>(std::stoul(v));
            else if (k == "tok") opts.control_token = v;
            else if (k == "pow") opts.announce_pow_difficulty = std::stoull(v);
            else if (k == "dir") opts.storage_dir = map_string(v);
            else if (k == "pers") { opts.persistent = v == "t"; opts.persistent_set = true; }
        }
        try {
            load_configuration(opts);
            Effective e;
            if (opts.default_ttl_seconds) e.ttl = std::to_string(*opts.default_ttl_seconds);
            if (opts.min_ttl_seconds) e.min = std::to_string(*opts.min_ttl_seconds);
            if (opts.max_ttl_seconds) e.max = std::to_string(*opts.max_ttl_seconds);
            if (opts.control_port) e.cport = std::to_string(*opts.control_port);
            if (opts.transport_listen_port) e.tport = std::to_string(*opts.transport_listen_port);
            if (opts.control_token) e.tok = opts.control_token->empty() ? "\"\"" : *opts.control_token;
            if (opts.announce_pow_difficulty) e.pow = std::to_string(*opts.announce_pow_difficulty);
            if (opts.storage_dir) e.dir = opts.storage_dir->empty() ? "\"\"" : unmap_string(*opts.storage_dir);
            if (opts.persistent_set) e.pers = opts.persistent ? "t" : "f";
            result = e.line();
        } catch (const config::ConfigError& ex) {
            result = classify(ex.code, ex.message);
        }
    } else {
        std::vector<std::string> args{"--config", file.string()};
        if (profile != "-") { args.push_back("--profile"); args.push_back(profile); }
        if (env != "-") { args.push_back("--env"); args.push_back(env); }
        for (const auto& [k, v] : flags.items) {
            if (k == "ttl") { args.push_back("--default-ttl"); args.push_back(v); }
            else if (k == "min") { args.push_back("--min-ttl"); args.push_back(v); }
            else if (k == "max") { args.push_back("--max-ttl"); args.push_back(v); }
            else if (k == "cport") { args.push_back("--control-port"); args.push_back(std::to_string(map_int(std::stoll(v), true))); }
            else if (k == "tport") { args.push_back("--transport-port"); args.push_back(v); }
            else if (k == "tok") { args.push_back("--control-token"); args.push_back(v); }
            else if (k == "pow") { args.push_back("--announce-pow"); args.push_back(v); }
            else if (k == "dir") { args.push_back("--storage-dir"); args.push_back(map_string(v)); }
            else if (k == "pers") { args.push_back(v == "t" ? "--persistent" : "--no-persistent"); }
        }
        args.push_back("start");
        ::setenv("VERIF_CLI_DUMP", dump_file.c_str(), 1);
        CliResult r;
        std::string thrown;
        try {
            r = run_cli(args);
        } catch (const std::exception& ex) {
            thrown = verif::exception_name(ex);
        }
        ::unsetenv("VERIF_CLI_DUMP");
        // On a loaded machine the re-executed (sanitizer-instrumented) binary can take longer to come up than the
        // CLI's five-second wait: the launch itself succeeded, so wait for the detached process to write its dump.
        if (thrown.empty() && !fs::exists(dump_file) && r.err.find('[') == std::string::npos &&
            r.out.find("already running") == std::string::npos) {
            for (int spin = 0; spin < 3000 && !fs::exists(dump_file); ++spin) ::usleep(10000);
        }
        server.stop();
        if (!thrown.empty()) result = thrown;
        else if (r.code != 0 && !fs::exists(dump_file)) {
            // "[E_CODE] message"
            const auto lb = r.err.find('['), rb = r.err.find(']');
            if (lb != std::string::npos && rb != std::string::npos && rb > lb) {
                const auto eol = r.err.find('\n', rb);
                result = classify(r.err.substr(lb + 1, rb - lb - 1), r.err.substr(rb + 1, eol == std::string::npos ? std::string::npos : eol - rb - 1));
            } else {
                result = "err:exit" + std::to_string(r.code) + ":other";
            }
        } else if (!fs::exists(dump_file)) {
            result = "err:nodump:exit" + std::to_string(r.code);
        } else {
            const auto lines = verif::split(read_file(dump_file), '\n');
            Effective e;
            for (std::size_t i = 0; i < lines.size(); ++i) {
                const auto& a = lines[i];
                const std::string next = i + 1 < lines.size() ? lines[i + 1] : std::string{};
                if (a == "--default-ttl") e.ttl = next;
                else if (a == "--min-ttl") e.min = next;
                else if (a == "--max-ttl") e.max = next;
                else if (a == "--control-port") e.cport = std::to_string(unmap_int(std::stoll(next), true));
                else if (a == "--transport-port") e.tport = next;
                else if (a == "--control-token") e.tok = next;
                else if (a == "--announce-pow") e.pow = next;
                else if (a == "--storage-dir") e.dir = unmap_string(next);
                else if (a == "--persistent") e.pers = "t";
                else if (a == "--no-persistent") e.pers = "f";
            }
            result = e.line();
        }
    }
    std::error_code ec;
    fs::remove_all(dir, ec);
    return result;
}

void cleanup() {
    g_honest.stop();
    if (g_warm.pid > 0) { ::kill(g_warm.pid, SIGKILL); int st = 0; ::waitpid(g_warm.pid, &st, 0); }
    g_node.reset();
    if (!g_scratch.empty()) {
        std::error_code ec;
        fs::remove_all(g_scratch, ec);
    }
}

}  // namespace hz

int main(int argc, char** argv) {
    // Re-executed by the CLI's `start` command as the "daemon": dump the argument vector and leave.
    if (const char* dump = std::getenv("VERIF_CLI_DUMP"); dump && argc >= 2 && std::string(argv[argc - 1]) == "serve") {
        std::string text;
        for (int i = 1; i < argc; ++i) { text += argv[i]; text += "\n"; }
        const std::string tmp = std::string(dump) + ".tmp";
        hz::write_file(tmp, text);
        ::rename(tmp.c_str(), dump);
        return 0;
    }
    ::signal(SIGPIPE, SIG_IGN);
    {
        std::error_code ec;
        hz::g_self_exe = fs::read_symlink("/proc/self/exe", ec).string();
        std::string tmpl = (fs::current_path() / "cli-scratch-XXXXXX").string();
        if (!::mkdtemp(tmpl.data())) { std::perror("mkdtemp"); return 2; }
        hz::g_scratch = tmpl;
    }
    verif::Handler h;
    h.reset = [] {};
    h.op = [](const std::vector<std::string>& t, const std::string&) -> std::string {
        if (t[0] == "fetch") return hz::op_fetch(t);
        if (t[0] == "name") return hz::op_name(t);
        if (t[0] == "nm") return hz::op_nm(t);
        if (t[0] == "join") return hz::op_join(t);
        if (t[0] == "cfg") return hz::op_cfg(t, false);
        if (t[0] == "cfgx") return hz::op_cfg(t, true);
        return "bad-op";
    };
    const int rc = verif::run_lines(argc, argv, h);
    hz::cleanup();
    return rc;
}
