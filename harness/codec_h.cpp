// Harness for the wire codec of protocol::Message (C13, C15, C16): the real encode / decode /
// encode_signed / decode_signed, in-process, under ASan+UBSan.
//
// A structured message is written   <version> <type-byte> <kind> <fields...>   with
//   ann <chunk> <peer> <endpoint-hex> <ttl> <manifest-hex> <shards-hex> <nonce>
//   req <chunk> <peer>
//   chk <chunk> <data-hex> <ttl>
//   ack <chunk> <peer> <accepted 0|1>
//   hs  <public u32> <nonce u64> <requested-version u8>
//   hsa <accepted 0|1> <negotiated-version u8> <responder-public u32>
// (ids: 64 hex digits or a symbolic token, see lineproto.hpp; "-" = empty byte string; ttl is a
//  signed 64-bit count of seconds). The type byte is independent of the payload kind, as in the
// C++ struct.
//
// Ops (one output line each):
//   enc  <msg>            -> hex of encode(msg)
//   rt   <msg>            -> dump of decode(encode(msg))            | reject
//   encs <key-hex> <msg>  -> hex of encode_signed(msg, key)
//   rts  <key-hex> <msg>  -> dump of decode_signed(encode_signed(msg,key),key) | reject
//   svs  <key-hex> <msg>  -> `same` if decode_signed(encode_signed(msg,key),key) and decode(encode(msg)) print alike,
//                            else `differ:<signed result>|<plain result>` (spaces as '_')
//   dec  <hex>            -> dump of decode(bytes)                  | reject
//   reenc <hex>           -> hex of encode(decode(bytes))           | reject
//   decs <key-hex> <hex>  -> dump of decode_signed(bytes, key)      | reject
// A dump is `ok <msg>` in the input syntax with ids as 64 hex digits.
// Input buffers are copied into exactly-sized heap blocks so that any read past the end hits an
// ASan redzone.
#include "common/lineproto.hpp"
#include "ephemeralnet/protocol/Message.hpp"

#include <cstring>
#include <memory>
#include <span>

using namespace ephemeralnet;
using namespace ephemeralnet::protocol;

namespace {

struct Exact {
    std::unique_ptr<std::uint8_t[]> p;
    std::size_t n{0};
    explicit Exact(const std::vector<std::uint8_t>& v) : p(new std::uint8_t[v.size()]), n(v.size()) {
        if (n) std::memcpy(p.get(), v.data(), n);
    }
    std::span<const std::uint8_t> span() const { return {p.get(), n}; }
};

std::string bytes_of(const std::string& s) { return verif::hex_or_dash(verif::to_hex(s)); }
std::string bytes_of(const std::vector<std::uint8_t>& s) { return verif::hex_or_dash(verif::to_hex(s)); }
std::string str_from_hex(const std::string& h) { auto b = verif::from_hex(h); return std::string(b.begin(), b.end()); }

bool valid_hex(const std::string& h) {
    if (h == "-") return true;
    if (h.size() % 2) return false;
    for (char c : h) if (verif::hexval(c) < 0) return false;
    return true;
}

// parse <version> <type> <kind> <fields...> starting at t[i]
bool parse_msg(const std::vector<std::string>& t, std::size_t i, Message& m) {
    if (t.size() < i + 3) return false;
    m.version = static_cast<std::uint8_t>(std::stoul(t[i]));
    m.type = static_cast<MessageType>(static_cast<std::uint8_t>(std::stoul(t[i + 1])));
    const std::string& k = t[i + 2];
    const std::size_t f = i + 3;
    const std::size_t nf = t.size() - f;
    if (k == "ann" && nf == 7) {
        AnnouncePayload p{};
        p.chunk_id = verif::id32(t[f]);
        p.peer_id = verif::id32(t[f + 1]);
        p.endpoint = str_from_hex(t[f + 2]);
        p.ttl = std::chrono::seconds(std::stoll(t[f + 3]));
        p.manifest_uri = str_from_hex(t[f + 4]);
        p.assigned_shards = verif::from_hex(t[f + 5]);
        p.work_nonce = std::stoull(t[f + 6]);
        m.payload = std::move(p);
        return true;
    }
    if (k == "req" && nf == 2) {
        RequestPayload p{};
        p.chunk_id = verif::id32(t[f]);
        p.requester = verif::id32(t[f + 1]);
        m.payload = p;
        return true;
    }
    if (k == "chk" && nf == 3) {
        ChunkPayload p{};
        p.chunk_id = verif::id32(t[f]);
        p.data = verif::from_hex(t[f + 1]);
        p.ttl = std::chrono::seconds(std::stoll(t[f + 2]));
        m.payload = std::move(p);
        return true;
    }
    if (k == "ack" && nf == 3) {
        AcknowledgePayload p{};
        p.chunk_id = verif::id32(t[f]);
        p.peer_id = verif::id32(t[f + 1]);
        p.accepted = t[f + 2] != "0";
        m.payload = p;
        return true;
    }
    if (k == "hs" && nf == 3) {
        TransportHandshakePayload p{};
        p.public_identity = static_cast<std::uint32_t>(std::stoull(t[f]));
        p.work_nonce = std::stoull(t[f + 1]);
        p.requested_version = static_cast<std::uint8_t>(std::stoul(t[f + 2]));
        m.payload = p;
        return true;
    }
    if (k == "hsa" && nf == 3) {
        HandshakeAckPayload p{};
        p.accepted = t[f] != "0";
        p.negotiated_version = static_cast<std::uint8_t>(std::stoul(t[f + 1]));
        p.responder_public = static_cast<std::uint32_t>(std::stoull(t[f + 2]));
        m.payload = p;
        return true;
    }
    return false;
}

std::string dump(const Message& m) {
    std::string out = "ok " + std::to_string(m.version) + " " + std::to_string(static_cast<unsigned>(m.type)) + " ";
    std::visit(
        [&](const auto& p) {
            using T = std::decay_t<decltype(p)>;
            if constexpr (std::is_same_v<T, AnnouncePayload>) {
                out += "ann " + verif::to_hex(p.chunk_id) + " " + verif::to_hex(p.peer_id) + " " + bytes_of(p.endpoint) + " " +
                       std::to_string(p.ttl.count()) + " " + bytes_of(p.manifest_uri) + " " + bytes_of(p.assigned_shards) + " " +
                       std::to_string(p.work_nonce);
            } else if constexpr (std::is_same_v<T, RequestPayload>) {
                out += "req " + verif::to_hex(p.chunk_id) + " " + verif::to_hex(p.requester);
            } else if constexpr (std::is_same_v<T, ChunkPayload>) {
                out += "chk " + verif::to_hex(p.chunk_id) + " " + bytes_of(p.data) + " " + std::to_string(p.ttl.count());
            } else if constexpr (std::is_same_v<T, AcknowledgePayload>) {
                out += "ack " + verif::to_hex(p.chunk_id) + " " + verif::to_hex(p.peer_id) + " " + (p.accepted ? "1" : "0");
            } else if constexpr (std::is_same_v<T, TransportHandshakePayload>) {
                out += "hs " + std::to_string(p.public_identity) + " " + std::to_string(p.work_nonce) + " " +
                       std::to_string(static_cast<unsigned>(p.requested_version));
            } else if constexpr (std::is_same_v<T, HandshakeAckPayload>) {
                out += std::string("hsa ") + (p.accepted ? "1" : "0") + " " +
                       std::to_string(static_cast<unsigned>(p.negotiated_version)) + " " + std::to_string(p.responder_public);
            }
        },
        m.payload);
    return out;
}

std::string dump_opt(const std::optional<Message>& m) { return m.has_value() ? dump(*m) : std::string("reject"); }

}  // namespace

int main(int argc, char** argv) {
    verif::Handler h;
    h.reset = [] {};
    h.op = [](const std::vector<std::string>& t, const std::string&) -> std::string {
        const std::string& op = t[0];
        if (op == "enc" || op == "rt") {
            Message m{};
            if (!parse_msg(t, 1, m)) return "bad-op";
            const auto bytes = encode(m);
            if (op == "enc") return verif::hex_or_dash(verif::to_hex(bytes));
            Exact buf(bytes);
            return dump_opt(decode(buf.span()));
        }
        if (op == "encs" || op == "rts") {
            if (t.size() < 2 || !valid_hex(t[1])) return "bad-op";
            Message m{};
            if (!parse_msg(t, 2, m)) return "bad-op";
            Exact key(verif::from_hex(t[1]));
            const auto bytes = encode_signed(m, key.span());
            if (op == "encs") return verif::hex_or_dash(verif::to_hex(bytes));
            Exact buf(bytes);
            return dump_opt(decode_signed(buf.span(), key.span()));
        }
        if (op == "svs") {
            if (t.size() < 2 || !valid_hex(t[1])) return "bad-op";
            Message m{};
            if (!parse_msg(t, 2, m)) return "bad-op";
            Exact key(verif::from_hex(t[1]));
            Exact sbuf(encode_signed(m, key.span()));
            Exact pbuf(encode(m));
            const std::string a = dump_opt(decode_signed(sbuf.span(), key.span()));
            const std::string b = dump_opt(decode(pbuf.span()));
            if (a == b) return "same";
            std::string out = "differ:" + a + "|" + b;
            for (auto& c : out) if (c == ' ') c = '_';
            return out;
        }
        if ((op == "dec" || op == "reenc") && t.size() == 2 && valid_hex(t[1])) {
            Exact buf(verif::from_hex(t[1]));
            const auto m = decode(buf.span());
            if (op == "dec") return dump_opt(m);
            if (!m.has_value()) return "reject";
            return verif::hex_or_dash(verif::to_hex(encode(*m)));
        }
        if (op == "decs" && t.size() == 3 && valid_hex(t[1]) && valid_hex(t[2])) {
            Exact key(verif::from_hex(t[1]));
            Exact buf(verif::from_hex(t[2]));
            return dump_opt(decode_signed(buf.span(), key.span()));
        }
        return "bad-op";
    };
    return verif::run_lines(argc, argv, h);
}
