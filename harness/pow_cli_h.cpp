// Second translation unit of the C19 harness: the CLI (src/main.cpp) with its `main` renamed,
// so that the anonymous-namespace PoW helpers of the CLI and the `store` command itself can be
// driven in-process.
#define main eph_cli_main
#include "src/main.cpp"
#undef main

#include "pow_cli_h.hpp"

#include <sstream>

#ifndef VERIF_INTERNALS
#define VERIF_INTERNALS 1
#endif

namespace powcli {

#if VERIF_INTERNALS
// anonymous-namespace helpers of main.cpp, reached by name
std::size_t clz(std::span<const std::uint8_t> digest) { return count_leading_zero_bits(digest); }

std::array<std::uint8_t, 32> digest(const ephemeralnet::PeerId& a, const ephemeralnet::PeerId& b, std::uint32_t pub, std::uint64_t nonce) {
    return transport_handshake_digest(a, b, pub, nonce);
}
bool valid(const ephemeralnet::PeerId& a, const ephemeralnet::PeerId& b, std::uint32_t pub, std::uint64_t nonce, std::uint8_t d) {
    return transport_pow_valid(a, b, pub, nonce, d);
}
std::optional<std::uint64_t> solve(const ephemeralnet::PeerId& a, const ephemeralnet::PeerId& b, std::uint32_t pub, std::uint8_t d) {
    return compute_transport_pow(a, b, pub, d);
}
std::uint64_t max_attempts() { return kTransportPowMaxAttempts; }
#endif

int run(const std::vector<std::string>& args, std::string& out, std::string& err) {
    std::vector<char*> argv;
    std::vector<std::string> copy = args;
    for (auto& a : copy) argv.push_back(a.data());
    argv.push_back(nullptr);
    std::ostringstream o, e;
    auto* ob = std::cout.rdbuf(o.rdbuf());
    auto* eb = std::cerr.rdbuf(e.rdbuf());
    int rc = 0;
    try {
        rc = eph_cli_main(static_cast<int>(copy.size()), argv.data());
    } catch (...) {
        rc = 99;
    }
    std::cout.rdbuf(ob);
    std::cerr.rdbuf(eb);
    out = o.str();
    err = e.str();
    return rc;
}

}  // namespace powcli
